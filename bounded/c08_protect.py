"""C08 bounded drivers: write protection (sealed / as_sealed / accessor_writable).

Oracle (from the property statement and the docstrings of
`pg.as_sealed` / `pg.allow_writable_accessors` in symbolic/flags.py):

* effective sealed state S of a node  = innermost `pg.as_sealed(v)` scope value
  if that is not None, else the per-object flag (seal() is deep, so every node
  below a sealed node is sealed);
* effective accessor-writability W     = innermost
  `pg.allow_writable_accessors(v)` value if not None, else the per-object flag;
* an operation "would change" the tree iff, applied to an identical fresh tree
  under a fully permissive scope (`as_sealed(False)`,
  `allow_writable_accessors(True)`), it returns normally and `pg.to_json(root)`
  differs afterwards;
* S and would-change            -> must raise pg.WritePermissionError, tree
                                   (json, node identities, flags) unchanged;
* S and not would-change        -> tree unchanged (raising is optional);
* not S, not W, accessor op     -> like S (refused);
* not S, not W, rebind          -> must behave exactly like the reference;
* not S, not W, other mutator   -> either refused (WPE + unchanged) or like
                                   the reference (the statement only speaks of
                                   accessors and rebind);
* not S and W                   -> must behave exactly like the reference
                                   (over-restriction is a failure, too:
                                   "unsealing restores full mutability",
                                   "scoped overrides take precedence").

Coverage axes (drivers 5 and 6 add the last four):
* node kind: pg.Dict / pg.List / pg.Object (with and without value spec),
  the sym_init_args dict of objects;
* symbolic class kind: functor, subclassed functor, class wrapper,
  contextual object, object with dynamic (StrKey) fields, object with change
  hooks, compound -- every attribute accessor (set / del / MISSING_VALUE /
  dynamic field / call-time override) and every rebind form on each;
* in-place module-level helpers (pg.patch, pg.patch_on_*, pg.symbolic.deref);
  for these "touches the sealed part" is decided by diffing the reference run;
* operations inside the other scoped flags (notify_on_change,
  enable_type_check, allow_partial, track_origin), which must neither lift
  nor add protection;
* every sealing API (seal, sym_seal) at every node of every tree.
The source of an accessor restriction (per-object flag vs. scope) is part of
the case id (`|accessor-off[flag]` / `|accessor-off[scope]`).

Persistence of protection (only seal(False) / set_accessor_writable(True) /
the scopes lift a protection, so a protected value stays protected whatever
permitted operation ran in between):
* every operation of every driver that modified the tree must leave the
  protection flags of all surviving nodes (same identity) as they were
  (`<op>|changes-<flag>-of-surviving-node`);
* driver 7: order of operations -- a permitted operation (rebind / method /
  operator / helper while only accessors are off, anything inside
  as_sealed(False), read-only APIs) and then every accessor form / mutator on
  the nodes whose protection is known from the driver's own bookkeeping
  (constructor keywords accessor_writable=False / sealed=True, typed and
  schema-less containers, set_accessor_writable, seal), never read back
  from the flag (`after[<op>]@<where>/<probe class>|<mode>`);
* driver 8: a protected value that becomes a member of a new parent
  (`compose/<constructor or mutator family>|...-member-stays-protected`).

Protection requested at creation time (driver 9): constructor keywords
sealed= / accessor_writable=, the class attributes allow_symbolic_mutation /
allow_symbolic_assignment, a flag API right after creation, creation inside a
scope -- over the boundary shapes of every container kind (no members in
every spelling of the arguments, members from defaults only, one member,
members that are empty containers, field-less objects / functors) and with
each of the other constructor keywords
(`ctor[<shape class>]{<protection mode>}/<probe class>|<mode>`).

Values the library produces from a protected value (driver 10): clone / deep
clone / copy.copy / copy.deepcopy / pg.clone / Dict.copy, the implicit copy for
a second parent, values rebuilt from JSON / pickle / List.copy / list
operators, each made outside and inside every scope -- of Dict / List / Object
trees, every symbolic class kind, hyper values and pg.DNA with metadata at
three levels.  Below every sealed node of the copy every node (incl. the
members the copy routine re-attaches itself: DNA metadata, attribute dicts)
is sealed and refuses every mutator; the copy of a sealed value is sealed;
seal(False) on the copy restores full mutability
(`copy[<family>]/<source kind>@<node class>/<is_sealed | probe class>|<mode>`).
"""
import threading
import traceback

import pyglove as pg
from pyglove.core.symbolic import flags as pg_flags
from pyvc.bounded import Recorder, rng

WPE = pg.WritePermissionError

# --------------------------------------------------------------------------
# Trees.  Everything is kept as *source text* so that every failing case can be
# turned into a self-contained witness.
# --------------------------------------------------------------------------

PRE = {
    'plain': 'import pyglove as pg\n',
    'cls': """import pyglove as pg
A = pg.typing.Any
class C08A(pg.Object):
  allow_symbolic_assignment = True
  x: A(default=1); d: A(default=None); l: A(default=None); o: A(default=None)
class C08N(pg.Object):
  x: A(default=1); d: A(default=None); l: A(default=None)
""",
    'spec': """import pyglove as pg
T = pg.typing
C08SPEC = T.Dict([('n', T.Int(default=1)), ('l', T.List(T.Int(), default=[2, 1])),
  ('s', T.Dict([('u', T.Int(default=0)), (T.StrKey(), T.Any())])), (T.StrKey(), T.Any())])
""",
}

# Symbolic class kinds beyond plain pg.Object subclasses.  Every kind exposes
# the attributes x / d / l so that the same operation set applies; preambles
# are kept short (one per kind) because witnesses are size-limited.
_KIND_FIELDS = 'x: A(default=1); d: A(default=None); l: A(default=None)'
PRE.update({
    'k-functor': """import pyglove as pg
@pg.functor()
def c08fn(x=1, d=None, l=None):
  return x
""",
    'k-subfunctor': f"""import pyglove as pg
A = pg.typing.Any
class C08SubFn(pg.Functor):
  {_KIND_FIELDS}
  def _call(self):
    return self.x
""",
    'k-wrapper': """import pyglove as pg
class C08Plain:
  def __init__(self, x=1, d=None, l=None):
    self.x, self.d, self.l = x, d, l
C08Wrapped = pg.symbolize(C08Plain)
""",
    'k-contextual': f"""import pyglove as pg
A = pg.typing.Any
class C08Ctx(pg.ContextualObject):
  allow_symbolic_assignment = True
  {_KIND_FIELDS}
""",
    'k-kwargs': """import pyglove as pg
A = pg.typing.Any
@pg.members([('x', A(default=1)), ('d', A(default=None)),
             ('l', A(default=None)), (pg.typing.StrKey(), A())])
class C08Kw(pg.Object):
  allow_symbolic_assignment = True
""",
    'k-hooked': f"""import pyglove as pg
A = pg.typing.Any
class C08Hook(pg.Object):
  allow_symbolic_assignment = True
  {_KIND_FIELDS}
  def _on_bound(self):
    super()._on_bound()
    self.seen = getattr(self, 'seen', 0) + 1
  def _on_change(self, updates):
    super()._on_change(updates)
""",
    'k-compound': f"""import pyglove as pg
A = pg.typing.Any
class C08Base(pg.Object):
  {_KIND_FIELDS}
@pg.compound(C08Base)
def c08comp(x=1, d=None, l=None):
  return C08Base(x=x, d=d, l=l)
""",
})

# Helper shared by the trees of driver 7: protects `r` (accessor flag off at
# the paths `off` or everywhere, seal at the paths `seal`), then performs the
# legal operation `op` at path `at` inside `pg.as_sealed(sc)`.
PREP_SRC = """def c08_prep(r, off=(), seal=(), at='', op='pass', sc=None):
  for v in r.sym_descendants(lambda v: isinstance(v, pg.Symbolic), include_self=True):
    if off == '*' or str(v.sym_path) in off: v.set_accessor_writable(False)
  for p in seal: r.sym_get(p).seal()
  try:
    with pg.as_sealed(sc): exec(op, {'pg': pg, 'n': r.sym_get(at)})
  except Exception: pass
  return r
"""
for _k in list(PRE):
  PRE['p:' + _k] = PRE[_k] + PREP_SRC

_NS = {}
for _src in PRE.values():
  exec(compile(_src, '<c08-preamble>', 'exec'), _NS)  # pylint: disable=exec-used

TREES = {
    # name: (source, preamble key)
    'dict': ("pg.Dict(a=1, b=pg.Dict(x=1, y=pg.List([3, 1, pg.Dict(z=0)])), "
             "c=pg.List([3, 1, 2]))", 'plain'),
    'list': ("pg.List([pg.Dict(a=1, b=2), pg.List([2, 1, 3]), 5])", 'plain'),
    'obj': ("C08A(x=1, d=pg.Dict(p=1, q=C08N(x=2, l=pg.List([1, 2]))), "
            "l=pg.List([3, 1, 2]), o=C08N(x=3, d=pg.Dict(r=1)))", 'cls'),
    'spec': ("pg.Dict(n=3, l=[3, 1, 2], s=dict(u=1, w=2), extra=5, "
             "value_spec=C08SPEC)", 'spec'),
}

BASE_TREES = tuple(TREES)

_KIND_ARGS = 'x=2, d=pg.Dict(p=1), l=pg.List([3, 1])'
KINDS = {
    # tree name: (case-id label, constructor)
    'k-functor': ('functor', 'c08fn'),
    'k-subfunctor': ('subclassed-functor', 'C08SubFn'),
    'k-wrapper': ('class-wrapper', 'C08Wrapped'),
    'k-contextual': ('contextual-object', 'C08Ctx'),
    'k-kwargs': ('kwargs-object', 'C08Kw'),
    'k-hooked': ('object-with-change-hooks', 'C08Hook'),
    'k-compound': ('compound', 'c08comp'),
}
for _k, (_label, _ctor) in KINDS.items():
  _extra = ', zz=3' if _k == 'k-kwargs' else ''
  TREES[_k] = (f'pg.Dict(h={_ctor}({_KIND_ARGS}{_extra}), t=5)', _k)
KIND_TREES = tuple(KINDS)


def pre_of(tree):
  return PRE[TREES[tree][1]].strip()


_TREE_CODE = {k: compile(v[0], f'<tree {k}>', 'eval') for k, v in TREES.items()}


def build(tree):
  return eval(_TREE_CODE[tree], _NS)  # pylint: disable=eval-used


def kind_of(v):
  if isinstance(v, pg.List):
    return 'list'
  if isinstance(v, pg.Dict):
    return 'dict'
  if isinstance(v, pg.Object):
    return 'object'
  return None


def sym_nodes(root):
  """[(path_str, node)] of all symbolic nodes, root first (pre-order)."""
  out = []

  def walk(v):
    out.append((str(v.sym_path), v))
    for _, c in v.sym_items():
      if isinstance(c, pg.Symbolic):
        walk(c)
  walk(root)
  return out


# A node *address* is (path_str, via) with via in ('', 'attrs'): 'attrs' means
# the `sym_init_args` dict of the object at that path.
def node_expr(addr):
  path, via = addr
  e = 'root' if not path else f'root.sym_get({path!r})'
  return e + ('.sym_init_args' if via else '')


def resolve(root, addr):
  path, via = addr
  n = root if not path else root.sym_get(path)
  return n.sym_init_args if via else n


def addresses(root):
  """All addresses at which operations are attempted + their kind."""
  out = []
  for p, n in sym_nodes(root):
    out.append(((p, ''), kind_of(n)))
    if isinstance(n, pg.Object):
      out.append(((p, 'attrs'), 'dict'))
  return out


def is_within(path, anc):
  """True if node at `path` is `anc` or below it (paths as strings)."""
  if not anc:
    return True
  if path == anc:
    return True
  return path.startswith(anc + '.') or path.startswith(anc + '[')


def hits_sealed(prot, addr_path, target, name):
  """Does op `name` entered at addr_path (aimed at target) touch the region
  sealed at `prot`?  Rebinder functions visit the whole subtree."""
  if prot is None:
    return False
  if name.endswith('rebind/fn'):
    return is_within(prot, addr_path) or is_within(addr_path, prot)
  return is_within(target, prot)


def _walk_state(root):
  """(json, flat state, [nodes]) in one walk; the node list keeps every node
  (and every object's attribute dict) alive so that ids stay unique."""
  flat = []
  nodes = []

  def walk(v):
    nodes.append(v)
    flat.append((tuple(v.sym_path.keys), id(v), v.is_sealed,
                 v.accessor_writable))
    if isinstance(v, pg.Object):
      a = v.sym_init_args
      nodes.append(a)
      flat.append((tuple(v.sym_path.keys) + ('<attrs>',), id(a), a.is_sealed,
                   a.accessor_writable))
    if isinstance(v, pg.Functor):
      # Bound-argument bookkeeping is part of the value's state.
      flat.append((sorted(v.specified_args), sorted(v.non_default_args),
                   sorted(v.default_args)))
    if isinstance(v, pg.DNA):
      # The (compact) JSON form of a DNA leaves out the metadata of its child
      # DNAs: every DNA node contributes its own value and metadata.
      flat.append((repr(v.value), pg.to_json(v.sym_getattr('metadata'))))
    for _, c in v.sym_items():
      if isinstance(c, pg.Symbolic):
        walk(c)
  walk(root)
  return (pg.to_json(root), tuple(flat)), nodes


def snapshot(root):
  return _walk_state(root)[0]


def flag_changes(before, after):
  """Surviving nodes (same identity) whose protection flags differ between two
  snapshots: [(path keys before, flag name, old, new)]."""
  now = {e[1]: e for e in after[1] if len(e) == 4}
  out = []
  for e in before[1]:
    if len(e) != 4 or e[1] not in now:
      continue
    f = now[e[1]]
    if f[2] != e[2]:
      out.append((e[0], 'is_sealed', e[2], f[2]))
    if f[3] != e[3]:
      out.append((e[0], 'accessor_writable', e[3], f[3]))
  return out


def flag_witness(tree, setup_lines, sealed_stack, acc_stack, addr, src, bad):
  """Witness for one flipped flag `bad` = (path keys before, flag, old, new) of
  a node that is still in the tree after the operation."""
  keys, flag = bad[0], bad[1]
  via = ''
  if keys and keys[-1] == '<attrs>':
    keys, via = keys[:-1], 'attrs'
  w = [pre_of(tree), f'root = {TREES[tree][0]}'] + list(setup_lines)
  w += [f'n = {node_expr(addr)}',
        f'm = {node_expr((str(pg.KeyPath(list(keys))), via))}',
        f'f0 = m.{flag}', 'try:']
  sc, ind = scope_src(sealed_stack, acc_stack, '  ')
  w += sc + [f'{ind}{src}', 'except Exception: pass',
             'assert any(x is m or getattr(x, "sym_init_args", 0) is m '
             'for x in root.sym_descendants(include_self=True))',
             f"assert m.{flag} == f0, '{flag} changed'"]
  return '\n'.join(w)


class Pool:
  """Hands out a tree prepared by `prepare`; rebuilt after it was touched."""

  def __init__(self, tree, prepare=None):
    self.tree, self.prepare, self.root = tree, prepare, None

  def get(self):
    if self.root is None:
      self.root = build(self.tree)
      if self.prepare:
        self.prepare(self.root)
    return self.root

  def done(self, pristine):
    if not pristine:
      self.root = None


# --------------------------------------------------------------------------
# Operations: (name, kind, source using `n`).  kind: acc | meth | inpl | rebind
# --------------------------------------------------------------------------

LAST = 'list(n.keys())[-1]'
LIST_OPS = [
    ('list.setitem/index', 'acc', 'n[0] = 99'),
    ('list.setitem/neg-index', 'acc', 'n[-1] = 98'),
    ('list.setitem/symbolic-value', 'acc', 'n[0] = pg.Dict(q=1)'),
    ('list.setitem/slice-grow', 'acc', 'n[0:1] = [7, 8]'),
    ('list.setitem/slice-shrink', 'acc', 'n[0:2] = []'),
    ('list.setitem/slice-step', 'acc', 'n[::2] = [7] * len(n[::2])'),
    ('list.delitem/index', 'acc', 'del n[0]'),
    ('list.delitem/neg-index', 'acc', 'del n[-1]'),
    ('list.delitem/slice', 'acc', 'del n[0:1]'),
    ('list.append', 'meth', 'n.append(5)'),
    ('list.append/symbolic-value', 'meth', 'n.append(pg.List([1]))'),
    ('list.insert/front', 'meth', 'n.insert(0, 5)'),
    ('list.insert/middle', 'meth', 'n.insert(1, 5)'),
    ('list.insert/beyond-end', 'meth', 'n.insert(99, 5)'),
    ('list.extend/list', 'meth', 'n.extend([5, 6])'),
    ('list.extend/pg-list', 'meth', 'n.extend(pg.List([5]))'),
    ('list.extend/empty', 'meth', 'n.extend([])'),
    ('list.pop/last', 'meth', 'n.pop()'),
    ('list.pop/index', 'meth', 'n.pop(0)'),
    ('list.remove', 'meth', 'n.remove(n[0])'),
    ('list.clear', 'meth', 'n.clear()'),
    ('list.sort', 'meth', 'n.sort(key=repr)'),
    ('list.sort/reverse', 'meth', 'n.sort(key=repr, reverse=True)'),
    ('list.reverse', 'meth', 'n.reverse()'),
    ('list.iadd', 'inpl', 'n += [5]'),
    ('list.iadd/empty', 'inpl', 'n += []'),
    ('list.imul/2', 'inpl', 'n *= 2'),
    ('list.imul/0', 'inpl', 'n *= 0'),
    ('list.rebind/index', 'rebind', 'n.rebind({0: 99})'),
    ('list.rebind/append', 'rebind', 'n.rebind({99: 5})'),
    ('list.rebind/delete', 'rebind', 'n.rebind({0: pg.MISSING_VALUE})'),
    ('list.rebind/insertion', 'rebind', 'n.rebind({0: pg.Insertion(5)})'),
    ('list.rebind/fn', 'rebind',
     'n.rebind(lambda k, v: 77 if isinstance(v, int) else v)'),
    ('list.sym_rebind', 'rebind', 'n.sym_rebind({0: 99})'),
    ('list.rebind/skip-notification', 'rebind',
     'n.rebind({0: 99}, skip_notification=True)'),
    ('list.rebind/no-notify-parents', 'rebind',
     'n.rebind({0: 99}, notify_parents=False)'),
    ('list.setitem/missing-value', 'acc', 'n[0] = pg.MISSING_VALUE'),
    ('list.rebind/raise_on_no_change=False', 'rebind',
     'n.rebind({0: 99}, raise_on_no_change=False)'),
]
DICT_OPS = [
    ('dict.setitem/existing', 'acc', f'n[{LAST}] = 99'),
    ('dict.setitem/new', 'acc', "n['zz'] = 99"),
    ('dict.setitem/symbolic-value', 'acc', "n['zz'] = pg.Dict(q=1)"),
    ('dict.setattr/existing', 'acc', f'setattr(n, {LAST}, 99)'),
    ('dict.setattr/new', 'acc', 'n.zz = 99'),
    ('dict.delitem', 'acc', f'del n[{LAST}]'),
    ('dict.delattr', 'acc', f'delattr(n, {LAST})'),
    ('dict.pop', 'meth', f'n.pop({LAST})'),
    ('dict.pop/absent-with-default', 'meth', "n.pop('nope', None)"),
    ('dict.popitem', 'meth', 'n.popitem()'),
    ('dict.clear', 'meth', 'n.clear()'),
    ('dict.setdefault/new', 'meth', "n.setdefault('zz', 5)"),
    ('dict.setdefault/existing', 'meth', f'n.setdefault({LAST}, 5)'),
    ('dict.update/dict', 'meth', f'n.update({{{LAST}: 99}})'),
    ('dict.update/kwargs', 'meth', 'n.update(zz=99)'),
    ('dict.update/pairs', 'meth', "n.update([('zz', 99)])"),
    ('dict.update/empty', 'meth', 'n.update({})'),
    ('dict.ior', 'inpl', "n |= {'zz': 99}"),
    ('dict.ior/existing', 'inpl', f'n |= {{{LAST}: 99}}'),
    ('dict.rebind/dict', 'rebind', f'n.rebind({{{LAST}: 99}})'),
    ('dict.rebind/kwargs', 'rebind', 'n.rebind(zz=99)'),
    ('dict.rebind/delete', 'rebind',
     f'n.rebind({{{LAST}: pg.MISSING_VALUE}})'),
    ('dict.rebind/fn', 'rebind',
     'n.rebind(lambda k, v: 77 if isinstance(v, int) else v)'),
    ('dict.sym_rebind', 'rebind', f'n.sym_rebind({{{LAST}: 99}})'),
    ('dict.rebind/skip-notification', 'rebind',
     f'n.rebind({{{LAST}: 99}}, skip_notification=True)'),
    ('dict.rebind/no-notify-parents', 'rebind',
     f'n.rebind({{{LAST}: 99}}, notify_parents=False)'),
    ('dict.setitem/missing-value', 'acc', f'n[{LAST}] = pg.MISSING_VALUE'),
    ('dict.setattr/missing-value', 'acc',
     f'setattr(n, {LAST}, pg.MISSING_VALUE)'),
    ('dict.rebind/raise_on_no_change=False', 'rebind',
     f'n.rebind({{{LAST}: 99}}, raise_on_no_change=False)'),
    ('dict.use_value_spec/adds-default', 'meth',
     "n.use_value_spec(pg.typing.Dict([('zd', pg.typing.Int(default=7)), "
     "(pg.typing.StrKey(), pg.typing.Any())]))"),
]
OBJ_OPS = [
    ('object.setattr', 'acc', 'n.x = 99'),
    ('object.setattr/symbolic-value', 'acc', 'n.x = pg.Dict(q=1)'),
    ('object.setattr/builtin', 'acc', "setattr(n, 'l', 99)"),
    ('object.delattr', 'acc', 'del n.x'),
    ('object.rebind/kwargs', 'rebind', 'n.rebind(x=99)'),
    ('object.rebind/dict', 'rebind', "n.rebind({'x': 99})"),
    ('object.rebind/reset-default', 'rebind',
     'n.rebind(x=pg.MISSING_VALUE)'),
    ('object.rebind/fn', 'rebind',
     'n.rebind(lambda k, v: 77 if isinstance(v, int) else v)'),
    ('object.sym_rebind', 'rebind', "n.sym_rebind({'x': 99})"),
    ('object.rebind/skip-notification', 'rebind',
     'n.rebind(x=99, skip_notification=True)'),
    ('object.rebind/no-notify-parents', 'rebind',
     'n.rebind(x=99, notify_parents=False)'),
    # `del obj.attr` exists for functors (discard a bound argument); for the
    # other kinds the reference decides whether it is a mutation at all.
    ('object.delattr', 'acc', 'del n.d'),
    ('object.delattr', 'acc', "delattr(n, 'l')"),
    ('object.delattr/dynamic-field', 'acc', 'del n.zz'),
    ('object.setattr/missing-value', 'acc', 'n.x = pg.MISSING_VALUE'),
    ('object.setattr/dynamic-field', 'acc', 'n.zz = 99'),
    ('object.call/override-args', 'meth', 'n(x=5, override_args=True)'),
    ('object.rebind/raise_on_no_change=False', 'rebind',
     "n.rebind({'x': 99}, raise_on_no_change=False)"),
]
# Module-level helpers that modify their argument in place (through rebind);
# they visit the whole subtree below `n`.  Applicable at every node kind.
_INT77 = 'lambda v: 77 if isinstance(v, int) else v'
ANY_OPS = [
    ('pg.patch/dict-rule', 'rebind', 'pg.patch(n, {KEY: 99})'),
    ('pg.patch/fn-rule', 'rebind',
     'pg.patch(n, lambda k, v, p: 77 if isinstance(v, int) else v)'),
    ('pg.patch_on_key', 'rebind',
     f"pg.patch_on_key(n, '.*', value_fn={_INT77})"),
    ('pg.patch_on_path', 'rebind',
     f"pg.patch_on_path(n, '.+', value_fn={_INT77})"),
    ('pg.patch_on_value', 'rebind', 'pg.patch_on_value(n, 1, 77)'),
    ('pg.patch_on_type', 'rebind',
     'pg.patch_on_type(n, int, value_fn=lambda v: v + 100)'),
    ('pg.patch_on_member', 'rebind',
     "pg.patch_on_member(n, pg.Object, 'x', 77)"),
]
# Other scoped flags must not lift (or add) any protection.
OTHER_SCOPES = [
    ('notify_on_change(False)', 'pg.notify_on_change(False)'),
    ('enable_type_check(False)', 'pg.enable_type_check(False)'),
    ('allow_partial(True)', 'pg.allow_partial(True)'),
    ('track_origin(True)', 'pg.track_origin(True)'),
]
WRAPPED_BASE = {
    'list': ('list.setitem/index', 'list.delitem/index', 'list.append',
             'list.rebind/index'),
    'dict': ('dict.setitem/new', 'dict.delitem', 'dict.update/kwargs',
             'dict.rebind/kwargs'),
    'object': ('object.setattr', 'object.delattr',
               'object.setattr/missing-value', 'object.rebind/kwargs'),
}
OPS = {'list': LIST_OPS, 'dict': DICT_OPS, 'object': OBJ_OPS}
_OP_CODE = {}
for _ops in OPS.values():
  for _name, _kind, _src in _ops:
    _OP_CODE[_src] = compile(_src, f'<op {_name}>', 'exec')


def run_src(src, **ns):
  code = _OP_CODE.get(src)
  if code is None:
    code = _OP_CODE[src] = compile(src, '<op>', 'exec')
  env = {'pg': pg}
  env.update(ns)
  exec(code, env)  # pylint: disable=exec-used


def child_key_src(node):
  """Source of a key of `node` whose value can be replaced by 99."""
  k = kind_of(node)
  if k == 'list':
    return 0 if len(node) else None
  if k == 'object':
    return 'x'
  keys = list(node.keys())
  return keys[-1] if keys else None


def ancestor_rebind_ops(root):
  """[(name, anc_addr, src, target_path)]: rebind through a proper ancestor."""
  out = []
  nodes = sym_nodes(root)
  for p, m in nodes:
    key = child_key_src(m)
    if key is None or not p:
      continue
    full = pg.KeyPath.parse(p) + key
    for ap, a in nodes:
      if ap != p and is_within(p, ap):
        rel = str(full - a.sym_path)
        out.append((f'rebind-ancestor/{kind_of(a)}->{kind_of(m)}', (ap, ''),
                    f'n.rebind({{{rel!r}: 99}})', p))
        out.append((f'rebind-ancestor-fn/{kind_of(a)}->{kind_of(m)}',
                    (ap, ''),
                    f'n.rebind(lambda k, v: 99 if str(k) == {rel!r} else v)',
                    p))
  return out


# --------------------------------------------------------------------------
# Protection configs
# --------------------------------------------------------------------------

def scope_src(sealed_stack, acc_stack, indent=''):
  lines = []
  for fn, stack in (('pg.as_sealed', sealed_stack),
                    ('pg.allow_writable_accessors', acc_stack)):
    for v in stack:
      if isinstance(v, tuple):
        lines.append(f'{indent}with {fn}({v[1]!r}): pass')
        continue
      lines.append(f'{indent}with {fn}({v!r}):')
      indent += '  '
  return lines, indent


class Scopes:
  """Nested as_sealed / allow_writable_accessors scopes."""

  def __init__(self, sealed_stack=(), acc_stack=()):
    self.s, self.a = sealed_stack, acc_stack
    self.cms = []

  def __enter__(self):
    # An entry ('x', v) stands for a scope that is entered and left again
    # before the operation runs (the enclosing scope must be effective again).
    for fn, stack in ((pg.as_sealed, self.s),
                      (pg.allow_writable_accessors, self.a)):
      for v in stack:
        if isinstance(v, tuple):
          with fn(v[1]):
            pass
          continue
        cm = fn(v)
        cm.__enter__()
        self.cms.append(cm)

  def __exit__(self, *exc):
    while self.cms:
      self.cms.pop().__exit__(*exc)
    return False


def effective(stack, obj_flag):
  stack = [v for v in stack if not isinstance(v, tuple)]  # exited scopes
  return obj_flag if (not stack or stack[-1] is None) else stack[-1]


_REF = {}
# tree name -> source of the state expression of its witnesses (for trees whose
# JSON form is lossy).
_TREE_STATE = {}


def changed_owners(a, b, path=()):
  """Paths (key tuples) of the containers whose own keys differ between the
  JSON values a and b: the nodes an operation modified."""
  if type(a) is not type(b) or not isinstance(a, (dict, list)):
    return set() if a == b else {path[:-1]}
  out = set()
  if isinstance(a, dict):
    if a.get('_type') != b.get('_type'):
      return {path[:-1]}
    for k in set(a) | set(b):
      if k not in a or k not in b:
        out.add(path)
      else:
        out |= changed_owners(a[k], b[k], path + (k,))
    return out
  if len(a) != len(b):
    out.add(path)
  for i, (x, y) in enumerate(zip(a, b)):
    out |= changed_owners(x, y, path + (i,))
  return out


def ref_owner_paths(tree, addr, src):
  """Path strings of the nodes that `src` modifies in the reference run."""
  key = ('owners', tree, addr, src)
  r = _REF.get(key)
  if r is None:
    ref = reference(tree, addr, src)
    r = ()
    if ref[0] == 'ok' and ref[2]:
      r = tuple(sorted(str(pg.KeyPath(list(t))) for t in changed_owners(
          pg.to_json(build(tree)), ref[1])))
    _REF[key] = r
  return r


def reference(tree, addr, src):
  """Outcome of `src` at `addr` of a fresh tree, fully permissive."""
  key = (tree, addr, src)
  r = _REF.get(key)
  if r is None:
    root = build(tree)
    before = pg.to_json(root)
    try:
      with pg.as_sealed(False):
        with pg.allow_writable_accessors(True):
          run_src(src, n=resolve(root, addr))
      after = pg.to_json(root)
      r = ('ok', after, after != before)
    except Exception as e:  # pylint: disable=broad-except
      r = ('exc', type(e), False)
    _REF[key] = r
  return r


def witness(tree, setup_lines, sealed_stack, acc_stack, addr, src, expect):
  w = [pre_of(tree), f'root = {TREES[tree][0]}']
  w += setup_lines
  state = 'pg.to_json(root)'
  if tree in ('k-functor', 'k-subfunctor'):
    state = ('(pg.to_json(root), sorted(root.h.specified_args), '
             'sorted(root.h.non_default_args), sorted(root.h.default_args))')
  if tree in _TREE_STATE:
    state = _TREE_STATE[tree]
  if expect == 'unchanged-ids':
    # The change is not visible in the JSON form (a node was replaced by an
    # equal one): node identities are part of "exactly as it was".
    expect = 'unchanged'
    w += ['keep = root.sym_descendants()']
    state = f'({state}, [*map(id, root.sym_descendants())])'
  w += [f'n = {node_expr(addr)}', f'S = lambda: {state}', 'before = S()',
        'err = None', 'try:']
  sc, ind = scope_src(sealed_stack, acc_stack, '  ')
  w += sc + [f'{ind}{src}', 'except Exception as e:', '  err = e']
  if expect == 'refuse':
    w += ['assert isinstance(err, pg.WritePermissionError), '
          "f'no WritePermissionError: {err!r}'",
          "assert S() == before, 'tree changed'"]
  elif expect == 'unchanged':
    w += ["assert S() == before, 'tree changed'"]
  elif expect[0] == 'either':
    kind, val = expect[1]
    like_ref = (f'(err is None and pg.to_json(root) == {val!r})'
                if kind == 'ok' else
                f'type(err).__name__ == {val.__name__!r}')
    w += ['refused = isinstance(err, pg.WritePermissionError) and '
          'S() == before',
          f'assert refused or {like_ref}, (repr(err), pg.to_json(root))']
  else:
    kind, val = expect
    if kind == 'ok':
      w += ["assert err is None, f'unexpected {err!r}'",
            f'assert pg.to_json(root) == {val!r}, pg.to_json(root)']
    else:
      w += [f'assert type(err).__name__ == {val.__name__!r}, repr(err)']
  return '\n'.join(w)


def attempt(rec, tree, root, setup_lines, sealed_stack, acc_stack, addr, kind,
            name, src, *args, **kwargs):
  """Runs one op under the config and judges it (see _attempt)."""
  try:
    return _attempt(rec, tree, root, setup_lines, sealed_stack, acc_stack,
                    addr, kind, name, src, *args, **kwargs)
  except Exception as e:  # pylint: disable=broad-except
    # The harness itself tripped (e.g. the tree can no longer be walked or
    # serialized after the operation): report, never crash the driver.
    rec.case(f'{name}|harness-exception', (tree, addr, src), False,
             f'{type(e).__name__}: {e} while judging {src!r} at {addr}: '
             + traceback.format_exc()[-300:],
             witness(tree, setup_lines, sealed_stack, acc_stack, addr, src,
                     'unchanged'))
    return False


def _acc_source(acc_stack):
  live = [v for v in acc_stack if not isinstance(v, tuple)]
  return 'flag' if (not live or live[-1] is None) else 'scope'


def _attempt(rec, tree, root, setup_lines, sealed_stack, acc_stack, addr, kind,
             name, src, sealed_eff, writable_eff, cfg, ref_addr=None,
             start_sealed=None, snap_cache=None):
  """Runs one op under the config and judges it.  `snap_cache` (a dict owned
  by the caller) carries the state of a tree that the previous operation left
  exactly as it was, so that it is not walked again."""
  n = resolve(root, addr)
  if snap_cache is not None and snap_cache.get('root') is root:
    before, keep_alive = snap_cache['snap']
  else:
    before, keep_alive = _walk_state(root)
  err = None
  try:
    with Scopes(sealed_stack, acc_stack):
      run_src(src, n=n)
  except Exception as e:  # pylint: disable=broad-except
    err = e
  after = snapshot(root)
  if snap_cache is not None:
    snap_cache.clear()
    if after == before:
      snap_cache.update(root=root, snap=(before, keep_alive))
  scopes_clean = (pg_flags.is_under_sealed_scope() is None and
                  pg_flags.is_under_accessor_writable_scope() is None)
  unchanged = after == before
  refused = isinstance(err, WPE) and unchanged
  key = (tree, cfg, addr, src)
  strict = sealed_eff or (not writable_eff and kind == 'acc')
  if strict:
    # Protection source is part of the input class: innermost effective scope
    # value vs. the per-object flag.
    mode = ('sealed' if sealed_eff else
            'accessor-off[%s]' % _acc_source(acc_stack))
  elif not writable_eff and kind in ('meth', 'inpl'):
    mode = 'accessor-off-method[%s]' % _acc_source(acc_stack)
  else:
    mode = 'writable'
  ref = None
  if strict and refused:
    # Refused with the tree intact is right whether or not the operation
    # would have changed anything: the reference run is not needed.
    ok, expect = True, 'refuse'
  else:
    ref = reference(tree, ref_addr or addr, src)
    would_change = ref[0] == 'ok' and ref[2]
    same_as_ref = ((ref[0] == 'ok' and err is None and after[0] == ref[1]) or
                   (ref[0] == 'exc' and type(err) is ref[1]))  # pylint: disable=unidiomatic-typecheck
    if strict:
      if would_change:
        ok, expect = refused, 'refuse'
      else:
        ok, expect = unchanged, 'unchanged'
    elif mode != 'writable':
      ok = refused or same_as_ref
      expect = ('either', (ref[0], ref[1]))
    else:
      ok = same_as_ref
      expect = (ref[0], ref[1])
  case_id = f'{name}|{mode}'
  if not unchanged and isinstance(err, WPE):
    # Refused but modified: always wrong.
    ok = False
    if start_sealed is None:
      start_sealed = sealed_eff
    if kind == 'rebind' and not start_sealed:
      # One defect, one id: a rebind entered at an unsealed ancestor applied
      # some paths before it reached the sealed target.
      case_id = 'rebind-from-unsealed-ancestor/partially-applied-before-refusal'
    else:
      case_id = f'{name}|{mode}+refused-but-modified'
  msg = ''
  if not ok:
    if expect == 'unchanged' and after[0] == before[0]:
      expect = 'unchanged-ids'
    msg = (f'cfg={cfg} at={addr} op={src!r}: err={err!r} unchanged={unchanged} '
           f'would_change={would_change} ref={ref[0]}')
  rec.case(case_id, key, ok, msg,
           witness(tree, setup_lines, sealed_stack, acc_stack, addr, src,
                   expect) if not ok else '')
  if not unchanged:
    # No operation of the scope is a (un)sealing / set_accessor_writable API:
    # whatever it did, every node that is still in the tree must carry the
    # protection flags it had before ("sealed ... stays", "unsealing restores",
    # i.e. only the flag APIs and scopes decide about protection).
    flips = flag_changes(before, after)
    for flag in ('is_sealed', 'accessor_writable'):
      bad = [f for f in flips if f[1] == flag]
      rec.case(f'{name}|changes-{flag}-of-surviving-node', key, not bad,
               f'cfg={cfg} at={addr} op={src!r}: err={err!r} flags changed '
               f'(path, flag, before, after): {bad[:3]}',
               flag_witness(tree, setup_lines, sealed_stack, acc_stack, addr,
                            src, bad[0]) if bad else '')
  del keep_alive
  rec.case('scope-restored-after-op', key, scopes_clean,
           'scope flags leaked after leaving the with-blocks',
           witness(tree, setup_lines, sealed_stack, acc_stack, addr, src,
                   'unchanged') if not scopes_clean else '')
  # The tree may be reused only if it was provably left alone: an operation
  # on an object that returned normally may have changed non-symbolic state
  # (e.g. a plain Python attribute of a wrapped class instance).
  return unchanged and ok and (err is not None or
                               not isinstance(n, pg.Object))


def all_ops_at(root):
  """[(name, kind, src, addr, target_path)] over every address of the tree."""
  out = []
  for addr, k in addresses(root):
    for name, kind, src in OPS[k]:
      out.append((name, kind, src, addr, addr[0]))
  for name, addr, src, target in ancestor_rebind_ops(root):
    out.append((name, 'rebind', src, addr, target))
  return out


# --------------------------------------------------------------------------
# Driver 1: per-object seal (deep) on every node, ops at every node.
# --------------------------------------------------------------------------

def drv_sealed_flag(tier, seed):
  del seed
  rec = Recorder(
      'C08', 'seal(True) on each node: every mutator at/below it is refused, '
      'tree unchanged; nodes outside stay mutable; seal(False) restores',
      scope='4 trees (dict/list/object/value-spec dict, depth<=4) x every '
      'symbolic node sealed x every list/dict/object mutator (38+30+18 ops, '
      'incl. sym_init_args dict of objects, rebind through each ancestor) '
      'at every node; then seal(False) and the same ops again')
  for tree in BASE_TREES:
    proto = build(tree)
    paths = [p for p, _ in sym_nodes(proto)]
    ops = all_ops_at(proto)
    for prot in paths:
      # Deep-seal facts.
      root = build(tree)
      resolve(root, (prot, '')).seal(True)
      setup = [f"{node_expr((prot, ''))}.seal(True)"]
      for p, n in sym_nodes(root):
        want = is_within(p, prot)
        rec.case('seal(True)/deep-flag' if want else 'seal(True)/outside-flag',
                 (tree, prot, p), n.is_sealed == want,
                 f'is_sealed at {p!r} = {n.is_sealed}, want {want}',
                 '\n'.join([pre_of(tree), f'root = {TREES[tree][0]}'] + setup +
                           [f"assert {node_expr((p, ''))}.is_sealed == {want}"]
                           ))
        if isinstance(n, pg.Object):
          rec.case('seal(True)/deep-flag-attr-dict', (tree, prot, p),
                   n.sym_init_args.is_sealed == want,
                   f'sym_init_args.is_sealed at {p!r}', '')
      pool = Pool(tree, lambda t, p_=prot: resolve(t, (p_, '')).seal(True))
      for name, kind, src, addr, target in ops:
        root = pool.get()
        node = resolve(root, addr)
        s = hits_sealed(prot, addr[0], target, name)
        w = node.accessor_writable
        pool.done(attempt(
            rec, tree, root, setup, (), (), addr, kind, name, src, s, w,
            f'seal@{prot!r}', start_sealed=is_within(addr[0], prot)))
      # Unseal: full mutability.
      if tier == 'quick' and prot not in (paths[0], paths[-1], paths[1]):
        continue
      setup2 = setup + [f"{node_expr((prot, ''))}.seal(False)"]
      root = build(tree)
      resolve(root, (prot, '')).seal(True).seal(False)
      for p, n in sym_nodes(root):
        rec.case('seal(False)/deep-flag', (tree, prot, p), not n.is_sealed,
                 f'is_sealed at {p!r} still True after seal(False)', '')
      pool = Pool(tree, lambda t, p_=prot: resolve(
          t, (p_, '')).seal(True).seal(False))
      for name, kind, src, addr, target in ops:
        root = pool.get()
        node = resolve(root, addr)
        pool.done(attempt(
            rec, tree, root, setup2, (), (), addr, kind, name, src, False,
            node.accessor_writable, f'seal+unseal@{prot!r}'))
  # Batched rebind through an unsealed ancestor that reaches a sealed node
  # only with a later path: the statement requires the whole tree unchanged.
  for tree, prot, pairs in [
      ('dict', 'b', "{'a': 2, 'b.x': 5}"),
      ('dict', 'c', "{'a': 2, 'c[0]': 5}"),
      ('dict', 'b.y', "{'b.x': 2, 'b.y[0]': 5}"),
      ('list', '[1]', "{'[0].a': 2, '[1][0]': 5}"),
      ('obj', 'o', "{'x': 2, 'o.x': 5}"),
      ('obj', 'd.q', "{'d.p': 2, 'd.q.x': 5}"),
      ('spec', 's', "{'n': 2, 's.u': 5}"),
  ]:
    for rev in (False, True):
      src = f'n.rebind({pairs})'
      if rev:
        a, b = pairs[1:-1].split(', ')
        src = f'n.rebind({{{b}, {a}}})'
      root = build(tree)
      resolve(root, (prot, '')).seal(True)
      setup = [f"{node_expr((prot, ''))}.seal(True)"]
      before = snapshot(root)
      err = None
      try:
        run_src(src, n=root)
      except Exception as e:  # pylint: disable=broad-except
        err = e
      unchanged = snapshot(root) == before
      rec.case('rebind-ancestor-batch/raises', (tree, prot, src),
               isinstance(err, WPE), f'{src}: err={err!r}',
               witness(tree, setup, (), (), ('', ''), src, 'refuse'))
      rec.case('rebind-from-unsealed-ancestor/partially-applied-before-refusal',
               (tree, prot, src), unchanged,
               f'{src} raised {err!r} but the tree was modified',
               witness(tree, setup, (), (), ('', ''), src, 'refuse'))
  return rec.result()


# --------------------------------------------------------------------------
# Driver 2: scoped overrides for sealed.
# --------------------------------------------------------------------------

def stacks(depth):
  out = [()]
  frontier = [()]
  for _ in range(depth):
    frontier = [s + (v,) for s in frontier for v in (True, False, None)]
    out += frontier
  return out


def drv_sealed_scopes(tier, seed):
  rec = Recorder(
      'C08', 'pg.as_sealed nested scopes x per-object sealed flag',
      scope='4 trees; full mutator set at every node under 8 discriminating '
      '(flag, scope-stack) configs; all scope stacks of depth<=3 (quick) / '
      '<=4 (thorough) over {True,False,None} x {root sealed, inner node '
      'sealed, unsealed} with one op of every kind per node kind; '
      'operations after an inner scope was left (enclosing scope effective '
      'again); scope + exception restores flags; other thread unaffected')
  core = [  # (seal_root, stack)
      (False, (True,)), (True, (False,)), (True, (None,)),
      (False, (False, True)), (True, (True, False)), (True, (True, None)),
      (False, (True, None)), (True, (False, None)),
  ]
  if tier == 'quick':
    core = core[:2] + core[3:6]
  for tree in BASE_TREES:
    proto = build(tree)
    ops = all_ops_at(proto)
    for seal_root, stack in core:
      setup = ['root.seal(True)'] if seal_root else []
      s = effective(stack, seal_root)
      pool = Pool(tree, (lambda t: t.seal(True)) if seal_root else None)
      for name, kind, src, addr, _ in ops:
        root = pool.get()
        node = resolve(root, addr)
        pool.done(attempt(
            rec, tree, root, setup, stack, (), addr, kind, name, src, s,
            node.accessor_writable,
            f'root.sealed={seal_root} as_sealed{stack}'))
  # Full stack enumeration with a reduced op set.
  r = rng(seed, 'c08-scopes')
  depth = 3 if tier == 'quick' else 4
  reduced = {'list.setitem/index', 'list.append', 'list.iadd',
             'list.rebind/index', 'dict.setitem/new', 'dict.pop', 'dict.ior',
             'dict.rebind/kwargs', 'dict.update/kwargs', 'object.setattr',
             'object.rebind/kwargs', 'list.sort/reverse', 'dict.clear',
             'list.delitem/index', 'dict.delitem'}
  for tree in BASE_TREES:
    proto = build(tree)
    paths = [p for p, _ in sym_nodes(proto)]
    inner = paths[1]
    ops = [o for o in all_ops_at(proto)
           if o[0] in reduced or o[0].startswith('rebind-ancestor/')]
    for stack in stacks(depth):
      for sealed_at in (None, '', inner):
        if len(stack) >= 3 and tier == 'quick':
          sample = r.sample(ops, 6)
        else:
          sample = ops
        setup = ([] if sealed_at is None else
                 [f"{node_expr((sealed_at, ''))}.seal(True)"])
        pool = Pool(tree, None if sealed_at is None else (
            lambda t, p_=sealed_at: resolve(t, (p_, '')).seal(True)))
        for name, kind, src, addr, target in sample:
          root = pool.get()
          flag = hits_sealed(sealed_at, addr[0], target, name)
          s = effective(stack, flag)
          node = resolve(root, addr)
          pool.done(attempt(
              rec, tree, root, setup, stack, (), addr, kind, name, src, s,
              node.accessor_writable,
              f'sealed@{sealed_at!r} as_sealed{stack}',
              start_sealed=effective(
                  stack, sealed_at is not None and
                  is_within(addr[0], sealed_at))))
  # After an inner scope is left, the enclosing scope is effective again.
  for tree in ('dict', 'obj'):
    proto = build(tree)
    ops = [o for o in all_ops_at(proto) if o[0] in reduced]
    for a in (True, False, None):
      for b in (True, False, None):
        for stack in ((a, ('x', b)), (('x', b),), (a, ('x', b), None))[
            :1 if tier == 'quick' else 3]:
          for seal_root in (False, True):
            setup = ['root.seal(True)'] if seal_root else []
            pool = Pool(tree, (lambda t: t.seal(True)) if seal_root else None)
            for name, kind, src, addr, _ in ops:
              root = pool.get()
              pool.done(attempt(
                  rec, tree, root, setup, stack, (), addr, kind, name, src,
                  effective(stack, seal_root),
                  resolve(root, addr).accessor_writable,
                  f'root.sealed={seal_root} as_sealed{stack}'))
  # Scope does not leak to other threads, and is restored after exceptions.
  d = pg.Dict(a=1)
  res = {}

  def other():
    try:
      d.b = 2
      res['ok'] = True
    except Exception as e:  # pylint: disable=broad-except
      res['ok'] = e
  with pg.as_sealed(True):
    t = threading.Thread(target=other)
    t.start()
    t.join()
  rec.case('as_sealed/thread-local', 'thread', res.get('ok') is True,
           f'write from another thread inside as_sealed(True): {res}',
           'import pyglove as pg, threading\nd = pg.Dict(a=1)\n'
           'with pg.as_sealed(True):\n'
           '  t = threading.Thread(target=lambda: d.__setitem__("b", 2)); '
           't.start(); t.join()\nassert d == dict(a=1, b=2), d')
  try:
    with pg.as_sealed(True):
      with pg.as_sealed(False):
        raise KeyError('x')
  except KeyError:
    pass
  rec.case('as_sealed/restored-after-exception', 'exc',
           pg_flags.is_under_sealed_scope() is None, 'scope leaked', '')
  return rec.result()


# --------------------------------------------------------------------------
# Driver 3: accessor writability.
# --------------------------------------------------------------------------

def set_acc_src(addr, v):
  return f'{node_expr(addr)}.set_accessor_writable({v!r})'


def drv_accessor(tier, seed):
  rec = Recorder(
      'C08', 'accessor_writable flag / pg.allow_writable_accessors scopes: '
      'accessor writes refused, rebind works, precedence of scopes',
      scope='4 trees x every node x per-object flag {unset,False,True} x '
      'scope stacks {(), (F), (T), (N), (F,T), (T,F), (F,N), (T,N)} (quick) '
      '/ all stacks depth<=3 (thorough) x all ops at the node + rebind '
      'through ancestors; constructor kwarg accessor_writable=False; '
      'combined with sealed flag/scope')
  del seed
  core_stacks = [(), (False,), (True,), (None,), (False, True), (True, False),
                 (False, None), (True, None)]
  all_stacks = core_stacks if tier == 'quick' else stacks(3)
  quick_combos = {
      (None, ()), (None, (False,)), (None, (True,)), (False, ()),
      (False, (True,)), (False, (None,)), (False, (False, True)),
      (False, (True, None)), (True, (False,)), (True, (False, None)),
      (True, (True, False))}
  for tree in BASE_TREES:
    proto = build(tree)
    node_addrs = [(a, k) for a, k in addresses(proto)]
    anc_ops = ancestor_rebind_ops(proto)
    for addr, k in node_addrs:
      for flag in (None, False, True):
        if addr[1] and flag is not None:
          # The attribute dict of an object has its own (always True) flag;
          # setting it separately is not a documented configuration.
          continue
        for stack in all_stacks:
          if tier == 'quick' and (flag, stack) not in quick_combos:
            continue
          setup = [] if flag is None else [set_acc_src(addr, flag)]
          ops = [(n_, k_, s_, addr) for n_, k_, s_ in OPS[k]]
          pool = Pool(tree, None if flag is None else (
              lambda t, a_=addr, f_=flag: resolve(t, a_).set_accessor_writable(
                  f_)))
          for name, kind, src, at in ops:
            root = pool.get()
            node = resolve(root, at)
            w = effective(stack, node.accessor_writable)
            pool.done(attempt(
                rec, tree, root, setup, (), stack, at, kind, name, src,
                False, w, f'acc_flag={flag} allow_writable{stack}'))
          # rebind through ancestors into this node keeps working.
          if not addr[1]:
            for name, a_addr, src, target in anc_ops:
              if target != addr[0]:
                continue
              root = build(tree)
              if flag is not None:
                resolve(root, addr).set_accessor_writable(flag)
              attempt(rec, tree, root, setup, (), stack, a_addr, 'rebind',
                      name, src, False, True,
                      f'acc_flag={flag}@{addr[0]!r} allow_writable{stack}')
  # After an inner scope is left, the enclosing scope is effective again.
  for tree in ('dict', 'obj'):
    for addr, k in addresses(build(tree)):
      for a in (True, False, None):
        for b in (True, False, None):
          stack = (a, ('x', b))
          pool = Pool(tree)
          for name, kind, src in OPS[k]:
            if kind not in ('acc', 'rebind'):
              continue
            root = pool.get()
            w = effective(stack, resolve(root, addr).accessor_writable)
            pool.done(attempt(rec, tree, root, [], (), stack, addr, kind, name,
                              src, False, w, f'allow_writable{stack}'))
  # Constructor keyword.
  ctor = [
      ('dict', "pg.Dict(a=1, b=2, accessor_writable=False)", DICT_OPS),
      ('list', "pg.List([3, 1, 2], accessor_writable=False)", LIST_OPS),
  ]
  for k, tsrc, ops in ctor:
    for stack in core_stacks:
      for name, kind, src in ops:
        TREES['_ctor'] = (tsrc, 'plain')
        _TREE_CODE['_ctor'] = compile(tsrc, '<ctor>', 'eval')
        root = build('_ctor')
        rec.case('ctor/accessor_writable=False flag', (k,),
                 root.accessor_writable is False, 'flag not stored', '')
        w = effective(stack, False)
        attempt(rec, '_ctor', root, [], (), stack, ('', ''), kind, name, src,
                False, w, f'ctor-acc-False[{k}] allow_writable{stack}')
    for key in [x for x in _REF if x[0] == '_ctor']:
      del _REF[key]
  TREES.pop('_ctor', None)
  _TREE_CODE.pop('_ctor', None)
  # Combination with sealing: sealed wins over a writable-accessor scope, and
  # as_sealed(False) does not lift an accessor restriction.
  combos = [
      (True, (), None, (True,)), (False, (True,), None, (True,)),
      (True, (False,), False, ()), (True, (False,), None, (False,)),
      (False, (), False, (True, None)), (True, (None,), True, (False,)),
  ]
  for tree in BASE_TREES:
    proto = build(tree)
    for seal_root, sstack, flag, astack in (
        combos[:4] if tier == 'quick' else combos):
      for addr, k in addresses(proto):
        if addr[1] and flag is not None:
          continue
        setup = (['root.seal(True)'] if seal_root else []) + (
            [] if flag is None else [set_acc_src(addr, flag)])
        def prep(t, a_=addr, f_=flag, sr_=seal_root):
          if f_ is not None:
            resolve(t, a_).set_accessor_writable(f_)
          if sr_:
            t.seal(True)
        pool = Pool(tree, prep)
        for name, kind, src in OPS[k]:
          root = pool.get()
          node = resolve(root, addr)
          s = effective(sstack, seal_root)
          w = effective(astack, node.accessor_writable)
          pool.done(attempt(
              rec, tree, root, setup, sstack, astack, addr, kind, name,
              src, s, w,
              f'sealed={seal_root} as_sealed{sstack} acc={flag} '
              f'allow_writable{astack}'))
  try:
    with pg.allow_writable_accessors(False):
      with pg.allow_writable_accessors(True):
        raise KeyError('x')
  except KeyError:
    pass
  rec.case('allow_writable_accessors/restored-after-exception', 'exc',
           pg_flags.is_under_accessor_writable_scope() is None, 'leak', '')
  return rec.result()


# --------------------------------------------------------------------------
# Driver 4: histories of seal / unseal / insertion under as_sealed(False).
# --------------------------------------------------------------------------

INSERT = {
    'dict': "n['nw'] = pg.Dict(k=pg.List([1]))",
    'list': 'n.append(pg.Dict(k=pg.List([1])))',
    'object': 'n.rebind(x=pg.Dict(k=pg.List([1])))',
}
PROBE = {'dict': 'n.rebind(probe=1)', 'list': 'n.rebind({99: 1})',
         'object': 'n.rebind(x=12345)'}


def _apply_action(root, action):
  act, p, src = action
  node = resolve(root, (p, ''))
  if act == 'insert':
    with pg.as_sealed(False):
      run_src(src, n=node)
  else:
    node.seal(act == 'seal')
  return node


def _action_lines(action):
  act, p, src = action
  if act == 'insert':
    return [f"n = {node_expr((p, ''))}", 'with pg.as_sealed(False):',
            f'  {src}']
  return [src]


def _check_history(rec, tree, hist, tag):
  """Applies hist[:-1], then checks the deep effect of the last (un)seal."""
  root = build(tree)
  lines = []
  try:
    for action in hist[:-1]:
      _apply_action(root, action)
      lines += _action_lines(action)
    act, p, _ = hist[-1]
    node = resolve(root, (p, ''))
  except Exception:  # pylint: disable=broad-except
    return  # history not applicable (e.g. path vanished)
  want = act == 'seal'
  below = sym_nodes(node)
  # Input class: does some node at/below the target already carry the wanted
  # flag while one of its own descendants does not?
  mixed = any(m.is_sealed == want and
              any(c.is_sealed != want for _, c in sym_nodes(m))
              for _, m in below)
  if not mixed:
    cls = 'deep'
  elif want:
    cls = 'subtree-has-sealed-node-above-unsealed-descendant'
  else:
    cls = 'subtree-has-unsealed-node-above-sealed-descendant'
  node.seal(want)
  lines += _action_lines(hist[-1])
  head = [pre_of(tree), f'root = {TREES[tree][0]}'] + lines
  shape = tuple((a, q) for a, q, _ in hist)
  for q, m in sym_nodes(node):
    rec.case(f'seal({want})/{cls}', (tree, tag, shape, q),
             m.is_sealed == want,
             f'after {lines}: is_sealed at {q!r} is {m.is_sealed}',
             '\n'.join(head + [f"m = {node_expr((q, ''))}",
                               f'assert m.is_sealed == {want}, m.is_sealed']))
    if isinstance(m, pg.Object):
      rec.case(f'seal({want})/{cls}', (tree, tag, shape, q, 'a'),
               m.sym_init_args.is_sealed == want,
               f'after {lines}: sym_init_args.is_sealed at {q!r}',
               '\n'.join(head + [
                   f"m = {node_expr((q, 'attrs'))}",
                   f'assert m.is_sealed == {want}, m.is_sealed']))
  # Behavioural probe at each node (each on a fresh replay).
  for q, _ in sym_nodes(node):
    root2 = build(tree)
    for action in hist:
      _apply_action(root2, action)
    m2 = resolve(root2, (q, ''))
    probe = PROBE[kind_of(m2)]
    before = pg.to_json(root2)
    err = None
    try:
      run_src(probe, n=m2)
    except Exception as e:  # pylint: disable=broad-except
      err = e
    if want:
      ok = isinstance(err, WPE) and pg.to_json(root2) == before
    else:
      ok = err is None and pg.to_json(root2) != before
    rec.case(f'seal({want})/{cls}', (tree, tag, shape, q, 'probe'), ok,
             f'after {lines}: {probe} at {q!r}: err={err!r}',
             '\n'.join(head + [
                 f"n = {node_expr((q, ''))}", 'err = None', 'try:',
                 f'  {probe}', 'except Exception as e:', '  err = e',
                 ('assert isinstance(err, pg.WritePermissionError), repr(err)'
                  if want else 'assert err is None, repr(err)')]))


def drv_seal_histories(tier, seed):
  rec = Recorder(
      'C08', 'histories of seal(True)/seal(False)/insert-under-as_sealed('
      'False): after X.seal(v) every symbolic node at/below X reports '
      'is_sealed == v and is (im)mutable accordingly',
      scope='trees dict/list/obj; all histories of length<=2 plus 300 sampled '
      'of length 3 (quick) / all of length<=3 (thorough, capped 8000 per '
      'tree) over {seal, unseal at each node, insert a fresh subtree at each '
      'node inside as_sealed(False)}; seeded random histories of length<=5; '
      'constructors with sealed=True')
  r = rng(seed, 'c08-hist')
  for tree in ('dict', 'list', 'obj'):
    nodes = sym_nodes(build(tree))
    acts = []
    for p, n in nodes:
      e = node_expr((p, ''))
      acts.append(('seal', p, f'{e}.seal(True)'))
      acts.append(('unseal', p, f'{e}.seal(False)'))
      acts.append(('insert', p, INSERT[kind_of(n)]))
    finals = [a for a in acts if a[0] != 'insert']
    seqs = [[f] for f in finals]
    seqs += [[a, f] for a in acts for f in finals]
    len3 = [[a, b, f] for a in acts for b in acts for f in finals]
    cap = 300 if tier == 'quick' else 8000
    seqs += len3 if len(len3) <= cap else r.sample(len3, cap)
    for s in seqs:
      _check_history(rec, tree, s, 'enum')
    for _ in range(40 if tier == 'quick' else 600):
      s = [r.choice(acts) for _ in range(r.randint(3, 4))] + [r.choice(finals)]
      _check_history(rec, tree, s, 'rand')
  # Constructors.
  for name, src, pre in [
      ('dict', 'pg.Dict(a=pg.Dict(b=pg.List([pg.Dict()])), sealed=True)',
       'plain'),
      ('list', 'pg.List([pg.Dict(b=pg.List([1]))], sealed=True)', 'plain'),
      ('object', 'C08A(x=1, d=pg.Dict(p=pg.List([C08N()])), sealed=True)',
       'cls'),
  ]:
    root = eval(src, _NS)  # pylint: disable=eval-used
    for q, m in sym_nodes(root):
      rec.case(f'ctor-sealed=True/{name}-is-deep', (name, q), m.is_sealed,
               f'node {q!r} not sealed',
               f"{PRE[pre].strip()}\nroot = {src}\n"
               f"assert {node_expr((q, ''))}.is_sealed")
  return rec.result()


# --------------------------------------------------------------------------
# Driver 5: every symbolic class kind x every accessor / mutator x every
# protection mode.
# --------------------------------------------------------------------------

ATTR_DICT_OPS = ('dict.setitem/existing', 'dict.setitem/missing-value',
                 'dict.setattr/existing', 'dict.delitem', 'dict.delattr',
                 'dict.pop', 'dict.clear', 'dict.update/dict', 'dict.ior',
                 'dict.rebind/dict', 'dict.rebind/delete')
CHILD_OPS = ('dict.setitem/new', 'dict.delitem', 'dict.rebind/kwargs',
             'list.setitem/index', 'list.append', 'list.rebind/index')


def any_ops_for(node):
  """ANY_OPS instantiated for `node` (KEY -> a replaceable key of it)."""
  key = child_key_src(node)
  out = []
  for name, kind, src in ANY_OPS:
    if 'KEY' in src:
      if key is None:
        continue
      src = src.replace('KEY', repr(key))
    out.append((name, kind, src))
  return out


def wrapped_ops_for(k):
  """One accessor/deleter/method/rebind op per node kind inside each of the
  other scoped flags (which must neither lift nor add protection)."""
  out = []
  seen = set()
  for name, kind, src in OPS[k]:
    if name in WRAPPED_BASE[k] and name not in seen:
      seen.add(name)
      for label, scope in OTHER_SCOPES:
        out.append((f'{name}/inside-{label}', kind, f'with {scope}: {src}'))
  return out


def kind_ops(tree):
  """[(name, kind, src, addr, target)] for a kind tree pg.Dict(h=KIND, t=5)."""
  label = KINDS[tree][0]
  proto = build(tree)
  out = []
  for addr, k in addresses(proto):
    p, via = addr
    node = resolve(proto, addr)
    if p == 'h' and not via:
      ops = [(label + n_[len('object'):], k_, s_)
             for n_, k_, s_ in OPS['object'] + wrapped_ops_for('object')]
      ops += [(f'{n_}/at-{label}', k_, s_) for n_, k_, s_ in any_ops_for(node)]
    elif p == 'h':
      ops = [(f'{label}.sym_init_args:{n_}', k_, s_)
             for n_, k_, s_ in DICT_OPS if n_ in ATTR_DICT_OPS]
    elif not p:
      ops = [(f'{n_}/above-{label}', k_, s_)
             for n_, k_, s_ in any_ops_for(node) if n_ != 'pg.patch/dict-rule']
    else:
      ops = [(f'{n_}/below-{label}', k_, s_)
             for n_, k_, s_ in OPS[k] if n_ in CHILD_OPS]
    out += [(n_, k_, s_, addr, p) for n_, k_, s_ in ops]
  for name, addr, src, target in ancestor_rebind_ops(proto):
    a, b = name.split('/')[1].split('->')
    a = label if a == 'object' else a
    b = label if b == 'object' else b
    out.append((f"{name.split('/')[0]}/{a}->{b}", 'rebind', src, addr, target))
  return out


def is_any_op(name):
  return name.startswith('pg.patch')


def sealed_hit(tree, prot, addr, target, name, src):
  """Does the op touch the region deep-sealed at `prot`?"""
  if prot is None:
    return False
  if is_any_op(name):
    # Subtree-wide helper: it touches the sealed region iff the reference run
    # modifies a node at/below the sealed one.
    return any(is_within(o, prot) for o in ref_owner_paths(tree, addr, src))
  return hits_sealed(prot, addr[0], target, name)


def is_extra_op(name):
  return is_any_op(name) or '/inside-' in name


def run_configs(rec, tree, all_ops, configs, flag_path, core_configs=None):
  """configs: [(sealed_at, sealed_stack, acc_flag, acc_stack)]; the per-object
  accessor flag is set at `flag_path`, the seal at `sealed_at`.  With
  `core_configs`, the helper / other-scope operations run only under those."""
  for config in configs:
    sealed_at, sstack, flag, astack = config
    ops = all_ops
    if core_configs is not None and config not in core_configs:
      ops = [o for o in all_ops if not is_extra_op(o[0])]
    setup = []
    if flag is not None:
      setup.append(set_acc_src((flag_path, ''), flag))
    if sealed_at is not None:
      setup.append(f"{node_expr((sealed_at, ''))}.seal(True)")

    def prep(t, f_=flag, s_=sealed_at):
      if f_ is not None:
        resolve(t, (flag_path, '')).set_accessor_writable(f_)
      if s_ is not None:
        resolve(t, (s_, '')).seal(True)
    pool = Pool(tree, prep)
    cfg = (f'sealed@{sealed_at!r} as_sealed{sstack} acc_flag={flag}'
           f'@{flag_path!r} allow_writable{astack}')
    failed_plain = set()
    for name, kind, src, addr, target in ops:
      root = pool.get()
      node = resolve(root, addr)
      plain = name.split('/inside-')[0]
      if plain != name and (addr, plain) in failed_plain:
        # One defect, one id: the same operation already fails in this
        # configuration outside the extra scope.
        name = plain
      nfail = sum(f['count'] for f in rec.fail.values())
      flag_s = sealed_hit(tree, sealed_at, addr, target, name, src)
      s = effective(sstack, flag_s)
      w = effective(astack, node.accessor_writable)
      pool.done(attempt(
          rec, tree, root, setup, sstack, astack, addr, kind, name, src, s, w,
          cfg, start_sealed=effective(
              sstack, sealed_at is not None and is_within(addr[0],
                                                          sealed_at))))
      if sum(f['count'] for f in rec.fail.values()) != nfail:
        failed_plain.add((addr, name))


KIND_CONFIGS = (
    # sealed (flag / scope / both)
    [(at, st, None, ()) for at, st in [
        ('', ()), ('h', ()), ('h.d', ()), (None, (True,)), ('', (False,)),
        ('h', (True, None)), (None, (False, True)), ('h', (False, None)),
        ('h', (None,))]] +
    # accessor writability (flag / scope / both)
    [(None, (), f, st) for f, st in [
        (None, ()), (None, (False,)), (None, (True,)), (False, ()),
        (False, (True,)), (False, (None,)), (False, (False, True)),
        (False, (True, None)), (True, ()), (True, (False,)),
        (True, (False, None)), (True, (True, False))]] +
    # combinations
    [('', (), None, (True,)), (None, (True,), None, (True,)),
     ('', (False,), False, ()), ('', (False,), None, (False,)),
     ('h', (), True, (False,)), ('h', (None,), False, (True,))])


KIND_CORE_CONFIGS = [
    ('', (), None, ()), ('h', (), None, ()), (None, (True,), None, ()),
    ('', (False,), None, ()), (None, (), None, ()),
    (None, (), None, (False,)), (None, (), False, ()),
    (None, (), False, (True,)), (None, (), True, (False,)),
    ('', (), None, (True,))]
assert all(c in KIND_CONFIGS for c in KIND_CORE_CONFIGS)


def drv_symbolic_kinds(tier, seed):
  del seed
  rec = Recorder(
      'C08', 'every symbolic class kind (functor, subclassed functor, class '
      'wrapper, contextual object, object with dynamic fields, object with '
      'change hooks, compound) x every attribute accessor/deleter, rebind '
      'form, attribute-dict mutator, in-place pg.patch* helper x every '
      'protection mode',
      scope='7 kinds, each as pg.Dict(h=KIND(x, d=Dict, l=List), t); '
      'ops: 20 object ops + 16 ops inside other scoped flags + 7 pg.patch* '
      'helpers at the object, 11 mutators of its sym_init_args dict, 6 ops on '
      'its children, rebind through the ancestor; configs: seal at root / '
      'object / child, as_sealed stacks, accessor flag {unset,False,True} x '
      'allow_writable_accessors stacks, 6 combinations (27 configs quick, '
      '+ all scope stacks of depth 2 thorough)')
  configs = list(KIND_CONFIGS)
  if tier != 'quick':
    for st in stacks(2):
      configs += [('h', st, None, ()), (None, (), False, st),
                  (None, (), True, st)]
  for tree in KIND_TREES:
    if tier == 'quick':
      # Kinds with their own accessor / storage code get every config; the
      # helper and other-scope operations, and the kinds that only differ
      # from a plain pg.Object in hooks, get the discriminating core.
      full = tree in ('k-functor', 'k-subfunctor', 'k-wrapper', 'k-kwargs')
      run_configs(rec, tree, kind_ops(tree),
                  configs if full else KIND_CORE_CONFIGS, 'h',
                  KIND_CORE_CONFIGS)
    else:
      run_configs(rec, tree, kind_ops(tree), configs, 'h')
  return rec.result()


# --------------------------------------------------------------------------
# Driver 6: in-place helpers and other scoped flags on the base trees; every
# sealing API; thread-locality of the accessor scope.
# --------------------------------------------------------------------------

def drv_helpers_and_seal_apis(tier, seed):
  del seed
  rec = Recorder(
      'C08', 'in-place pg.patch* helpers and operations inside other scoped '
      'flags (notify_on_change, enable_type_check, allow_partial, '
      'track_origin) honor sealed / accessor protection; sym_seal / seal / '
      'pg.symbolic.deref; allow_writable_accessors is thread-local',
      scope='4 base trees x every node: 7 pg.patch* helpers and 4 ops x 4 '
      'other scopes under {seal at each node, as_sealed(True), sealed root + '
      'as_sealed(False), accessor flag False at the node, '
      'allow_writable_accessors(False), flag False + scope True}; '
      'sym_seal(True)/sym_seal(False) at every node of 4 base + 7 kind '
      'trees; deref of a sealed tree holding pg.Ref')
  for tree in BASE_TREES:
    proto = build(tree)
    paths = [p for p, _ in sym_nodes(proto)]
    for addr, k in addresses(proto):
      node = resolve(proto, addr)
      ops = [(n_, k_, s_, addr, addr[0]) for n_, k_, s_ in
             any_ops_for(node) + wrapped_ops_for(k)]
      configs = [(p, (), None, ()) for p in paths
                 if tier != 'quick' or p in (paths[0], paths[1], paths[-1],
                                             addr[0])]
      configs += [(None, (True,), None, ()), ('', (False,), None, ()),
                  (None, (), None, (False,)), (None, (), None, ())]
      if not addr[1]:
        configs += [(None, (), False, ()), (None, (), False, (True,))]
      run_configs(rec, tree, ops, configs, addr[0])

  # Every sealing API: after X.<api>(v) every symbolic node at/below X (and
  # the attribute dict of every object) is (un)sealed and behaves so.
  for tree in BASE_TREES + KIND_TREES:
    proto = build(tree)
    for prot, pnode in sym_nodes(proto):
      for api, want, calls in [
          ('sym_seal', True, ['sym_seal(True)']),
          ('sym_seal', False, ['seal(True)', 'sym_seal(False)']),
          ('seal', True, ['seal(True)']),
          ('seal', False, ['seal(True)', 'seal(False)']),
          ('seal', True, ['seal()'])]:
        if api == 'seal' and tree in BASE_TREES and tier == 'quick':
          continue  # drivers 1 and 4 do this on the base trees
        e = node_expr((prot, ''))
        lines = [f'{e}.{c}' for c in calls]
        head = [pre_of(tree), f'root = {TREES[tree][0]}'] + lines
        root = build(tree)
        for ln in lines:
          run_src(ln, root=root)
        for q, m in sym_nodes(resolve(root, (prot, ''))):
          if q == prot:
            cls = 'own-flag'
          else:
            cls = 'symbolic-descendants'
          checks = [(cls, m, (q, ''))]
          if isinstance(m, pg.Object):
            checks.append(('object-attr-dict', m.sym_init_args, (q, 'attrs')))
          for c, mm, a in checks:
            rec.case(f'{api}/{c}', (tree, prot, tuple(calls), a, 'flag'),
                     mm.is_sealed == want,
                     f'after {lines}: is_sealed at {a} is {mm.is_sealed}',
                     '\n'.join(head + [f'm = {node_expr(a)}',
                                       f'assert m.is_sealed == {want}']))
            # behavioural probe on a fresh replay
            root2 = build(tree)
            for ln in lines:
              run_src(ln, root=root2)
            m2 = resolve(root2, a)
            probe = PROBE['object' if a[1] else kind_of(m2)]
            pc = c
            if isinstance(m2, pg.Object):
              # an object stores its fields in its attribute dict
              pc = 'object-attr-dict'
            before = pg.to_json(root2)
            err = None
            try:
              run_src(probe, n=m2)
            except Exception as ex:  # pylint: disable=broad-except
              err = ex
            if want:
              ok = isinstance(err, WPE) and pg.to_json(root2) == before
            else:
              ok = err is None and pg.to_json(root2) != before
            rec.case(f'{api}/{pc}', (tree, prot, tuple(calls), a, 'probe'), ok,
                     f'after {lines}: {probe} at {a}: err={err!r}',
                     '\n'.join(head + [
                         f'n = {node_expr(a)}', 'err = None', 'try:',
                         f'  {probe}', 'except Exception as e:', '  err = e',
                         ('assert isinstance(err, pg.WritePermissionError), '
                          'repr(err)' if want else
                          'assert err is None, repr(err)')]))

  # pg.symbolic.deref(recursive=True) replaces pg.Ref nodes in place.
  pre = PRE['cls'].strip()
  mk = 'pg.Dict(r=pg.Ref(C08N(x=2)), k=pg.Dict(q=pg.Ref(C08N(x=3)), u=1))'
  for cfg, setup, scope in [
      ('seal(True)', 'root.seal(True)', 'pg.as_sealed(None)'),
      ('seal(True)@k', 'root.k.seal(True)', 'pg.as_sealed(None)'),
      ('as_sealed(True)', 'pass', 'pg.as_sealed(True)'),
      ('accessor-off', 'root.set_accessor_writable(False)',
       'pg.allow_writable_accessors(False)'),
      ('seal+as_sealed(False)', 'root.seal(True)', 'pg.as_sealed(False)')]:
    body = [pre, f'root = {mk}', setup,
            'fmt = lambda: root.format(compact=True)', 'before = fmt()',
            'err = None', 'try:', f'  with {scope}:',
            '    pg.symbolic.deref(root, recursive=True)',
            'except Exception as e:', '  err = e']
    if cfg.startswith(('seal(True)', 'as_sealed')):
      body += ['assert isinstance(err, pg.WritePermissionError), repr(err)',
               "assert fmt() == before, 'tree changed'"]
      cid = 'pg.deref/recursive|sealed'
    else:
      body += ['assert err is None, repr(err)',
               "assert 'Ref' not in fmt(), fmt()"]
      cid = 'pg.deref/recursive|writable'
    if cfg == 'seal(True)@k':
      # refs outside the sealed part may have been replaced first: this is
      # the known partial-application class, only the refusal is checked here.
      body = body[:-1]
    w = '\n'.join(body)
    try:
      exec(w, {})  # pylint: disable=exec-used
      ok, msg = True, ''
    except Exception as ex:  # pylint: disable=broad-except
      ok, msg = False, f'{type(ex).__name__}: {ex}'
    rec.case(cid, cfg, ok, f'{cfg}: {msg}', w)

  # The accessor scope is thread-local like the sealed scope.
  d = pg.Dict(a=1)
  res = {}

  def other():
    try:
      d.b = 2
      res['ok'] = True
    except Exception as ex:  # pylint: disable=broad-except
      res['ok'] = ex
  with pg.allow_writable_accessors(False):
    t = threading.Thread(target=other)
    t.start()
    t.join()
  rec.case('allow_writable_accessors/thread-local', 'thread',
           res.get('ok') is True,
           f'write from another thread inside the scope: {res}',
           'import pyglove as pg, threading\nd = pg.Dict(a=1)\n'
           'with pg.allow_writable_accessors(False):\n'
           '  t = threading.Thread(target=lambda: d.__setitem__("b", 2)); '
           't.start(); t.join()\nassert d == dict(a=1, b=2), d')
  return rec.result()


# --------------------------------------------------------------------------
# Driver 7: protection persists across legal operations.  The expected
# protection of a node comes from the driver's own bookkeeping (which flag API
# / constructor keyword was applied to it), never from reading the flag back.
# --------------------------------------------------------------------------

PERSIST_EXTRA_TREES = {
    # constructor keywords instead of set_accessor_writable / seal
    'ctor-off': (
        "pg.Dict(a=1, b=pg.Dict(x=1, accessor_writable=False), "
        "c=pg.List([3, 1, 2], accessor_writable=False), "
        "t=pg.List([3, 1], value_spec=pg.typing.List(pg.typing.Int()), "
        "accessor_writable=False), accessor_writable=False)", 'plain'),
    'ctor-off-spec': (
        "pg.Dict(n=3, l=[3, 1, 2], s=dict(u=1, w=2), extra=5, "
        "value_spec=C08SPEC, accessor_writable=False)", 'spec'),
    'ctor-sealed': (
        "pg.Dict(a=1, b=pg.Dict(x=1, y=pg.List([3, 1])), "
        "c=pg.List([3, 1, 2]), sealed=True)", 'plain'),
    'ctor-sealed-spec': (
        "pg.Dict(n=3, l=[3, 1, 2], s=dict(u=1, w=2), extra=5, "
        "value_spec=C08SPEC, sealed=True)", 'spec'),
    # (the object is the root: a sealed value that is handed to the
    # constructor of a parent is the business of driver 8)
    'ctor-sealed-obj': (
        "C08A(x=1, d=pg.Dict(p=1, q=C08N(x=2)), l=pg.List([3, 1]), "
        "sealed=True)", 'cls'),
}
TREES.update(PERSIST_EXTRA_TREES)
for _k, _v in PERSIST_EXTRA_TREES.items():
  _TREE_CODE[_k] = compile(_v[0], f'<tree {_k}>', 'eval')

# (base tree, off paths | '*', seal paths, paths protected by the constructor
#  [accessor-off], [sealed: deep]).
PERSIST_BASES = (
    [(t, '*', (), (), ()) for t in BASE_TREES + KIND_TREES] +
    [(t, (), ('',), (), ()) for t in BASE_TREES + KIND_TREES] +
    [(t, (), ('h',), (), ()) for t in KIND_TREES] +
    [('dict', ('b',), ('c',), (), ()), ('obj', ('',), ('d',), (), ()),
     ('ctor-off', (), (), ('', 'b', 'c', 't'), ()),
     ('ctor-off-spec', (), (), ('',), ()),
     ('ctor-sealed', (), (), (), ('',)),
     ('ctor-sealed-spec', (), (), (), ('',)),
     ('ctor-sealed-obj', (), (), (), ('',))])

READONLY_OPS = [
    ('clone/deep', 'rebind', 'n.clone(deep=True)'),
    ('clone/shallow', 'rebind', 'n.clone()'),
    ('copy.deepcopy', 'rebind', '__import__("copy").deepcopy(n)'),
    ('to_json+from_json', 'rebind', 'pg.from_json(pg.to_json(n))'),
    ('format+eq+hash', 'rebind',
     'n.format(); pg.eq(n, n.clone()); pg.hash(n)'),
]
# Accessor mechanisms probed after the legal operation (one per distinct
# accessor entry point), and one operation per non-accessor kind.
PROBE_ACC = {
    'dict': ('dict.setitem/existing', 'dict.setitem/new',
             'dict.setattr/existing', 'dict.setattr/new', 'dict.delitem',
             'dict.delattr'),
    'list': ('list.setitem/index', 'list.setitem/slice-grow',
             'list.delitem/index', 'list.delitem/slice'),
    'object': ('object.setattr', 'object.setattr/builtin',
               'object.setattr/missing-value', 'object.delattr'),
}
PROBE_OTHER = {
    'dict': ('dict.update/kwargs', 'dict.ior', 'dict.rebind/kwargs',
             'dict.clear'),
    'list': ('list.append', 'list.iadd', 'list.rebind/append', 'list.clear'),
    'object': ('object.rebind/kwargs', 'object.rebind/reset-default'),
}
PROBE_NEIGHBOUR = {'dict': ('dict.setitem/new', 'dict.rebind/kwargs'),
                   'list': ('list.setitem/index', 'list.rebind/append'),
                   'object': ('object.setattr', 'object.rebind/kwargs')}


def _probe_class(name):
  if 'rebind' in name:
    return 'rebind'
  if '.del' in name:
    return 'accessor-delete'
  if '.set' in name:
    return 'accessor-set'
  return 'method'


def _ops_named(k, names):
  seen = set()
  out = []
  for n_, k_, s_ in OPS[k]:
    if n_ in names and n_ not in seen:
      seen.add(n_)
      out.append((n_, k_, s_))
  return out


def _legal_ops_at(node, k, label, in_scope):
  """Operations that are permitted at a protected node: everything but the
  accessors when only the accessors are off; everything inside
  as_sealed(False)."""
  ops = [o for o in OPS[k] if in_scope or o[1] != 'acc']
  ops = ops + any_ops_for(node) + READONLY_OPS
  out = []
  seen = set()
  for n_, k_, s_ in ops:
    if (n_, s_) in seen:
      continue
    seen.add((n_, s_))
    if label and n_.startswith('object'):
      n_ = label + n_[len('object'):]
    out.append((n_, s_))
  return out


def _persist_tree_src(base, off, seal, at, op, sc):
  args = [TREES[base][0]]
  if off:
    args.append(f'off={off!r}')
  if seal:
    args.append(f'seal={seal!r}')
  args += [f'at={at!r}', f'op={op!r}']
  if sc is not None:
    args.append(f'sc={sc!r}')
  return f"c08_prep({', '.join(args)})"


def drv_protection_persists(tier, seed):
  global _REF  # pylint: disable=global-statement
  rec = Recorder(
      'C08', 'protection persists: after any permitted operation (rebind / '
      'method / in-place operator / pg.patch* helper while only accessors are '
      'off; any mutator inside as_sealed(False); read-only APIs such as clone, '
      'deepcopy, to_json) every surviving node that was sealed / had its '
      'accessors disabled (by seal(), set_accessor_writable(False) or the '
      'constructor keywords sealed=True / accessor_writable=False, with and '
      'without value spec) still refuses every accessor form / every mutator, '
      'rebind still works on accessor-protected nodes, unprotected nodes '
      'stay writable',
      scope='bases: 4 base + 7 kind trees x {accessors off at every node, '
      'sealed root} + kind trees sealed at the object + 2 mixed + 5 trees '
      'protected by constructor keywords (incl. typed dict / typed list); '
      'one permitted operation (every op of the op tables, 7 pg.patch* '
      'helpers, 5 read-only APIs) at every node (quick: every 2nd..3rd, '
      'always incl. clear/update/rebind forms), plus seeded sequences of 2 '
      'permitted operations; then 4-6 accessor forms + method/in-place/rebind '
      'at the node operated on and 2 probes at every other surviving '
      'protected node')
  r = rng(seed, 'c08-persist')
  saved_ref = _REF
  always = ('clear', 'update/dict', 'rebind/kwargs', 'rebind/index',
            'use_value_spec', 'clone/deep', 'call/override', 'setitem/new',
            'patch/dict-rule')
  quick = tier == 'quick'
  try:
    for bi, (base, off, seal, ctor_off, ctor_seal) in enumerate(PERSIST_BASES):
      if quick and base in KINDS and seal == ('',):
        continue  # quick: kind trees are sealed at the object only
      prekey = 'p:' + TREES[base][1]
      label = KINDS[base][0] if base in KINDS else ''
      in_scope = bool(seal or ctor_seal)
      sc = False if in_scope else None
      proto0 = build(base)
      init_w = {p: n.accessor_writable for p, n in sym_nodes(proto0)}
      sealed_paths = tuple(seal) + tuple(ctor_seal)

      def exp_sealed(p0):
        return any(is_within(p0, q) for q in sealed_paths)

      def exp_writable(p0):
        if off == '*' or p0 in off or p0 in ctor_off:
          return False
        return init_w[p0]

      # prefixes: (node path, name, src)
      prefixes = []
      for ni, (p0, node) in enumerate(sym_nodes(proto0)):
        if base in KINDS and p0 != 'h' and quick:
          continue
        if in_scope and not exp_sealed(p0):
          continue  # plain operation on an unprotected node: drivers 1-3
        if not in_scope and exp_writable(p0):
          continue
        k = kind_of(node)
        lab = label if p0 == 'h' else ''
        ops = _legal_ops_at(node, k, lab, in_scope)
        if quick:
          ops = [o for i, o in enumerate(ops)
                 if any(o[0].endswith(a) for a in always)
                 or (i + bi + ni) % 5 == 0]
        prefixes += [(p0, n_, s_) for n_, s_ in ops]
        # seeded sequences of two permitted operations at the same node
        pool_ops = [o for o in _legal_ops_at(node, k, lab, in_scope)
                    if '+=' not in o[1] and '*=' not in o[1]
                    and '|=' not in o[1] and len(o[1]) <= 48]
        for _ in range(1 if quick else 12):
          a, b = r.choice(pool_ops), r.choice(pool_ops)
          prefixes.append((p0, 'sequence-of-2-permitted-ops',
                           f'{a[1]}\n{b[1]}'))

      for at, pname, psrc in prefixes:
        # Survivors of the prefix (by identity) and their new paths.
        root0 = build(base)
        orig = {id(n): p for p, n in sym_nodes(root0)}
        keep = [n for _, n in sym_nodes(root0)]
        ptree = f'{base}~{bi}'
        TREES[ptree] = (_persist_tree_src(base, off, seal, at, psrc, sc),
                        prekey)
        _TREE_CODE[ptree] = compile(TREES[ptree][0], '<persist>', 'eval')
        _REF = {}
        try:
          _NS['c08_prep'](root0, off, seal, at, psrc, sc)
          survivors = [(p, orig[id(n)], kind_of(n))
                       for p, n in sym_nodes(root0) if id(n) in orig]
        except Exception as e:  # pylint: disable=broad-except
          rec.case(f'after[{pname}]|harness-exception', (base, bi, at, psrc),
                   False, f'{type(e).__name__}: {e}',
                   f'{PRE[prekey].strip()}\nroot = {TREES[ptree][0]}\n'
                   'pg.to_json(root)\n[v for v in root.sym_descendants()]')
          continue
        del keep
        tag = '[in as_sealed(False)]' if in_scope else ''
        pool = Pool(ptree)
        # Non-mutating expectations first so that one tree serves them all.
        survivors.sort(key=lambda t: t[1] != at)
        nb = 0
        for p, p0, k in survivors:
          s_eff, w_eff = exp_sealed(p0), exp_writable(p0)
          here = p0 == at
          related = is_within(p0, at) or is_within(at, p0)
          if quick and not here:
            # quick: two related (ancestor / descendant) nodes and one other
            if nb >= (2 if related else 3):
              continue
            nb += 1
          if s_eff:
            names = ((PROBE_ACC[k][:1] + PROBE_ACC[k][-1:] + PROBE_OTHER[k])
                     if here else PROBE_NEIGHBOUR[k][:1 if quick else 2])
          elif not w_eff:
            names = (PROBE_ACC[k] + PROBE_OTHER[k][-2:-1] if here
                     else PROBE_NEIGHBOUR[k][:1 if quick else 2])
          else:
            if quick and not here:
              continue
            names = PROBE_NEIGHBOUR[k][:1]
          where = 'same-node' if here else (
              'descendant' if is_within(p0, at) else
              'ancestor' if is_within(at, p0) else 'other-node')
          for name, kind, src in _ops_named(k, names):
            root = pool.get()
            cid = f'after[{pname}{tag}]@{where}/{_probe_class(name)}'
            pool.done(attempt(
                rec, ptree, root, [], (), (), (p, ''), kind, cid, src, s_eff,
                w_eff, f'base={base} off={off} seal={seal} after {psrc!r} '
                f'at {at!r}', start_sealed=s_eff))
        TREES.pop(ptree, None)
        _TREE_CODE.pop(ptree, None)
  finally:
    _REF = saved_ref
  return rec.result()


# --------------------------------------------------------------------------
# Driver 8: a protected value that becomes a member of a new parent (through a
# constructor or a mutator of the parent) stays protected: only seal(False) /
# set_accessor_writable(True) / the scopes lift a protection.
# --------------------------------------------------------------------------

COMPOSE_PRE = PRE['cls'] + """@pg.functor()
def c08fn(x=1, d=None, l=None):
  return x
"""
COMPOSE_VALUES = [
    # (label, kind, source, sealed?, accessors off?)
    ('dict', 'dict', 'pg.Dict(p=1, q=pg.List([1]))'),
    ('list', 'list', 'pg.List([1, pg.Dict(p=1)])'),
    ('object', 'object', 'C08A(x=1, d=pg.Dict(p=1))'),
    ('functor', 'object', 'c08fn(x=2, d=pg.Dict(p=1))'),
]
COMPOSE_PROTECT = [
    # (label, template, sealed, accessors off)
    ('seal()', '{v}.seal()', True, False),
    ('ctor-sealed=True', '{v_}, sealed=True)', True, False),
    ('set_accessor_writable(False)', '{v}.set_accessor_writable(False)',
     False, True),
    ('ctor-accessor_writable=False', '{v_}, accessor_writable=False)', False,
     True),
    ('descendant-sealed', None, True, False),
]
COMPOSE_FORMS = [
    ('dict-ctor/kwarg', 'c = pg.Dict(k=v)'),
    ('dict-ctor/mapping', "c = pg.Dict({'k': v})"),
    ('dict-ctor/inside-plain-dict', "c = pg.Dict(k={'j': v})"),
    ('dict-ctor/inside-plain-list', 'c = pg.Dict(k=[v])'),
    ('dict-ctor/typed',
     "c = pg.Dict(k=v, value_spec=pg.typing.Dict([('k', pg.typing.Any())]))"),
    ('list-ctor', 'c = pg.List([v])'),
    ('list-ctor/inside-plain-dict', "c = pg.List([{'j': v}])"),
    ('list-ctor/typed',
     'c = pg.List([v], value_spec=pg.typing.List(pg.typing.Any()))'),
    ('object-ctor', 'c = C08A(d=v)'),
    ('object-ctor/inside-plain-list', 'c = C08A(d=[v])'),
    ('functor-ctor', 'c = c08fn(d=v)'),
    ('dict-ctor/two-levels', 'c = pg.Dict(a=pg.List([C08A(d=v)]))'),
    ('dict.setitem', "c = pg.Dict(); c['k'] = v"),
    ('dict.setattr', 'c = pg.Dict(); c.k = v'),
    ('dict.update', 'c = pg.Dict(); c.update(k=v)'),
    ('dict.setdefault', "c = pg.Dict(); c.setdefault('k', v)"),
    ('dict.ior', "c = pg.Dict(); c |= {'k': v}"),
    ('dict.rebind', 'c = pg.Dict(); c.rebind(k=v)'),
    ('list.append', 'c = pg.List(); c.append(v)'),
    ('list.insert', 'c = pg.List([1]); c.insert(0, v)'),
    ('list.extend', 'c = pg.List(); c.extend([v])'),
    ('list.iadd', 'c = pg.List(); c += [v]'),
    ('list.setitem', 'c = pg.List([1]); c[0] = v'),
    ('list.rebind', 'c = pg.List([1]); c.rebind({0: v})'),
    ('object.setattr', 'c = C08A(); c.d = v'),
    ('object.rebind', 'c = C08A(); c.rebind(d=v)'),
    ('functor.rebind', 'c = c08fn(); c.rebind(d=v)'),
    ('pg.patch', "c = pg.Dict(k=1); pg.patch(c, {'k': v})"),
]
COMPOSE_PROBES = {
    # kind: (accessor write, rebind)
    'dict': ("v['zz'] = 1", 'v.rebind(zz=2)'),
    'list': ('v[0] = 7', 'v.rebind({0: 8})'),
    'object': ('v.x = 7', 'v.rebind(x=8)'),
}
COMPOSE_CHECK = """found = v is c or any(x is v for x in c.sym_descendants())
S = lambda: pg.to_json(c)
def outcome(src):
  before = S()
  try:
    exec(src, {'pg': pg, 'v': v})
  except Exception as e:
    return type(e).__name__, S() == before
  return None, S() == before
"""


def drv_composition(tier, seed):
  del tier, seed
  rec = Recorder(
      'C08', 'a sealed / accessor-protected value that becomes a member of a '
      'new parent keeps its protection (flags of the value and of its '
      'descendants; mutators still refused; rebind still works when only the '
      'accessors are off)',
      scope='values: Dict / List / Object / functor with a symbolic '
      'descendant x protection {seal(), ctor sealed=True, '
      'set_accessor_writable(False), ctor accessor_writable=False, only the '
      'descendant sealed} x 28 ways of becoming a member (constructors of '
      'Dict / List / Object / functor, also typed, nested in plain dict/list, '
      'two levels; every inserting mutator of Dict / List / Object; pg.patch); '
      'checked only when the parent holds the very same object')
  ns = {}
  exec(compile(COMPOSE_PRE, '<c08-compose>', 'exec'), ns)  # pylint: disable=exec-used
  for vlabel, kind, vsrc in COMPOSE_VALUES:
    for plabel, templ, sealed, acc_off in COMPOSE_PROTECT:
      if templ is None:
        # only the symbolic descendant of the value is sealed
        desc = {'dict': "v['q']", 'list': 'v[1]', 'object': 'v.d'}[kind]
        vdef = f'v = {vsrc}; t = {desc}; t.seal()'
      else:
        if 'ctor' in plabel and vlabel == 'functor' and 'accessor' in plabel:
          continue  # functors take no accessor_writable keyword
        if 'ctor-accessor' in plabel and kind == 'object':
          continue  # objects take no accessor_writable keyword
        vdef = 'v = ' + templ.format(v=vsrc, v_=vsrc[:-1]) + '; t = v'
      for flabel, fsrc in COMPOSE_FORMS:
        head = f'{COMPOSE_PRE.strip()}\n{vdef}\n{fsrc}\n{COMPOSE_CHECK}'
        env = dict(ns)
        try:
          exec(f'{vdef}\n{fsrc}\n{COMPOSE_CHECK}', env)  # pylint: disable=exec-used
        except Exception as e:  # pylint: disable=broad-except
          # The composition itself is refused / impossible: nothing to check.
          rec.case(f'compose/{flabel}|not-applicable', (vlabel, plabel), True,
                   f'{type(e).__name__}', '', nontrivial=False)
          continue
        if not env['found']:
          # The parent stored a copy: the statement is silent about copies.
          rec.case(f'compose/{flabel}|stored-a-copy', (vlabel, plabel), True,
                   '', '', nontrivial=False)
          continue
        t = env['v'] = env['t']
        head += 'assert found\nv = t\n'
        key = (vlabel, plabel, flabel)
        # One id per constructor / mutator family and kind of protection.
        cid = (f"compose/{flabel.split('/')[0]}|"
               f"{'sealed' if sealed else 'accessor-off'}-member-stays-protected")
        tk = kind_of(t)
        acc, reb = COMPOSE_PROBES[tk]
        if sealed:
          below = [t] + [x for x in t.sym_descendants()
                         if isinstance(x, pg.Symbolic)]
          rec.case(cid, key + ('is_sealed',), all(x.is_sealed for x in below),
                   f'{vdef}; {fsrc}: is_sealed '
                   f'{[(str(x.sym_path), x.is_sealed) for x in below]}',
                   head + 'assert all(x.is_sealed for x in [v] + '
                   '[x for x in v.sym_descendants() '
                   'if isinstance(x, pg.Symbolic)])')
          checks = [(acc, ('WritePermissionError', True)),
                    (reb, ('WritePermissionError', True))]
        else:
          rec.case(cid, key + ('accessor_writable',),
                   t.accessor_writable is False,
                   f'{vdef}; {fsrc}: accessor_writable={t.accessor_writable}',
                   head + 'assert v.accessor_writable is False')
          checks = [(acc, ('WritePermissionError', True)), (reb, (None, False))]
        for probe, want in checks:
          got = env['outcome'](probe)
          rec.case(cid, key + (probe,), got == want,
                   f'{vdef}; {fsrc}; then {probe}: (error, tree unchanged)='
                   f'{got}, want {want}',
                   head + f'got = outcome({probe!r})\n'
                   f'assert got == {want!r}, got')
  return rec.result()


# --------------------------------------------------------------------------
# Driver 9: protection requested when the value is created (constructor
# keywords sealed= / accessor_writable=, class-level defaults
# allow_symbolic_mutation / allow_symbolic_assignment, a flag API called
# right after creation) over the boundary shapes of every container kind:
# no member at all, members that only come from defaults, one member, members
# that are themselves empty containers -- in every spelling of the constructor
# arguments and together with each of the other constructor keywords.  The
# expected protection of every node is taken from the keywords / class
# attributes / flag APIs written in the tree source, never read back from the
# value.
# --------------------------------------------------------------------------

_BND_IN = """def c08_in(scope, make):
  with scope: return make()
"""
PRE['b-plain'] = 'import pyglove as pg\nT = pg.typing\n' + _BND_IN
PRE['b-obj'] = """import pyglove as pg
A = pg.typing.Any
class C08E(pg.Object):
  allow_symbolic_assignment = True
class C08D(pg.Object):
  allow_symbolic_assignment = True
  x: A(default=1); d: A(default=None); l: A(default=None)
class C08M(C08D):
  allow_symbolic_mutation = False
class C08Q(pg.Object):
  x: A(default=1)
class C08R(pg.Object):
  allow_symbolic_assignment = True
  x: A(); y: A(default=1)
@pg.functor()
def c08f0():
  return 1
@pg.functor()
def c08f1(x=1, d=None, l=None):
  return x
""" + _BND_IN
for _k in ('b-plain', 'b-obj'):
  exec(compile(PRE[_k], '<c08-preamble>', 'exec'), _NS)  # pylint: disable=exec-used

_BND_TD = 'value_spec=T.Dict([(T.StrKey(), T.Any())])'
_BND_TDD = ("value_spec=T.Dict([('n', T.Int(default=1)), "
            "('s', T.Dict([('u', T.Int(default=0))])), (T.StrKey(), T.Any())])")
_BND_TL = 'value_spec=T.List(T.Any())'
# (shape class [part of the case id], spelling [key only], preamble,
#  constructor source with `@` standing for the protection keywords,
#  primary?, root only?).  The first spelling of a class is its primary one:
#  it gets every operation under every protection mode; the other spellings
#  and the other constructor keywords get the probe operations.
BND_SHAPES = [
    # pg.Dict
    ('dict-empty', 'no-args', 'b-plain', 'pg.Dict(@)', True, False),
    ('dict-empty', 'mapping', 'b-plain', 'pg.Dict({}, @)', False, False),
    ('dict-empty', 'None', 'b-plain', 'pg.Dict(None, @)', False, False),
    ('dict-empty', 'pairs', 'b-plain', 'pg.Dict([], @)', False, False),
    ('dict-empty', 'pg.Dict', 'b-plain', 'pg.Dict(pg.Dict(), @)', False,
     False),
    ('dict-empty', '+onchange_callback', 'b-plain',
     'pg.Dict(onchange_callback=lambda u: None, @)', False, False),
    ('dict-empty', '+allow_partial', 'b-plain',
     'pg.Dict(allow_partial=True, @)', False, False),
    ('dict-empty', '+root_path', 'b-plain',
     "pg.Dict(root_path=pg.KeyPath('r'), @)", False, True),
    ('dict-empty', 'partial()', 'b-plain', 'pg.Dict.partial(@)', False,
     False),
    ('dict-empty-typed', 'str-key-spec', 'b-plain', f'pg.Dict({_BND_TD}, @)',
     True, False),
    ('dict-empty-typed', 'no-field-spec', 'b-plain',
     'pg.Dict(value_spec=T.Dict(), @)', False, False),
    ('dict-empty-typed', 'mapping', 'b-plain', f'pg.Dict({{}}, {_BND_TD}, @)',
     False, False),
    ('dict-empty-typed', 'partial()-required-field-missing', 'b-plain',
     "pg.Dict.partial({}, T.Dict([('n', T.Int()), (T.StrKey(), T.Any())]), @)",
     False, False),
    ('dict-defaults-only-typed', 'no-args', 'b-plain',
     f'pg.Dict({_BND_TDD}, @)', True, False),
    ('dict-1-member', 'kwarg', 'b-plain', 'pg.Dict(a=1, @)', True, False),
    ('dict-1-member', 'mapping', 'b-plain', "pg.Dict({'a': 1}, @)", False,
     False),
    ('dict-1-member', 'typed', 'b-plain', f'pg.Dict(a=1, {_BND_TD}, @)',
     False, False),
    ('dict-1-member', '+onchange_callback', 'b-plain',
     'pg.Dict(a=1, onchange_callback=lambda u: None, @)', False, False),
    ('dict-2-members', 'kwargs', 'b-plain', 'pg.Dict(a=1, b=2, @)', False,
     False),
    ('dict-of-empty-containers', 'pg-values', 'b-plain',
     'pg.Dict(a=pg.Dict(), b=pg.List(), @)', True, False),
    ('dict-of-empty-containers', 'plain-values', 'b-plain',
     'pg.Dict(a={}, b=[], @)', False, False),
    ('dict-of-empty-containers', 'typed', 'b-plain',
     f'pg.Dict(a={{}}, b=[], {_BND_TD}, @)', False, False),
    # pg.List
    ('list-empty', 'no-args', 'b-plain', 'pg.List(@)', True, False),
    ('list-empty', 'list', 'b-plain', 'pg.List([], @)', False, False),
    ('list-empty', 'tuple', 'b-plain', 'pg.List((), @)', False, False),
    ('list-empty', 'None', 'b-plain', 'pg.List(None, @)', False, False),
    ('list-empty', 'pg.List', 'b-plain', 'pg.List(pg.List(), @)', False,
     False),
    ('list-empty', 'iterator', 'b-plain', 'pg.List(iter([]), @)', False,
     False),
    ('list-empty', '+onchange_callback', 'b-plain',
     'pg.List(onchange_callback=lambda u: None, @)', False, False),
    ('list-empty', '+allow_partial', 'b-plain',
     'pg.List(allow_partial=True, @)', False, False),
    ('list-empty', '+root_path', 'b-plain',
     "pg.List(root_path=pg.KeyPath('r'), @)", False, True),
    ('list-empty', 'partial()', 'b-plain', 'pg.List.partial(@)', False, False),
    ('list-empty-typed', 'list', 'b-plain', f'pg.List([], {_BND_TL}, @)', True,
     False),
    ('list-empty-typed', 'no-args', 'b-plain', f'pg.List({_BND_TL}, @)', False,
     False),
    ('list-1-member', 'list', 'b-plain', 'pg.List([1], @)', True, False),
    ('list-1-member', 'typed', 'b-plain', f'pg.List([1], {_BND_TL}, @)', False,
     False),
    ('list-2-members', 'list', 'b-plain', 'pg.List([3, 1], @)', False, False),
    ('list-of-empty-containers', 'pg-values', 'b-plain',
     'pg.List([pg.Dict(), pg.List()], @)', True, False),
    ('list-of-empty-containers', 'plain-values', 'b-plain',
     'pg.List([{}, []], @)', False, False),
    ('list-of-empty-containers', 'typed', 'b-plain',
     f'pg.List([{{}}, []], {_BND_TL}, @)', False, False),
    # pg.Object / functors
    ('object-no-fields', 'no-args', 'b-obj', 'C08E(@)', True, False),
    ('object-defaults-only', 'no-args', 'b-obj', 'C08D(@)', True, False),
    ('object-defaults-only', 'partial()', 'b-obj', 'C08D.partial(@)', False,
     False),
    ('object-defaults-only', '+allow_partial', 'b-obj',
     'C08D(allow_partial=True, @)', False, False),
    ('object-1-arg', 'kwarg', 'b-obj', 'C08D(x=2, @)', False, False),
    ('object-1-arg', 'positional', 'b-obj', 'C08D(2, @)', False, False),
    ('object-of-empty-containers', 'pg-values', 'b-obj',
     'C08D(d=pg.Dict(), l=pg.List(), @)', True, False),
    ('object-of-empty-containers', 'plain-values', 'b-obj',
     'C08D(d={}, l=[], @)', False, False),
    ('object-class-sealed-by-default', 'no-args', 'b-obj', 'C08M(@)', True,
     False),
    ('object-class-sealed-by-default', 'with-empty-containers', 'b-obj',
     'C08M(d={}, l=[], @)', False, False),
    ('object-class-accessors-off', 'no-args', 'b-obj', 'C08Q(@)', True, False),
    ('object-partial-required-field-missing', 'partial()', 'b-obj',
     'C08R.partial(@)', True, False),
    ('functor-no-args', 'no-args', 'b-obj', 'c08f0(@)', True, False),
    ('functor-defaults-only', 'no-args', 'b-obj', 'c08f1(@)', True, False),
    ('functor-defaults-only', 'partial()', 'b-obj', 'c08f1.partial(@)', False,
     False),
    ('functor-of-empty-containers', 'plain-values', 'b-obj',
     'c08f1(d={}, l=[], @)', False, False),
]

# (mode label, constructor keywords, statements after construction,
#  sealed afterwards {True, False, None: class default},
#  root accessors afterwards {False, None: class default},
#  container kinds only?, main mode?)
BND_MODES = [
    ('default', '', (), None, None, False, True),
    ('sealed=True', 'sealed=True', (), True, None, False, True),
    ('seal()', '', ('root.seal()',), True, None, False, True),
    ('accessor_writable=False', 'accessor_writable=False', (), None, False,
     True, True),
    ('sealed=False', 'sealed=False', (), False, None, False, False),
    ('sealed=True;seal(False)', 'sealed=True', ('root.seal(False)',), False,
     None, False, False),
    ('sym_seal()', '', ('root.sym_seal()',), True, None, False, False),
    ('set_accessor_writable(False)', '',
     ('root.set_accessor_writable(False)',), None, False, False, False),
    ('accessor_writable=True,sealed=False',
     'accessor_writable=True, sealed=False', (), False, True, True, False),
    ('sealed=True,accessor_writable=False', 'sealed=True, '
     'accessor_writable=False', (), True, False, True, False),
    ('sealed=True,accessor_writable=False;seal(False)', 'sealed=True, '
     'accessor_writable=False', ('root.seal(False)',), False, False, True,
     False),
    ('accessor_writable=False;set_accessor_writable(True)',
     'accessor_writable=False', ('root.set_accessor_writable(True)',), None,
     True, True, False),
]
# Creation inside a scope: the scope decides what is permitted while it is
# active; the value that comes out carries the flags its keywords asked for.
# (scope source, keywords, sealed, accessors, container kinds only, scope
#  restricts [creation itself may be refused: then there is no value]).
BND_IN_SCOPE = [
    ('pg.as_sealed(False)', 'sealed=True', True, None, False, False),
    ('pg.as_sealed(False)', '', None, None, False, False),
    ('pg.as_sealed(None)', 'sealed=True', True, None, False, False),
    ('pg.allow_writable_accessors(True)', 'accessor_writable=False', None,
     False, True, False),
    ('pg.allow_writable_accessors(True)', 'sealed=True', True, None, False,
     False),
    ('pg.as_sealed(True)', '', None, None, False, True),
    ('pg.as_sealed(True)', 'sealed=True', True, None, False, True),
    ('pg.as_sealed(True)', 'sealed=False', False, None, False, True),
    ('pg.allow_writable_accessors(False)', '', None, None, False, True),
    ('pg.allow_writable_accessors(False)', 'accessor_writable=True', None,
     True, True, True),
]
BND_STACKS = [((False,), ()), ((True,), ()), ((None,), ()), ((), (True,)),
              ((), (False,)), ((), (None,)), ((False,), (False,)),
              ((True, False), ()), ((), (False, True))]
# Classes whose documented class attributes seal every instance / switch the
# accessors off unless the constructor keyword says otherwise.
_BND_CLASS_SEALED = ('C08M(',)
_BND_CLASS_ACC_OFF = ('C08Q(',)


def _bnd_src(template, kw):
  if kw:
    return template.replace('@', kw)
  return template.replace(', @', '').replace('@', '')


def _bnd_probe_class(name, kind):
  if kind == 'inpl':
    return 'operator'
  return _probe_class(name)


def _bnd_run(rec, tree, cid_base, key, sealed, root_w, setup, root_only, full,
             stack_cfgs, quick):
  """Flag facts and operations on the registered tree `tree`."""
  root = build(tree)
  for ln in setup:
    run_src(ln, root=root)
  head = [pre_of(tree), f'root = {TREES[tree][0]}'] + list(setup)
  if root_only:
    nodes = [('', root)]
    addrs = [(('', ''), kind_of(root))]
  else:
    nodes = sym_nodes(root)
    addrs = addresses(root)
  # Flag facts: sealing is deep, the accessor flag belongs to the value.
  flags_ok = root.accessor_writable is root_w
  for p, n in nodes:
    checks = [(n, (p, ''))]
    if isinstance(n, pg.Object):
      checks.append((n.sym_init_args, (p, 'attrs')))
    for m, a in checks:
      flags_ok = flags_ok and m.is_sealed is sealed
      rec.case(f'{cid_base}/is_sealed-of-every-node', key + (a,),
               m.is_sealed is sealed,
               f'{TREES[tree][0]}; {list(setup)}: is_sealed at {a} is '
               f'{m.is_sealed!r}, want {sealed}',
               '\n'.join(head + [f'm = {node_expr(a)}',
                                 f'assert m.is_sealed is {sealed}']))
  rec.case(f'{cid_base}/accessor_writable-of-the-value', key,
           root.accessor_writable is root_w,
           f'{TREES[tree][0]}; {list(setup)}: accessor_writable is '
           f'{root.accessor_writable!r}, want {root_w}',
           '\n'.join(head + [f'assert root.accessor_writable is {root_w}']))

  def prepare(t):
    for ln in setup:
      run_src(ln, root=t)
  for sstack, astack in stack_cfgs:
    plain = not sstack and not astack
    pool = Pool(tree, prepare if setup else None)
    for addr, k in addrs:
      where = ('' if not addr[0] and not addr[1] else
               '@attr-dict' if addr[1] else '@member')
      if full and plain:
        ops = OPS[k]
      elif plain or where == '' or not quick:
        ops = _ops_named(k, PROBE_ACC[k] + PROBE_OTHER[k])
      else:
        ops = _ops_named(k, PROBE_NEIGHBOUR[k] + PROBE_ACC[k][-1:])
      # The attribute dict of an object and the members are plain containers:
      # their own accessors were never switched off.
      w0 = root_w if where == '' else True
      for name, kind, src in ops:
        if (name == 'object.call/override-args' and
            not effective(sstack, sealed)):
          # A call with call-time overrides is not a mutator (it must leave
          # the value alone, which is checked whenever the value is
          # protected); whether the call itself works on an unprotected
          # functor is not a matter of write protection.
          continue
        r = pool.get()
        cid = f'{cid_base}{where}/{_bnd_probe_class(name, kind)}'
        if not flags_ok:
          # One defect, one id: the flags are already not what the keywords
          # asked for; the operations show the consequence.
          cid = f'{cid_base}/behaviour-with-wrong-flags'
        pool.done(attempt(
            rec, tree, r, list(setup), sstack, astack, addr, kind, cid, src,
            effective(sstack, sealed), effective(astack, w0),
            f'{key} as_sealed{sstack} allow_writable{astack} {name}'))


def drv_ctor_boundary(tier, seed):
  global _REF  # pylint: disable=global-statement
  del seed
  rec = Recorder(
      'C08', 'protection requested at creation time (constructor keywords '
      'sealed= / accessor_writable=, class attributes allow_symbolic_mutation '
      '/ allow_symbolic_assignment, seal() / sym_seal() / '
      'set_accessor_writable() right after creation, creation inside a scope) '
      'on the boundary shapes of every container kind: every mutator at the '
      'value, at its attribute dict and at its members is refused / permitted '
      'as the keywords say; scopes override; unsealing restores',
      scope='shapes: pg.Dict / pg.List with 0 members (9+10 spellings of the '
      'arguments incl. None, {}, [], (), iterator, another empty pg.Dict / '
      'pg.List, partial(), with onchange_callback / allow_partial / '
      'root_path), empty typed, members from defaults only, 1 and 2 members, '
      'members that are empty containers; pg.Object without fields, with '
      'defaulted fields only, partial, sealed by its class, accessors off by '
      'its class, functors without / with defaulted arguments (55 shapes) x '
      '12 protection modes + 10 creations inside a scope x scope stacks; '
      'quick: the full op tables for the primary spelling under the 4 main '
      'modes, 10-12 probe ops (every accessor form, method, operator, rebind) '
      'elsewhere, 2-9 scope stacks; thorough: everything')
  quick = tier == 'quick'
  saved_ref = _REF
  _REF = {}
  try:
    for si, (cls, form, pre, templ, primary, root_only) in enumerate(
        BND_SHAPES):
      container = templ.startswith(('pg.Dict', 'pg.List'))
      class_sealed = any(c in templ for c in _BND_CLASS_SEALED)
      class_acc = not any(c in templ for c in _BND_CLASS_ACC_OFF)
      configs = []
      for (mlabel, kw, setup, s, w, cont_only, main) in BND_MODES:
        if cont_only and not container:
          continue  # objects take no accessor_writable keyword
        if quick and not primary and not main:
          continue
        configs.append((mlabel, _bnd_src(templ, kw), setup, s, w, main, False))
      for (scope, kw, s, w, cont_only, restricts) in BND_IN_SCOPE:
        if cont_only and not container:
          continue
        if quick and not primary and (restricts or not kw):
          continue
        configs.append((
            f'{kw or "default"} created inside a '
            f'{"restricting" if restricts else "permissive"} scope',
            f'c08_in({scope}, lambda: {_bnd_src(templ, kw)})', (), s, w,
            False, restricts))
      for ci, (mlabel, src, setup, s, w, main, restricts) in enumerate(
          configs):
        sealed = class_sealed if s is None else s
        root_w = class_acc if w is None else w
        # One tree name per shape: the reference runs (fully permissive
        # scopes, where per-object flags are irrelevant by the statement) are
        # shared by all protection modes of the shape; the first mode is the
        # unprotected one.
        tree = f'bnd~{si}'
        cid_base = f'ctor[{cls}]{{{mlabel}}}'
        key = (cls, form, mlabel, src if 'c08_in' in src else '')
        TREES[tree] = (src, pre)
        head = f'{PRE[pre].strip()}\nroot = {src}'
        try:
          _TREE_CODE[tree] = compile(src, '<bnd>', 'eval')
          try:
            build(tree)
          except Exception as e:  # pylint: disable=broad-except
            if restricts and isinstance(e, WPE):
              # The restricting scope refused the creation itself: there is
              # no value whose protection could be wrong.
              rec.case(f'{cid_base}|creation-refused-by-scope', key, True, '',
                       '', nontrivial=False)
            else:
              rec.case(f'{cid_base}/creation-fails', key, False,
                       f'{src}: {type(e).__name__}: {e}', head)
            continue
          if quick and not (primary and main):
            # one scope that overrides the protection that is in force
            stack_cfgs = [((), ()), (
                ((False,), ()) if sealed else ((), (True,)) if not root_w
                else ((True,), ()) if (si + ci) % 2 else ((), (False,)))]
          elif quick:
            stack_cfgs = [((), ())] + BND_STACKS[:5] + BND_STACKS[6:7]
          else:
            stack_cfgs = [((), ())] + BND_STACKS
          try:
            _bnd_run(rec, tree, cid_base, key, sealed, root_w, setup,
                     root_only, (primary and main) or not quick, stack_cfgs,
                     quick)
          except Exception as e:  # pylint: disable=broad-except
            rec.case(f'{cid_base}|harness-exception', key, False,
                     f'{type(e).__name__}: {e}: '
                     + traceback.format_exc()[-300:], head)
        finally:
          TREES.pop(tree, None)
          _TREE_CODE.pop(tree, None)
      _REF.clear()
  finally:
    _REF = saved_ref
  return rec.result()


# --------------------------------------------------------------------------
# Driver 10: values the library produces FROM a protected value (clone /
# deep clone / copy.copy / copy.deepcopy / pg.clone / Dict.copy, the implicit
# copy made when a value that already has a parent becomes a member of a
# second parent, values rebuilt from JSON / pickle / List.copy).
#
# Oracle.  The statement: "while a symbolic value is sealed ... every API that
# would change it or any of its descendants raises ... sealing a value seals
# all symbolic descendants".  A copy whose root (or any node N of it) reports
# is_sealed is a sealed value: every symbolic node at/below N -- including the
# members the copy routine re-attaches itself, such as the metadata dict of a
# pg.DNA and the metadata of its child DNAs, and the attribute dict of every
# object -- must be sealed, and every mutating API at each of those nodes must
# be refused with the copy unchanged.  For the copy routines proper (not the
# rebuilt values) the copy of a node that the driver itself sealed (bookkeeping,
# never the flag of the original) must be sealed as well: the copy constructor
# is handed the protection of the original.  The accessor flag is per value:
# pg.Dict / pg.List copies must carry it (constructor keyword), and wherever a
# node of the copy reports accessor_writable == False its accessors must be
# refused while rebind works.
# --------------------------------------------------------------------------

COPY_SRC = """import copy, pickle
def c08_copy(r, seal=(), off=(), at='', how='n.clone()', sc=None):
  for v in [r] + r.sym_descendants(lambda v: isinstance(v, pg.Symbolic)):
    if off == '*' or str(v.sym_path) in off: v.set_accessor_writable(False)
  for p in seal: r.sym_get(p).seal()
  with sc or pg.as_sealed(None):
    return eval(how, {'pg': pg, 'copy': copy, 'pickle': pickle, 'n': r.sym_get(at)})
"""
PRE['dna'] = """import pyglove as pg
def c08_dna():
  d = pg.DNA(None, [pg.DNA(0), pg.DNA(1, [pg.DNA(2)])])
  d.set_metadata('m', pg.Dict(z=1, l=[1]), cloneable=True).set_metadata('nc', 5)
  d.children[0].set_metadata('c', pg.Dict(q=1), cloneable=True)
  d.children[1].children[0].set_metadata('g', [1], cloneable=True)
  return d
"""
exec(compile(PRE['dna'], '<c08-preamble>', 'exec'), _NS)  # pylint: disable=exec-used
for _k in [k for k in PRE if not k.startswith(('p:', 'b-'))]:
  PRE['cp:' + _k] = PRE[_k] + COPY_SRC
exec(compile(COPY_SRC, '<c08-preamble>', 'exec'), _NS)  # pylint: disable=exec-used

COPY_EXTRA_TREES = {
    'cp-dna': ('c08_dna()', 'dna'),
    'cp-dna-in': ('pg.Dict(h=c08_dna(), t=5)', 'dna'),
    'cp-dna-leaf': ("pg.DNA(1, metadata=dict(a=1)).set_metadata("
                    "'k', pg.Dict(z=1), cloneable=True)", 'plain'),
    'cp-hyper': ('pg.Dict(h=pg.oneof([pg.Dict(a=1), pg.List([1])]), '
                 'm=pg.manyof(2, [1, 2, pg.Dict(b=2)]), t=5)', 'plain'),
}
TREES.update(COPY_EXTRA_TREES)
for _k, _v in COPY_EXTRA_TREES.items():
  _TREE_CODE[_k] = compile(_v[0], f'<tree {_k}>', 'eval')

_DNA_STATE = ('[pg.to_json(x) for x in root.sym_descendants('
              'lambda x: isinstance(x, pg.Symbolic), include_self=True)]')

# (source-kind label [case id], tree, protected by its constructor keyword:
#  sealed paths, accessor-off paths)
COPY_SOURCES = (
    [('dict', 'dict', (), ()), ('list', 'list', (), ()),
     ('object', 'obj', (), ()), ('typed-dict', 'spec', (), ())] +
    [(KINDS[t][0], t, (), ()) for t in KIND_TREES] +
    [('dna', 'cp-dna', (), ()), ('dna', 'cp-dna-in', (), ()),
     ('dna', 'cp-dna-leaf', (), ()), ('hyper', 'cp-hyper', (), ()),
     ('dict', 'ctor-sealed', ('',), ()),
     ('typed-dict', 'ctor-sealed-spec', ('',), ()),
     ('object', 'ctor-sealed-obj', ('',), ()),
     ('dict', 'ctor-off', (), ('', 'b', 'c', 't'))])

_APPEND2 = '(lambda c: (c.append(n), c.append(n), c)[-1])(pg.List())'
_SETITEM2 = ("(lambda c: (c.__setitem__('a', n), c.__setitem__('b', n), c)"
             "[-1])(pg.Dict())")
# (label [key], family [case id], expression over `n`, path of the copy in the
#  result, copy routine proper?, node kinds it applies to | None, primary?)
COPY_HOWS = [
    ('clone()', 'shallow-copy', 'n.clone()', '', True, None, True),
    ('sym_clone()', 'shallow-copy', 'n.sym_clone()', '', True, None, False),
    ('copy.copy', 'shallow-copy', 'copy.copy(n)', '', True, None, False),
    ('pg.clone', 'shallow-copy', 'pg.clone(n)', '', True, None, False),
    ('dict.copy()', 'shallow-copy', 'n.copy()', '', True, ('dict',), False),
    ('clone(deep=True)', 'deep-copy', 'n.clone(deep=True)', '', True, None,
     True),
    ('sym_clone(deep=True)', 'deep-copy', 'n.sym_clone(deep=True)', '', True,
     None, False),
    ('copy.deepcopy', 'deep-copy', 'copy.deepcopy(n)', '', True, None, True),
    ('pg.clone(deep=True)', 'deep-copy', 'pg.clone(n, deep=True)', '', True,
     None, False),
    ('clone(deep=True, memo={})', 'deep-copy', 'n.clone(deep=True, memo={})',
     '', True, None, False),
    ('list-ctor', 'implicit-copy-for-second-parent', 'pg.List([n, n])', '[1]',
     True, None, True),
    ('dict-ctor', 'implicit-copy-for-second-parent', 'pg.Dict(a=n, b=n)', 'b',
     True, None, False),
    ('list.append', 'implicit-copy-for-second-parent', _APPEND2, '[1]', True,
     None, False),
    ('dict.setitem', 'implicit-copy-for-second-parent', _SETITEM2, 'b', True,
     None, False),
    ('list.copy()', 'list.copy()', 'n.copy()', '', False, ('list',), False),
    ('from_json(to_json)', 'rebuilt-from-json', 'pg.from_json(pg.to_json(n))',
     '', False, None, False),
    ('pickle', 'rebuilt-by-pickle', 'pickle.loads(pickle.dumps(n))', '', False,
     None, False),
    ('list + []', 'derived-by-operator', 'n + []', '', False, ('list',), False),
    ('list * 1', 'derived-by-operator', 'n * 1', '', False, ('list',), False),
    # "unsealing restores full mutability" holds for a copy, too.
    ('clone().seal(False)', 'copy-then-unseal', 'n.clone().seal(False)', '',
     False, None, False),
    ('clone(deep=True).seal(False)', 'copy-then-unseal',
     'n.clone(deep=True).seal(False)', '', False, None, False),
]
# (scope the copy is made in, restricting?)
COPY_SCOPES = [(None, False), ('pg.as_sealed(False)', False),
               ('pg.as_sealed(True)', True),
               ('pg.allow_writable_accessors(False)', True),
               ('pg.allow_writable_accessors(True)', False),
               ('pg.track_origin(True)', False)]

DNA_OPS = [
    ('dna.set_metadata/new-key', 'meth', "n.set_metadata('zz', 1)"),
    ('dna.set_metadata/cloneable', 'meth',
     "n.set_metadata('zz', 1, cloneable=True)"),
    ('dna.set_metadata/symbolic-value', 'meth',
     "n.set_metadata('zz', pg.Dict(q=1))"),
    ('dna.setattr/value', 'acc', 'n.value = 7'),
    ('dna.setattr/metadata', 'acc', 'n.metadata = pg.Dict(zz=1)'),
    ('dna.delattr/metadata', 'acc', 'del n.metadata'),
    ('dna.rebind/value', 'rebind', 'n.rebind(value=7)'),
    ('dna.rebind/metadata-key', 'rebind', "n.rebind({'metadata.zz': 1})"),
    ('dna.rebind/metadata', 'rebind', 'n.rebind(metadata=pg.Dict(zz=1))'),
    ('dna.rebind/reset-metadata', 'rebind',
     'n.rebind(metadata=pg.MISSING_VALUE)'),
    ('dna.rebind/children', 'rebind', 'n.rebind(children=[pg.DNA(3)])'),
    ('dna.sym_rebind', 'rebind', "n.sym_rebind({'metadata.zz': 1})"),
    ('dna.rebind/fn', 'rebind',
     'n.rebind(lambda k, v: 7 if isinstance(v, int) else v)'),
    ('dna.patch', 'rebind', "pg.patch(n, {'metadata.zz': 1})"),
]
HYPER_OPS = [
    ('object.setattr', 'acc', 'n.candidates = [1, 2]'),
    ('object.delattr', 'acc', 'del n.candidates'),
    ('object.rebind/kwargs', 'rebind', 'n.rebind(candidates=[1, 2])'),
    ('object.rebind/dict', 'rebind', "n.rebind({'candidates[0]': 9})"),
    ('object.sym_rebind', 'rebind', "n.sym_rebind({'candidates[0]': 9})"),
]
COPY_OPS = dict(OPS, dna=DNA_OPS, hyper=HYPER_OPS)
COPY_PROBE = {
    k: tuple(PROBE_ACC[k]) + tuple(PROBE_OTHER[k])
    for k in ('dict', 'list', 'object')}
COPY_PROBE['dna'] = tuple(n_ for n_, _, _ in DNA_OPS if n_ not in (
    'dna.set_metadata/cloneable', 'dna.sym_rebind', 'dna.rebind/fn'))
COPY_PROBE['hyper'] = tuple(n_ for n_, _, _ in HYPER_OPS)
COPY_MIN = {'dict': ('dict.setitem/new', 'dict.rebind/kwargs'),
            'list': ('list.setitem/index', 'list.append'),
            'object': ('object.setattr', 'object.rebind/kwargs'),
            'dna': ('dna.set_metadata/new-key', 'dna.rebind/value'),
            'hyper': ('object.setattr', 'object.rebind/dict')}
COPY_ATTR = {'full': ATTR_DICT_OPS,
             'probe': ('dict.setitem/existing', 'dict.delitem',
                       'dict.update/dict', 'dict.rebind/dict'),
             'min': ('dict.setitem/existing',)}


def _copy_kind(n):
  if isinstance(n, pg.DNA):
    return 'dna'
  if isinstance(n, pg.Object) and not n.sym_hasattr('x'):
    return 'hyper'
  return kind_of(n)


def _copy_ops(k, level, attr_dict):
  if attr_dict:
    names = COPY_ATTR[level]
    table = DICT_OPS
  else:
    table = COPY_OPS[k]
    names = (None if level == 'full' else
             COPY_PROBE[k] if level == 'probe' else COPY_MIN[k])
  seen = set()
  out = []
  for n_, k_, s_ in table:
    if (names is None or n_ in names) and (n_, s_) not in seen:
      seen.add((n_, s_))
      out.append((n_, k_, s_))
  return out


def _copy_probe_class(name, kind):
  if 'set_metadata' in name:
    return 'set_metadata'
  if name.startswith(('pg.patch', 'dna.patch')):
    return 'rebind'
  return _bnd_probe_class(name, kind)


def _copy_where(rel, via, in_dna):
  """Class of a node of the copy from its path `rel` relative to the copy."""
  keys = pg.KeyPath.parse(rel).keys if rel else []
  if in_dna and ('metadata' in keys or 'children' in keys or in_dna == 'root'
                 or (keys and keys[0] == 'h')):
    if 'metadata' in keys:
      # (the metadata of the copied DNA and of its child DNAs are re-attached
      # by the same routine)
      return 'dna-metadata'
    child = any(isinstance(k, int) and i and keys[i - 1] == 'children'
                for i, k in enumerate(keys))
    w = 'child-dna' if child else 'dna'
    if via:
      w += '-attr-dict'
    return w
  if not keys:
    return 'copy-root-attr-dict' if via else 'copy-root'
  return 'member-attr-dict' if via else 'member'


def _join(at, rel):
  if not at:
    return rel[1:] if rel.startswith('.') else rel
  if rel and rel[0] not in '.[':
    return at + '.' + rel
  return at + rel


def _copy_run(rec, ptree, srckind, fam, prefix, at, proper, exp_sealed,
              exp_off, level, cfg, max_permitted=None):
  """Flag facts and operations on every node of the copy held by `ptree`."""
  pool = Pool(ptree)
  root = pool.get()
  head = [pre_of(ptree), f'root = {TREES[ptree][0]}']
  in_dna = srckind.startswith('dna')
  if in_dna and isinstance(resolve(root, (prefix, '')), pg.DNA):
    in_dna = 'root'
  region = [(p, n) for p, n in sym_nodes(root) if is_within(p, prefix)]
  sealed_at = [p for p, n in region if n.is_sealed]
  sealed_at += [p for p, n in region
                if isinstance(n, pg.Object) and n.sym_init_args.is_sealed]

  def obs_sealed(p):
    return any(is_within(p, q) for q in sealed_at)

  def cid_of(rel, via, what):
    return f'copy[{fam}]/{srckind}@{_copy_where(rel, via, in_dna)}/{what}'

  copy_root = resolve(root, (prefix, ''))
  root_ok = True
  wrong = []

  def flag_case(cid, key, ok, msg, wit):
    if not ok:
      wrong.append(cid)
    rec.case(cid, key, ok, msg, wit)
  if proper and exp_sealed(at):
    root_ok = copy_root.is_sealed is True
  addrs = []
  for p, n in region:
    rel = p[len(prefix):]
    orig = _join(at, rel)
    # (the copied value itself was sealed: its copy is sealed as a whole; a
    # seal that only a member of the copied value carried is checked where
    # the copy reports it)
    want_b = proper and root_ok and exp_sealed(at)
    checks = [(n, (p, ''), _copy_kind(n))]
    if isinstance(n, pg.Object):
      checks.append((n.sym_init_args, (p, 'attrs'), 'dict'))
    for m, a, k in checks:
      addrs.append((a, k, rel, want_b))
      above = [q for q in sealed_at if is_within(p, q) and (q != p or a[1])]
      if p == prefix and not a[1]:
        if proper and exp_sealed(at):
          flag_case(cid_of(rel, '', 'is_sealed'), (cfg, a), m.is_sealed is True,
                   f'{cfg}: the copy of a sealed value reports is_sealed='
                   f'{m.is_sealed!r}',
                   '\n'.join(head + [f'assert {node_expr(a)}.is_sealed']))
      elif want_b or above:
        flag_case(cid_of(rel, a[1], 'is_sealed'), (cfg, a), m.is_sealed is True,
                 f'{cfg}: node {a} of the copy reports is_sealed='
                 f'{m.is_sealed!r} below a sealed node (sealed: {sealed_at})',
                 '\n'.join(head + [f'assert {node_expr(a)}.is_sealed']))
      if proper and p == prefix and not a[1] and k in ('dict', 'list'):
        want_w = not exp_off(orig)
        flag_case(cid_of(rel, '', 'accessor_writable'), (cfg, a),
                 m.accessor_writable is want_w,
                 f'{cfg}: node {a} of the copy reports accessor_writable='
                 f'{m.accessor_writable!r}, the original had {want_w}',
                 '\n'.join(head + [
                     f'assert {node_expr(a)}.accessor_writable is {want_w}']))
  unsealed = fam == 'copy-then-unseal'
  if unsealed:
    for a, k, rel, _ in addrs:
      m = resolve(root, a)
      flag_case(cid_of(rel, a[1], 'is_sealed-after-seal(False)'), (cfg, a),
                m.is_sealed is False,
                f'{cfg}: node {a} of the unsealed copy reports is_sealed='
                f'{m.is_sealed!r}',
                '\n'.join(head + [f'assert not {node_expr(a)}.is_sealed']))
  ops = []
  permitted = 0
  # (operations that are expected to go through cost a fresh copy each: the
  # copy root and the re-attached members come first)
  addrs.sort(key=lambda t: (t[0][0] != prefix, 'metadata' not in t[2]))
  for a, k, rel, want_b in addrs:
    s_eff = bool(want_b or obs_sealed(a[0])) and not unsealed
    w_off = not a[1] and not resolve(root, a).accessor_writable
    if not s_eff and not w_off and not (unsealed and not a[1]):
      continue  # an unprotected node of the copy: nothing is claimed here
    for name, kind, src in _copy_ops(k, level, bool(a[1])):
      if not s_eff and (kind != 'acc' or unsealed) and (
          level != 'full' or unsealed) and name not in COPY_MIN[k][
              :1 if unsealed else 2]:
        continue  # accessors off only: one permitted operation per node
      if not s_eff and kind != 'acc' and any(
          is_within(q, a[0]) for q in sealed_at):
        continue  # may reach a sealed node below this unsealed one
      if not s_eff and (kind != 'acc' or unsealed):
        permitted += 1
        if max_permitted is not None and permitted > max_permitted:
          continue
      ops.append((a, kind, cid_of(rel, a[1], _copy_probe_class(name, kind)),
                  src, s_eff))
  if level != 'min':
    for name, a_addr, src, target in ancestor_rebind_ops(root):
      if not (is_within(a_addr[0], prefix) and obs_sealed(a_addr[0])):
        continue
      ops.append((a_addr, 'rebind', cid_of(
          target[len(prefix):], '', 'rebind-through-ancestor'), src, True))
  cache = {}
  for a, kind, cid, src, s_eff in ops:
    if wrong:
      # One defect, one id: the flags of this copy are already not what they
      # must be; the operations show the consequence.
      cid = wrong[0] + '+behaviour'
    r = pool.get()
    node = resolve(r, a)
    pool.done(attempt(rec, ptree, r, [], (), (), a, kind, cid, src, s_eff,
                      node.accessor_writable, cfg, start_sealed=s_eff,
                      snap_cache=cache))


def drv_copies(tier, seed):
  global _REF  # pylint: disable=global-statement
  rec = Recorder(
      'C08', 'values produced from a protected value by the library (clone / '
      'deep clone / copy.copy / copy.deepcopy / pg.clone / Dict.copy, the '
      'implicit copy for a second parent, values rebuilt from JSON / pickle / '
      'List.copy) are protected throughout: below every sealed node of the '
      'copy every symbolic node is sealed -- incl. re-attached members such as '
      'the metadata dict of a pg.DNA and of its child DNAs and the attribute '
      'dict of objects -- and every mutator at each of them is refused; the '
      'copy of a sealed node is sealed; Dict / List copies keep the accessor '
      'flag and refuse accessor writes accordingly',
      scope='sources: 4 base trees, 7 symbolic class kinds, pg.DNA with '
      'cloneable + non-cloneable metadata at 3 levels (alone, inside a '
      'pg.Dict, a leaf DNA), hyper values (oneof / manyof), 4 trees protected '
      'by constructor keywords; protection: seal at the root / at inner nodes, '
      'accessors off at every node, both; copied node: root and inner nodes; '
      '21 copy forms (4 primary ones x 5 scopes around the copy); operations '
      'at every protected node of the copy and its attribute dicts: full op '
      'tables incl. 14 DNA APIs (set_metadata, rebind of value / metadata / '
      'children, pg.patch) for the DNA source under clone() / clone(deep=True)'
      ', 8-12 probes under the other primary forms, 1-2 probes elsewhere '
      '(quick: 2 inner nodes, seeded sample of 2 non-primary forms and 1-2 '
      'scopes per configuration except for the main DNA configuration; '
      'thorough: up to 7 inner nodes, every form, full tables for every form '
      'of the main configuration, probes elsewhere)')
  quick = tier == 'quick'
  r = rng(seed, 'c08-copies')
  saved_ref = _REF
  try:
    for si, (srckind, tree, ctor_seal, ctor_off) in enumerate(COPY_SOURCES):
      prekey = 'cp:' + TREES[tree][1]
      proto = build(tree)
      nodes = sym_nodes(proto)
      paths = [p for p, _ in nodes]
      kinds = dict((p, kind_of(n)) for p, n in nodes)
      init_off = set(p for p, n in nodes if not n.accessor_writable)
      is_dna = srckind.startswith('dna')
      rich = tree == 'cp-dna'
      inner = paths[1:]
      if quick:
        # a node with symbolic members of its own (a child DNA / the object of
        # the kind trees) and the last node
        pick = [p for p in inner if p.endswith(('children[1]', 'h'))][:1]
        inner = sorted(set((pick or inner[:1]) + inner[-1:]), key=paths.index)
      elif len(inner) > 7:
        pick = [p for p in inner if p.endswith(('children[1]', 'metadata'))]
        inner = sorted(set(inner[:2] + inner[-2:] + pick[:3]),
                       key=paths.index)
      # (seal paths, off paths, copied nodes); the first config with its first
      # copied node is the main one.
      if ctor_seal or ctor_off:
        configs = [((), (), [''] + inner[:1])]
      elif quick:
        configs = [(('',), (), [''] + inner[:1]),
                   ((inner[-1],), (), [inner[-1]]),
                   ((inner[0],), (), ['', inner[0]][1 - is_dna:]),
                   ((), tuple(paths), [''])]
      else:
        configs = [(('',), (), [''] + inner)]
        configs += [((q,), (), ['', q]) for q in inner]
        configs += [((), tuple(paths), [''] + inner[:1]),
                    (('',), tuple(paths), [''])]
      plan = []
      for ci, (seal, off, ats) in enumerate(configs):
        for ai, at in enumerate(ats):
          main = ci == 0 and ai == 0
          hows = [h for h in COPY_HOWS
                  if not (h[5] and kinds[at] not in h[5])]
          # classes of the preambles cannot be pickled / rebuilt from JSON
          if not (is_dna or tree in ('dict', 'list', 'cp-hyper')):
            hows = [h for h in hows if h[0] != 'pickle']
          if tree == 'k-wrapper':
            hows = [h for h in hows if h[0] != 'from_json(to_json)']
          prim = [h for h in hows if h[6]]
          unseal = [h for h in hows if h[1] == 'copy-then-unseal']
          if not main or seal != ('',):
            hows = [h for h in hows if h not in unseal]
          if quick and not (main and rich):
            rest = [h for h in hows if not h[6] and h not in unseal]
            if off:
              # (accessor flags: the copy constructors of Dict / List only)
              hows = prim[:2] + r.sample(rest, 1)
            else:
              hows = prim + r.sample(rest, min(1 if ci else 2, len(rest)))
            if main and seal == ('',):
              hows += unseal[:1] if si % 2 else unseal[1:]
          for h in hows:
            plan.append((seal, off, at, h, None, False, main))
          scoped = COPY_SCOPES[1:]
          if not quick or (main and rich):
            pairs = [(h, sc) for h in prim for sc in scoped]
          else:
            k0 = r.randrange(len(scoped))
            pairs = [(h, scoped[(k0 + i) % len(scoped)])
                     for i, h in enumerate(prim[:0 if off else 2 if main
                                                else 1])]
          for h, (scope, restricts) in pairs:
            plan.append((seal, off, at, h, scope, restricts, main))
      for (seal, off, at, how_t, scope, restricts, main) in plan:
        hlabel, fam, how, prefix, proper, _, primary = how_t
        sealed_paths = tuple(seal) + tuple(ctor_seal)
        off_paths = set(off) | set(ctor_off) | init_off

        def exp_sealed(p0, sp_=sealed_paths):
          return any(is_within(p0, q) for q in sp_)

        def exp_off(p0, op_=off_paths):
          return p0 in op_
        args = [TREES[tree][0]]
        if seal:
          args.append(f'seal={seal!r}')
        if off:
          args.append("off='*'")
        if at:
          args.append(f'at={at!r}')
        args.append(f'how={how!r}')
        if scope:
          args.append(f'sc={scope}')
        src = f"c08_copy({', '.join(args)})"
        ptree = f'cp~{si}'
        TREES[ptree] = (src, prekey)
        _TREE_CODE[ptree] = compile(src, '<copy>', 'eval')
        if is_dna:
          _TREE_STATE[ptree] = _DNA_STATE
        _REF = {}
        famtag = fam  # (the scope around the copy is part of the key)
        cfg = (f'{tree} seal={seal} off={"*" if off else ()} '
               f'ctor={ctor_seal}{ctor_off} at={at!r} {hlabel} '
               f'sc={scope}')
        try:
          try:
            build(ptree)
          except Exception as e:  # pylint: disable=broad-except
            na = (not proper) or (restricts and isinstance(e, WPE))
            rec.case(f'copy[{famtag}]/{srckind}/copy-fails', cfg, na,
                     f'{src}: {type(e).__name__}: {e}',
                     f'{PRE[prekey].strip()}\nroot = {src}',
                     nontrivial=not na)
            continue
          if not quick:
            level = ('min' if scope else
                     'full' if main and (is_dna or primary) else 'probe')
          elif main and primary and not scope:
            level = 'full' if rich and hlabel in (
                'clone()', 'clone(deep=True)') else 'probe'
          else:
            level = 'min'
          _copy_run(rec, ptree, srckind, famtag, prefix, at, proper,
                    exp_sealed, exp_off, level, cfg,
                    3 if quick else None)
        except Exception as e:  # pylint: disable=broad-except
          rec.case(f'copy[{famtag}]/{srckind}|harness-exception', cfg,
                   False, f'{type(e).__name__}: {e}: '
                   + traceback.format_exc()[-400:],
                   f'{PRE[prekey].strip()}\nroot = {src}\n'
                   'pg.to_json(root)')
        finally:
          TREES.pop(ptree, None)
          _TREE_CODE.pop(ptree, None)
          _TREE_STATE.pop(ptree, None)
  finally:
    _REF = saved_ref
  return rec.result()


DRIVERS = [drv_sealed_flag, drv_sealed_scopes, drv_accessor,
           drv_seal_histories, drv_symbolic_kinds,
           drv_helpers_and_seal_apis, drv_protection_persists,
           drv_composition, drv_ctor_boundary, drv_copies]


def replay(rec):
  """Re-executes rec['witness']; returns (ok, message)."""
  try:
    exec(rec['witness'], {})  # pylint: disable=exec-used
    return True, 'witness passes'
  except Exception as e:  # pylint: disable=broad-except
    return False, f'{type(e).__name__}: {e}'
