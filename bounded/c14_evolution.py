"""C14 bounded drivers: evolution operators are closed over valid DNA, only
select members, never touch their inputs, are deterministic under a seed, and
compose.

Oracles (from the property statement):
  * validity: an independent re-implementation of "DNA valid for a DNASpec"
    (`violation`), plus spec.validate, on every DNA an operator outputs;
  * alignment: every node of an output DNA carries the very spec node that a
    DNA rebuilt from the raw (value, children) tree gets from `use_spec`, and
    to_numbers()/to_dict() of both agree;
  * selectors: outputs are input members (by identity) in the documented
    number / order;
  * non-interference: pg.to_json, spec binding, metadata and list identity of
    every input before == after;
  * determinism: a fresh operator built with the same seed gives an equal
    output on equal inputs;
  * algebra: composition operators vs a reference interpreter on lists.
"""
import itertools
import math
import random

import pyglove as pg
from pyglove.ext import evolution as ev
from pyglove.ext.evolution import base as ebase
from pyglove.ext.evolution import mutators
from pyglove.ext.evolution import recombinators
from pyglove.ext.evolution import selectors
from pyglove.ext.evolution import where as where_lib
from pyvc.bounded import Recorder, rng, outcome


class Genome(pg.hyper.CustomHyper):
  """Custom decision point: genome 'a'..'e' strings."""

  def custom_decode(self, dna):
    return dna.value

  def custom_encode(self, value):
    return pg.DNA(value)

  def next_dna(self, dna=None):
    if dna is None:
      return pg.DNA('a')
    nxt = chr(ord(dna.value) + 1)
    return pg.DNA(nxt) if nxt <= 'e' else None

  def random_dna(self, random_generator=None, previous_dna=None):
    return pg.DNA((random_generator or random).choice('abcde'))


# ---------------------------------------------------------------------------
# Search spaces (as hyper value sources => DNASpec).
# ---------------------------------------------------------------------------

SPACES = [
    ('one', 'pg.oneof([1, 2, 3])'),
    ('flat', 'pg.Dict(a=pg.oneof([1, 2, 3]), b=pg.oneof([4, 5]), c=pg.oneof([6, 7, 8, 9]))'),
    ('float1', 'pg.floatv(-1.0, 2.0)'),
    ('floats', 'pg.Dict(x=pg.floatv(0.0, 1.0), y=pg.floatv(-1.0, 1.0), z=pg.floatv(5.0, 5.0))'),
    ('multi-Ds', 'pg.manyof(2, [1, 2, 3, 4])'),
    ('multi-DS', 'pg.Dict(m=pg.manyof(2, [1, 2, 3, 4], sorted=True), o=pg.oneof([1, 2]))'),
    ('multi-ds', 'pg.Dict(m=pg.manyof(3, [1, 2, 3], distinct=False), o=pg.oneof([1, 2]))'),
    ('multi-dS', 'pg.manyof(3, [1, 2, 3], distinct=False, sorted=True)'),
    ('multi-full', 'pg.Dict(m=pg.manyof(3, [1, 2, 3], sorted=True), n=pg.manyof(1, [1, 2]))'),
    ('perm', 'pg.Dict(p=pg.permutate([1, 2, 3, 4]), o=pg.oneof([1, 2, 3]))'),
    ('perms', 'pg.Dict(p=pg.permutate([1, 2, 3]), q=pg.permutate([1, 2, 3, 4, 5]), '
     'r=pg.oneof([pg.permutate([7, 8, 9]), 1]))'),
    ('cond', "pg.oneof([pg.oneof([1, 2]), pg.Dict(p=pg.oneof([3, 4]), q=pg.floatv(0.0, 1.0)), 'x'])"),
    ('cond2', "pg.Dict(a=pg.oneof([pg.oneof([pg.oneof([1, 2]), 3]), 4]), "
     "b=pg.oneof([pg.manyof(2, [1, 2, 3]), pg.manyof(2, [1, 2, 3], sorted=True), 5]))"),
    ('multi-cond-Ds', 'pg.manyof(2, [pg.oneof([5, 6]), 7, pg.Dict(u=pg.oneof([1, 2]), w=pg.floatv(0.0, 1.0))])'),
    ('multi-cond-DS', 'pg.manyof(2, [pg.oneof([5, 6]), 7, pg.Dict(u=pg.oneof([1, 2]), w=pg.floatv(0.0, 1.0))], sorted=True)'),
    ('multi-cond-ds', 'pg.manyof(2, [pg.oneof([5, 6]), 7, pg.manyof(2, [1, 2, 3])], distinct=False)'),
    ('multi-cond-dS', 'pg.manyof(3, [pg.oneof([5, 6]), pg.floatv(0.0, 1.0)], distinct=False, sorted=True)'),
    ('custom', 'pg.Dict(g=Genome(), o=pg.oneof([1, 2]))'),
    ('mixed', "pg.Dict(a=pg.oneof([pg.oneof([1, 2]), pg.Dict(p=pg.oneof([3, 4]), q=pg.floatv(0.0, 1.0)), 'x']), "
     'b=pg.manyof(2, [pg.oneof([5, 6]), 7, 8], sorted=True), c=pg.floatv(-1.0, 1.0), '
     'd=pg.permutate([1, 2, 3]), e=pg.manyof(2, [1, 2, 3], distinct=False), g=Genome())'),
]

_SPEC_CACHE = {}


def space(name):
  if name not in _SPEC_CACHE:
    src = dict(SPACES)[name]
    _SPEC_CACHE[name] = pg.dna_spec(eval(src, dict(pg=pg, Genome=Genome)))  # pylint: disable=eval-used
  return _SPEC_CACHE[name]


HDR = ('import pyglove as pg\nfrom pyglove.ext.evolution import mutators, recombinators, selectors, base, where\n'
       'from bounded.c14_evolution import *\n')


def spec_src(name):
  return f'S = space({name!r})  # pg.dna_spec({dict(SPACES)[name]})\n'


# ---------------------------------------------------------------------------
# Raw trees, rebuilding, independent validity check.
# ---------------------------------------------------------------------------


def raw(d):
  return (d.value, tuple(raw(c) for c in d.children))


def from_raw(r):
  return pg.DNA(r[0], [from_raw(c) for c in r[1]])


def dna_src(d):
  """Python source that rebuilds DNA `d` (without spec)."""
  def s(r):
    if not r[1]:
      return f'pg.DNA({r[0]!r})'
    return 'pg.DNA(%r, [%s])' % (r[0], ', '.join(s(c) for c in r[1]))
  return s(raw(d))


def mk(S, d):
  """Fresh DNA equal to d bound to S (for witnesses and determinism runs)."""
  n = from_raw(raw(d))
  n.use_spec(S)
  for k, v in d.metadata.items():
    n.set_metadata(k, v)
  return n


def _skip(spec):
  while spec.is_space and len(spec.elements) == 1:
    spec = spec.elements[0]
  return spec


def violation(r, spec):
  """None if raw tree r is valid for spec, else (class, message)."""
  spec = _skip(spec)
  value, ch = r
  if spec.is_space:
    if value is not None:
      return ('type', f'value {value!r} on a space node')
    if len(ch) != len(spec.elements):
      return ('arity', f'{len(ch)} children for {len(spec.elements)} elements')
    for c, e in zip(ch, spec.elements):
      v = violation(c, e)
      if v:
        return v
    return None
  if spec.is_categorical:
    if spec.num_choices == 1:
      return _choice_violation(r, spec)
    if value is not None:
      return ('type', f'value {value!r} on a multi-choice node')
    if len(ch) != spec.num_choices:
      return ('arity', f'{len(ch)} subchoices for num_choices={spec.num_choices}')
    for c in ch:
      v = _choice_violation(c, spec)
      if v:
        return v
    vals = [c[0] for c in ch]
    if spec.distinct and len(set(vals)) != len(vals):
      return ('not-distinct', f'subchoices {vals} of {spec.id}')
    if spec.sorted and sorted(vals) != vals:
      return ('not-sorted', f'subchoices {vals} of {spec.id}')
    return None
  if spec.is_numerical:
    if type(value) is not float:  # pylint: disable=unidiomatic-typecheck
      return ('type', f'{value!r} for float {spec.id}')
    if not spec.min_value <= value <= spec.max_value:
      return ('float-range', f'{value!r} outside [{spec.min_value}, {spec.max_value}] at {spec.id}')
    if ch:
      return ('arity', 'children below a float')
    return None
  if not isinstance(value, str):
    return ('type', f'{value!r} for custom decision point')
  return None


def _choice_violation(r, spec):
  value, ch = r
  if type(value) is not int:  # pylint: disable=unidiomatic-typecheck
    return ('type', f'choice value {value!r} at {spec.id}')
  if not 0 <= value < len(spec.candidates):
    return ('out-of-range', f'choice {value} of {len(spec.candidates)} at {spec.id}')
  cand = spec.candidates[value]
  n = len(cand.elements)
  if n == 0:
    return ('arity', f'children {ch} below constant candidate') if ch else None
  if n >= 2:
    if len(ch) != n:
      return ('arity', f'{len(ch)} children for {n} elements of candidate')
    for c, e in zip(ch, cand.elements):
      v = violation(c, e)
      if v:
        return v
    return None
  sub = _skip(cand)
  if sub.is_space:          # nested single-element spaces ending in empty space
    return violation((None, ch), sub)
  if sub.is_categorical and sub.num_choices > 1:
    return violation((None, ch), sub)
  if len(ch) != 1:
    return ('arity', f'{len(ch)} children for single decision {sub.id}')
  return violation(ch[0], sub)


def nodes(d):
  yield d
  for c in d.children:
    yield from nodes(c)


def check_child(c, S):
  """Returns None if c is a DNA valid for and aligned with S, else (cls, msg)."""
  if not isinstance(c, pg.DNA):
    return ('type', f'output {c!r} is not a DNA')
  v = violation(raw(c), S)
  if v:
    return ('valid/' + v[0], f'{c!r}: {v[1]}')
  try:
    ok = S.validate(c)
  except Exception as e:  # pylint: disable=broad-except
    ok = f'{type(e).__name__}: {e}'
  if ok is not True:
    return ('valid/spec.validate', f'S.validate({c!r}) -> {ok}')
  if c.spec is None:
    return ('aligned', f'{c!r} is not bound to a DNASpec')
  try:
    rb = from_raw(raw(c))
    rb.use_spec(S)
  except Exception as e:  # pylint: disable=broad-except
    return ('valid/use_spec', f'{c!r}: {type(e).__name__}: {e}')
  for a, b in zip(nodes(c), nodes(rb)):
    if a.spec is not b.spec:
      return ('aligned', f'{c!r}: node {a.sym_path} carries spec '
              f'{getattr(a.spec, "id", None)} instead of {getattr(b.spec, "id", None)}')
  try:
    if c.to_numbers() != rb.to_numbers():
      return ('aligned', f'{c!r}: to_numbers {c.to_numbers()} != rebuilt {rb.to_numbers()}')
    if c.to_dict() != rb.to_dict():
      return ('aligned', f'{c!r}: to_dict {c.to_dict()} != rebuilt {rb.to_dict()}')
    if (c.to_dict(value_type='literal') != rb.to_dict(value_type='literal')):
      return ('aligned', f'{c!r}: literal to_dict differs from rebuilt')
  except Exception as e:  # pylint: disable=broad-except
    return ('aligned', f'{c!r}: to_dict/to_numbers raised {type(e).__name__}: {e}')
  return None


def assert_child(c, S):
  r = check_child(c, S)
  assert r is None, r


class Frozen:
  """Snapshot of an input population."""

  def __init__(self, pop):
    self.pop = pop
    self.items = list(pop)
    self.snap = [self._one(p) for p in pop]

  @staticmethod
  def _one(p):
    if isinstance(p, pg.DNA):
      return (pg.to_json_str(p), id(p.spec), tuple(p.to_numbers()) if p.spec is not None else None,
              [id(n.spec) for n in nodes(p)], id(p.sym_parent))
    return repr(p)

  def diff(self):
    if len(self.pop) != len(self.items) or any(a is not b for a, b in zip(self.pop, self.items)):
      return 'the input list itself was modified'
    for i, (p, s) in enumerate(zip(self.items, self.snap)):
      try:
        now = self._one(p)
      except Exception as e:  # pylint: disable=broad-except
        return f'input #{i} is corrupted: {type(e).__name__}: {e}'
      if now != s:
        what = [n for n, (x, y) in zip(('json', 'spec', 'numbers', 'node specs', 'parent'), zip(now, s)) if x != y]
        return f'input #{i} changed ({", ".join(what)}): {s[0][:150]} -> {now[0][:150]}'
    return None


def assert_unchanged(fn, pop):
  f = Frozen(pop)
  fn(pop)
  d = f.diff()
  assert d is None, d


def dnas_equal(xs, ys):
  if len(xs) != len(ys):
    return False
  for x, y in zip(xs, ys):
    if isinstance(x, pg.DNA) != isinstance(y, pg.DNA):
      return False
    if isinstance(x, pg.DNA):
      if raw(x) != raw(y) or dict(x.metadata) != dict(y.metadata):
        return False
    elif isinstance(x, list):
      if not isinstance(y, list) or not dnas_equal(x, y):
        return False
    elif x != y:
      return False
  return True


def parents_of(name, r, n, exhaustive_cap=0):
  """n random DNAs of a space (+ first / all if small)."""
  S = space(name)
  out = []
  if exhaustive_cap and S.space_size != -1 and S.space_size <= exhaustive_cap:
    out = list(S.iter_dna())
  else:
    out = [S.first_dna()] + [pg.random_dna(S, r) for _ in range(n - 1)]
  return out


def with_fitness(pop, r, multi=False, ties=False):
  for i, d in enumerate(pop):
    f = r.choice([0.0, 1.0, 2.0]) if ties else r.uniform(-1, 1) + i * 1e-3
    ebase.set_fitness(d, (f, r.uniform(0, 1)) if multi else f)
    ebase.set_generation_id(d, i % 3)
    ebase.set_proposal_id(d, i + 1)
  return pop


def pop_src(name, pop, fitness=False):
  lines = [spec_src(name)]
  items = []
  for d in pop:
    s = f'{dna_src(d)}.use_spec(S)'
    if fitness and 'reward' in d.metadata:
      s = f'base.set_fitness({s}, {ebase.get_fitness(d)!r})'
    items.append(s)
  lines.append('pop = [%s]\n' % ',\n       '.join(items))
  return ''.join(lines)
