"""C14 bounded drivers: evolution operators are closed over valid DNA, only
select members, never touch their inputs, are deterministic under a seed, and
compose.

Oracles (from the property statement):
  * validity: an independent re-implementation of "DNA valid for a DNASpec"
    (`violation`), plus spec.validate, on every DNA an operator outputs;
  * alignment: every node of an output DNA carries the very spec node that a
    DNA rebuilt from the raw (value, children) tree gets from `use_spec`, and
    to_numbers()/to_dict() of both agree;
  * selectors: outputs are input members (by identity) in the documented
    number / order;
  * non-interference: pg.to_json, spec binding, metadata and list identity of
    every input before == after;
  * determinism: a fresh operator built with the same seed gives an equal
    output on equal inputs;
  * algebra: composition operators vs a reference interpreter on lists;
  * symbolic routes: an operator whose parameters (seed included) were set
    through rebind / attribute assignment / clone(override) / the path of an
    enclosing composition / a copy behaves like a freshly constructed operator
    with those parameters (drv_symbolic).
"""
import itertools
import math
import random
import re

import pyglove as pg
from pyglove.ext import evolution as ev
from pyglove.ext.evolution import base as ebase
from pyglove.ext.evolution import mutators
from pyglove.ext.evolution import recombinators
from pyglove.ext.evolution import selectors
from pyglove.ext.evolution import where as where_lib
from pyvc.bounded import Recorder, rng, outcome


class Genome(pg.hyper.CustomHyper):
  """Custom decision point: genome 'a'..'e' strings."""

  def custom_decode(self, dna):
    return dna.value

  def custom_encode(self, value):
    return pg.DNA(value)

  def next_dna(self, dna=None):
    if dna is None:
      return pg.DNA('a')
    nxt = chr(ord(dna.value) + 1)
    return pg.DNA(nxt) if nxt <= 'e' else None

  def random_dna(self, random_generator=None, previous_dna=None):
    return pg.DNA((random_generator or random).choice('abcde'))


# ---------------------------------------------------------------------------
# Search spaces (as hyper value sources => DNASpec).
# ---------------------------------------------------------------------------

SPACES = [
    ('one', 'pg.oneof([1, 2, 3])'),
    ('flat', 'pg.Dict(a=pg.oneof([1, 2, 3]), b=pg.oneof([4, 5]), c=pg.oneof([6, 7, 8, 9]))'),
    ('float1', 'pg.floatv(-1.0, 2.0)'),
    ('floats', 'pg.Dict(x=pg.floatv(0.0, 1.0), y=pg.floatv(-1.0, 1.0), z=pg.floatv(5.0, 5.0))'),
    ('multi-Ds', 'pg.manyof(2, [1, 2, 3, 4])'),
    ('multi-DS', 'pg.Dict(m=pg.manyof(2, [1, 2, 3, 4], sorted=True), o=pg.oneof([1, 2]))'),
    ('multi-ds', 'pg.Dict(m=pg.manyof(3, [1, 2, 3], distinct=False), o=pg.oneof([1, 2]))'),
    ('multi-dS', 'pg.manyof(3, [1, 2, 3], distinct=False, sorted=True)'),
    ('multi-full', 'pg.Dict(m=pg.manyof(3, [1, 2, 3], sorted=True), n=pg.manyof(1, [1, 2]))'),
    ('perm', 'pg.Dict(p=pg.permutate([1, 2, 3, 4]), o=pg.oneof([1, 2, 3]))'),
    ('perm6', 'pg.permutate([1, 2, 3, 4, 5, 6])'),
    ('perms', 'pg.Dict(p=pg.permutate([1, 2, 3]), q=pg.permutate([1, 2, 3, 4, 5]), '
     'r=pg.oneof([pg.permutate([7, 8, 9]), 1]))'),
    ('cond', "pg.oneof([pg.oneof([1, 2]), pg.Dict(p=pg.oneof([3, 4]), q=pg.floatv(0.0, 1.0)), 'x'])"),
    ('cond2', "pg.Dict(a=pg.oneof([pg.oneof([pg.oneof([1, 2]), 3]), 4]), "
     "b=pg.oneof([pg.manyof(2, [1, 2, 3]), pg.manyof(2, [1, 2, 3], sorted=True), 5]))"),
    ('multi-cond-Ds', 'pg.manyof(2, [pg.oneof([5, 6]), 7, pg.Dict(u=pg.oneof([1, 2]), w=pg.floatv(0.0, 1.0))])'),
    ('multi-cond-DS', 'pg.manyof(2, [pg.oneof([5, 6]), 7, pg.Dict(u=pg.oneof([1, 2]), w=pg.floatv(0.0, 1.0))], sorted=True)'),
    ('multi-cond-ds', 'pg.manyof(2, [pg.oneof([5, 6]), 7, pg.manyof(2, [1, 2, 3])], distinct=False)'),
    ('multi-cond-dS', 'pg.manyof(3, [pg.oneof([5, 6]), pg.floatv(0.0, 1.0)], distinct=False, sorted=True)'),
    ('custom', 'pg.Dict(g=Genome(), o=pg.oneof([1, 2]))'),
    ('mixed', "pg.Dict(a=pg.oneof([pg.oneof([1, 2]), pg.Dict(p=pg.oneof([3, 4]), q=pg.floatv(0.0, 1.0)), 'x']), "
     'b=pg.manyof(2, [pg.oneof([5, 6]), 7, 8], sorted=True), c=pg.floatv(-1.0, 1.0), '
     'd=pg.permutate([1, 2, 3]), e=pg.manyof(2, [1, 2, 3], distinct=False), g=Genome())'),
]

# Spaces used by single drivers only (not part of the SPACES sweep).
EXTRA_SPACES = [
    ('float-bounds', 'pg.Dict(u=pg.floatv(0.0, 0.1), v=pg.floatv(-0.3, 0.7), z=pg.floatv(5.0, 5.0), '
     't=pg.floatv(-1.1, -0.1))'),
]

_SPEC_CACHE = {}


def space(name):
  if name not in _SPEC_CACHE:
    src = dict(SPACES + EXTRA_SPACES)[name]
    _SPEC_CACHE[name] = pg.dna_spec(eval(src, dict(pg=pg, Genome=Genome)))  # pylint: disable=eval-used
  return _SPEC_CACHE[name]


HDR = ('import pyglove as pg\nfrom pyglove.ext.evolution import mutators, recombinators, selectors, base, where\n'
       'from bounded.c14_evolution import *\n')


def spec_src(name):
  return f'S = space({name!r})  # pg.dna_spec({dict(SPACES + EXTRA_SPACES)[name]})\n'


# ---------------------------------------------------------------------------
# Raw trees, rebuilding, independent validity check.
# ---------------------------------------------------------------------------


def raw(d):
  return (d.value, tuple(raw(c) for c in d.children))


def from_raw(r):
  return pg.DNA(r[0], [from_raw(c) for c in r[1]])


def dna_src(d):
  """Python source that rebuilds DNA `d` (without spec)."""
  def s(r):
    if not r[1]:
      return f'pg.DNA({r[0]!r})'
    return 'pg.DNA(%r, [%s])' % (r[0], ', '.join(s(c) for c in r[1]))
  return s(raw(d))


def mk(S, d):
  """Fresh DNA equal to d bound to S (for witnesses and determinism runs)."""
  n = from_raw(raw(d))
  n.use_spec(S)
  for k, v in d.metadata.items():
    n.set_metadata(k, v)
  return n


def _skip(spec):
  while spec.is_space and len(spec.elements) == 1:
    spec = spec.elements[0]
  return spec


def violation(r, spec):
  """None if raw tree r is valid for spec, else (class, message)."""
  spec = _skip(spec)
  value, ch = r
  if spec.is_space:
    if value is not None:
      return ('type', f'value {value!r} on a space node')
    if len(ch) != len(spec.elements):
      return ('arity', f'{len(ch)} children for {len(spec.elements)} elements')
    for c, e in zip(ch, spec.elements):
      v = violation(c, e)
      if v:
        return v
    return None
  if spec.is_categorical:
    if spec.num_choices == 1:
      return _choice_violation(r, spec)
    if value is not None:
      return ('type', f'value {value!r} on a multi-choice node')
    if len(ch) != spec.num_choices:
      return ('arity', f'{len(ch)} subchoices for num_choices={spec.num_choices}')
    for c in ch:
      v = _choice_violation(c, spec)
      if v:
        return v
    vals = [c[0] for c in ch]
    if spec.distinct and len(set(vals)) != len(vals):
      return ('not-distinct', f'subchoices {vals} of {spec.id}')
    if spec.sorted and sorted(vals) != vals:
      return ('not-sorted', f'subchoices {vals} of {spec.id}')
    return None
  if spec.is_numerical:
    if type(value) is not float:  # pylint: disable=unidiomatic-typecheck
      return ('type', f'{value!r} for float {spec.id}')
    if not spec.min_value <= value <= spec.max_value:
      return ('float-range', f'{value!r} outside [{spec.min_value}, {spec.max_value}] at {spec.id}')
    if ch:
      return ('arity', 'children below a float')
    return None
  if not isinstance(value, str):
    return ('type', f'{value!r} for custom decision point')
  return None


def _choice_violation(r, spec):
  value, ch = r
  if type(value) is not int:  # pylint: disable=unidiomatic-typecheck
    return ('type', f'choice value {value!r} at {spec.id}')
  if not 0 <= value < len(spec.candidates):
    return ('out-of-range', f'choice {value} of {len(spec.candidates)} at {spec.id}')
  cand = spec.candidates[value]
  n = len(cand.elements)
  if n == 0:
    return ('arity', f'children {ch} below constant candidate') if ch else None
  if n >= 2:
    if len(ch) != n:
      return ('arity', f'{len(ch)} children for {n} elements of candidate')
    for c, e in zip(ch, cand.elements):
      v = violation(c, e)
      if v:
        return v
    return None
  sub = _skip(cand)
  if sub.is_space:          # nested single-element spaces ending in empty space
    return violation((None, ch), sub)
  if sub.is_categorical and sub.num_choices > 1:
    return violation((None, ch), sub)
  if len(ch) != 1:
    return ('arity', f'{len(ch)} children for single decision {sub.id}')
  return violation(ch[0], sub)


def nodes(d):
  yield d
  for c in d.children:
    yield from nodes(c)


def check_child(c, S):
  """Returns None if c is a DNA valid for and aligned with S, else (cls, msg)."""
  if not isinstance(c, pg.DNA):
    return ('type', f'output {c!r} is not a DNA')
  v = violation(raw(c), S)
  if v:
    return ('valid/' + v[0], f'{c!r}: {v[1]}')
  try:
    ok = S.validate(c)      # raises on invalid DNA
  except Exception as e:  # pylint: disable=broad-except
    ok = f'{type(e).__name__}: {e}'
  if ok is not None and ok is not True:
    return ('valid/spec.validate', f'S.validate({c!r}) -> {ok}')
  if c.spec is None:
    return ('aligned', f'{c!r} is not bound to a DNASpec')
  try:
    rb = from_raw(raw(c))
    rb.use_spec(S)
  except Exception as e:  # pylint: disable=broad-except
    return ('valid/use_spec', f'{c!r}: {type(e).__name__}: {e}')
  for a, b in zip(nodes(c), nodes(rb)):
    if a.spec is not b.spec:
      return ('aligned', f'{c!r}: node {a.sym_path} carries spec '
              f'{getattr(a.spec, "id", None)} instead of {getattr(b.spec, "id", None)}')
  try:
    if c.to_numbers() != rb.to_numbers():
      return ('aligned', f'{c!r}: to_numbers {c.to_numbers()} != rebuilt {rb.to_numbers()}')
    if c.to_dict() != rb.to_dict():
      return ('aligned', f'{c!r}: to_dict {c.to_dict()} != rebuilt {rb.to_dict()}')
    if (c.to_dict(value_type='literal') != rb.to_dict(value_type='literal')):
      return ('aligned', f'{c!r}: literal to_dict differs from rebuilt')
  except Exception as e:  # pylint: disable=broad-except
    return ('aligned', f'{c!r}: to_dict/to_numbers raised {type(e).__name__}: {e}')
  return None


def assert_child(c, S):
  r = check_child(c, S)
  assert r is None, r


class Frozen:
  """Snapshot of an input population."""

  def __init__(self, pop):
    self.pop = pop
    self.items = list(pop)
    self.snap = [self._one(p) for p in pop]

  @staticmethod
  def _one(p):
    if isinstance(p, pg.DNA):
      return (pg.to_json_str(p), id(p.spec), tuple(p.to_numbers()) if p.spec is not None else None,
              [id(n.spec) for n in nodes(p)], outcome(lambda: p.root is p))
    return repr(p)

  def diff(self):
    if len(self.pop) != len(self.items) or any(a is not b for a, b in zip(self.pop, self.items)):
      return 'the input list itself was modified'
    for i, (p, s) in enumerate(zip(self.items, self.snap)):
      try:
        now = self._one(p)
      except Exception as e:  # pylint: disable=broad-except
        return f'input #{i} is corrupted: {type(e).__name__}: {e}'
      if now != s:
        what = [n for n, (x, y) in zip(('json', 'spec', 'numbers', 'node specs', 'dna.root is dna'), zip(now, s)) if x != y]
        return f'input #{i} changed ({", ".join(what)}): {s[0][:150]} -> {now[0][:150]}'
    return None


def assert_unchanged(fn, pop):
  f = Frozen(pop)
  fn(pop)
  d = f.diff()
  assert d is None, d


def dnas_equal(xs, ys):
  if len(xs) != len(ys):
    return False
  for x, y in zip(xs, ys):
    if isinstance(x, pg.DNA) != isinstance(y, pg.DNA):
      return False
    if isinstance(x, pg.DNA):
      if raw(x) != raw(y) or dict(x.metadata) != dict(y.metadata):
        return False
    elif isinstance(x, list):
      if not isinstance(y, list) or not dnas_equal(x, y):
        return False
    elif x != y:
      return False
  return True


def parents_of(name, r, n, exhaustive_cap=0):
  """n random DNAs of a space (+ first / all if small)."""
  S = space(name)
  out = []
  if exhaustive_cap and S.space_size != -1 and S.space_size <= exhaustive_cap:
    out = list(S.iter_dna())
  else:
    out = [S.first_dna()] + [pg.random_dna(S, r) for _ in range(n - 1)]
  return out


def with_fitness(pop, r, multi=False, ties=False):
  for i, d in enumerate(pop):
    f = r.choice([0.0, 1.0, 2.0]) if ties else r.uniform(-1, 1) + i * 1e-3
    ebase.set_fitness(d, (f, r.uniform(0, 1)) if multi else f)
    ebase.set_generation_id(d, i % 3)
    ebase.set_proposal_id(d, i + 1)
  return pop


def pop_src(name, pop, fitness=False):
  lines = [spec_src(name)]
  items = []
  for d in pop:
    s = f'{dna_src(d)}.use_spec(S)'
    if fitness and 'reward' in d.metadata:
      s = f'base.set_fitness({s}, {ebase.get_fitness(d)!r})'
    items.append(s)
  lines.append('pop = [%s]\n' % ',\n       '.join(items))
  return ''.join(lines)


# ---------------------------------------------------------------------------
# Generic exercise of a DNA operation.
# ---------------------------------------------------------------------------

ENV = dict(pg=pg, mutators=mutators, recombinators=recombinators,
           selectors=selectors, base=ebase, where=where_lib, ev=ev)


def make(op_src):
  return eval(op_src, dict(ENV))  # pylint: disable=eval-used


EXC_CLASSES = [
    ('Total of weights must be greater than zero', 'zero-total-weight'),
    ('division by zero', 'zero-total-weight'),
    ('is not found in the dictionary', 'missing-conditional-decision'),
]


_RANGE_MSG = re.compile(r'be no (?:less|greater) than ([-+0-9.eE]+)\s+Encountered:? ([-+0-9.eE]+)')


def exc_class(e):
  m = _RANGE_MSG.search(str(e))
  if m:
    # A float decision outside its range: by a rounding error, or grossly?
    try:
      bound, got = float(m.group(1).rstrip('.')), float(m.group(2).rstrip('.'))
      if abs(got - bound) <= 1e-9 * max(1.0, abs(bound)):
        return 'float-rounding-escapes-range'
    except ValueError:
      pass
    return 'float-out-of-range'
  for sub, tag in EXC_CLASSES:
    if sub in str(e):
      return tag
  return type(e).__name__


def exercise(rec, opname, op_src, name, pop, *, step=0, seeded=True, key=(),
             allowed=(), min_out=None, max_out=None, fitness=False, family=None):
  """Runs eval(op_src)(pop) and checks closure/alignment/inputs/determinism.

  Returns the outputs (or None if the call raised).
  """
  S = space(name)
  key = (name, op_src, tuple(raw(d) for d in pop), step) + tuple(key)
  wpre = HDR + pop_src(name, pop, fitness) + f'op = {op_src}\n'
  call = f'op(pop, step={step})'
  family = family or opname
  fz = Frozen(pop)
  try:
    op = make(op_src)
    out = op(pop, step=step)
  except allowed:
    rec.case(f'{family}.call', key, True)
    d = fz.diff()
    rec.case(f'{family}.inputs-unchanged', key, d is None, d,
             wpre + f'assert_unchanged(lambda p: outcome(op, p, step={step}), pop)')
    return None
  except Exception as e:  # pylint: disable=broad-except
    tag = exc_class(e)
    fam = family
    if tag in ('zero-total-weight', 'missing-conditional-decision',
               'float-rounding-escapes-range') and (
        'recombinators.' in op_src):
      fam = 'recombinators.PointWise'   # one id per defect, also inside pipelines
    rec.case(f'{fam}.call/{tag}', key, False,
             f'unexpected {type(e).__name__}: {str(e)[:300]}', wpre + call)
    return None
  rec.case(f'{family}.call', key, isinstance(out, list),
           f'output is {type(out).__name__}, not a list', wpre + f'assert isinstance({call}, list)')
  if not isinstance(out, list):
    return None
  first = None
  for c in out:
    first = check_child(c, S)
    if first:
      break
  cid = f'{opname}.{first[0]}' if first else f'{opname}.valid+aligned'
  rec.case(cid, key, first is None, first and first[1],
           wpre + f'for c in {call}:\n  assert_child(c, S)')
  d = fz.diff()
  fam = family
  if d and 'dna.root is dna' in d and ('recombinators.KPoint' in op_src
                                       or 'recombinators.Segmented' in op_src):
    fam = 'recombinators.SegmentWise'   # one id per defect, also inside pipelines
  rec.case(f'{fam}.inputs-unchanged', key, d is None, d,
           wpre + f'assert_unchanged(lambda p: op(p, step={step}), pop)')
  if min_out is not None or max_out is not None:
    lo = 0 if min_out is None else min_out
    hi = 10 ** 9 if max_out is None else max_out
    rec.case(f'{opname}.num-outputs', key, lo <= len(out) <= hi,
             f'{len(out)} outputs, documented range [{lo}, {hi}]',
             wpre + f'assert {lo} <= len({call}) <= {hi}')
  if seeded:
    # (default `where` of permutation recombinators draws the point: more runs)
    n_runs = 5 if ('where=' not in op_src and any(
        c in op_src for c in ('PartiallyMapped(', 'Order(', 'Cycle('))) else 1
    try:
      same, msg = True, ''
      for _ in range(n_runs):
        pop2 = [mk(S, p) for p in pop]
        out2 = make(op_src)(pop2, step=step)
        if not dnas_equal(out, out2):
          same, msg = False, f'{out!r} vs {out2!r}'
          break
    except Exception as e:  # pylint: disable=broad-except
      same, msg = False, f'second run raised {type(e).__name__}: {e}'
    rec.case(f'{family}.deterministic', key, same,
             'fresh operators with the same seed disagree on equal inputs: ' + msg[:300],
             wpre + f'runs = [({op_src})([mk(S, p) for p in pop], step={step}) for _ in range(25)]\n'
             'assert all(dnas_equal(runs[0], r) for r in runs), runs[:3]')
  return out


# ---------------------------------------------------------------------------
# Driver 1: mutators.
# ---------------------------------------------------------------------------

MUT_WHERE = [
    None,
    'lambda d: isinstance(d.spec, pg.geno.Float)',
    'lambda d: isinstance(d.spec, pg.geno.Choices) and d.spec.is_subchoice',
    'lambda d: isinstance(d.spec, pg.geno.Choices) and not d.spec.is_subchoice',
    'lambda d: d.sym_parent is not None',
    'lambda d: isinstance(d.spec, pg.geno.CustomDecisionPoint)',
    'lambda d: d.is_leaf',
]


def drv_mutators(tier, seed):
  random.seed(f'c14/drv_mutators/{seed}')   # code under test falls back to the global RNG
  quick = tier == 'quick'
  rec = Recorder(
      'C14', 'mutators Uniform / Swap: closure, alignment, inputs, determinism',
      scope=f'{len(SPACES)} spaces (flat, float, manyof 4 modes, permutations, '
      'conditional, custom, mixed) x parents (first + random; all if small) x '
      'Uniform/Swap x 7 `where` filters x seeds; chains of 4 successive '
      'mutations; mutate() and __call__ entry points')
  r = rng(seed, 'c14-mut')
  n_par = 3 if quick else 8
  seeds = [seed, seed + 7] if quick else [seed, seed + 7, seed + 13, seed + 101]
  for si, (name, _) in enumerate(SPACES):
    S = space(name)
    pop = parents_of(name, r, n_par, exhaustive_cap=0 if quick else 12)
    for pi, p in enumerate(pop):
      for cls in ('Uniform', 'Swap'):
        for wi, w in enumerate(MUT_WHERE):
          if quick and w is not None and (si + pi + wi) % 3:
            continue
          for s in seeds[: (1 if w is not None else len(seeds))]:
            src = f'mutators.{cls}(' + (f'where={w}, ' if w else '') + f'seed={s})'
            exercise(rec, f'mutators.{cls}', src, name,
                     [p], allowed=(RuntimeError,) if (w and cls == 'Uniform') else (),
                     min_out=1, max_out=1)
    # `where` restricts what may change.
    for p in pop[:2]:
      key = (name, raw(p), 'where')
      wpre = HDR + pop_src(name, [p])
      try:
        c = make(f'mutators.Swap(where=lambda d: False, seed={seed})')([p])[0]
        ok, msg = raw(c) == raw(p), f'{p!r} -> {c!r} although no node is mutable'
      except Exception as e:  # pylint: disable=broad-except
        ok, msg = False, f'{type(e).__name__}: {e}'
      rec.case('mutators.Swap.where-respected', key, ok, msg,
               wpre + f'c = mutators.Swap(where=lambda d: False, seed={seed})(pop)[0]\nassert c == pop[0], c')
      try:
        c = make(f'mutators.Uniform(where={MUT_WHERE[1]}, seed={seed})')([p])[0]
        a, b = p.to_dict(key_type='dna_spec'), c.to_dict(key_type='dna_spec')
        changed = [k for k in set(a) | set(b) if a.get(k) != b.get(k)]
        ok = all(isinstance(k, pg.geno.Float) for k in changed)
        msg = f'{p!r} -> {c!r}: non-float decisions {[str(k.id) for k in changed]} changed'
      except RuntimeError:
        ok, msg = True, ''
      except Exception as e:  # pylint: disable=broad-except
        ok, msg = False, f'{type(e).__name__}: {e}'
      rec.case('mutators.Uniform.where-respected', key, ok, msg,
               wpre + f'c = mutators.Uniform(where={MUT_WHERE[1]}, seed={seed})(pop)[0]\nprint(pop[0], c)')
    # Two parents at once (mutate_list) and the mutate() entry point.
    for cls in ('Uniform', 'Swap'):
      src = f'mutators.{cls}(seed={seed})'
      exercise(rec, f'mutators.{cls}', src, name, pop[:3], min_out=len(pop[:3]),
               max_out=len(pop[:3]))
      for p in pop[:2]:
        fz = Frozen([p])
        key = (name, cls, raw(p), 'mutate()')
        wpre = HDR + pop_src(name, [p]) + f'op = {src}\n'
        try:
          c = make(src).mutate(p)
          res = check_child(c, S)
        except Exception as e:  # pylint: disable=broad-except
          res = ('call', f'{type(e).__name__}: {e}')
        rec.case(f'mutators.{cls}.{res[0]}' if res else f'mutators.{cls}.valid+aligned',
                 key, res is None, res and res[1], wpre + 'assert_child(op.mutate(pop[0]), S)')
        d = fz.diff()
        rec.case(f'mutators.{cls}.inputs-unchanged', key, d is None, d,
                 wpre + 'assert_unchanged(lambda p: op.mutate(p[0]), pop)')
    # Chains: the output of one mutation is the input of the next.
    chains = [('Uniform', 'Uniform', 'Uniform', 'Uniform'),
              ('Swap', 'Uniform', 'Swap', 'Uniform'),
              ('Uniform', 'Swap', 'Swap', 'Uniform')]
    for ci, chain in enumerate(chains):
      for p in pop[: (1 if quick else 3)]:
        cur = [p]
        hist = []
        for k, cls in enumerate(chain):
          src = f'mutators.{cls}(seed={seed + k + ci})'
          hist.append(src)
          # A misaligned (already reported) input must not be blamed on the next op.
          if check_child(cur[0], S) is not None:
            break
          nxt = exercise(rec, f'mutators.{cls}', src, name, cur,
                         seeded=False, key=tuple(hist), min_out=1, max_out=1)
          if not nxt:
            break
          cur = nxt
  return rec.result()


# ---------------------------------------------------------------------------
# Driver 2: recombinators.
# ---------------------------------------------------------------------------

REC_WHERE = [
    None,
    'where.ALL',
    'where.Any(seed={s})',
    'where.Any(k=2, seed={s})',
    'where.Any(k=0)',
    'lambda xs: xs[:1]',
    'lambda xs: xs[1:]',
    'lambda xs: [x for x in xs if isinstance(x, pg.geno.Choices) and x.num_choices > 1]',
    'lambda xs: []',
]

WEIGHTS = [
    'lambda xs: [1.0] * len(xs)',
    'lambda xs: [float(i + 1) for i in range(len(xs))]',
    'lambda xs: [0.0] * (len(xs) - 1) + [2.0]',
    'lambda xs: [3.0] + [0.0] * (len(xs) - 1)',
]


FAMILY = dict(point='PointWise', segment='SegmentWise', perm='Permutation')


def recombinator_sources(s, tier):
  """(class name, source, kind) for every shipped recombinator + parameters."""
  out = []
  for w in REC_WHERE:
    ws = w.format(s=s) if w else None
    wa = f'where={ws}, ' if ws else ''
    out.append(('Uniform', f'recombinators.Uniform({wa}seed={s})', 'point'))
    out.append(('Average', f'recombinators.Average({wa[:-2]})', 'point'))
    for cls in ('PartiallyMapped', 'Order', 'Cycle'):
      out.append((cls, f'recombinators.{cls}({wa}seed={s})', 'perm'))
  for wt in WEIGHTS:
    out.append(('Sample', f'recombinators.Sample({wt}, seed={s})', 'point'))
    out.append(('Sample', f'recombinators.Sample({wt}, where=where.Any(seed={s}), seed={s})', 'point'))
    out.append(('WeightedAverage', f'recombinators.WeightedAverage({wt})', 'point'))
    out.append(('WeightedAverage', f'recombinators.WeightedAverage({wt}, where=lambda xs: xs[:1])', 'point'))
  for k in ('1', '2', '3', '10', 'lambda step: 1 + step % 3'):
    out.append(('KPoint', f'recombinators.KPoint({k}, seed={s})', 'segment'))
  for cp in ('lambda xs: [len(xs) // 2]', 'lambda xs: []', 'lambda xs: list(range(1, len(xs)))',
             'lambda xs: [0]', 'lambda xs: [len(xs)]', 'lambda xs: [1, 1]',
             "lambda xs: [i for i, x in enumerate(xs) if isinstance(x, pg.geno.Float)]"):
    out.append(('Segmented', f'recombinators.Segmented({cp})', 'segment'))
  return out


def drv_recombinators(tier, seed):
  random.seed(f'c14/drv_recombinators/{seed}')   # code under test falls back to the global RNG
  quick = tier == 'quick'
  rec = Recorder(
      'C14', 'recombinators (point-wise, segment-wise, permutation): closure, '
      'alignment, inputs, determinism, number of parents/children',
      scope=f'{len(SPACES)} spaces x parent tuples (1-3 for point-wise, 2 for '
      'segment/permutation, incl. identical parents) x Uniform/Sample/Average/'
      'WeightedAverage/KPoint/Segmented/PartiallyMapped/Order/Cycle x 9 where '
      'filters x 4 weightings x k in {1,2,3,10,f(step)} x 7 cutting functions')
  r = rng(seed, 'c14-rec')
  srcs = recombinator_sources(seed, tier)
  n_groups = 2
  for si, (name, _) in enumerate(SPACES):
    S = space(name)
    base_pop = parents_of(name, r, 6, exhaustive_cap=0)
    groups = []
    for g in range(n_groups):
      a, b, c = r.sample(base_pop, 3)
      groups.append((a, b, c))
    for oi, (cls, src, kind) in enumerate(srcs):
      if quick and (si + oi + seed) % 7:
        continue
      for gi, (a, b, c) in enumerate(groups):
        if quick and gi and (si + oi) % 2:
          continue
        step = gi
        if kind == 'point':
          sets = [[a, b], [a], [a, b, c], [a, mk(S, a)]]
          if quick:
            sets = [sets[(si + oi + gi) % 4], sets[0]] if (si + oi + gi) % 4 else [sets[0]]
          else:
            sets = [sets[0], sets[1 + (si + oi + gi) % 3]]
        else:
          sets = [[a, b]] + ([] if quick and gi else [[b, mk(S, b)]])
        for ps in sets:
          seeded = 'seed=' in src or cls in ('Average', 'WeightedAverage', 'Segmented')
          if kind == 'point':
            lo, hi = 1, len(ps)
          elif kind == 'segment':
            lo, hi = 2, 2
          else:
            lo, hi = 1, None
          exercise(rec, f'recombinators.{cls}', src, name, ps, step=step,
                   seeded=seeded, min_out=lo, max_out=hi,
                   family='recombinators.' + FAMILY[kind])
      # Wrong number of parents for 2-parent recombinators.
      if kind != 'point' and (not quick or (si + oi) % 8 == 0):
        for ps in ([groups[0][0]], list(groups[0])):
          key = (name, src, len(ps))
          o = outcome(lambda: make(src)(ps))
          rec.case(f'recombinators.{FAMILY[kind]}.num-parents', key, o == ('exc', ValueError),
                   f'{len(ps)} parents: expected ValueError, got {o!r}'[:300],
                   HDR + pop_src(name, ps) + f'op = {src}\ntry:\n  op(pop)\nexcept ValueError:\n  pass\nelse:\n  raise AssertionError("accepted")')
  # Permutation kernels (public methods): children are permutations of the
  # parents' items, for every cut.
  for size in (2, 3, 4, 5, 6):
    perms = list(itertools.permutations(range(size)))
    if len(perms) > 24:
      perms = r.sample(perms, 14 if quick else 40)
    for a in perms:
      for b in perms:
        for cls in ('PartiallyMapped', 'Order', 'Cycle'):
          op = getattr(recombinators, cls)(seed=seed)
          cuts = ([(None, None)] if cls == 'Cycle' else
                  [(i, j) for i in range(size) for j in range(i + 1, size + 1) if j - i < size])
          for st, en in cuts:
            key = (cls, a, b, st, en)
            if cls == 'PartiallyMapped':
              call = f'partially_mapped_crossover([{list(a)}, {list(b)}], {st}, {en})'
            elif cls == 'Order':
              call = f'order_crossover([{list(a)}, {list(b)}], {st}, {en})'
            else:
              call = f'cycle_crossover([{list(a)}, {list(b)}])'
            try:
              kids = eval('op.' + call, dict(op=op))  # pylint: disable=eval-used
              ok = (len(kids) == 2 and all(sorted(k) == list(range(size)) for k in kids))
              msg = f'children {kids} of {list(a)} x {list(b)} are not permutations'
            except Exception as e:  # pylint: disable=broad-except
              ok, msg = False, f'{type(e).__name__}: {e}'
            rec.case(f'recombinators.{cls}.kernel-yields-permutations', key, ok, msg,
                     HDR + f'kids = recombinators.{cls}(seed={seed}).{call}\n'
                     f'assert all(sorted(k) == list(range({size})) for k in kids), kids')
  return rec.result()


# ---------------------------------------------------------------------------
# Driver 3: selectors.
# ---------------------------------------------------------------------------


class Item:
  """A non-DNA population member (selectors work on arbitrary items)."""

  def __init__(self, v):
    self.v = v

  def __repr__(self):
    return f'Item({self.v})'


def _nprime(n, size, step):
  if callable(n):
    n = n(step)
  if isinstance(n, float):
    return math.ceil(n * size)
  if n is None:
    return size
  return n


N_VALUES = ['0', '1', '2', '3', '5', '50', 'None', '0.0', '0.5', '0.34', '1.0',
            'lambda step: step % 3', 'lambda step: 0.25 * (step % 5)']


def _ids(xs):
  return [id(x) for x in xs]


def drv_selectors(tier, seed):
  random.seed(f'c14/drv_selectors/{seed}')   # code under test falls back to the global RNG
  quick = tier == 'quick'
  rec = Recorder(
      'C14', 'selectors return only members of the input, in the documented number/order',
      scope='populations of size 0..7 (distinct, tied and equal-valued fitness; DNA and '
      'non-DNA items) x Random(+/-replacement)/Sample/Proportional/Top/Bottom(+cluster,'
      '+key)/First/Last x n in {0,1,2,3,5,50,None,0.0,0.34,0.5,1.0,f(step)} x steps')
  r = rng(seed, 'c14-sel')
  env = dict(ENV)
  names = ['flat', 'mixed', 'multi-Ds']
  sizes = [0, 1, 2, 3, 5, 7]
  for size in sizes:
    for variant in ('distinct', 'ties', 'dups', 'ints'):
      if quick and variant == 'dups' and size % 2:
        continue
      name = names[size % len(names)]
      S = space(name)
      if variant == 'ints':
        pop = [Item(r.randint(0, 5)) for _ in range(size)]
        keyfn, keysrc = (lambda x: x.v), 'lambda x: x.v'
        psrc = f'pop = {pop!r}\n'
      else:
        pop = [pg.random_dna(S, r) for _ in range(size)]
        if variant == 'dups' and size >= 2:
          pop[-1] = mk(S, pop[0])       # equal value, different object
        with_fitness(pop, r, ties=(variant != 'distinct'))
        keyfn, keysrc = ebase.get_fitness, None
        psrc = pop_src(name, pop, fitness=True)
      for n_src in N_VALUES:
        for step in ((0,) if quick else (0, 1, 4)):
          n = eval(n_src)  # pylint: disable=eval-used
          npr = _nprime(n, size, step)
          sel = []
          sel.append(('First', f'selectors.First({n_src})', 'first'))
          sel.append(('Last', f'selectors.Last({n_src})', 'last'))
          sel.append(('Top', f'selectors.Top({n_src}' + (f', key={keysrc}' if keysrc else '') + ')', 'top'))
          sel.append(('Bottom', f'selectors.Bottom({n_src}' + (f', key={keysrc}' if keysrc else '') + ')', 'bottom'))
          sel.append(('Top', f'selectors.Top({n_src}, key={keysrc or "base.get_fitness"}, cluster=True)', 'topc'))
          sel.append(('Bottom', f'selectors.Bottom({n_src}, key={keysrc or "base.get_fitness"}, cluster=True)', 'bottomc'))
          if variant != 'ints':
            sel.append(('Top', f'selectors.Top({n_src}, key=lambda d: -base.get_fitness(d))', 'topneg'))
          sel.append(('Random', f'selectors.Random({n_src}, seed={seed})', 'random'))
          if size:
            sel.append(('Random', f'selectors.Random({n_src}, replacement=True, seed={seed})', 'randomr'))
            sel.append(('Sample', f'selectors.Sample({n_src}, lambda xs: [1.0] * len(xs), seed={seed})', 'sample'))
            sel.append(('Sample', f'selectors.Sample({n_src}, lambda xs: [0.0] * (len(xs) - 1) + [1.0], seed={seed})', 'sample-last'))
            sel.append(('Proportional', f'selectors.Proportional({n_src}, lambda xs: [1.0] * len(xs))', 'prop'))
            sel.append(('Proportional', f'selectors.Proportional({n_src}, lambda xs: [float(i) for i in range(len(xs))])' , 'prop-ramp'))
            sel.append(('Proportional', f'selectors.Proportional({n_src}, lambda xs: [0.0] * (len(xs) - 1) + [0.5])', 'prop-last'))
          for cls, src, kind in sel:
            if kind == 'prop-ramp' and size < 2:
              continue
            key = (variant, size, src, step, tuple(map(repr, pop)))
            wpre = HDR + psrc + f'op = {src}\nout = op(pop, step={step})\n'
            fz = Frozen(pop)
            try:
              out = make(src)(pop, step=step)
            except Exception as e:  # pylint: disable=broad-except
              rec.case(f'selectors.{cls}.call', key, False,
                       f'unexpected {type(e).__name__}: {e}', wpre)
              continue
            ids = set(_ids(pop))
            member = all(id(o) in ids for o in out)
            rec.case(f'selectors.{cls}.members-only', key, member,
                     f'output {out!r} has non-members of the input',
                     wpre + 'assert all(any(o is p for p in pop) for o in out)')
            d = fz.diff()
            rec.case(f'selectors.{cls}.inputs-unchanged', key, d is None, d,
                     wpre + f'assert_unchanged(lambda p: ({src})(p, step={step}), pop)')
            # Documented number / order.
            want_n = None
            want = None
            if kind == 'first':
              want = pop[:npr]
            elif kind == 'last':
              want = pop[len(pop) - min(npr, len(pop)):]
            elif kind in ('top', 'bottom', 'topneg'):
              kf = keyfn if kind != 'topneg' else (lambda d: -ebase.get_fitness(d))
              want = sorted(pop, key=kf, reverse=(kind != 'bottom'))[:npr]
            elif kind in ('topc', 'bottomc'):
              ks = sorted(set(keyfn(x) for x in pop), reverse=(kind == 'topc'))[:npr]
              want = sorted([x for x in pop if keyfn(x) in ks], key=keyfn,
                            reverse=(kind == 'topc'))
            elif kind == 'random':
              want_n = min(npr, size)
              rec.case(f'selectors.{cls}.without-replacement', key,
                       len(set(_ids(out))) == len(out),
                       'an item was selected twice without replacement',
                       wpre + 'assert len(set(map(id, out))) == len(out)')
            elif kind in ('randomr', 'sample', 'prop', 'prop-ramp'):
              want_n = npr
            elif kind in ('sample-last', 'prop-last'):
              want = [pop[-1]] * npr
            if want is not None:
              rec.case(f'selectors.{cls}.documented-output', key, _ids(out) == _ids(want),
                       f'got {out!r}, documented {want!r}'[:500],
                       wpre + f'print(out)  # expected items (by identity): indices '
                       f'{[next(i for i, p in enumerate(pop) if p is w) for w in want]}')
            if want_n is not None:
              rec.case(f'selectors.{cls}.documented-count', key, len(out) == want_n,
                       f'{len(out)} outputs, documented {want_n}',
                       wpre + f'assert len(out) == {want_n}')
            if kind == 'prop-ramp':
              rec.case(f'selectors.{cls}.zero-weight-never-selected', key,
                       all(o is not pop[0] for o in out),
                       'item with weight 0 was selected', wpre + 'assert all(o is not pop[0] for o in out)')
            if 'seed=' in src:
              out2 = make(src)(pop, step=step)
              rec.case(f'selectors.{cls}.deterministic', key, _ids(out) == _ids(out2),
                       'same seed, same input, different selection',
                       wpre + f'assert list(map(id, out)) == list(map(id, ({src})(pop, step={step})))')
  return rec.result()


# ---------------------------------------------------------------------------
# Driver 4: composition algebra vs a reference interpreter (deterministic
# leaves), by identity of the items.
# ---------------------------------------------------------------------------

PREDS = [
    ('lambda xs: len(xs) > 2', lambda xs, step: len(xs) > 2),
    ('lambda xs, step: step % 2 == 0', lambda xs, step: step % 2 == 0),
    ('lambda xs, global_state: True', lambda xs, step: True),
    ('lambda xs: False', lambda xs, step: False),
]
KS = [('0', lambda step: 0), ('1', lambda step: 1), ('2', lambda step: 2), ('3', lambda step: 3),
      ('(lambda step: step % 3)', lambda step: step % 3)]
SLICES = ['0:2', '1:', ':-1', '::2', '::-1', '5:', '-2:', '1:4:2']


def rand_expr(r, depth):
  if depth <= 0 or r.random() < 0.25:
    k = r.choice(['first', 'last', 'top', 'bottom', 'id', 'topc'])
    if k == 'id':
      return ('id',)
    return (k, r.choice([0, 1, 2, 3, 5, 0.5, None]))
  k = r.choice(['pipe', 'cat', 'union', 'inter', 'diff', 'xor', 'rep', 'pow', 'inv',
                'neg', 'slice', 'ift', 'iff', 'prob', 'choice', 'lam', 'cond', 'until',
                'union3', 'inter3', 'gs'])
  a = rand_expr(r, depth - 1)
  if k in ('pipe', 'cat', 'union', 'inter', 'diff', 'xor'):
    return (k, a, rand_expr(r, depth - 1))
  if k in ('union3', 'inter3'):
    return (k, a, rand_expr(r, depth - 1), rand_expr(r, depth - 1))
  if k in ('rep', 'pow'):
    return (k, a, r.randrange(len(KS)))
  if k == 'slice':
    return (k, a, r.choice(SLICES))
  if k in ('ift', 'iff'):
    return (k, a, r.randrange(len(PREDS)))
  if k == 'cond':
    return (k, r.randrange(len(PREDS)), a, rand_expr(r, depth - 1))
  if k == 'prob':
    return (k, a, r.choice([0.0, 1.0]))
  if k == 'choice':
    return (k, [(a, r.choice([0.0, 1.0])), (rand_expr(r, depth - 1), r.choice([0.0, 1.0])),
                (rand_expr(r, depth - 1), 1.0)], r.choice([None, 0, 1, 2]))
  if k == 'until':
    return (k, a, r.choice([1, 2]))
  return (k, a)


def expr_src(e):
  k = e[0]
  n = lambda v: repr(v)
  if k == 'id':
    return 'base.Identity()'
  if k == 'first':
    return f'selectors.First({n(e[1])})'
  if k == 'last':
    return f'selectors.Last({n(e[1])})'
  if k == 'top':
    return f'selectors.Top({n(e[1])})'
  if k == 'bottom':
    return f'selectors.Bottom({n(e[1])})'
  if k == 'topc':
    return f'selectors.Top({n(e[1])}, key=base.get_generation_id, cluster=True)'
  a = expr_src(e[1]) if k not in ('cond', 'choice') else None
  sym = dict(pipe='>>', cat='+', union='|', inter='&', diff='-', xor='^')
  if k in sym:
    return f'({a} {sym[k]} {expr_src(e[2])})'
  if k == 'union3':
    return f'base.Union([{a}, {expr_src(e[2])}, {expr_src(e[3])}])'
  if k == 'inter3':
    return f'base.Intersection([{a}, {expr_src(e[2])}, {expr_src(e[3])}])'
  if k == 'rep':
    return f'({a} * {KS[e[2]][0]})'
  if k == 'pow':
    return f'({a} ** {KS[e[2]][0]})'
  if k == 'inv':
    return f'(~{a})'
  if k == 'neg':
    return f'(-{a})'
  if k == 'slice':
    return f'{a}[{e[2]}]'
  if k == 'ift':
    return f'{a}.if_true({PREDS[e[2]][0]})'
  if k == 'iff':
    return f'{a}.if_false({PREDS[e[2]][0]})'
  if k == 'cond':
    return f'base.Conditional({PREDS[e[1]][0]}, {expr_src(e[2])}, {expr_src(e[3])})'
  if k == 'prob':
    return f'{a}.with_prob({e[2]!r}, seed=1)'
  if k == 'choice':
    ops = ', '.join(f'({expr_src(x)}, {p!r})' for x, p in e[1])
    return f'base.Choice([{ops}], limit={e[2]!r}, seed=1)'
  if k == 'lam':
    return f'({a} >> (lambda xs: xs[::-1]))'
  if k == 'until':
    return f'{a}.until_change({e[2]})'
  if k == 'gs':
    return f"({a}.as_global_state('k') + base.GlobalStateGetter('k') + base.GlobalStateGetter('missing', []))"
  raise AssertionError(k)


_DUP_INTER = [False]


def _isin(x, xs):
  return any(x is y for y in xs)


def expr_ref(e, xs, step):
  """Reference semantics on python lists, items compared by identity."""
  k = e[0]
  if k == 'id':
    return list(xs)
  if k in ('first', 'last', 'top', 'bottom', 'topc'):
    m = _nprime(e[1], len(xs), step)
    if k == 'first':
      return xs[:m]
    if k == 'last':
      return xs[len(xs) - min(m, len(xs)):]
    if k == 'topc':
      ks = sorted(set(ebase.get_generation_id(x) for x in xs), reverse=True)[:m]
      return sorted([x for x in xs if ebase.get_generation_id(x) in ks],
                    key=ebase.get_generation_id, reverse=True)
    return sorted(xs, key=ebase.get_fitness, reverse=(k == 'top'))[:m]
  if k == 'pipe':
    return expr_ref(e[2], expr_ref(e[1], xs, step), step)
  if k == 'cat':
    return expr_ref(e[1], xs, step) + expr_ref(e[2], xs, step)
  if k in ('union', 'union3'):
    out = []
    for sub in e[1:]:
      for x in expr_ref(sub, xs, step):
        if not _isin(x, out):
          out.append(x)
    return out
  if k in ('inter', 'inter3'):
    outs = [expr_ref(sub, xs, step) for sub in e[1:]]
    if any(len(set(_ids(o))) != len(o) for o in outs):
      _DUP_INTER[0] = True
    return [x for x in outs[0] if all(_isin(x, o) for o in outs[1:])]
  if k == 'diff':
    b = expr_ref(e[2], xs, step)
    return [x for x in expr_ref(e[1], xs, step) if not _isin(x, b)]
  if k == 'xor':
    a, b = expr_ref(e[1], xs, step), expr_ref(e[2], xs, step)
    return [x for x in a if not _isin(x, b)] + [x for x in b if not _isin(x, a)]
  if k == 'rep':
    out = []
    for _ in range(KS[e[2]][1](step)):
      out.extend(expr_ref(e[1], xs, step))
    return out
  if k == 'pow':
    for _ in range(KS[e[2]][1](step)):
      xs = expr_ref(e[1], xs, step)
    return list(xs)
  if k in ('inv', 'neg'):
    a = expr_ref(e[1], xs, step)
    return [x for x in xs if not _isin(x, a)]
  if k == 'slice':
    return eval(f'v[{e[2]}]', dict(v=expr_ref(e[1], xs, step)))  # pylint: disable=eval-used
  if k == 'ift':
    return expr_ref(e[1], xs, step) if PREDS[e[2]][1](xs, step) else list(xs)
  if k == 'iff':
    return expr_ref(e[1], xs, step) if not PREDS[e[2]][1](xs, step) else list(xs)
  if k == 'cond':
    return expr_ref(e[2] if PREDS[e[1]][1](xs, step) else e[3], xs, step)
  if k == 'prob':
    return expr_ref(e[1], xs, step) if e[2] == 1.0 else list(xs)
  if k == 'choice':
    done = 0
    for sub, p in e[1]:
      if p == 1.0:
        xs = expr_ref(sub, xs, step)
        done += 1
        if e[2] is not None and done == e[2]:
          break
    return list(xs)
  if k == 'lam':
    return expr_ref(e[1], xs, step)[::-1]
  if k == 'until':
    return expr_ref(e[1], xs, step)
  if k == 'gs':
    return expr_ref(e[1], xs, step)
  raise AssertionError(k)


def expr_kinds(e, out=None):
  out = set() if out is None else out
  if isinstance(e, tuple) and e and isinstance(e[0], str):
    out.add(e[0])
    for x in e[1:]:
      expr_kinds(x, out)
  elif isinstance(e, (list, tuple)):
    for x in e:
      expr_kinds(x, out)
  return out


def has_limit0(e):
  if isinstance(e, tuple) and e and e[0] == 'choice' and e[2] == 0:
    return True
  if isinstance(e, (list, tuple)):
    return any(has_limit0(x) for x in e)
  return False


def drv_algebra(tier, seed):
  random.seed(f'c14/drv_algebra/{seed}')   # code under test falls back to the global RNG
  quick = tier == 'quick'
  rec = Recorder(
      'C14', 'operator composition algebra vs reference interpreter (by identity)',
      scope='all binary/unary compositions over First/Last/Top/Bottom/Identity leaves '
      '(>>, +, |, &, -, ^, *, **, ~, unary -, [], if_true/if_false, Conditional, '
      'with_prob(0|1), Choice(limit), until_change, Lambda, global state) + random '
      'expressions of depth <= 3; populations of 0..6 DNAs with fitness; steps 0..2')
  r = rng(seed, 'c14-alg')
  name = 'flat'
  S = space(name)
  pops = []
  for size in (0, 1, 3, 6):
    pops.append(with_fitness([pg.random_dna(S, r) for _ in range(size)], r))
  exprs = []
  leaves = [('first', 2), ('last', 2), ('top', 3), ('bottom', 1), ('id',), ('first', 0),
            ('top', 0.5), ('last', None), ('topc', 1)]
  for a in leaves:
    for k in ('inv', 'neg', 'lam', 'gs'):
      exprs.append((k, a))
    for ki in range(len(KS)):
      exprs.append(('rep', a, ki))
      exprs.append(('pow', a, ki))
    for sl in SLICES:
      exprs.append(('slice', a, sl))
    for pi in range(len(PREDS)):
      exprs.append(('ift', a, pi))
      exprs.append(('iff', a, pi))
    for p in (0.0, 1.0):
      exprs.append(('prob', a, p))
    exprs.append(('until', a, 2))
    for b in leaves:
      for k in ('pipe', 'cat', 'union', 'inter', 'diff', 'xor'):
        exprs.append((k, a, b))
  for lim in (None, 1, 2, 3):
    exprs.append(('choice', [(('first', 3), 1.0), (('last', 2), 0.0), (('top', 1), 1.0)], lim))
    exprs.append(('choice', [(('last', 3), 1.0), (('bottom', 2), 1.0), (('top', 1), 1.0)], lim))
  exprs.append(('union3', ('first', 1), ('last', 1), ('top', 1)))
  extra = [('inter3', ('first', 3), ('top', 3), ('last', 4)),
           ('inter3', ('id',), ('first', 2), ('bottom', 3)),
           ('inter3', ('top', 4), ('id',), ('last', 2)),
           ('inter', ('first', 2), ('rep', ('id',), 2)),
           ('inter', ('rep', ('first', 2), 2), ('id',)),
           ('inter', ('id',), ('cat', ('first', 2), ('top', 3))),
           ('diff', ('rep', ('id',), 2), ('first', 1)),
           ('xor', ('rep', ('first', 2), 2), ('last', 2)),
           ('union', ('rep', ('first', 2), 2), ('last', 2))]
  if quick:
    r2 = rng(seed, 'c14-alg-pick')
    exprs = [e for e in exprs if r2.random() < 0.35]
  exprs.extend(extra)
  for _ in range(120 if quick else 1500):
    exprs.append(rand_expr(r, r.choice([2, 3])))
  for ei, e in enumerate(exprs):
    if has_limit0(e):
      continue  # Choice(limit=0): "at most 0 operations" is ambiguous in the docs.
    src = expr_src(e)
    kinds = sorted(expr_kinds(e) - {'first', 'last', 'top', 'bottom', 'id', 'topc'})
    tag = kinds[0] if len(kinds) == 1 else ('leaf' if not kinds else 'nested')
    for pi, pop in enumerate(pops):
      if quick and (ei + pi) % 2:
        continue
      step = (ei + pi) % 3
      key = (src, len(pop), step)
      wpre = HDR + pop_src(name, pop, fitness=True) + (
          'for i, d in enumerate(pop): base.set_generation_id(d, i % 3)\n'
          f'op = {src}\nout = op(pop, step={step})\n')
      fz = Frozen(pop)
      _DUP_INTER[0] = False
      try:
        want = expr_ref(e, list(pop), step)
      except IndexError:
        continue
      dup_inter = _DUP_INTER[0]
      try:
        out = make(src)(pop, step=step)
      except Exception as ex:  # pylint: disable=broad-except
        rec.case(f'algebra.{tag}.call', key, False,
                 f'unexpected {type(ex).__name__}: {ex}', wpre)
        continue
      idx = lambda xs: [next((i for i, p in enumerate(pop) if p is x), '?') for x in xs]
      exact = _ids(out) == _ids(want)
      if dup_inter and not exact:
        # How often a repeated item shows up in an intersection is not pinned
        # down by the docs; which items do, is.
        exact = set(_ids(out)) == set(_ids(want))
      rec.case(f'algebra.{tag}.output' if not dup_inter else
               'algebra.inter.output/operand-with-repeated-items', key, exact,
               f'got items {idx(out)}, reference semantics gives {idx(want)}',
               wpre + f'assert [pop.index(x) for x in out] == {idx(want)}, [pop.index(x) for x in out]')
      rec.case(f'algebra.{tag}.members-only', key, all(_isin(o, pop) for o in out),
               'composition of selectors returned a non-member',
               wpre + 'assert all(any(o is p for p in pop) for o in out)')
      d = fz.diff()
      rec.case(f'algebra.{tag}.inputs-unchanged', key, d is None, d,
               wpre + f'assert_unchanged(lambda p: ({src})(p, step={step}), pop)')
  return rec.result()


# ---------------------------------------------------------------------------
# Driver 5: pipelines mixing selectors, recombinators and mutators; shipped
# algorithms (regularized evolution, hill climbing, NSGA-II, NEAT).
# ---------------------------------------------------------------------------

PIPELINES = [
    'selectors.Random(2, seed={s}) >> recombinators.Uniform(seed={s}) >> mutators.Uniform(seed={s})',
    'selectors.Top(2) >> recombinators.KPoint(1, seed={s}) >> mutators.Uniform(seed={s}) ** 2',
    'selectors.Last(3) >> mutators.Uniform(seed={s}) * 2',
    '(selectors.First(2) >> recombinators.Sample(lambda xs: [1.0] * len(xs), seed={s})) + (selectors.Last(1) >> mutators.Uniform(seed={s}))',
    'mutators.Uniform(seed={s}).with_prob(0.5, seed={s})',
    'mutators.Uniform(seed={s}) | mutators.Uniform(seed={s} + 1)',
    '(mutators.Uniform(seed={s}) >> mutators.Uniform(seed={s})) & base.Identity()',
    'base.Identity() - selectors.Top(1) >> mutators.Uniform(seed={s})',
    '~selectors.Bottom(1) >> recombinators.Average()',
    '-selectors.Bottom(2) >> recombinators.WeightedAverage(lambda xs: [float(i + 1) for i in range(len(xs))])',
    'selectors.Top(2) >> recombinators.PartiallyMapped(where=where.ALL, seed={s}) >> mutators.Uniform(seed={s})',
    'selectors.Top(2) >> recombinators.Order(where=where.ALL, seed={s}) >> selectors.First(1) >> mutators.Uniform(seed={s})',
    'selectors.Bottom(2) >> recombinators.Cycle(where=where.ALL, seed={s})',
    'base.Lambda(lambda xs: [[x] for x in xs]).for_each(mutators.Uniform(seed={s})).flatten()',
    'selectors.First(2).for_each(lambda x: [x, x]).flatten() >> mutators.Uniform(seed={s})',
    'mutators.Uniform(seed={s}).until_change(3)',
    'mutators.Uniform(seed={s}).if_true(lambda xs, step: step % 2 == 0)',
    'mutators.Uniform(seed={s}).if_false(lambda xs: len(xs) > 3)',
    'base.Conditional(lambda xs: len(xs) > 1, selectors.First(2) >> recombinators.Uniform(seed={s}), mutators.Uniform(seed={s}))',
    'base.Choice([(mutators.Uniform(seed={s}) ** 3, 0.5), (recombinators.Average(), 0.4)], limit=1, seed={s})',
    "(selectors.Top(2) >> recombinators.Uniform(seed={s})).as_global_state('kids') + base.GlobalStateGetter('kids')",
    "selectors.Top(1).set_global_state('n', 3) >> mutators.Uniform(seed={s})",
    'mutators.Uniform(seed={s}) ** (lambda step: 1 + step % 2)',
    '(selectors.Random(2, seed={s}) >> recombinators.Uniform(seed={s}))[0:1] >> mutators.Uniform(seed={s})',
    'selectors.Top(0.5) ^ selectors.Last(2) >> mutators.Uniform(seed={s})',
    'selectors.Sample(3, lambda xs: [1.0] * len(xs), seed={s}) >> selectors.Proportional(2, lambda xs: [1.0] * len(xs)) >> recombinators.Segmented(lambda xs: [1]) >> mutators.Uniform(seed={s})',
    '(selectors.Top(2) >> recombinators.Uniform(where=where.Any(seed={s}), seed={s})) * 2 >> mutators.Uniform(where=lambda d: d.is_leaf, seed={s})',
]
SWAP_PIPELINES = [
    'selectors.Top(2) >> mutators.Swap(seed={s}) >> mutators.Uniform(seed={s})',
    'mutators.Swap(seed={s}) ** 2',
]


def reward_of(d, multi):
  nums = [x if isinstance(x, (int, float)) else len(x) for x in d.to_numbers()]
  a = float(sum(nums))
  return (a, float(len(nums)) - a * 0.5) if multi else a


def drv_pipelines(tier, seed):
  random.seed(f'c14/drv_pipelines/{seed}')   # code under test falls back to the global RNG
  quick = tier == 'quick'
  rec = Recorder(
      'C14', 'composed pipelines and shipped algorithms keep closure/inputs/determinism',
      scope=f'{len(PIPELINES) + len(SWAP_PIPELINES)} pipelines mixing selectors, recombinators, '
      'mutators via >>, +, |, &, -, ^, *, **, ~, [], with_prob, if_true, for_each, flatten, '
      'until_change, Choice, Conditional, global state x spaces x steps; '
      'regularized_evolution / hill_climb / nsga2 / neat propose-feedback loops')
  r = rng(seed, 'c14-pipe')
  names = [n for n, _ in SPACES if n not in ('one', 'float1')]
  for si, name in enumerate(names):
    S = space(name)
    pop = with_fitness([pg.random_dna(S, r) for _ in range(4)], r)
    for pi, tmpl in enumerate(PIPELINES + SWAP_PIPELINES):
      if quick and (si + pi + seed) % 5:
        continue
      src = tmpl.format(s=seed)
      for step in ((si + pi) % 2,) if quick else (0, 1):
        opname = 'mutators.Swap' if 'Swap' in src else 'pipeline'
        exercise(rec, opname, src, name, pop, step=step, seeded=True, fitness=True)
  # Shipped algorithms.
  algos = [
      ('regularized_evolution', 'ev.regularized_evolution(mutators.Uniform(seed={s}), population_size=4, tournament_size=2, seed={s})', False),
      ('hill_climb', 'ev.hill_climb(mutators.Uniform(seed={s}), batch_size=2, init_population_size=2, seed={s})', False),
      ('nsga2', 'ev.nsga2(mutators.Uniform(seed={s}), population_size=3, seed={s})', True),
      ('neat', 'ev.neat(mutators.Uniform(seed={s}), population_size=6, seed={s})', False),
      # Reproduction that hands back population members themselves.
      ('evolution-selector-only', 'ev.Evolution(selectors.Top(1) + selectors.Random(1, seed={s}), '
       'population_init=(pg.geno.Random(seed={s}), 3), population_update=selectors.Last(5))', False),
      ('evolution-recombine', 'ev.Evolution(selectors.Random(2, seed={s}) >> recombinators.Uniform(seed={s}) '
       '>> mutators.Uniform(seed={s}).with_prob(0.5, seed={s}), '
       'population_init=(pg.geno.Random(seed={s}), 4), population_update=selectors.Top(4))', False),
  ]
  n_steps = 14 if quick else 40
  for si, name in enumerate(names):
    if quick and si % 3 != seed % 3:
      continue
    S = space(name)
    for aname, tmpl, multi in algos:
      src = tmpl.format(s=seed)
      key = (aname, name)
      wit = (HDR + spec_src(name) + f'algo = {src}\nalgo.setup(S)\nfor i in range({n_steps}):\n'
             '  before = [pg.to_json_str(p) for p in algo.population]\n'
             f'  d = algo.propose(); assert_child(d, S)\n'
             '  assert before == [pg.to_json_str(p) for p in algo.population] and all(d is not p for p in algo.population)\n'
             f'  algo.feedback(d, reward_of(d, {multi}))\n'
             'for p in algo.population: assert_child(p, S)')
      runs = []
      bad = None
      try:
        for _ in range(2):
          algo = make(src)
          algo.setup(S)
          seq = []
          for i in range(n_steps):
            members = list(algo.population)
            before = [pg.to_json_str(p) for p in members]
            d = algo.propose()
            if bad is None and (any(d is p for p in members)
                                or [pg.to_json_str(p) for p in members] != before):
              bad = ('population-untouched-by-propose',
                     f'proposal #{i} is/modified a member of the population')
            if bad is None:
              c = check_child(d, S)
              if c:
                bad = (c[0], f'proposal #{i}: {c[1]}')
            seq.append(raw(d))
            algo.feedback(d, reward_of(d, multi))
          for p in algo.population:
            if bad is None:
              c = check_child(p, S)
              if c:
                bad = (c[0], f'population member: {c[1]}')
          runs.append(seq)
      except Exception as e:  # pylint: disable=broad-except
        rec.case(f'algorithm.{aname}.call/{exc_class(e)}', key, False,
                 f'unexpected {type(e).__name__}: {str(e)[:300]}', wit)
        continue
      rec.case(f'algorithm.{aname}.{bad[0]}' if bad else f'algorithm.{aname}.valid+aligned',
               key, bad is None, bad and bad[1], wit)
      rec.case(f'algorithm.{aname}.deterministic', key, runs[0] == runs[1],
               'two runs with the same seeds proposed different DNAs',
               wit + '\n# run twice and compare the proposal sequences')
  # NSGA-II helpers are permutations of their input.
  nsga2_lib = ev.nsga2_lib
  for size in (0, 1, 2, 5, 9):
    for rep in range(2 if quick else 6):
      S = space('flat')
      pop = with_fitness([pg.random_dna(S, r) for _ in range(size)], r, multi=True,
                         ties=bool(rep % 2))
      fz = Frozen(pop)
      key = (size, rep, tuple(ebase.get_fitness(p) for p in pop))
      wpre = (HDR + 'nsga2 = ev.nsga2_lib\n' + pop_src('flat', pop, fitness=True))
      try:
        fronts = nsga2_lib.nondominated_sort()(pop)
        flat = [x for f in fronts for x in f]
        ok = sorted(_ids(flat)) == sorted(_ids(pop))
        # Pareto property: nobody in front k is dominated by a member of front >= k.
        dom = nsga2_lib.dominates
        for fi, f in enumerate(fronts):
          for x in f:
            for g in fronts[fi:]:
              for y in g:
                if dom(ebase.get_fitness(y), ebase.get_fitness(x)):
                  ok = False
        msg = f'fronts {[[pop.index(x) for x in f] for f in fronts]}'
      except Exception as e:  # pylint: disable=broad-except
        ok, msg = False, f'{type(e).__name__}: {e}'
      rec.case('nsga2.nondominated_sort.partition-of-input', key, ok, msg,
               wpre + 'fronts = nsga2.nondominated_sort()(pop)\n'
               'assert sorted(id(x) for f in fronts for x in f) == sorted(map(id, pop))')
      try:
        out = nsga2_lib.crowding_distance_sort()(list(pop))
        ok = sorted(_ids(out)) == sorted(_ids(pop))
        msg = f'{len(out)} items out for {len(pop)} in'
      except Exception as e:  # pylint: disable=broad-except
        ok, msg = False, f'{type(e).__name__}: {e}'
      rec.case('nsga2.crowding_distance_sort.permutation-of-input', key, ok, msg,
               wpre + 'out = nsga2.crowding_distance_sort()(list(pop))\n'
               'assert sorted(map(id, out)) == sorted(map(id, pop))')
      d = fz.diff()
      rec.case('nsga2.sorts.inputs-unchanged', key, d is None, d, wpre)
  return rec.result()


def _flatten_ref(lst, max_level, level=0):
  out = []
  for e in lst:
    if isinstance(e, list) and (max_level is None or level < max_level):
      out.extend(_flatten_ref(e, max_level, level + 1))
    else:
      out.append(e)
  return out


def drv_flatten_foreach(tier, seed):
  random.seed(f'c14/drv_flatten_foreach/{seed}')   # code under test falls back to the global RNG
  del tier
  rec = Recorder(
      'C14', 'Flatten / ElementWise (for_each) vs reference on nested lists',
      scope='nested item lists of depth <= 3; max_level in {None, 1, 2, 3}; '
      'for_each with selectors on groups')
  r = rng(seed, 'c14-flat')
  S = space('flat')
  pop = with_fitness([pg.random_dna(S, r) for _ in range(6)], r)
  a, b, c, d, e, f = pop
  shapes = [[], [a], [[a, b], [c]], [[a, [b, [c]]], d], [[[a]], [[b], c], [], e], [[], [[]]],
            [a, [b], [[c]], [[[d]]]]]
  idx = lambda xs: [(_flat_idx(x, pop)) for x in xs]
  for si, shape in enumerate(shapes):
    for ml in (None, 1, 2, 3):
      want = _flatten_ref(shape, ml)
      key = (si, ml)
      wit = HDR + pop_src('flat', pop) + f'# nested shape #{si}, max_level={ml}'
      try:
        got = ebase.Flatten(ml)(shape)
        ok = _same_nested(got, want)
        msg = f'got {idx(got)}, reference {idx(want)}'
      except Exception as ex:  # pylint: disable=broad-except
        ok, msg = False, f'{type(ex).__name__}: {ex}'
      rec.case('algebra.flatten.output', key, ok, msg, wit)
  groups = 'base.Lambda(lambda xs: [xs[:2], xs[2:5], xs[5:]])'
  for sel, fn in (('selectors.Top(1)', lambda g: sorted(g, key=ebase.get_fitness, reverse=True)[:1]),
                  ('selectors.Last(2)', lambda g: g[len(g) - min(2, len(g)):]),
                  ('base.Identity()', lambda g: list(g))):
    src = f'{groups}.for_each({sel})'
    want = [fn(g) for g in (pop[:2], pop[2:5], pop[5:])]
    fz = Frozen(pop)
    try:
      got = make(src)(pop)
      ok = _same_nested(got, want)
      got2 = make(src + '.flatten()')(pop)
      ok = ok and _same_nested(got2, [x for g in want for x in g])
      msg = f'got {idx(got)}'
    except Exception as ex:  # pylint: disable=broad-except
      ok, msg = False, f'{type(ex).__name__}: {ex}'
    rec.case('algebra.for_each.output', src, ok, msg,
             HDR + pop_src('flat', pop, fitness=True) + f'print(({src})(pop))')
    dd = fz.diff()
    rec.case('algebra.for_each.inputs-unchanged', src, dd is None, dd, HDR + pop_src('flat', pop, fitness=True))
  return rec.result()


def _flat_idx(x, pop):
  if isinstance(x, list):
    return [_flat_idx(y, pop) for y in x]
  return next((i for i, p in enumerate(pop) if p is x), '?')


def _same_nested(a, b):
  if isinstance(a, list) != isinstance(b, list):
    return False
  if isinstance(a, list):
    return len(a) == len(b) and all(_same_nested(x, y) for x, y in zip(a, b))
  return a is b


# ---------------------------------------------------------------------------
# Driver 7: weight-driven operators (selectors Proportional / Sample,
# recombinators Sample / WeightedAverage) over the space of weight vectors.
#
# Oracles (statement: "every selector returns only members of its input
# population, in the documented number"; documentation of the selectors:
# `n` items are output, Proportional selects "proportional to the input
# weights", Sample samples "from a weighting function"):
#   * number of outputs == n' (int n; ceil(n * len) for float n; len for None);
#   * members only, inputs untouched, pure/seeded determinism;
#   * an item of weight 0 is never output;
#   * Proportional: if every quota n * w_i / sum(w) is an integer the item
#     counts are exactly the quotas, and a heavier item never gets fewer
#     copies than a lighter one;
#   * compositions of a weighted selector equal the composition of the
#     reference list operation with the selector's own output.
# ---------------------------------------------------------------------------

W_PALETTE = [0.0, 0.01, 0.35, 0.5, 1.0, 2.0, 3.0, 10.0]


def weight_vectors(r, size, quick):
  """(family, weights) for populations of `size`: structured + palette."""
  out = []
  add = lambda fam, w: out.append((fam, [float(x) for x in w]))
  add('uniform', [1.0] * size)
  add('uniform-small', [0.125] * size)
  if size >= 2:
    add('ramp', range(1, size + 1))
    add('ramp-desc', range(size, 0, -1))
    add('ramp-from-0', range(size))
    add('geometric', [2.0 ** -i for i in range(size)])
    add('huge-ratio', [1e-9] + [1e9] * (size - 1))
    for pos in range(size):
      add('single-nonzero', [0.0] * pos + [2.5] + [0.0] * (size - pos - 1))
      # One item much lighter than the (equal) rest: its quota rounds to 0
      # while the others' quotas may all round up.
      for tiny, big in ((0.01, 0.35), (0.05, 1.0), (1.0, 40.0)):
        add('one-light-rest-equal', [big] * pos + [tiny] + [big] * (size - pos - 1))
      add('one-heavy-rest-equal', [1.0] * pos + [7.0] + [1.0] * (size - pos - 1))
      add('one-zero-rest-equal', [1.0] * pos + [0.0] + [1.0] * (size - pos - 1))
  if size >= 3:
    add('two-light-rest-equal', [0.02, 0.01] + [0.6] * (size - 2))
    add('light-zero-rest-equal', [0.0, 0.01] + [0.35] * (size - 2))
    add('alternating-zero', [float(i % 2) for i in range(size)])
    add('two-levels', [1.0 if i % 2 else 3.0 for i in range(size)])
  # Palette: exhaustive when small, random otherwise.
  limit = 3 if quick else 4
  if size <= limit:
    for w in itertools.product(W_PALETTE, repeat=size):
      add('palette', w)
  else:
    for _ in range(60 if quick else 600):
      add('palette', [r.choice(W_PALETTE) for _ in range(size)])
  for _ in range(10 if quick else 100):
    add('random-float', [r.random() for _ in range(size)])
    add('random-int', [r.randint(0, 4) for _ in range(size)])
  return [(f, w) for f, w in out if sum(w) > 0.0]


def rounding_class(w, n):
  """Input class of (weights, n): do the half-up rounded quotas add up to n?"""
  total = sum(w)
  s = sum(math.floor(n * x / total + 0.5) for x in w)
  return 'rounding-over' if s > n else ('rounding-under' if s < n else 'rounding-exact')


def integral_quotas(w, n):
  """Quotas n * w_i / sum(w) as exact integers, or None."""
  from fractions import Fraction  # pylint: disable=g-import-not-at-top
  fw = [Fraction(x) for x in w]
  total = sum(fw)
  qs = [n * x / total for x in fw]
  if all(q.denominator == 1 for q in qs):
    return [int(q) for q in qs]
  return None


W_SIGNATURES = [
    ('xs', 'lambda xs: {w}'),
    ('xs,step', 'lambda xs, step: {w}'),
    ('xs,global_state', 'lambda xs, global_state: {w}'),
    ('xs,global_state,step', 'lambda xs, global_state, step: {w}'),
    ('by-attribute', 'lambda xs: [x.w for x in xs]'),
]


class WItem(Item):
  """Population member carrying its own weight."""

  def __init__(self, v, w):
    super().__init__(v)
    self.w = w

  def __repr__(self):
    return f'WItem({self.v}, {self.w!r})'


def _n_values(r, size, quick):
  """(source of n, step) pairs; `lambda step: step` sweeps integer n cheaply."""
  ints = list(range(0, 3 * size + 3))
  if quick and size > 4:
    ints = ints[:2 * size + 2] + sorted(r.sample(ints[2 * size + 2:], 3))
  sweep = [('(lambda step: step)', n) for n in ints]
  lit = [(repr(n), 0) for n in ints] + [('50', 0)]
  other = [(s, 0) for s in ('None', '0.0', '0.25', '0.34', '0.5', '0.75', '1.0')]
  other += [(f'(lambda step: step * {size} + 1)', st) for st in (1, 2)]
  other += [('(lambda step: 0.25 * (step % 5))', st) for st in (1, 2, 3)]
  return sweep, lit, other


def drv_weighted(tier, seed):
  random.seed(f'c14/drv_weighted/{seed}')   # code under test falls back to the global RNG
  quick = tier == 'quick'
  rec = Recorder(
      'C14', 'weight-driven operators over the space of weight vectors: documented '
      'number, members only, zero weight never chosen, proportionality, closure',
      scope='selectors Proportional/Sample on populations of 1..8 items (non-DNA and DNA '
      'with fitness as weight) x weight vectors (uniform, ramps, geometric, single non-zero, '
      'one light/heavy/zero item at every position, two levels, 1e18 ratio; palette '
      '{0,.01,.35,.5,1,2,3,10}^size exhaustive for size<=3, random above; random floats/ints) '
      'x n in 0..3*size+2 (literal and scheduled), 50, fractions, None x 5 signatures of the '
      'weights callable; compositions (>>, +, *, [], ~) of a weighted selector; recombinators '
      'Sample/Average/WeightedAverage x weight vectors x 2-4 parents, incl. all parents on a '
      'bound of a float range')
  r = rng(seed, 'c14-weighted')
  sizes = [1, 2, 3, 4, 5, 6, 8]

  def case(cid, key, ok, msg='', wit=''):
    # (messages and witnesses are only built for failing cases)
    if ok:
      rec.case(cid, key, True)
    else:
      rec.case(cid, key, False, msg() if callable(msg) else msg, wit() if callable(wit) else wit)

  flat = space('flat')
  for size in sizes:
    vecs = weight_vectors(r, size, quick)
    sweep, lit, other = _n_values(r, size, quick)
    for vi, (fam, w) in enumerate(vecs):
      # Structured families get every integer n; palette/random vectors a sample.
      if fam in ('palette', 'random-float', 'random-int'):
        nvals = r.sample(sweep, min(3 if quick else 10, len(sweep)))
        nvals += [r.choice(lit + other)] if quick else r.sample(lit + other, 5)
      else:
        nvals = sweep + r.sample(lit, 2 if quick else 6) + r.sample(other, 3 if quick else len(other))
      use_dna = (vi % 9 == 0 and size <= 5)   # (witness length)
      if use_dna:
        pop = [pg.random_dna(flat, r) for _ in range(size)]
        for d, x in zip(pop, w):
          ebase.set_fitness(d, x)
        psrc = pop_src('flat', pop, fitness=True)
        sig, wsrc = 'by-fitness', 'lambda xs: [base.get_fitness(x) for x in xs]'
      else:
        pop = [WItem(i, x) for i, x in enumerate(w)]
        psrc = f'pop = {pop!r}\n'
        sig, wtmpl = W_SIGNATURES[vi % len(W_SIGNATURES)]
        wsrc = wtmpl.format(w=repr(w))
      zero = [p for p, x in zip(pop, w) if x == 0.0]
      zero_idx = [i for i, x in enumerate(w) if x == 0.0]
      made = {}
      for ni, (n_src, step) in enumerate(nvals):
        npr = _nprime(eval(n_src), size, step)  # pylint: disable=eval-used
        rcls = rounding_class(w, npr)
        ops = [('Proportional', f'selectors.Proportional({n_src}, {wsrc})')]
        if (vi + ni) % 8 == 0:
          ops.append(('Sample', f'selectors.Sample({n_src}, {wsrc}, seed={seed + ni % 3})'))
        for cls, src in ops:
          key = (cls, fam, size, tuple(w), n_src, step, sig)
          wpre = lambda src=src, step=step: HDR + psrc + f'op = {src}\nout = op(pop, step={step})\n'
          fz = Frozen(pop)
          try:
            # (a seeded operator is rebuilt for every call; Proportional is unseeded)
            op = made.get(src) if cls == 'Proportional' else None
            if op is None:
              op = made[src] = make(src)
            out = op(pop, step=step)
            assert isinstance(out, list), f'output is {type(out).__name__}'
          except Exception as e:  # pylint: disable=broad-except
            rec.case(f'selectors.{cls}.call/{rcls}', key, False,
                     f'unexpected {type(e).__name__}: {e}', wpre())
            continue
          case(f'selectors.{cls}.members-only', key, all(_isin(o, pop) for o in out),
               lambda: f'output {out!r} has non-members of the input'[:400],
               lambda: wpre() + 'assert all(any(o is p for p in pop) for o in out)')
          cid = (f'selectors.{cls}.documented-count/{rcls}' if cls == 'Proportional'
                 else f'selectors.{cls}.documented-count')
          case(cid, key, len(out) == npr,
               lambda: f'{len(out)} outputs, documented {npr} (weights {w}, n={n_src}, step={step})',
               lambda: wpre() + f'assert len(out) == {npr}, len(out)')
          case(f'selectors.{cls}.zero-weight-never-selected', key,
               not (zero and any(_isin(o, zero) for o in out)),
               lambda: f'item with weight 0 was selected (weights {w})',
               lambda: wpre() + f'assert not any(o is pop[i] for o in out for i in {zero_idx})')
          d = fz.diff()
          case(f'selectors.{cls}.inputs-unchanged', key, d is None, d,
               lambda: wpre() + f'assert_unchanged(lambda p: ({src})(p, step={step}), pop)')
          if cls == 'Sample' or not quick or ni % 3 == 0:
            try:
              out2 = (op if cls == 'Proportional' else make(src))(pop, step=step)
              same = _ids(out) == _ids(out2)
            except Exception:  # pylint: disable=broad-except
              same = False
            case(f'selectors.{cls}.deterministic', key, same,
                 'same operator (and seed), same input, different selection',
                 lambda: wpre() + f'assert list(map(id, out)) == list(map(id, ({src})(pop, step={step})))')
          if cls != 'Proportional':
            continue
          counts = [sum(1 for o in out if o is p) for p in pop]
          if len(out) == npr:
            # (a wrong total is reported above, once)
            qs = integral_quotas(w, npr)
            if qs is not None:
              case('selectors.Proportional.exact-when-quotas-integral', key, counts == qs,
                   lambda: f'copies per item {counts}, exact proportional shares {qs} (weights {w})',
                   lambda: wpre() + f'assert [sum(o is p for o in out) for p in pop] == {qs}')
            bad = [(i, j) for i in range(size) for j in range(size)
                   if w[i] > w[j] and counts[i] < counts[j]]
            case('selectors.Proportional.monotone-in-weight', key, not bad,
                 lambda: f'copies per item {counts} for weights {w}: a heavier item got fewer copies {bad[:3]}',
                 lambda: wpre() + 'c = [sum(o is p for o in out) for p in pop]\n'
                 f'w = {w}\nassert not [(i, j) for i in range({size}) for j in range({size}) '
                 'if w[i] > w[j] and c[i] < c[j]], c')
          # Compositions: equal to the list operation applied to the
          # selector's own output (the selector itself is judged above).
          if (vi + ni) % 8 == 3:
            k = 1 + (vi + ni) % 4
            comps = [
                (f'({src} >> selectors.First({k}))', lambda o: o[:k]),
                (f'({src} >> selectors.Last({k}))', lambda o: o[len(o) - min(k, len(o)):]),
                (f'({src} + selectors.First(1))', lambda o: o + pop[:1]),
                (f'(selectors.Last(1) + {src})', lambda o: pop[-1:] + o),
                (f'({src} * 2)', lambda o: o + o),
                (f'{src}[1:{k + 1}]', lambda o: o[1:k + 1]),
                (f'(~{src})', lambda o: [p for p in pop if not _isin(p, o)]),
                (f'({src} >> base.Identity())', list),
            ]
            csrc, ref = comps[(vi + ni // 8) % len(comps)]
            ckey = (csrc, fam, size, tuple(w), step)
            cw = lambda: HDR + psrc + f'op = {csrc}\nout = op(pop, step={step})\n'
            fz = Frozen(pop)
            want = ref(list(out))
            try:
              got = make(csrc)(pop, step=step)
              ok = _ids(got) == _ids(want)
              msg = lambda: f'got items {_flat_idx(got, pop)}, reference {_flat_idx(want, pop)}'
            except Exception as e:  # pylint: disable=broad-except
              ok, msg = False, f'unexpected {type(e).__name__}: {e}'
            case('pipeline.weighted-selector.output', ckey, ok, msg,
                 lambda: cw() + f'assert [pop.index(x) for x in out] == {_flat_idx(want, pop)}')
            d = fz.diff()
            case('pipeline.weighted-selector.inputs-unchanged', ckey, d is None, d,
                 lambda: cw() + f'assert_unchanged(lambda p: ({csrc})(p, step={step}), pop)')
  # Numeric recombinators when all parents sit on a bound of a float range
  # (every convex combination of the parents is that very bound).
  name = 'float-bounds'
  S = space(name)
  lo = [e.min_value for e in S.elements]
  hi = [e.max_value for e in S.elements]
  for k in (2, 3, 4):
    vecs = [fw for fw in weight_vectors(r, k, True) if fw[0] not in ('palette', 'random-int')]
    thirds = ('thirds', [1.0 / 3] * k)
    picked = [('uniform', [1.0] * k), thirds, ('ramp', [float(i + 1) for i in range(k)])] + r.sample(vecs, min(len(vecs), 3 if quick else 40))
    for vi, (fam, w) in enumerate(picked):
      for bname, vals in (('all-at-max', hi), ('all-at-min', lo),
                          ('each-at-a-bound', [r.choice(p) for p in zip(lo, hi)])):
        ps = []
        for _ in range(k):
          d = pg.DNA(None, [pg.DNA(v) for v in vals])
          d.use_spec(S)
          ps.append(d)
        srcs = [('WeightedAverage', f'recombinators.WeightedAverage(lambda xs: {w!r})')]
        if vi == 0:
          srcs.append(('Average', 'recombinators.Average()'))
        for cls, src in srcs:
          exercise(rec, f'recombinators.{cls}', src, name, ps, seeded=True, key=(bname,),
                   min_out=1, max_out=k, family='recombinators.PointWise')
  # Weight-driven recombinators over weight vectors (no zero-total vectors:
  # that degenerate class is exercised, and judged, by drv_recombinators).
  for name in ('floats', 'flat', 'multi-ds'):
    base_pop = parents_of(name, r, 6)
    for k in (2, 3, 4):
      vecs = [fw for fw in weight_vectors(r, k, True) if fw[0] != 'palette']
      picked = r.sample(vecs, min(len(vecs), 2 if quick else 40))
      for vi, (fam, w) in enumerate(picked):
        ps = r.sample(base_pop, k)
        for cls, src in (('Sample', f'recombinators.Sample(lambda xs: {w!r}, seed={seed})'),
                         ('WeightedAverage', f'recombinators.WeightedAverage(lambda xs: {w!r})')):
          exercise(rec, f'recombinators.{cls}', src, name, ps, step=vi % 2, seeded=True,
                   min_out=1, max_out=k, family='recombinators.PointWise')
  return rec.result()


# ---------------------------------------------------------------------------
# Driver 8: scheduled hyper-parameters.  Every count / proportion / probability
# / index parameter of the shipped operators (`n` of the selectors, `k` of
# KPoint, where.Any, Repeat `*` and Power `**`, `limit` and the probabilities
# of Choice / with_prob, `max_attempts` of until_change, the index of `[]`)
# may be a schedule: "a callable object that returns a value based on a step",
# for which the package ships the schedule library `pg.evolution.scalars`.
#
# Oracle: a schedule *denotes* a value at every step -- computed here by an
# independent reference in plain Python arithmetic (math.floor / math.ceil
# yield integers, `/` yields a float, int `//`, `%`, `+`, `-`, `*` stay
# integers; documented phases of StepWise; the textbook formulas of linear /
# exponential / cosine decay).  An operator given the schedule must, at step
# s, do exactly what the same operator given that literal value does (same
# seed, same inputs => identical output: "seeded operators are deterministic
# functions of their seed and inputs"), and a selector must return the
# documented number for that value (`n` items for an integer, ceil(n * len)
# for a float).  The same must hold when the scheduled operator sits inside a
# composition (the step must reach it) and inside an Evolution loop.
# ---------------------------------------------------------------------------

from pyglove.ext import scalars as scalars_lib  # pylint: disable=g-import-not-at-top,g-bad-import-order

ENV['scalars'] = scalars_lib
SHDR = HDR + 'from pyglove.ext import scalars\n'

PROBE_CALLS = []


def probe(xs):
  """Identity operation that counts how often it is invoked."""
  PROBE_CALLS.append(len(xs))
  return xs


ENV['probe'] = probe

SCHED_STEPS = 10


def _stepwise_ref(phases):
  """Reference for StepWise([(length, fn(phase_step))...]) called at 0, 1, 2..."""
  def ref(s):
    start = 0
    for length, fn in phases:
      if s < start + length:
        return fn(s - start)
      start += length
    length, fn = phases[-1]
    return fn(length - 1)       # "last value" once the schedule is over
  return ref


def schedule_catalogue(seed):
  """Schedules as dicts: family, kind, src, ref (step -> value), flags."""
  fl, ce = math.floor, math.ceil
  cat = []

  def add(family, kind, src, ref=None, stateful=False, steps=SCHED_STEPS, rng_=None):
    cat.append(dict(family=family, kind=kind, src=src, ref=ref, stateful=stateful,
                    steps=steps, range=rng_))

  T = 'scalars.STEP'
  # Integer-valued schedules (counts).
  add('step', 'count', T, lambda s: s)
  add('constant', 'count', 'scalars.Constant(2)', lambda s: 2)
  add('constant', 'count', 'scalars.make_scalar(3)', lambda s: 3)
  add('python-lambda', 'count', '(lambda s: 1 + s % 3)', lambda s: 1 + s % 3)
  add('python-lambda', 'count', '(lambda s: s)', lambda s: s)
  add('lambda', 'count', 'scalars.Lambda(lambda s: s % 3)', lambda s: s % 3)
  add('lambda', 'count', 'scalars.make_scalar(lambda s: 1 + s % 2)', lambda s: 1 + s % 2)
  add('add', 'count', f'({T} + 1)', lambda s: s + 1)
  add('add', 'count', f'(1 + {T})', lambda s: 1 + s)
  add('add', 'count', f'({T} + {T} % 2)', lambda s: s + s % 2)
  add('sub', 'count', f'(9 - {T})', lambda s: 9 - s)
  add('sub', 'count', f'({T} - {T} % 2)', lambda s: s - s % 2)
  add('mul', 'count', f'({T} * 2)', lambda s: s * 2)
  add('mul', 'count', f'(2 * ({T} % 3))', lambda s: 2 * (s % 3))
  add('mod', 'count', f'({T} % 3)', lambda s: s % 3)
  add('mod', 'count', f'(7 % ({T} + 2))', lambda s: 7 % (s + 2))
  add('floordiv', 'count', f'({T} // 2)', lambda s: s // 2)
  add('floordiv', 'count', f'(7 // ({T} + 1))', lambda s: 7 // (s + 1))
  add('floor', 'count', f'(({T} / 4).floor() + 1)', lambda s: fl(s / 4) + 1)
  add('floor', 'count', f'({T} * 0.6).floor()', lambda s: fl(s * 0.6))
  add('floor', 'count', f'scalars.Floor({T} / 2)', lambda s: fl(s / 2))
  add('floor', 'count', 'scalars.Constant(2.5).floor()', lambda s: 2)
  add('floor', 'count', 'scalars.Floor(1.5)', lambda s: 1)
  add('floor', 'count', f'{T}.floor()', lambda s: s)
  add('ceil', 'count', f'(10 / ({T} + 1)).ceil()', lambda s: ce(10 / (s + 1)))
  add('ceil', 'count', f'({T} * 0.3).ceil()', lambda s: ce(s * 0.3))
  add('ceil', 'count', f'scalars.Ceiling({T} / 3)', lambda s: ce(s / 3))
  add('ceil', 'count', 'scalars.Constant(1.2).ceil()', lambda s: 2)
  add('ceil', 'count', f'{T}.ceil()', lambda s: s)
  add('abs', 'count', f'abs({T} - 3)', lambda s: abs(s - 3))
  add('neg', 'count', f'(-({T} - 9))', lambda s: -(s - 9))
  add('neg', 'count', f'(-(-{T}))', lambda s: s)
  # (`**` of schedules is math.pow, a float: only used below floor()/ceil())
  # (families are named after the outermost operation)
  add('floor', 'count', f'(2 ** ({T} % 3)).floor()', lambda s: fl(math.pow(2, s % 3)))
  add('ceil', 'count', f'(({T} % 4) ** 2).ceil()', lambda s: ce(math.pow(s % 4, 2)))
  add('floor', 'count', f'scalars.sqrt({T}).floor()', lambda s: fl(math.sqrt(s)))
  add('ceil', 'count', f'scalars.log({T} + 2, 2).ceil()', lambda s: ce(math.log(s + 2, 2)))
  add('stepwise', 'count', f'scalars.StepWise([(2, 1), (3, {T} + 2), (5, 4)])',
      _stepwise_ref([(2, lambda p: 1), (3, lambda p: p + 2), (5, lambda p: 4)]), stateful=True)
  add('stepwise', 'count',
      f'scalars.StepWise([(0.25, 3), (0.75, ({T} / 2).floor())], total_steps=8)',
      _stepwise_ref([(2, lambda p: 3), (6, lambda p: fl(p / 2))]), stateful=True, steps=8)
  add('stepwise', 'count',
      f'scalars.StepWise([(4, lambda s: s + 1), (4, ({T} * 1.5).ceil()), (2, scalars.Constant(2))])',
      _stepwise_ref([(4, lambda p: p + 1), (4, lambda p: ce(p * 1.5)), (2, lambda p: 2)]), stateful=True)
  # Float-valued schedules (proportions / probabilities in [0, 1]).
  add('constant', 'proportion', 'scalars.Constant(0.5)', lambda s: 0.5)
  add('python-lambda', 'proportion', '(lambda s: 0.25 * (s % 5))', lambda s: 0.25 * (s % 5))
  add('lambda', 'proportion', 'scalars.Lambda(lambda s: 0.25 * (s % 5))', lambda s: 0.25 * (s % 5))
  add('div', 'proportion', f'({T} / 16)', lambda s: s / 16)
  add('div', 'proportion', f'(({T} % 5) / 4)', lambda s: (s % 5) / 4)
  add('div', 'proportion', f'(1 / ({T} + 1))', lambda s: 1 / (s + 1))
  add('mul', 'proportion', f'(({T} % 9) * 0.125)', lambda s: (s % 9) * 0.125)
  add('sub', 'proportion', f'(1.0 - {T} / 16)', lambda s: 1.0 - s / 16)
  add('linear', 'proportion', 'scalars.linear(16, 1.0, 0.0)', lambda s: 1.0 + s * ((0.0 - 1.0) / 16))
  add('linear', 'proportion', 'scalars.linear(16, 0.25, 0.75)', lambda s: 0.25 + s * ((0.75 - 0.25) / 16))
  add('exponential_decay', 'proportion', 'scalars.exponential_decay(0.5, 2)',
      lambda s: 1.0 * math.pow(0.5, fl(s / 2.0)))
  add('exponential_decay', 'proportion', 'scalars.exponential_decay(0.5, 3, start=0.75)',
      lambda s: 0.75 * math.pow(0.5, fl(s / 3.0)))
  add('cosine_decay', 'proportion', 'scalars.cosine_decay(8)',
      lambda s: 0.5 * (1.0 - 0.0) * (1 + math.cos(math.pi * s / 8)) + 0.0, steps=9)
  add('cyclic', 'proportion', 'scalars.cyclic(8)',
      lambda s: 0.5 * (1.0 - 0.0) * (1 + math.cos(0.0 + math.pi * 2 * s / 8)) + 0.0)
  add('maths', 'proportion', f'abs(scalars.sin({T}))', lambda s: abs(math.sin(s)))
  add('stepwise', 'proportion',
      'scalars.StepWise([(3, 1.0), (4, scalars.linear(4, 1.0, 0.0)), (3, 0.0)])',
      _stepwise_ref([(3, lambda p: 1.0), (4, lambda p: 1.0 + p * ((0.0 - 1.0) / 4)), (3, lambda p: 0.0)]),
      stateful=True)
  # Seeded random schedules: documented range and type only.
  add('random', 'random-count', f'scalars.Uniform(1, 3, seed={seed})', rng_=(1, 3))
  add('random', 'random-count', f'scalars.Triangular(1, 4, seed={seed})', rng_=(1, 4))
  add('random-floor', 'random-count', f'scalars.Uniform(0.0, 3.0, seed={seed}).floor()', rng_=(0, 3))
  add('random-ceil', 'random-count', f'(scalars.Uniform(seed={seed}) * 3).ceil()', rng_=(0, 3))
  add('random', 'random-proportion', f'scalars.Uniform(seed={seed})', rng_=(0.0, 1.0))
  return cat


def _is_count(v, lo=0):
  return type(v) is int and v >= lo  # pylint: disable=unidiomatic-typecheck


def _is_prop(v):
  return type(v) is float and 0.0 <= v <= 1.0  # pylint: disable=unidiomatic-typecheck


def schedule_slots(seed):
  """Parameters that accept a schedule: name, template, accepted values, kind.

  kind: 'selector:<oracle>' (items by identity + documented count), 'list'
  (items by identity), 'dna' (new DNAs: closure + equality), 'evolution'.
  """
  s = seed
  u = 'lambda xs: [1.0] * len(xs)'
  n_ok = lambda v, size: _is_count(v) or _is_prop(v)
  k0 = lambda v, size: _is_count(v)
  k1 = lambda v, size: _is_count(v, 1)
  pr = lambda v, size: _is_prop(v)
  slots = [
      ('selectors.First.n', 'selectors.First({n})', n_ok, 'selector:capped'),
      ('selectors.Top.n', 'selectors.Top({n})', n_ok, 'selector:capped'),
      ('selectors.Last.n', 'selectors.Last({n})', n_ok, 'selector:capped'),
      ('selectors.Bottom.n', 'selectors.Bottom({n})', n_ok, 'selector:capped'),
      ('selectors.Top.n', 'selectors.Top({n}, key=base.get_generation_id, cluster=True)', n_ok, 'selector:none'),
      ('selectors.Random.n', f'selectors.Random({{n}}, seed={s})', n_ok, 'selector:capped'),
      ('selectors.Random.n', f'selectors.Random({{n}}, replacement=True, seed={s})', n_ok, 'selector:exact'),
      ('selectors.Sample.n', f'selectors.Sample({{n}}, {u}, seed={s})', n_ok, 'selector:exact'),
      ('selectors.Proportional.n', f'selectors.Proportional({{n}}, {u})', n_ok, 'selector:exact'),
      # Compositions whose own parameter is scheduled.
      ('Repeat.k', '(selectors.First(2) * {n})', k0, 'list'),
      ('Power.k', '(base.Identity()[1:] ** {n})', k0, 'list'),
      ('Slice.index', 'base.Identity()[{n}]', lambda v, size: _is_count(v) and v < size, 'list'),
      ('Choice.limit', 'base.Choice([(selectors.First(4), 1.0), (selectors.Last(3), 1.0), '
       f'(selectors.Top(1), 1.0)], limit={{n}}, seed={s})', k1, 'list'),
      ('Choice.probability', f'base.Choice([(selectors.Last(4), {{n}}), (selectors.First(2), {{n}})], seed={s})', pr, 'list'),
      ('Choice.probability', f'selectors.First(3).with_prob({{n}}, seed={s})', pr, 'list'),
      ('UntilChange.max_attempts', 'base.Lambda(probe).until_change({n})', k1, 'list'),
      # DNA operators.
      ('recombinators.KPoint.k', f'recombinators.KPoint({{n}}, seed={s})', k1, 'dna:2'),
      ('where.Any.k', f'recombinators.Uniform(where=where.Any(k={{n}}, seed={s}), seed={s})', k0, 'dna:2'),
      ('where.Any.k', f'recombinators.Order(where=where.Any(k={{n}}, seed={s}), seed={s})', k0, 'dna:2'),
      ('Power.k', f'(mutators.Uniform(seed={s}) ** {{n}})', k0, 'dna:2'),
      ('Repeat.k', f'(mutators.Uniform(seed={s}) * {{n}})', k0, 'dna:2'),
      ('UntilChange.max_attempts', f'(base.Lambda(probe) >> mutators.Swap(where=lambda d: False, seed={s})).until_change({{n}})', k1, 'dna:1'),
      ('pipeline', f'selectors.Random({{n}}, seed={s}) >> recombinators.Sample({u}, seed={s}) >> mutators.Uniform(seed={s})',
       lambda v, size: _is_count(v, 1) or (_is_prop(v) and v > 0.0), 'dna:4'),
      ('Evolution', 'ev.Evolution('
       f'(selectors.Random({{n}}, seed={s}) + selectors.First(1)) >> mutators.Uniform(seed={s}), '
       f'population_init=(pg.geno.Random(seed={s}), 4), '
       'population_update=(selectors.Top({n}) | selectors.Last(3)))', n_ok, 'evolution'),
  ]
  # The step must reach a scheduled operator below every composition.
  x = 'selectors.First({n})'
  contexts = [
      ('pipeline', f'(base.Identity() >> {x} >> base.Identity())'),
      ('concatenation', f'(selectors.Last(1) + {x})'),
      ('union', f'(selectors.First(0) | {x})'),
      ('intersection', f'(base.Identity() & {x})'),
      ('difference', f'(base.Identity() - {x})'),
      ('symmetric-difference', f'(selectors.Last(1) ^ {x})'),
      ('inversion', f'(~{x})'),
      ('negation', f'(-{x})'),
      ('slice', f'{x}[::-1]'),
      ('repeat', f'({x} * 2)'),
      ('power', f'({x} ** 2)'),
      ('if_true', f'{x}.if_true(lambda xs: True)'),
      ('if_false', f'{x}.if_false(lambda xs: False)'),
      ('conditional', f'base.Conditional(lambda xs: len(xs) > 100, base.Identity(), {x})'),
      ('choice', f'base.Choice([({x}, 1.0)], seed={s})'),
      ('with_prob', f'{x}.with_prob(1.0, seed={s})'),
      ('until_change', f'{x}.until_change(2)'),
      ('for_each', f'base.Lambda(lambda xs: [xs[:4], xs[2:]]).for_each({x}).flatten()'),
      ('global-state', f"({x}.as_global_state('k') >> base.GlobalStateGetter('k'))"),
      ('union-list', f'base.Union([selectors.Last(1), {x}, selectors.Top(1)])'),
      ('lambda', f'({x} >> (lambda xs: xs[::-1]))'),
      ('nested', f'(~(selectors.Last(1) + ({x} ** 2)[0:3]) | {x}.if_true(lambda xs: True))'),
  ]
  for cname, tmpl in contexts:
    slots.append((f'step-reaches/{cname}', tmpl, n_ok, 'list'))
  return slots


def sched_pop(name, n, seed):
  """The population of n DNAs (fitness, generation ids) drv_schedules uses."""
  r = rng(seed, f'c14-sched/{name}/{n}')
  return with_fitness([pg.random_dna(space(name), r) for _ in range(n)], r)


def run_op(op, pop, step):
  """('ok', output, #probe calls) or ('exc', exception class name, message)."""
  del PROBE_CALLS[:]
  try:
    if isinstance(op, str):
      op = make(op)
    out = op(pop, step=step)
  except Exception as e:  # pylint: disable=broad-except
    return ('exc', type(e).__name__, str(e)[:200])
  return ('ok', out, len(PROBE_CALLS))


def same_run(a, b, dna=False):
  """Do two run_op results agree (items by identity, new DNAs by value)?"""
  if a[0] != b[0]:
    return False
  if a[0] == 'exc':
    return a[1] == b[1]
  if a[2] != b[2] or not isinstance(a[1], list) or not isinstance(b[1], list):
    return False
  return dnas_equal(a[1], b[1]) if dna else _ids(a[1]) == _ids(b[1])


def _show_run(r, pop):
  if r[0] == 'exc':
    return f'{r[1]}: {r[2]}'
  if isinstance(r[1], list) and all(_isin(x, pop) for x in r[1]):
    return f'items {_flat_idx(r[1], pop)}' + (f' after {r[2]} probe calls' if r[2] else '')
  return repr(r[1])[:200]


def evo_trace(src, S, n_steps=14):
  """Proposals and population sizes of an Evolution run (or the exception)."""
  try:
    algo = make(src) if isinstance(src, str) else src
    algo.setup(S)
    out = []
    for _ in range(n_steps):
      d = algo.propose()
      out.append((raw(d), len(algo.population)))
      algo.feedback(d, reward_of(d, False))
    return out
  except Exception as e:  # pylint: disable=broad-except
    return ('exc', type(e).__name__, str(e)[:200])


def _value_ok(v, ref):
  if type(v) is not type(ref):  # pylint: disable=unidiomatic-typecheck
    return False
  return v == ref or (isinstance(ref, float) and abs(v - ref) <= 1e-12)


def _sel_count(oracle, v, size):
  """Documented number of outputs of a selector for n == v on `size` inputs."""
  npr = _nprime(v, size, 0)
  if oracle == 'exact':
    return npr
  if oracle == 'capped':
    return min(npr, size)
  return None


# Compositions that evaluate their operand (hence its schedule) more than once
# per call.
MULTI_EVAL = ('step-reaches/repeat', 'step-reaches/power', 'step-reaches/for_each',
              'step-reaches/nested')


def drv_schedules(tier, seed):
  random.seed(f'c14/drv_schedules/{seed}')   # code under test falls back to the global RNG
  quick = tier == 'quick'
  cat = schedule_catalogue(seed)
  slots = schedule_slots(seed)
  rec = Recorder(
      'C14', 'scheduled hyper-parameters (pg.evolution.scalars): an operator given a schedule '
      'behaves at step s like the operator given the value the schedule denotes at s',
      scope=f'{len(cat)} schedules (STEP, Constant, Lambda, make_scalar, python lambdas; + - * / // % '
      'abs neg floor ceil pow sqrt log; StepWise by length and by proportion; linear / exponential / '
      'cosine decay, cyclic; seeded Uniform / Triangular) x steps 0..9 x '
      f'{len(slots)} parameter slots (n of First/Last/Top(+cluster)/Bottom/Random(+replacement)/Sample/'
      'Proportional for every schedule; for one schedule per family: k of Repeat, Power, Slice index, '
      'Choice limit and probabilities, until_change max_attempts; for 8 probe schedules: k of KPoint and '
      'where.Any, Repeat/Power/until_change of mutators, a scheduled selector below every composition '
      'operator, reproduction and population_update of an Evolution loop) on populations of 5/8 DNAs. '
      'Reference: python functions were compared with literal values at every slot, all other schedules '
      'with the python function returning the denoted values (same operator, called at steps 0, 1, 2, ...)')
  sel_pops = {size: sched_pop('flat', size, seed) for size in (5, 8)}
  dna_spaces = ['flat', 'perm', 'multi-DS', 'floats']
  dna_pops = {name: sched_pop(name, 4, seed) for name in dna_spaces}

  def pop_source(name, pop):
    if pop is None:
      return f'S = space({name!r})\n'
    full = 4 if pop[0] is dna_pops[name][0] else len(pop)
    return (f'S = space({name!r})\npop = sched_pop({name!r}, {full}, {seed})'
            + (f'[:{len(pop)}]' if len(pop) != full else '') + '\n')

  def case(cid, key, ok, msg='', wit=''):
    if ok:
      rec.case(cid, key, True)
    else:
      rec.case(cid, key, False, msg() if callable(msg) else msg, wit() if callable(wit) else wit)

  first = {}      # per (family, kind): the first schedule
  for sc in cat:
    first.setdefault((sc['family'], sc['kind']), sc['src'])
  # Probe schedules for the expensive slot groups (quick tier).
  probe_groups = dict(
      context=[('step', 'count'), ('floor', 'count'), ('stepwise', 'count'), ('div', 'proportion'),
               ('stepwise', 'proportion'), ('python-lambda', 'count')],
      dna=[('step', 'count'), ('floor', 'count'), ('ceil', 'count'), ('stepwise', 'count'),
           ('python-lambda', 'count')],
      evolution=[('add', 'count'), ('floor', 'count'), ('ceil', 'count'), ('floordiv', 'count'),
                 ('div', 'proportion'), ('linear', 'proportion')])
  probes = {g: {first[k] for k in ks} for g, ks in probe_groups.items()}
  evo_done = set()
  literal_runs = {}

  for ci, sc in enumerate(cat):
    fam, kind, ssrc = sc['family'], sc['kind'], sc['src']
    steps = list(range(sc['steps']))
    is_random = kind.startswith('random')
    anchor = fam == 'python-lambda'
    first_of_family = first[(fam, kind)] == ssrc
    is_probe = any(ssrc in v for v in probes.values())
    # What the schedule itself yields (only used to name a failure: a wrong
    # value / type reaching the operators is filed under the schedule family,
    # a correct value mishandled by an operator under the parameter slot).
    try:
      inst = make(ssrc)
      vals = [inst(s) for s in steps]
    except Exception as e:  # pylint: disable=broad-except
      vals = [e] * len(steps)
    if is_random:
      lo, hi = sc['range']
      refs = table = None
      sched_ok = all(type(v) is type(lo) and lo <= v <= hi for v in vals)  # pylint: disable=unidiomatic-typecheck
    else:
      refs = [sc['ref'](s) for s in range(len(steps) if sc['stateful'] else 24)]
      sched_ok = all(_value_ok(v, x) for v, x in zip(vals, refs))
      table = '(lambda step: %r[step])' % (refs[:SCHED_STEPS + 2],)

    # Steps need not start at 0 nor be consecutive (an Evolution calls its
    # reproduction with the number of proposals so far, which starts at the
    # size of the initial population and grows by the number of children).
    if not is_random:
      slot, tmpl = slots[0][:2]
      size = (5, 8)[ci % 2]
      pop = sel_pops[size]
      a_src = tmpl.format(n=ssrc)
      a_op = outcome(make, a_src)
      called = []
      for s in (4, len(steps) - 1):
        called.append(s)
        if not slots[0][2](refs[s], size):
          continue
        b_src = tmpl.format(n=repr(refs[s]))
        ra = run_op(a_op[1], pop, s) if a_op[0] == 'ok' else ('exc', a_op[1].__name__, '')
        rb = run_op(b_src, pop, s)
        same = same_run(ra, rb)
        if sched_ok:
          the_id = ('schedule/stepwise.first-step-not-0-or-steps-skipped' if sc['stateful'] and not same
                    else f'scheduled.{slot}.same-as-denoted-value/steps-skipped')
        else:
          the_id = f'schedule/{fam}.wrong-value-reaches-operators'
        case(the_id, (slot, a_src, size, tuple(called)), same,
             lambda: f'operator called at steps {called} only: at step {s} the schedule {ssrc} denotes '
             f'{refs[s]!r}; with the schedule: {_show_run(ra, pop)}; with {refs[s]!r}: {_show_run(rb, pop)}',
             lambda: SHDR + pop_source('flat', pop) + f'a = {a_src}\nb = {b_src}   # value of the schedule at step {s}\n'
             f'for s in {called}:\n  ra = run_op(a, pop, s)\nrb = run_op(b, pop, {s})\n'
             'assert same_run(ra, rb), (ra, rb)')

    for li, (slot, tmpl, accepts, okind) in enumerate(slots):
      context = slot.startswith('step-reaches/')
      dna = okind.startswith('dna')
      if okind.startswith('selector'):
        # (quick: First, Top and a rotating half of the other selector slots)
        if quick and not is_probe and li >= 2 and (li + ci) % 2:
          continue
      elif okind == 'list' and not context:
        if not (first_of_family or is_probe) and quick:
          continue
      elif okind == 'evolution':
        if sc['stateful'] or is_random or anchor or (fam, kind) in evo_done:
          continue
        if quick and ssrc not in probes['evolution']:
          continue
      elif not (ssrc in probes['context' if context else 'dna'] or (first_of_family and not quick)):
        continue
      pure = 'seed=' not in tmpl and not dna and okind != 'evolution'

      def cid(check):
        if sched_ok:
          return f'scheduled.{slot}.{check}'
        return f'schedule/{fam}.wrong-value-reaches-operators'

      a_src = tmpl.format(n=ssrc)
      if okind.startswith('selector') or okind == 'list':
        size = (5, 8)[(ci + li) % 2]
        pops = [('flat', sel_pops[size])] if quick else [('flat', sel_pops[5]), ('flat', sel_pops[8])]
      elif dna:
        k = int(okind[4:])
        names = [dna_spaces[(ci + li + j) % len(dna_spaces)] for j in range(1 if quick else 2)]
        if 'Order(' in tmpl:
          names = ['perm']
        pops = [(nm, dna_pops[nm][:k]) for nm in names]
      else:
        pops = [('flat', None)]
      for name, pop in pops:
        size = len(pop) if pop is not None else 0
        psrc = pop_source(name, pop)
        key0 = (slot, a_src, name, size)
        check_inputs = pop is not None and (is_probe or not quick)
        # -------------------------------------------------------------- random
        if is_random:
          if not okind.startswith('selector'):
            continue
          oracle = okind.split(':')[1]
          lo, hi = sc['range']
          runs = []
          for _ in range(2):
            op = outcome(make, a_src)
            runs.append([run_op(op[1], pop, s) if op[0] == 'ok' else ('exc', op[1].__name__, '') for s in steps])
          wlo, whi = _sel_count(oracle, lo, size), _sel_count(oracle, hi, size)
          for s, ra, rb in zip(steps, runs[0], runs[1]):
            key = key0 + (s,)
            wit = lambda s=s: (SHDR + psrc + f'op = {a_src}\nouts = [op(pop, step=s) for s in range({s + 1})]\n')
            if ra[0] != 'ok' or not isinstance(ra[1], list):
              case(cid('call'), key, False, lambda: 'unexpected ' + _show_run(ra, pop), wit)
              continue
            case(cid('members-only'), key, all(_isin(o, pop) for o in ra[1]),
                 lambda: f'output {ra[1]!r} has non-members', wit)
            if wlo is not None:
              case(cid('documented-count'), key, wlo <= len(ra[1]) <= whi,
                   lambda: f'{len(ra[1])} outputs at step {s} for n = {ssrc} (values in [{lo}, {hi}]: '
                   f'documented {wlo}..{whi} of {size} inputs)',
                   lambda: wit() + f'assert all({wlo} <= len(o) <= {whi} for o in outs), [len(o) for o in outs]')
            case(cid('deterministic'), key, same_run(ra, rb),
                 lambda: f'fresh operators with the same seeds disagree: {_show_run(ra, pop)} vs {_show_run(rb, pop)}',
                 lambda: wit() + f'op2 = {a_src}\nassert [list(map(id, o)) for o in outs] == '
                 f'[list(map(id, op2(pop, step=s))) for s in range({s + 1})]')
          continue
        # ----------------------------------------------------------- evolution
        if okind == 'evolution':
          n_evo = 8
          if not all(accepts(x, size) for x in refs[:n_evo + 2]):
            continue
          evo_done.add((fam, kind))
          S = space(name)
          b_src = tmpl.format(n=table)
          ta, tb = evo_trace(a_src, S, n_evo), evo_trace(b_src, S, n_evo)
          case(cid('same-as-denoted-values'), key0, ta == tb and isinstance(ta, list),
               lambda: 'an Evolution whose selectors use the schedule and one that uses a python function '
               f'returning the denoted values {refs[:n_evo + 2]} diverge: '
               + (f'{ta!r}'[:200] if not isinstance(ta, list) else
                  f'first difference at proposal #{next((i for i, (p, q) in enumerate(zip(ta, tb)) if p != q), "?")}'
                  if isinstance(tb, list) else f'{tb!r}'[:200]),
               lambda: SHDR + psrc + f'a = {a_src}\nb = {b_src}\nta, tb = evo_trace(a, S, {n_evo}), evo_trace(b, S, {n_evo})\n'
               'assert isinstance(ta, list) and ta == tb, (ta, tb)')
          if isinstance(ta, list):
            bad = None
            for i, (rw, _) in enumerate(ta):
              v = violation(rw, S)
              if v:
                bad = f'proposal #{i}: {v[1]}'
                break
            case(cid('valid'), key0, bad is None, bad,
                 lambda: SHDR + psrc + f'a = {a_src}\na.setup(S)\nfor i in range({n_evo}):\n  d = a.propose(); '
                 'assert_child(d, S); a.feedback(d, reward_of(d, False))')
          continue
        # ------------------------------------------------- deterministic kinds
        fz = Frozen(pop) if check_inputs else None
        pairs = []
        if anchor:
          # A python function as schedule vs the literal value, fresh operators.
          ok_steps = [s for s in steps if accepts(refs[s], size)]
          ok_steps = ok_steps[1:2] + ok_steps[3:4] if quick else ok_steps
          for s in ok_steps:
            b_src = tmpl.format(n=repr(refs[s]))
            pairs.append((s, run_op(a_src, pop, s), run_op(b_src, pop, s), b_src))
          seq = False
        else:
          # The schedule vs a python function returning the denoted values;
          # both operators are called at steps 0, 1, 2, ... (schedules and
          # seeded operators may carry state from call to call).
          if sc['stateful'] and not all(accepts(x, size) for x in refs):
            continue
          a_op = outcome(make, a_src)
          if not pure:
            b_src = tmpl.format(n=table)
            b_op = outcome(make, b_src)
          use = steps if (not quick or okind.startswith('selector') or sc['stateful']) else steps[:3] + steps[4::5]
          if dna and quick:
            use = steps[:4] if sc['stateful'] else steps[1:3]
          for s in use:
            if not accepts(refs[s], size):
              continue
            ra = run_op(a_op[1], pop, s) if a_op[0] == 'ok' else ('exc', a_op[1].__name__, '')
            if pure:
              # (an unseeded operator with a literal parameter is a function
              # of its input: one run per value)
              b_src = tmpl.format(n=repr(refs[s]))
              lk = (li, b_src, name, size)
              if lk not in literal_runs:
                literal_runs[lk] = run_op(b_src, pop, s)
              rb = literal_runs[lk]
            else:
              rb = run_op(b_op[1], pop, s) if b_op[0] == 'ok' else ('exc', b_op[1].__name__, '')
            pairs.append((s, ra, rb, b_src))
          seq = True
        d = fz.diff() if fz else None
        if fz:
          case(cid('inputs-unchanged'), key0, d is None, d,
               lambda: SHDR + psrc + f'a = {a_src}\n'
               f'assert_unchanged(lambda p: [run_op(a, p, s) for s in {[p[0] for p in pairs]}], pop)')
        for s, ra, rb, b_src in pairs:
          key = key0 + (s,)
          v = refs[s]
          called = [p[0] for p in pairs if p[0] <= s]
          if seq and pure:
            wit = lambda s=s, b_src=b_src, called=called: (
                SHDR + psrc + f'a = {a_src}\nb = {b_src}   # value of the schedule at step {s}\n'
                f'for s in {called}:\n  ra = run_op(a, pop, s)\n'
                f'rb = run_op(b, pop, {s})\nassert same_run(ra, rb, {dna}), (ra, rb)')
          elif seq:
            wit = lambda s=s, b_src=b_src, called=called: (
                SHDR + psrc + f'a = {a_src}\nb = {b_src}\nfor s in {called}:\n'
                '  ra, rb = run_op(a, pop, s), run_op(b, pop, s)\n'
                f'assert same_run(ra, rb, {dna}), (ra, rb)')
          else:
            wit = lambda s=s, b_src=b_src: (
                SHDR + psrc + f'a = {a_src}\nb = {b_src}   # value of the schedule at step {s}\n'
                f'ra, rb = run_op(a, pop, {s}), run_op(b, pop, {s})\n'
                f'assert same_run(ra, rb, {dna}), (ra, rb)')
          same = same_run(ra, rb, dna)
          the_id = cid('same-as-denoted-value')
          if not same and sched_ok and sc['stateful'] and slot in MULTI_EVAL:
            # One defect of its own: a StepWise evaluated twice at one step.
            the_id = 'schedule/stepwise.evaluated-twice-in-one-step'
          case(the_id, key, same,
               lambda: f'at step {s} the schedule {ssrc} denotes {v!r}; with the schedule: '
               f'{_show_run(ra, pop)}; with {v!r}: {_show_run(rb, pop)}', wit)
          if ra[0] != 'ok' or not isinstance(ra[1], list):
            continue
          if okind.startswith('selector'):
            want = _sel_count(okind.split(':')[1], v, size)
            case(cid('members-only'), key, all(_isin(o, pop) for o in ra[1]),
                 lambda: f'output {ra[1]!r} has non-members', wit)
            if want is not None:
              case(cid('documented-count'), key, len(ra[1]) == want,
                   lambda: f'{len(ra[1])} outputs at step {s} for n = {ssrc} (= {v!r}): documented {want} '
                   f'of {size} inputs',
                   lambda: SHDR + psrc + f'op = {a_src}\n' + (
                       f'outs = [op(pop, step=s) for s in {called}]\nassert len(outs[-1]) == {want}, len(outs[-1])'
                       if seq else f'out = op(pop, step={s})\nassert len(out) == {want}, len(out)'))
          elif dna:
            S = space(name)
            bad = None
            for c in ra[1]:
              bad = check_child(c, S)
              if bad:
                break
            case(cid('valid+aligned'), key, bad is None, bad and bad[1],
                 lambda: SHDR + psrc + f'a = {a_src}\nfor s in {called}:\n  out = a(pop, step=s)\n'
                 'for c in out:\n  assert_child(c, S)')
  return rec.result()


# ---------------------------------------------------------------------------
# Driver 9: parameters that reach an operator through pyglove's symbolic
# manipulation APIs.  Every operator (and every composition, where.* filter,
# scalars.* schedule and the Evolution loop itself) is a symbolic object: its
# parameters can be set at construction, but also by `rebind` (dict / keyword /
# function form), attribute assignment, `clone(override=...)`, through the
# path of an enclosing composition or Evolution, by replacing the whole
# sub-operation, or by copying / serialising an operator.
#
# Oracle (statement: "seeded operators are deterministic functions of their
# seed and inputs", "for every operator class and parameterisation", "composed
# operation pipelines preserve these guarantees"; selectors return "the
# documented number"): what an operator does is a function of its *current*
# parameters (seed included) and its inputs -- not of the way the parameters
# got there.  An operator whose parameters are P, however it came by them, is
# called on equal inputs at steps 0, 1, 2 and must yield what a freshly
# constructed operator with parameters P yields (new DNAs by value, population
# members by identity); its outputs must be valid + aligned and its inputs
# untouched.  Routes that start from an operator which was already *called*
# are only judged where the statement pins the answer down: operators without
# any random source, and a change of the operator's only seed (the outputs
# are then a function of the new seed alone).
# ---------------------------------------------------------------------------

import copy as copy_lib  # pylint: disable=g-import-not-at-top,g-bad-import-order

EXTRA_SPACES.append(
    ('wide', 'pg.List([pg.oneof(range(6))] * 5 + [pg.floatv(0.0, 1.0), pg.manyof(2, [1, 2, 3, 4])])'))
EXTRA_SPACES.append(('perm2', 'pg.Dict(p=pg.permutate([1, 2, 3]), q=pg.permutate([1, 2, 3, 4]))'))
# Four permutation points (both documented forms) next to another decision:
# the choice made by a decision point filter that returns fewer than 4 of
# them (the default where.ANY returns 1) is visible in the children.
EXTRA_SPACES.append(
    ('perm4x', 'pg.Dict(p=pg.permutate([1, 2, 3, 4]), q=pg.permutate([5, 6, 7, 8]), '
     'r=pg.manyof(4, [1, 2, 3, 4]), o=pg.oneof([1, 2]), s=pg.permutate([1, 2, 3, 4]))'))

SYM_STEPS = (0, 1, 2, 3)
SYM_DNA_KINDS = ('mut', 'rec2', 'recN')
SYM_POP_SIZE = dict(sel=6, nested=6, mut=2, rec2=2, recN=3, evo=0)


_SYM_POP = {}


def sym_pop(kind, name, seed):
  """The input population drv_symbolic uses for operators of `kind` (cached
  with its snapshot: operators must not modify it, which every check
  verifies)."""
  k = (kind, name, seed)
  if k not in _SYM_POP:
    r = rng(seed, f'c14-sym/{kind}/{name}')
    pop = with_fitness([pg.random_dna(space(name), r) for _ in range(SYM_POP_SIZE[kind])], r)
    _SYM_POP[k] = (pop, Frozen(pop))
  return _SYM_POP[k][0]


def sym_pop_diff(kind, name, seed):
  """None if the cached population is as it was built, else what changed
  (the population is then rebuilt for the next user)."""
  pop, fz = _SYM_POP[(kind, name, seed)]
  d = fz.diff()
  if d is not None:
    del _SYM_POP[(kind, name, seed)]
  return d


def _canon(o, members):
  if isinstance(o, list):
    return [_canon(x, members) for x in o]
  for i, m in enumerate(members):
    if o is m:
      return ('member', i)
  if isinstance(o, pg.DNA):
    return ('dna', raw(o), sorted((k, repr(v)) for k, v in o.metadata.items()))
  return ('other', repr(o))


def sym_calls(op, kind, name, pop, keep=None, n_calls=None):
  """Outcomes of calling `op` on pop at steps 0, 1(, 2)."""
  S = space(name)
  if kind == 'evo':
    return evo_trace(op, S, 5)
  res = []
  members = list(pop)
  for st in SYM_STEPS[:n_calls or (2 if kind in SYM_DNA_KINDS else 3)]:
    if kind == 'nested':
      a, b, c, d, e, f = members
      ps = [[a, [b]], [c, d], [], e, [[[f]]]]
    else:
      ps = list(members)
    try:
      out = op(ps, step=st)
    except Exception as e:  # pylint: disable=broad-except
      res.append(('exc', type(e).__name__))
      continue
    if keep is not None and not keep:
      keep.append(out)
    res.append(('ok', _canon(out, members)) if isinstance(out, list)
               else ('not-a-list', type(out).__name__))
  return res


def _set_by_path(root, path, value):
  kp = pg.KeyPath.parse(path)
  parent = kp.parent.query(root)
  with pg.allow_writable_accessors(True):
    if isinstance(parent, pg.Object):
      setattr(parent, kp.key, value)
    else:
      parent[kp.key] = value


SYM_CONTEXTS = [
    # name, composition around the operator X, kinds of X it accepts
    ('pipeline', 'base.Identity() >> X >> (lambda xs: xs)', 'sel mut rec2 recN'),
    ('concatenation', 'X + selectors.First(0)', 'sel mut rec2 recN'),
    ('union', 'selectors.First(0) | X', 'sel mut rec2 recN'),
    ('choice', 'base.Choice([(X, 1.0)], seed=3)', 'sel mut rec2 recN'),
    ('slice', 'X[0:9]', 'sel mut rec2 recN'),
    ('repeat', 'X * 2', 'sel mut rec2 recN'),
    ('power', 'X ** 1', 'sel mut rec2 recN'),
    ('if_true', 'X.if_true(lambda xs: True)', 'sel mut rec2 recN'),
    ('conditional', 'base.Conditional(lambda xs: False, base.Identity(), X)', 'sel mut rec2 recN'),
    ('until_change', 'X.until_change(2)', 'sel mut rec2 recN'),
    ('for_each', 'base.Lambda(lambda xs: [xs]).for_each(X).flatten()', 'sel mut rec2 recN'),
    ('global-state', "X.as_global_state('k') >> base.GlobalStateGetter('k')", 'sel mut rec2 recN'),
    ('symmetric-difference', 'X ^ selectors.First(0)', 'sel mut rec2 recN'),
    ('nested', '(base.Identity() >> (X + selectors.First(0)))[0:9].if_true(lambda xs: True)',
     'sel mut rec2 recN'),
    ('intersection', 'X & base.Identity()', 'sel'),
    ('difference', 'base.Identity() - X', 'sel'),
    ('inversion', '~X', 'sel'),
]
_EVO_TAIL = ('population_init=(pg.geno.Random(seed=5), 4), population_update=selectors.Last(6))')
SYM_EVOLUTION = dict(
    sel=f'ev.Evolution((X + selectors.Last(1)) >> selectors.First(1) >> mutators.Uniform(seed=5), {_EVO_TAIL}',
    mut=f'ev.Evolution(selectors.Last(1) >> X, {_EVO_TAIL}',
    rec2=f'ev.Evolution(selectors.Last(2) >> X >> selectors.First(1), {_EVO_TAIL}',
    recN=f'ev.Evolution(selectors.Last(3) >> X >> selectors.First(1), {_EVO_TAIL}')


def sym_context(ctx, kind, inner):
  """(callable object, kind of run) for operator `inner` inside context ctx."""
  if ctx is None:
    return inner, kind
  if ctx == 'evolution':
    return eval(SYM_EVOLUTION[kind], dict(ENV, X=inner)), 'evo'  # pylint: disable=eval-used
  tmpl = dict((c[0], c[1]) for c in SYM_CONTEXTS)[ctx]
  return eval(tmpl, dict(ENV, X=inner)), kind  # pylint: disable=eval-used


SYM_DIRECT_ROUTES = ['rebind', 'rebind-kwargs', 'rebind-fn', 'setattr', 'rebind-one-by-one',
                     'rebind-there-and-back', 'clone-override', 'deep-clone-override', 'after-use']
SYM_CONTEXT_ROUTES = ['context-path', 'context-handle', 'context-replace', 'context-clone-override']
SYM_COPY_ROUTES = ['clone', 'deep-clone', 'copy.copy', 'copy.deepcopy', 'json']
SYM_GROUP = {
    'rebind': 'in-place', 'rebind-kwargs': 'in-place', 'rebind-fn': 'in-place', 'setattr': 'in-place',
    'rebind-one-by-one': 'in-place', 'rebind-there-and-back': 'in-place',
    'clone-override': 'clone-override', 'deep-clone-override': 'clone-override',
    'after-use': 'after-use',
    'context-path': 'in-composition', 'context-handle': 'in-composition',
    'context-replace': 'in-composition', 'context-clone-override': 'in-composition',
}


class RouteUnavailable(Exception):
  """The route cannot express this change (not a failure)."""


def sym_route(route, a_src, b_src, delta_src, back_src, ctx, kind, name, seed):
  """Builds the operator of a_src, brings it to the parameters of b_src via
  `route` (inside composition `ctx`, if any) and returns (callable, run kind).

  delta_src: {path: source of the new value}; back_src: the values of a_src.
  """
  delta = lambda: {k: make(v) for k, v in delta_src.items()}
  if route in SYM_COPY_ROUTES:
    b = make(b_src)
    if route == 'clone':
      c = b.clone()
    elif route == 'deep-clone':
      c = b.clone(deep=True)
    elif route == 'copy.copy':
      c = copy_lib.copy(b)
    elif route == 'copy.deepcopy':
      c = copy_lib.deepcopy(b)
    else:
      try:
        c = pg.from_json_str(pg.to_json_str(b))
      except Exception as e:  # pylint: disable=broad-except
        raise RouteUnavailable(f'not serialisable: {type(e).__name__}') from e
    return sym_context(ctx, kind, c)
  a = make(a_src)
  if route in SYM_CONTEXT_ROUTES:
    outer, okind = sym_context(ctx, kind, a)
    if route == 'context-handle':
      a.rebind(delta())
      return outer, okind
    if a.sym_root is not outer or a.sym_parent is None:
      raise RouteUnavailable('the operator is not addressable by a path (held in a tuple)')
    prefix = str(a.sym_path)
    if route == 'context-path':
      outer.rebind({f'{prefix}.{k}': v for k, v in delta().items()})
    elif route == 'context-replace':
      outer.rebind({prefix: make(b_src)})
    else:
      outer = outer.clone(deep=True, override={f'{prefix}.{k}': v for k, v in delta().items()})
    return outer, okind
  if route == 'rebind':
    a.rebind(delta())
  elif route == 'rebind-kwargs':
    if not all(k.isidentifier() for k in delta_src):
      raise RouteUnavailable('nested path')
    a.rebind(**delta())
  elif route == 'rebind-fn':
    d = delta()
    a.rebind(lambda kp, v, p: d[str(kp)] if str(kp) in d else v)
  elif route == 'setattr':
    for k, v in delta().items():
      _set_by_path(a, k, v)
  elif route == 'rebind-one-by-one':
    if len(delta_src) < 2:
      raise RouteUnavailable('single parameter')
    for k, v in delta().items():
      a.rebind({k: v})
  elif route == 'rebind-there-and-back':
    a = make(b_src)
    a.rebind({k: make(v) for k, v in back_src.items()})
    a.rebind(delta())
  elif route == 'clone-override':
    a = a.clone(override=delta())
  elif route == 'deep-clone-override':
    a = a.clone(deep=True, override=delta())
  elif route == 'after-use':
    pop = sym_pop(kind, name, seed)
    sym_calls(a, kind, name, pop)
    a.rebind(delta())
  else:
    raise AssertionError(route)
  return a, kind


_SYM_REF = {}


def sym_reference(b_src, ctx, kind, name, seed, n_calls=None):
  """What a freshly constructed operator b_src (inside ctx) does (in n_calls
  successive calls, if more than the default number is asked for)."""
  k = (b_src, ctx, kind, name, seed, n_calls)
  if k not in _SYM_REF:
    pop = sym_pop(kind, name, seed)
    keep = []
    try:
      outer, okind = sym_context(ctx, kind, make(b_src))
      res = sym_calls(outer, okind, name, pop, keep, n_calls)
    except Exception as e:  # pylint: disable=broad-except
      res = ('exc', type(e).__name__, str(e)[:200])
    valid = all(check_child(c, space(name)) is None for c in (keep[0] if keep else [])
                if isinstance(c, pg.DNA))
    sym_pop_diff(kind, name, seed)
    _SYM_REF[k] = (res, valid)
  return _SYM_REF[k]


def sym_check(route, a_src, b_src, delta_src, back_src, ctx, kind, name, seed, verify=True, n_calls=None):
  """Returns {check: (ok, message)} for one (operator, change, route).

  verify: also check validity/alignment of the outputs and the inputs.
  n_calls: number of successive calls compared (default: 2 for DNA operators,
  3 for list operators).
  """
  S = space(name)
  default_calls = 2 if kind in SYM_DNA_KINDS else 3
  want, ref_valid = sym_reference(b_src, ctx, kind, name, seed,
                                  n_calls if (n_calls or 0) > default_calls else None)
  pop = sym_pop(kind, name, seed)
  keep = []
  try:
    outer, okind = sym_route(route, a_src, b_src, delta_src, back_src, ctx, kind, name, seed)
  except RouteUnavailable:
    return {}
  except Exception as e:  # pylint: disable=broad-except
    return {'same': (False, f'applying the change raised {type(e).__name__}: {str(e)[:300]}')}
  got = sym_calls(outer, okind, name, pop, keep, n_calls)
  if isinstance(want, list) and isinstance(got, list) and okind != 'evo':
    want = want[:len(got)]
  out = {}
  if got == want:
    out['same'] = (True, '')
  else:
    i = next((j for j, (x, y) in enumerate(zip(got, want)) if x != y), '?') if (
        isinstance(got, list) and isinstance(want, list)) else '?'
    show = lambda r: repr(r[i] if isinstance(i, int) else r)[:260]
    out['same'] = (False, f'call #{i}: the re-parameterised operator gives {show(got)}, a freshly constructed '
                   f'{b_src} gives {show(want)}')
  if verify and keep and ref_valid and isinstance(keep[0], list):
    bad = None
    for c in keep[0]:
      if isinstance(c, pg.DNA) and not _isin(c, pop):
        bad = check_child(c, S)
        if bad:
          break
    out['valid'] = (bad is None, bad and f'{bad[0]}: {bad[1]}')
  if verify or not out['same'][0]:
    d = sym_pop_diff(kind, name, seed)
    out['inputs'] = (d is None, d)
  return out


def sym_replay(route, a_src, b_src, delta_src, back_src, ctx, kind, name, seed, check='same', n_calls=None):
  """Witness entry point: raises AssertionError if the check fails."""
  res = sym_check(route, a_src, b_src, delta_src, back_src, ctx, kind, name, seed, n_calls=n_calls)
  assert check in res, f'route {route} not applicable'
  assert res[check][0], res[check][1]


def sym_entries(seed, quick=False):
  """Operator classes x parameters x values (the first value is the target)."""
  t, o = str(seed + 7), str(seed + 1)
  sd = (t, o, 'None')
  ramp = 'lambda xs: [float(i + 1) for i in range(len(xs))]'
  uni = 'lambda xs: [1.0] * len(xs)'
  ent = []

  def E(cls, kind, tmpl, params, paths=None, spaces=None, pure=False, rng_params=('seed',), calls=None,
        label=None):
    # calls: number of successive calls compared after every change (for
    # operators whose randomness lives in more than one object: each call
    # shows one more draw of each source).  label: distinguishes the case ids
    # of two templates of one class.
    if spaces is None:
      spaces = ('flat',) if kind in ('sel', 'nested', 'evo') else ('wide',)
    ent.append(dict(cls=cls, kind=kind, tmpl=tmpl, params=params, paths=paths or {},
                    spaces=spaces, pure=pure, calls=calls, label=label,
                    rng=[p for p in params if p in rng_params]))

  # Selectors.
  E('selectors.Random', 'sel', 'selectors.Random({n}, replacement={replacement}, seed={seed})',
    dict(n=('3', '2', '0.5', 'None'), replacement=('False', 'True'), seed=sd))
  E('selectors.Sample', 'sel', 'selectors.Sample({n}, {weights}, seed={seed})',
    dict(n=('3', '1', '0.5'), weights=(ramp, uni), seed=sd))
  E('selectors.Proportional', 'sel', 'selectors.Proportional({n}, {weights})',
    dict(n=('4', '2', '0.5'), weights=(ramp, uni)), pure=True)
  for cls in ('Top', 'Bottom'):
    E(f'selectors.{cls}', 'sel', f'selectors.{cls}({{n}}, key={{key}}, cluster={{cluster}})',
      dict(n=('2', '3', 'None', '0.5'),
           key=('base.get_generation_id', 'base.get_fitness', 'lambda d: -base.get_fitness(d)'),
           cluster=('True', 'False')), pure=True)
  for cls in ('First', 'Last'):
    E(f'selectors.{cls}', 'sel', f'selectors.{cls}({{n}})',
      dict(n=('2', '4', '0.5', 'None', '(lambda step: 1 + step)', 'scalars.STEP + 1')), pure=True)
  # Schedules below an operator.
  E('scalars.Uniform', 'sel', 'selectors.First(scalars.Uniform(1, 4, seed={seed}))',
    dict(seed=sd), paths=dict(seed='n.seed'))
  E('scalars.Triangular', 'sel', 'selectors.Last(scalars.Triangular(1, 5, seed={seed}))',
    dict(seed=sd), paths=dict(seed='n.seed'))
  E('scalars.Addition', 'sel', 'selectors.Last(scalars.STEP + {y})',
    dict(y=('1', '2')), paths=dict(y='n.y'), pure=True)
  E('scalars.Floor', 'sel', 'selectors.First(scalars.Floor({x}))',
    dict(x=('scalars.STEP * 1.5', '2.5')), paths=dict(x='n.x'), pure=True)
  # Mutators.
  E('mutators.Uniform', 'mut', 'mutators.Uniform(where={where}, seed={seed})',
    dict(where=('lambda d: d.is_leaf', 'lambda d: isinstance(d.spec, pg.geno.Float)', 'None'), seed=sd),
    spaces=('wide', 'perm', 'cond2'))
  E('mutators.Swap', 'mut', 'mutators.Swap(where={where}, seed={seed})',
    dict(where=('None', 'lambda d: len(d.children) > 3'), seed=sd), spaces=('perm2', 'perm'))
  # Recombinators.
  E('recombinators.Uniform', 'recN', 'recombinators.Uniform(where={where}, seed={seed})',
    dict(where=('where.ALL', 'where.Any(k=2, seed=3)', 'lambda xs: xs[:2]'), seed=sd),
    spaces=('wide', 'flat'))
  E('where.Any', 'recN', 'recombinators.Uniform(where=where.Any(k={k}, seed={wseed}), seed={seed})',
    dict(k=('3', '1', '(lambda step: 3)'), wseed=(t, o, 'None'), seed=(o, t)),
    paths=dict(k='where.k', wseed='where.seed'), rng_params=('seed', 'wseed'))
  E('recombinators.Sample', 'recN', 'recombinators.Sample({weights}, where={where}, seed={seed})',
    dict(weights=(ramp, uni), where=('where.ALL', 'lambda xs: xs[1:]'), seed=sd),
    spaces=('wide', 'flat'))
  E('recombinators.Average', 'recN', 'recombinators.Average(where={where})',
    dict(where=('where.ALL', 'lambda xs: xs[:-1]', 'lambda xs: []')), pure=True, spaces=('wide', 'floats'))
  E('recombinators.WeightedAverage', 'recN', 'recombinators.WeightedAverage({weights}, where={where})',
    dict(weights=(ramp, uni), where=('where.ALL', 'lambda xs: xs[:-1]')), pure=True,
    spaces=('wide', 'floats'))
  E('recombinators.KPoint', 'rec2', 'recombinators.KPoint({k}, seed={seed})',
    dict(k=('2', '1', '3', '(lambda step: 2)'), seed=sd), spaces=('wide', 'perm2'))
  E('recombinators.Segmented', 'rec2', 'recombinators.Segmented({cutting_points})',
    dict(cutting_points=('lambda xs: [len(xs) // 2]', 'lambda xs: [1, 3]', 'lambda xs: []')), pure=True)
  # Permutation recombinators: the documented random source is `seed`, which
  # also drives a decision point filter that draws (the default where.ANY, a
  # where.Any without a seed of its own).  On perm4x (4 permutation points)
  # the draw of a filter that returns fewer than 4 points decides which
  # decision is crossed over, so a filter that was left behind by a change
  # of the operator (or a new filter that was not picked up) shows.
  n_multi = 3
  for ci, cls in enumerate(('PartiallyMapped', 'Order', 'Cycle')):
    mine = ci == seed % 3
    E(f'recombinators.{cls}', 'rec2', f'recombinators.{cls}(where={{where}}, seed={{seed}})',
      dict(where=('where.ALL', 'where.Any(seed=3)', 'lambda xs: xs[:1]'), seed=sd),
      spaces=('perm2', 'perm'))
    # (default filter)
    E(f'recombinators.{cls}', 'rec2', f'recombinators.{cls}(seed={{seed}})', dict(seed=sd),
      spaces=('perm4x', 'perm6'), calls=n_multi, label='default-where')
    if not mine:
      # (the three classes share this machinery and a call costs 50-100 ms:
      # the templates below go to one class per seed of the run)
      continue
    # (towards a filter that takes the seed of the operator, from filters
    # that do not draw / have a seed of their own / draw another number)
    E(f'recombinators.{cls}', 'rec2', f'recombinators.{cls}(where={{where}}, seed={{seed}})',
      dict(where=('where.Any(k=1)', 'where.ALL', 'where.Any(k=1, seed=3)', 'where.Any(k=2)', 'lambda xs: xs[1:3]'),
           seed=sd),
      spaces=('perm4x',), calls=n_multi, label='where-draws')
    # (a filter constructed with a seed; k and both seeds change)
    E(f'recombinators.{cls}', 'rec2', f'recombinators.{cls}(where=where.Any(k={{wk}}, seed={{wseed}}), seed={{seed}})',
      dict(wk=('1', '2'), wseed=(t, o, 'None'), seed=(o, t, 'None')),
      paths=dict(wk='where.k', wseed='where.seed'), rng_params=('seed', 'wseed'),
      spaces=('perm4x',), calls=None if quick else n_multi, label='where-seeded')
    if quick:
      continue
    # (a seeded schedule below the filter: a third random source, with its
    # own seed)
    E(f'recombinators.{cls}', 'rec2',
      f'recombinators.{cls}(where=where.Any(k=scalars.Uniform(1, 3, seed={{kseed}})), seed={{seed}})',
      dict(kseed=(t, o), seed=(o, t)), paths=dict(kseed='where.k.seed'), rng_params=('seed', 'kseed'),
      spaces=('perm4x',), calls=n_multi, label='where-scheduled')
  # Compositions: their own parameters and their operands.
  E('base.Choice', 'sel', 'base.Choice([{op0}, {op1}], limit={limit}, seed={seed})',
    dict(op0=('(selectors.First(4), 0.5)', '(selectors.First(4), 0.9)', '(selectors.Top(2), 0.5)'),
         op1=('(selectors.Last(3), 0.5)', '(selectors.Last(3), 0.0)'),
         limit=('None', '1'), seed=sd), paths=dict(op0='ops[0]', op1='ops[1]'))
  E('base.Choice', 'sel', 'base.Choice({ops}, seed={seed})',
    dict(ops=('[(selectors.First(4), 0.5), (selectors.Last(3), 0.5)]', '[(selectors.Top(2), 0.9)]'),
         seed=sd))
  E('base.Power', 'mut', '(mutators.Uniform(seed={mseed}) ** {k})',
    dict(k=('2', '1', '3', '(lambda step: 2)'), mseed=sd), paths=dict(mseed='op.seed'), rng_params=('mseed',))
  E('base.Repeat', 'mut', '(mutators.Uniform(seed={mseed}) * {k})',
    dict(k=('2', '1', '3', '(lambda step: 2)'), mseed=sd), paths=dict(mseed='op.seed'), rng_params=('mseed',))
  E('base.Power', 'sel', 'base.Power({op}, {k})',
    dict(op=('base.Identity()[1:]', 'selectors.Top(4)[:-1]'), k=('2', '1', '0')), pure=True)
  E('base.Repeat', 'sel', 'base.Repeat({op}, {k})',
    dict(op=('selectors.First(2)', 'selectors.Top(1)'), k=('2', '1', '0')), pure=True)
  E('base.Slice', 'sel', 'base.Slice({op}, {index})',
    dict(op=('selectors.Top(4)', 'selectors.Last(3)'),
         index=('slice(1, 3)', 'slice(0, 2)', '0', '(lambda step: slice(0, 1))')), pure=True)
  E('base.UntilChange', 'sel', 'base.UntilChange(selectors.Last(2).with_prob(0.3, seed={cseed}), {max_attempts})',
    dict(max_attempts=('5', '1', '2'), cseed=sd), paths=dict(cseed='op.seed'), rng_params=('cseed',))
  E('base.UntilChange', 'sel', 'base.UntilChange({op}, 2)',
    dict(op=('selectors.First(2)', 'selectors.Last(1)')), pure=True)
  E('base.Conditional', 'sel', 'base.Conditional({predicate}, {true_op}, {false_op})',
    dict(predicate=('lambda xs: len(xs) > 2', 'lambda xs: False', 'lambda xs, step: step % 2 == 0'),
         true_op=('selectors.First(2)', 'selectors.Top(1)'),
         false_op=('selectors.Last(1)', 'None', 'selectors.Bottom(2)')), pure=True)
  E('base.Conditional', 'sel', 'base.Conditional({predicate}, {true_op}, {false_op})',
    dict(predicate=('lambda xs: False', 'lambda xs: True'),
         true_op=('selectors.First(2)', 'selectors.Top(1)'),
         false_op=('selectors.Last(1)', 'None', 'selectors.Bottom(2)')), pure=True)
  E('base.Lambda', 'sel', 'base.Lambda({fn})',
    dict(fn=('lambda xs: xs[::-1]', 'lambda xs: xs[:1]', 'lambda xs, step: xs[step:]')), pure=True)
  E('base.Inversion', 'sel', 'base.Inversion({op})',
    dict(op=('selectors.First(2)', 'selectors.Top(3)')), pure=True)
  E('base.ElementWise', 'sel',
    'base.Pipeline([base.Lambda(lambda xs: [xs[:3], xs[3:]]), base.ElementWise({op}), base.Flatten()])',
    dict(op=('selectors.First(1)', 'selectors.Last(2)')), paths=dict(op='ops[1].op'), pure=True)
  E('base.Flatten', 'nested', 'base.Flatten({max_level})', dict(max_level=('1', '2', 'None')), pure=True)
  E('base.GlobalState', 'sel',
    'base.Pipeline([selectors.First(2), base.GlobalStateSetter({skey}), base.GlobalStateGetter({key}, {default})])',
    dict(skey=("'k'", "'j'"), key=("'k'", "'j'"), default=('[]', 'None')),
    paths=dict(skey='ops[1].key', key='ops[2].key', default='ops[2].default'), pure=True)
  E('base.GlobalState', 'sel',
    "base.Pipeline([selectors.First(2), base.GlobalStateSetter('k', {value}), base.GlobalStateGetter('k')])",
    dict(value=('(pg.MISSING_VALUE,)', '[]')), paths=dict(value='ops[1].value'), pure=True)
  for cls in ('Pipeline', 'Concatenation', 'Union', 'Intersection', 'Difference', 'SymmetricDifference'):
    E(f'base.{cls}', 'sel', f'base.{cls}([{{x}}, {{y}}])',
      dict(x=('selectors.First(3)', 'selectors.Top(3)'), y=('selectors.Top(2)', 'selectors.Last(2)')),
      paths=dict(x='ops[0]', y='ops[1]'), pure=True)
    E(f'base.{cls}', 'sel', f'base.{cls}({{ops}})',
      dict(ops=('[selectors.First(3), selectors.Top(2)]',
                '[selectors.Last(4), selectors.Bottom(3), selectors.First(5)]')), pure=True)
  E('base.Pipeline', 'rec2',
    'base.Pipeline([recombinators.KPoint(2, seed={rseed}), mutators.Uniform(seed={mseed})])',
    dict(rseed=sd, mseed=sd), paths=dict(rseed='ops[0].seed', mseed='ops[1].seed'),
    rng_params=('rseed', 'mseed'))
  if not quick:
    E('base.Concatenation', 'recN',
      'base.Concatenation([recombinators.Uniform(seed={rseed}), mutators.Uniform(seed={mseed})])',
      dict(rseed=sd, mseed=sd), paths=dict(rseed='ops[0].seed', mseed='ops[1].seed'),
      rng_params=('rseed', 'mseed'))
  # The Evolution loop itself.
  E('Evolution', 'evo',
    'ev.Evolution(base.Pipeline([selectors.Random(2, seed={sseed}), recombinators.KPoint(2, seed={rseed}), '
    'selectors.First(1), mutators.Uniform(seed={mseed})]), '
    'population_init=(pg.geno.Random(seed=5), 4), population_update=selectors.Last({n}))',
    dict(sseed=sd, rseed=sd, mseed=sd, n=('5', '3')),
    paths=dict(sseed='reproduction.ops[0].seed', rseed='reproduction.ops[1].seed',
               mseed='reproduction.ops[3].seed', n='population_update.n'),
    rng_params=('sseed', 'rseed', 'mseed'), spaces=('wide', 'perm2'))
  return ent


def drv_symbolic(tier, seed):
  random.seed(f'c14/drv_symbolic/{seed}')   # code under test falls back to the global RNG
  quick = tier == 'quick'
  entries = sym_entries(seed, quick)
  rec = Recorder(
      'C14', 'operators re-parameterised through the symbolic APIs behave like freshly constructed '
      'operators with the same parameters (seed included)',
      scope=f'{len(entries)} operator templates (every selector, mutator, recombinator, where.Any, seeded and '
      'arithmetic schedules, every composition class, global state, the Evolution loop) x every parameter x '
      '2-5 alternative values (+ all parameters at once) x routes: rebind (dict / kwargs / function / one by one / '
      f'there and back), attribute assignment, clone(override) shallow and deep, rebind after use; inside '
      f'{len(SYM_CONTEXTS)} compositions and an Evolution: rebind by path from the root, rebind of the held '
      'operand, replacement of the operand, clone(override) of the root; copies (clone, deep clone, copy, '
      'deepcopy, JSON round trip); 3 successive calls (steps 0..2) per operator; populations of 6 DNAs '
      '(selectors), 2-3 parents (DNA operators); permutation recombinators also on a space with 4 permutation '
      'points with the default filter, where.Any without / with a seed of its own and with a seeded schedule as k '
      '(the seed of the operator drives the filter as well)')

  def case(cid, key, res, wit):
    ok, msg = res
    if ok:
      rec.case(cid, key, True)
    else:
      rec.case(cid, key, False, msg, wit())

  vi = 0
  for ei, en in enumerate(entries):
    cls, kind, tmpl, params, paths = en['cls'], en['kind'], en['tmpl'], en['params'], en['paths']
    tag = f'[{en["label"]}]' if en['label'] else ''
    target = {p: v[0] for p, v in params.items()}
    b_src = tmpl.format(**target)
    variants = []
    for p, vals in params.items():
      for ai, alt in enumerate(vals[1:]):
        variants.append((paths.get(p, p), dict(target, **{p: alt}), [p], ai == 0))
    if len(params) > 1:
      variants.append(('all-params', {p: v[1] for p, v in params.items()}, list(params), True))
    names = en['spaces'][:1] if quick else en['spaces']
    cheap = kind in ('sel', 'nested')
    accepted = [c[0] for c in SYM_CONTEXTS if kind in c[2].split()] + ['evolution']
    for name in names:
      # Copies of a fresh operator.
      copies = SYM_COPY_ROUTES
      if quick:
        copies = [SYM_COPY_ROUTES[(ei + seed) % 4], 'json'] if cheap else [SYM_COPY_ROUTES[(ei + seed) % 5]]
      for route in copies:
        ctxs = [None] if (kind in ('evo', 'nested') or quick) else [None, 'pipeline', 'evolution']
        for ctx in ctxs:
          args = (route, b_src, b_src, {}, {}, ctx, kind, name, seed)
          res = sym_check(*args, verify=not quick)
          key = (cls, b_src, route, ctx, name)
          wit = lambda args=args, chk='same': (
              SHDR + f'# a copy ({args[0]}) of {args[2]} must behave like the original\n'
              f'sym_replay(*{args!r}, check={chk!r})')
          if 'same' in res:
            case(f'symbolic.{cls}.copy-behaves-as-fresh', key, res['same'], wit)
          if 'valid' in res:
            case(f'symbolic.{cls}.valid+aligned', key, res['valid'], lambda: wit(chk='valid'))
      for label, a_params, changed, primary in variants:
        vi += 1
        rot = vi + seed
        a_src = tmpl.format(**a_params)
        delta_src = {paths.get(p, p): target[p] for p in changed}
        back_src = {paths.get(p, p): a_params[p] for p in changed}
        seed_change = [p for p in changed if p in en['rng']]
        after_use = en['pure'] or (len(en['rng']) == 1 and bool(seed_change)
                                   and target[seed_change[0]] != 'None')
        others = [r for r in SYM_DIRECT_ROUTES if r != 'rebind' and (r != 'after-use' or after_use)
                  and (r != 'rebind-one-by-one' or len(changed) > 1)
                  and (r != 'rebind-kwargs' or all(k.isidentifier() for k in delta_src))]
        if not quick:
          routes = [('rebind', None)] + [(r, None) for r in others]
        elif cheap:
          if primary:
            routes = [('rebind', None), (others[rot % len(others)], None),
                      (others[(rot + 3) % len(others)], None)]
          else:
            routes = [((['rebind'] + others)[rot % (1 + len(others))], None)]
        elif label == 'all-params':
          routes = [(others[rot % len(others)], None)]
        elif primary:
          # (DNA operators cost 25-90 ms per call: every parameter by rebind,
          # seeds by two more routes, the other routes rotate with the seed
          # of the run)
          routes = [('rebind', None)] + ([(others[rot % len(others)], None)] if seed_change else [])
        else:
          routes = [((['rebind'] + others)[rot % (1 + len(others))], None)] if rot % 3 == 0 else []
        if kind not in ('evo', 'nested') and (primary or not quick):
          # (thorough: 2 compositions per change, all of them over the changes
          # of an operator template; none for the secondary values)
          ctxs = [accepted[(rot * 3 + j * 5) % len(accepted)] for j in range(2)] if primary else []
          if quick:
            # (one composition per operator template and seed keeps the
            # reference runs shared; the seed of the run rotates through them)
            n_ctx = 1 if (seed_change or (cheap and rot % 2)) else 0
            ctxs = [accepted[(ei * 5 + seed) % len(accepted)]][:n_ctx]
          for c in ctxs:
            if quick:
              routes.append((SYM_CONTEXT_ROUTES[rot % 4], c))
              if cheap and seed_change and rot % 4:
                routes.append(('context-path', c))
            else:
              routes.extend((r, c) for r in SYM_CONTEXT_ROUTES)
        for ri, (route, ctx) in enumerate(routes):
          args = (route, a_src, b_src, delta_src, back_src, ctx, kind, name, seed)
          n_calls = en['calls'] or (1 if quick and not cheap and not seed_change else None)
          res = sym_check(*args, verify=(not quick or (ri == 0 and (cheap or primary))), n_calls=n_calls)
          if not res:
            continue
          key = (cls, a_src, b_src, route, ctx, name)
          group = SYM_GROUP[route] if ctx != 'evolution' else 'in-evolution'
          wit = lambda args=args, chk='same': (
              SHDR + f'# {args[1]}\n#   brought to {args[3]} via {args[0]}'
              + (f' inside composition {args[5]!r}' if args[5] else '')
              + f'\n# must behave like a fresh {args[2]}\n'
              f'sym_replay(*{args!r}, check={chk!r}, n_calls={n_calls!r})')
          case(f'symbolic.{cls}{tag}.{label}.behaves-as-fresh/{group}', key, res['same'], wit)
          if 'valid' in res:
            case(f'symbolic.{cls}.valid+aligned', key, res['valid'], lambda: wit(chk='valid'))
          if 'inputs' in res:
            case(f'symbolic.{cls}.inputs-unchanged', key, res['inputs'], lambda: wit(chk='inputs'))
  return rec.result()


DRIVERS = [drv_flatten_foreach, drv_mutators, drv_recombinators, drv_selectors, drv_algebra, drv_pipelines,
           drv_weighted, drv_schedules, drv_symbolic]


def replay(rec):
  """Re-executes rec['witness']; returns (ok, message)."""
  try:
    exec(rec['witness'], {})  # pylint: disable=exec-used
    return True, 'witness passes'
  except Exception as e:  # pylint: disable=broad-except
    return False, f'{type(e).__name__}: {e}'
