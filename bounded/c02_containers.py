"""C02 bounded drivers: pg.List / pg.Dict (no value spec) vs. plain list / dict.

Differential oracle.  Every operation is a piece of Python source over a
variable `x`; it is executed once with `x` bound to the symbolic container and
once with `x` bound to a plain list/dict holding the same contents (fresh
literals on both sides, so no aliasing is shared).  For the documented
extensions (MISSING_VALUE deletes, rebind past the end appends, pg.Insertion
inserts, rebind with several paths addresses the *original* positions) the
reference is a small hand-written model on the plain container.

After every step of every history the driver compares
  * the outcome: same normalised result, or an exception on both sides (for
    IndexError / KeyError the very same class, as the statement demands),
  * the state: raw contents, list(x)/dict(x), iteration order, len, `in`,
    item reads, slicing, == / != against the plain container both ways,
    pg.to_json(x).
A failing step is recorded and the symbolic side is re-synchronised from the
reference so that the rest of the history is still exercised.

drv_nested drives containers that live *inside* other symbolic values (value
of a Dict, element of a List, field of an Object, depth 3): directly, through
every ancestor's rebind (1..3 paths x replace / insert / delete, with a sibling
container updated in the same call), with change notification on, partly off
and off, and through a rebinder function; the nested container and the whole
host are compared with the plain reference after every step.

Contents are compared by repr, so elements that compare equal but can be told
apart (1 / 1.0 / True, records with equal sort keys, NaN objects) pin down
*which* element an order- or equality-sensitive operation moved or found:
drv_list_ties covers sort/sorted/min/max (every key function x every form of
`reverse`) and remove/index/count/in on such elements.

The missing-value marker is a *class* of values, not one object: everything
that compares equal to pg.MISSING_VALUE is the marker (the typed placeholders
`pg.typing.MissingValue(spec)` that partial symbolic objects hold for their
unfilled fields, a deep copy, a marker that went through JSON).  Every
operation that takes the marker (`M` in its source) is therefore also run with
the other forms (`marker_variants`): item / attribute assignment, update in all
its argument forms, |=, rebind (1..n paths, nested paths, through ancestors, via
a rebinder function, with notification off), the constructors, append / extend,
and copying from a partial pg.Dict as a whole (update / |= / constructor /
item by item).

JSON conversion is a family of spellings, not one call: drv_json takes the
container through the JSON value, the JSON string and the files built on it
(functions, methods, flags, indentation, pg.save / pg.load, pg.open_jsonl) and
demands that what is read back agrees with the plain reference through the
whole read API, over the classes of keys (ints of either sign and any size
next to strings that look like them or like the codec's markers), of values
and of positions; containers read back from JSON are driven through histories
again, and the final container of every random history (top level and nested)
goes through JSON as well.
"""
import itertools
import re

import pyglove as pg
from pyvc.bounded import Recorder, rng

M = pg.MISSING_VALUE
Ins = pg.Insertion

_GEN_TYPES = (type(iter([])), type(iter(())), type(iter({})), type({}.keys()),
              type({}.values()), type({}.items()), type(reversed([])),
              type(reversed({})), type(x for x in ()), type(iter(range(0))),
              type(reversed({}.items())), type(reversed({}.values())))


def N(v):
  """Normal form of a result: symbolic containers -> plain, iterators -> list."""
  if isinstance(v, dict):
    return {k: N(v[k]) for k in list(v)}
  if isinstance(v, list):
    return [N(e) for e in v]
  if isinstance(v, tuple):
    return tuple(N(e) for e in v)
  if isinstance(v, _GEN_TYPES):
    return [N(e) for e in v]
  return v


_ENV = dict(pg=pg, M=M, Ins=Ins, N=N)
_CODE = {}

# ---------------------------------------------------------------------------
# Forms of the missing-value marker (all of them == pg.MISSING_VALUE, none of
# them *is* pg.MISSING_VALUE).  name -> (source line defining it, names it needs).
# PD is a partial pg.Dict: 'a' and 'b' are unfilled (typed markers), 'new' is 1.
# ---------------------------------------------------------------------------
_MARKER_DEFS = {
    'MT': ('MT=pg.typing.MissingValue(pg.typing.Int())', ()),
    'PD': ("PD=pg.Dict.partial(value_spec=pg.typing.Dict([('a',pg.typing.Int()),('new',pg.typing.Int(default=1)),"
           "('b',pg.typing.List(pg.typing.Any()))]))", ()),
    'MF': ("MF=PD.sym_getattr('b')", ('PD',)),
    'MC': ("MC=__import__('copy').deepcopy(M)", ()),
    'MJ': ('MJ=pg.from_json(pg.to_json(M))', ()),
}
_MARKER_NAME = re.compile(r'\b(' + '|'.join(_MARKER_DEFS) + r')\b')
for _name in ('MT', 'PD', 'MF', 'MC', 'MJ'):
  try:
    exec(_MARKER_DEFS[_name][0], _ENV)  # pylint: disable=exec-used
  except Exception:  # pylint: disable=broad-except
    pass    # (a changed tree: every operation that names it fails with NameError and is recorded)

# (name, input class in the case id); an operation gets one form of each class.
_MARKER_FORMS = [[('MT', 'typed-marker'), ('MC', 'marker-copy')],
                 [('MF', 'typed-marker'), ('MJ', 'marker-copy')]]
_M_TOKEN = re.compile(r'\bM\b')

# Input classes that are defined by something else than the spelling of a
# deletion and hold for every form of the marker: no marker suffix.
_FORM_FREE_IDS = {'list.rebind-multi/several-past-end',
                  'nested-list.anc-rebind/notification-off/with-delete',
                  'nested-dict.anc-rebind/several-new-keys/list-receiver'}


def _marker_defs_for(text):
  """The definition lines of the marker names used in `text` (for witnesses)."""
  need = []
  def add(n):
    for d in _MARKER_DEFS[n][1]:
      add(d)
    if n not in need:
      need.append(n)
  for n in _MARKER_NAME.findall(text):
    add(n)
  return [_MARKER_DEFS[n][0] for n in need]


def _compile(src):
  c = _CODE.get(src)
  if c is None:
    try:
      c = (compile(src, '<op>', 'eval'), True)
    except SyntaxError:
      c = (compile(src, '<op>', 'exec'), False)
    _CODE[src] = c
  return c


def _run(src, x, R=None):  # pylint: disable=invalid-name
  """Runs src with `x` (and `R`) bound; returns (outcome, x-after-rebinding)."""
  code, is_expr = _compile(src)
  env = dict(_ENV)
  env['x'] = x
  env['R'] = R
  try:
    if is_expr:
      v = eval(code, env)  # pylint: disable=eval-used
    else:
      exec(code, env)  # pylint: disable=exec-used
      v = None
    return ('ok', repr(N(v))), env['x']
  except Exception as e:  # pylint: disable=broad-except
    return ('exc', type(e).__name__), env['x']


def _run_ref(fn, r):
  try:
    return ('ok', repr(N(fn(r))))
  except Exception as e:  # pylint: disable=broad-except
    return ('exc', type(e).__name__)


class Op:
  """One operation.

  src:  python source over `x` (and pg, M, Ins, N).
  cid:  case id, or a function (reference-before) -> case id.
  ref:  None (run `src` on the plain container) or fn(plain) -> result.
  alts: optional fn(plain-before) -> list of acceptable plain states after (for
        the one place where the statement leaves the order open).
  mut:  whether the op may change the container.
  """

  def __init__(self, src, cid, ref=None, alts=None, mut=True):
    self.src, self._cid, self.ref, self.alts, self.mut = src, cid, ref, alts, mut

  def cid(self, r):
    return self._cid(r) if callable(self._cid) else self._cid


def _with_marker(op, name, label):
  """`op` with the marker spelled `name` instead of `M`; the reference is the same."""
  assert op.ref is not None, op.src      # (the plain container never sees a marker)
  def cid(r):
    c = op.cid(r)
    # (key / index classes are covered with pg.MISSING_VALUE itself: the class here is operation x marker form)
    return c if c in _FORM_FREE_IDS else f"{c.split('/')[0]}/{label}"
  v = Op(_M_TOKEN.sub(name, op.src), cid, ref=op.ref, alts=op.alts, mut=op.mut)
  if hasattr(op, 'sib_fn'):
    v.sib_fn = op.sib_fn
  return v


def marker_variants(ops, start=0, one=False):
  """Every op that takes the marker, with the other forms of the marker.

  Each op gets one typed marker and one untyped copy (which of the two of each
  class alternates from op to op); with `one`, a single form per op, cycling
  through all four.
  """
  out = []
  n = start
  for op in ops:
    if not _M_TOKEN.search(op.src):
      continue
    if one:
      out.append(_with_marker(op, *_MARKER_FORMS[n % 2][(n // 2) % 2]))
    else:
      out.extend(_with_marker(op, *f) for f in _MARKER_FORMS[n % 2])
    n += 1
  return out


_WITNESS_HEAD = '''import pyglove as pg
M=pg.MISSING_VALUE;Ins=pg.Insertion;nan=float('nan')
def N(v):
 if isinstance(v,dict):return {k:N(v[k]) for k in list(v)}
 if isinstance(v,(list,tuple)):return (tuple if isinstance(v,tuple) else list)(N(e) for e in v)
 if hasattr(v,'__next__') or type(v).__name__[:5]=='dict_':return [N(e) for e in v]
 return v
def run(s):
 try:
  try:c=compile(s,'w','eval')
  except SyntaxError:exec(s,globals());return('ok','None')
  return('ok',repr(N(eval(c,globals()))))
 except Exception as e:return('exc',type(e).__name__)'''


def _witness(ctor, init, prefix, src, check):
  """ctor: 'List' / 'Dict', or complete source lines that bind `x`."""
  lines = [f'x = pg.{ctor}({init!r})' if ctor in ('List', 'Dict') else ctor]
  for p in prefix:
    lines.append(f'run({p!r})')
  if src is not None:
    lines.append(f'got = run({src!r})')
  lines.append(check)
  body = '\n'.join(lines)
  return '\n'.join([_WITNESS_HEAD] + _marker_defs_for(body) + [body])


# ---------------------------------------------------------------------------
# State observations.  (name, source on x, source on the plain reference or None
# for "same source").  `R` is replaced by the repr of the reference contents.
# ---------------------------------------------------------------------------

_LIST_RAW = 'repr(N(list(list.__iter__(x)))) == repr(N(R))'
_LIST_OBS = [
    ('list(x)', 'list(x)', None),
    ('len', 'len(x)', None),
    ('iter', '[e for e in x]', None),
    ('getitem+', '[x[i] for i in range(len(R))]', None),
    ('getitem-', '[x[-i - 1] for i in range(len(R))]', None),
    ('slice[:]', 'x[:]', None),
    ('eq', '(x == R, R == x, x != R, R != x)', None),
    ('in', '([e in x for e in R], "@nope" in x)', None),
    ('to_json', 'pg.to_json(x)', 'R'),
    ('reversed', 'list(reversed(x))', None),
    ('bool', 'bool(x)', None),
]
_DICT_RAW = 'repr(N(list(dict.items(x)))) == repr(N(list(R.items())))'
_DICT_OBS = [
    ('dict(x)', 'dict(x)', None),
    ('len', 'len(x)', None),
    ('iter', '[k for k in x]', None),
    ('keys', 'list(x.keys())', None),
    ('values', 'list(x.values())', None),
    ('items', 'list(x.items())', None),
    ('getitem', '[x[k] for k in R]', None),
    ('get', '[x.get(k, "@d") for k in list(R) + ["@nope", 77]]', None),
    ('in', '[k in x for k in list(R) + ["@nope", 77]]', None),
    ('eq', '(x == R, R == x, x != R, R != x)', None),
    ('to_json', 'pg.to_json(x)', 'R'),
    ('getattr', '[getattr(x, k) for k in R if isinstance(k, str) and k.isidentifier()]',
     '[x[k] for k in R if isinstance(k, str) and k.isidentifier()]'),
    ('reversed', 'list(reversed(x))', None),
    ('bool', 'bool(x)', None),
]


def _raw_equal(x, r, kind):
  return _run(_LIST_RAW if kind == 'List' else _DICT_RAW, x, r)[0] == ('ok', 'True')


def _observe(x, r, kind, light=False, names=None):
  """Returns None or (where, obs-name, src, got, want)."""
  if not _raw_equal(x, r, kind):
    src = 'list(list.__iter__(x))' if kind == 'List' else 'list(dict.items(x))'
    shown, _ = _run(src, x)
    want = ('ok', repr(N(r) if kind == 'List' else list(N(r).items())))
    return ('state', 'raw-contents', src, shown, want)
  if light:
    return None
  for name, src, ref_src in (_LIST_OBS if kind == 'List' else _DICT_OBS):
    if names is not None and name not in names:
      continue
    got, _ = _run(src, x, r)
    want, _ = _run(ref_src or src, N(r), r)
    if got != want:
      return ('read', name, src.replace('R', repr(r)), got, want)
  return None


def _fresh(kind, r):
  return pg.List(N(r)) if kind == 'List' else pg.Dict(N(r))


def _copy_plain(r):
  return N(r)


class Session:
  """Drives one symbolic container and its reference through a history."""

  def __init__(self, rec, kind, init, full_reads=False, resync_on_fail=True, obs=None):
    self.rec, self.kind, self.full_reads = rec, kind, full_reads
    self.obs = obs                  # None: every read API; else the names to use
    self.resync_on_fail = resync_on_fail
    self.r = _copy_plain(init)
    self.x = self._make(init)
    self.base = _copy_plain(init)   # contents at the last (re)sync
    self.cid_prefix = ''            # put in front of every op's case id
    self.prefix = []                # op sources since the last (re)sync

  def _make(self, r):
    """The symbolic container under test, holding the plain contents `r`."""
    return _fresh(self.kind, r)

  def _ctor(self):
    """What the witness starts from: the kind, or source lines binding `x`."""
    return self.kind

  def _post(self, op, cid, key, before):
    """Further checks after a step that held so far; records its own failure."""
    del op, cid, key, before
    return True

  def resync(self):
    if not self.resync_on_fail:
      return
    self.x = self._make(self.r)
    self.base = _copy_plain(self.r)
    self.prefix = []

  def step(self, op, key):
    """Runs one op on both sides, records the case; returns True iff it held."""
    rec, kind = self.rec, self.kind
    cid = self.cid_prefix + op.cid(self.r)
    before = _copy_plain(self.r)
    if op.ref is None:
      want, self.r = _run(op.src, self.r)
    else:
      want = _run_ref(op.ref, self.r)
    got, self.x = _run(op.src, self.x)
    if op.alts is not None:
      # Order left open by the statement: adopt whichever acceptable state the
      # symbolic container took (if any).
      for alt in op.alts(before):
        if _raw_equal(self.x, alt, kind):
          self.r = alt
          if want[0] == 'ok':
            want = ('ok', repr(alt)) if got == ('ok', repr(alt)) else want
          break
    ok = True
    msg = ''
    wit = ''
    if want[0] == 'ok':
      ok = got == want
    elif want[1] in ('IndexError', 'KeyError'):
      ok = got == want
    else:
      ok = got[0] == 'exc'
    if not ok:
      msg = f'{op.src} on {before!r}: got {got}, reference {want}'
      wit = _witness(self._ctor(), self.base, self.prefix, op.src,
                     f'assert got == {want!r}, got' if want[0] == 'ok' or want[1] in ('IndexError', 'KeyError')
                     else f'assert got[0] == "exc", got  # plain container raises {want[1]}')
      rec.case(cid, key, False, msg, wit)
      self.resync()
      return False
    if not isinstance(self.x, (pg.List, pg.Dict)):
      rec.case(cid, key, False, f'{op.src}: container replaced by {type(self.x)}',
               _witness(self._ctor(), self.base, self.prefix, op.src, f'assert isinstance(x, pg.{kind}), type(x)'))
      self.resync()
      return False
    bad = _observe(self.x, self.r, kind, light=not op.mut and not self.full_reads, names=self.obs)
    if bad is not None:
      where, name, osrc, ogot, owant = bad
      # Contents differ -> blame the operation; contents equal but a read API
      # disagrees -> blame that read API (independent of the operation).
      fid = cid if where == 'state' else f'{kind.lower()}.read/{name}'
      msg = (f'after {op.src} on {before!r}: observation {name}: got {ogot}, '
             f'reference {owant} (reference contents {self.r!r})')
      wit = _witness(self._ctor(), self.base, self.prefix + [op.src], None,
                     f'got = run({osrc!r})\nassert got == {owant!r}, got')
      rec.case(fid, key, False, msg, wit)
      self.resync()
      return False
    if not self._post(op, cid, key, before):
      self.resync()
      return False
    rec.case(cid, key, True)
    self.prefix.append(op.src)
    if len(self.prefix) >= 8:
      self.resync()
    return True


# ---------------------------------------------------------------------------
# List operations
# ---------------------------------------------------------------------------

def _icls(i, n):
  return 'in-range' if -n <= i < n else 'out-of-range'


def _sl(s, e, st):
  f = lambda v: '' if v is None else str(v)
  return f'{f(s)}:{f(e)}' + ('' if st is None else f':{st}')


def _step_cls(st):
  if st is None or st == 1:
    return 'step=1'
  if st == 0:
    return 'step=0'
  return 'step>1' if st > 1 else 'step<0'


def _set_slice_cid(s, e, st, k):
  def f(r):
    sc = _step_cls(st)
    if sc == 'step=0':
      return 'list.setitem-slice/step=0'
    a, b, c = slice(s, e, st).indices(len(r))
    size = len(range(a, b, c))
    if sc == 'step<0':
      return 'list.setitem-slice/step<0'
    if a > b:
      rel = 'start>stop'
    elif sc == 'step=1':
      rel = 'same-size' if k == size else ('grow' if k > size else 'shrink')
    else:
      rel = 'size-match' if k == size else 'size-mismatch'
    return f'list.setitem-slice/{sc}/{rel}'
  return f


def _ref_setitem_missing(i):
  def f(r):
    if not -len(r) <= i < len(r):
      raise IndexError(i)
    del r[i]
  return f


def _ref_rebind(ups):
  """ups: [(index, kind, value)], kind in 'r' (replace/append), 'i', 'd'."""
  def f(r):
    n = len(r)
    if not ups:
      raise ValueError('nothing to rebind')
    if len(ups) == 1 and ups[0][0] < 0:
      i, k, v = ups[0]
      if k == 'i':
        r.insert(i, N(v))
      elif k == 'd':
        del r[i]
      else:
        r[i] = N(v)
      return r
    at = {i: (k, v) for i, k, v in ups}
    out = []
    for i in range(n):
      k, v = at.get(i, (None, None))
      if k == 'i':
        out.append(N(v))
        out.append(r[i])
      elif k == 'r':
        out.append(N(v))
      elif k == 'd':
        pass
      else:
        out.append(r[i])
    for i in sorted(at):
      if i >= n and at[i][0] != 'd':
        out.append(N(at[i][1]))
    r[:] = out
    return r
  return f


def _alts_rebind(ups):
  def f(before):
    n = len(before)
    tail = [i for i, k, _ in ups if i >= n and k != 'd']
    if len(tail) < 2:
      return []
    res = []
    for perm in itertools.permutations(tail):
      # Same model, but past-the-end values appended in the order `perm`.
      r = N(before)
      inner = [(i, k, v) for i, k, v in ups if i < n]
      if inner:
        _ref_rebind(inner)(r)
      vals = {i: v for i, k, v in ups}
      for i in perm:
        r.append(N(vals[i]))
      res.append(r)
    return res
  return f


def _rebind_src(ups, str_keys=False):
  parts = []
  for i, k, v in ups:
    key = repr(f'[{i}]') if str_keys else repr(i)
    val = {'r': repr(v), 'i': f'Ins({v!r})', 'd': 'M'}[k]
    parts.append(f'{key}: {val}')
  return 'x.rebind({' + ', '.join(parts) + '})'


def _rebind_cid(ups):
  def f(r):
    n = len(r)
    if len(ups) > 1:
      past = sum(1 for i, _, _ in ups if i >= n)
      if past >= 2:
        return 'list.rebind-multi/several-past-end'
      return 'list.rebind-multi/' + ('one-past-end' if past else 'in-range')
    i, k, _ = ups[0]
    if i < 0:
      return f'list.rebind/{ {"r": "replace", "i": "insert", "d": "delete"}[k]}-negative-{_icls(i, n)}'
    if i >= n:
      return 'list.rebind/' + {'r': 'append-past-end', 'i': 'insert-past-end', 'd': 'delete-past-end'}[k]
    return 'list.rebind/' + {'r': 'replace', 'i': 'insert', 'd': 'delete'}[k]
  return f


def _ins_cid(i):
  def f(r):
    n = len(r)
    if i >= n:
      return 'list.insert/at-or-past-end'
    if i < -n:
      return 'list.insert/below-start'
    return 'list.insert/in-range' if i >= 0 else 'list.insert/negative'
  return f


def list_read_ops(lo, hi, steps, sample_vals):
  ops = []
  for i in range(lo, hi + 1):
    ops.append(Op(f'x[{i}]', lambda r, i=i: f'list.getitem/{_icls(i, len(r))}', mut=False))
  for bad in ("'a'", '1.5', 'None', '(0,)'):
    ops.append(Op(f'x[{bad}]', 'list.getitem/non-int', mut=False))
  bounds = [None] + list(range(lo, hi + 1))
  for s in bounds:
    for e in bounds:
      for st in steps:
        ops.append(Op(f'x[{_sl(s, e, st)}]', f'list.getitem-slice/{_step_cls(st)}', mut=False))
  for v in sample_vals:
    ops.append(Op(f'{v!r} in x', 'list.contains', mut=False))
    ops.append(Op(f'x.count({v!r})', 'list.count', mut=False))
    ops.append(Op(f'x.index({v!r})', lambda r, v=v: 'list.index/' + ('present' if v in r else 'absent'), mut=False))
    ops.append(Op(f'x.index({v!r}, 1)', lambda r, v=v: 'list.index-start/' + ('present' if v in r[1:] else 'absent'), mut=False))
  ops += [
      Op('len(x)', 'list.len', mut=False),
      Op('sorted(x, key=repr)', 'list.sorted', mut=False),
      Op('(lambda c: [c.append(99), list(c), list(x), type(c).__name__][1:])(x.copy())', 'list.copy', mut=False,
         ref=lambda r: [r + [99], list(r), 'List']),
      Op('(lambda c: [c.append(99), list(c), list(x)][1:])(__import__("copy").copy(x))', 'list.copy-module', mut=False),
      Op('(lambda c: [c.append(99), list(c), list(x)][1:])(__import__("copy").deepcopy(x))', 'list.deepcopy-module', mut=False),
      Op('(lambda c: [c.append(99), list(c), list(x)][1:])(x + [7, [8]])', 'list.add/list', mut=False),
      Op('x + pg.List([7, 8])', 'list.add/pg.List', mut=False, ref=lambda r: r + [7, 8]),
      Op('x + []', 'list.add/empty', mut=False),
      Op('[7] + x', 'list.radd', mut=False),
      Op('x + x', 'list.add/self', mut=False),
      Op('x == list(x)', 'list.eq', mut=False),
      Op('(x == x + [1], x != x + [1], x == tuple(x))', 'list.eq/unequal', mut=False),
      Op('pg.to_json(x)', 'list.to_json', mut=False, ref=lambda r: r),
      Op('pg.List(x) == x', 'list.ctor-from-pg.List', mut=False, ref=lambda r: True),
      Op('list(pg.List(tuple(x)))', 'list.ctor-from-tuple', mut=False, ref=lambda r: list(r)),
      Op('list(pg.List(e for e in x))', 'list.ctor-from-generator', mut=False, ref=lambda r: list(r)),
      Op('list(pg.List([M] + list(x) + [M, 7, M]))', 'list.ctor-with-MISSING', mut=False, ref=lambda r: list(r) + [7]),
  ]
  for k in (-1, 0, 1, 2, 3):
    kc = 'k<=0' if k <= 0 else ('k=1' if k == 1 else 'k>1')
    ops.append(Op(f'(lambda c: [c.append(99), list(c), list(x)][1:])(x * {k})', f'list.mul/{kc}', mut=False))
    ops.append(Op(f'{k} * x', f'list.rmul/{kc}', mut=False))
  return ops + marker_variants(ops)


_VALS = [5, 'v', None, [6, [7]], {'k': 8}]


def list_write_ops(lo, hi, steps, max_new, vals=None, slices=True, multi=True):
  vals = vals or _VALS
  ops = []
  for v in vals:
    ops.append(Op(f'x.append({v!r})', 'list.append'))
  ops.append(Op('x.append(M)', 'list.append/MISSING(no-op)', ref=lambda r: None))
  # a marker among the values of extend / += is skipped like an appended one
  ops.append(Op('x.extend([M, 7, M])', 'list.extend/with-MISSING(skipped)', ref=lambda r: r.extend([7])))
  ops.append(Op('x += [7, M]', 'list.iadd/with-MISSING(skipped)', ref=lambda r: r.extend([7])))
  for i in range(lo, hi + 1):
    for v in vals[:2] + vals[3:4]:
      ops.append(Op(f'x.insert({i}, {v!r})', _ins_cid(i)))
      ops.append(Op(f'x[{i}] = {v!r}', lambda r, i=i: f'list.setitem/{_icls(i, len(r))}'))
    ops.append(Op(f'x[{i}] = M', lambda r, i=i: f'list.setitem-MISSING/{_icls(i, len(r))}',
                  ref=_ref_setitem_missing(i)))
    ops.append(Op(f'del x[{i}]', lambda r, i=i: f'list.delitem/{_icls(i, len(r))}'))
    ops.append(Op(f'x.pop({i})', lambda r, i=i: 'list.pop/' + ('empty' if not r else _icls(i, len(r)))))
  ops.append(Op('x.pop()', lambda r: 'list.pop/default' + ('-empty' if not r else '')))
  # equal-but-distinct replacement values (0 == 0.0 == False): must be stored
  for i, v in ((0, '0.0'), (0, 'False'), (1, 'True'), (1, '1.0'), (-1, '2.0')):
    ops.append(Op(f'x[{i}] = {v}', lambda r, i=i: f'list.setitem-equal-value/{_icls(i, len(r))}'))
    ops.append(Op(f'x.rebind({{{i}: {v}}})', lambda r, i=i: f'list.rebind-equal-value/{_icls(i, len(r)) if i < 0 or i < len(r) else "past-end"}',
                  ref=_ref_rebind([(i, 'r', eval(v))])))  # pylint: disable=eval-used
  ops.append(Op('x[0:2] = [0.0, True]', _set_slice_cid(0, 2, None, 2)))
  ops.append(Op("x['a'] = 1", 'list.setitem/non-int'))
  ops.append(Op("del x['a']", 'list.delitem/non-int'))
  ops.append(Op("x.pop('a')", 'list.pop/non-int'))
  for src, c in [('[7, 8]', 'list'), ('(7, [8])', 'tuple'), ('(e for e in (7, 8))', 'generator'),
                 ('pg.List([7, {"k": 8}])', 'pg.List'), ('[]', 'empty'), ('range(2)', 'range'),
                 ('x', 'self'), ('"ab"', 'str'), ('{"p": 1, "q": 2}', 'dict-keys')]:
    ref = None
    if c == 'pg.List':
      ref = lambda r: r.extend([7, {'k': 8}])
    ops.append(Op(f'x.extend({src})', f'list.extend/{c}', ref=ref))
    if c in ('list', 'tuple', 'empty', 'self', 'generator', 'pg.List'):
      ref2 = None
      if c == 'pg.List':
        def ref2(r):
          r += [7, {'k': 8}]
      ops.append(Op(f'x += {src}', f'list.iadd/{c}', ref=ref2))
  ops.append(Op('x.extend(5)', 'list.extend/non-iterable'))
  for k in (-1, 0, 1, 2, 3):
    kc = 'k<=0' if k <= 0 else ('k=1' if k == 1 else 'k>1')
    ops.append(Op(f'x *= {k}', f'list.imul/{kc}'))
  for v in (0, 1, 5, 'v', None, [6, [7]]):
    ops.append(Op(f'x.remove({v!r})', lambda r, v=v: 'list.remove/' + ('present' if v in r else 'absent')))
  ops += [
      Op('x.sort(key=repr)', 'list.sort/key'),
      Op('x.sort(key=repr, reverse=True)', 'list.sort/key+reverse'),
      sort_op(None, None, 'asc'),
      sort_op(None, 'True', 'desc'),
      Op('x.reverse()', 'list.reverse'),
      Op('x.clear()', 'list.clear'),
  ]
  # sorts whose keys tie on distinguishable elements (stability, both directions)
  for key_src in _ANY_KEYS:
    for rev_src, label in ((None, 'asc'), ('True', 'desc')):
      ops.append(sort_op(key_src, rev_src, label))
  # rebind: single path
  for i in range(lo, hi + 1):
    for k in 'rid':
      ups = [(i, k, 50 + abs(i))]
      ops.append(Op(_rebind_src(ups), _rebind_cid(ups), ref=_ref_rebind(ups)))
    if i >= 0:
      ups = [(i, 'r', [1, {'z': 2}])]
      ops.append(Op(_rebind_src(ups, True), lambda r, f=_rebind_cid(ups): f(r) + '/str-path', ref=_ref_rebind(ups)))
  ops.append(Op('x.rebind({})', 'list.rebind/empty', ref=_ref_rebind([])))
  ops.append(Op('x.rebind({}, raise_on_no_change=False)', 'list.rebind/empty-allowed', ref=lambda r: r))
  ops.append(Op('x.rebind(lambda k, v: v + 100 if isinstance(v, int) and not isinstance(v, bool) else v, raise_on_no_change=False)',
                'list.rebind/rebinder',
                ref=lambda r: _map_ints(r)))
  n_single = len(ops)
  if multi:
    idx = list(range(0, hi + 1))
    for a, b in itertools.combinations(idx, 2):
      for ka in 'rid':
        for kb in 'rid':
          ups = [(a, ka, 60 + a), (b, kb, 60 + b)]
          ops.append(Op(_rebind_src(ups), _rebind_cid(ups), ref=_ref_rebind(ups), alts=_alts_rebind(ups)))
          ups2 = [(b, kb, 60 + b), (a, ka, 60 + a)]   # dict order reversed
          ops.append(Op(_rebind_src(ups2), _rebind_cid(ups2), ref=_ref_rebind(ups2), alts=_alts_rebind(ups2)))
    for a, b, c in itertools.combinations(idx[:5], 3):
      for ks in itertools.product('rid', repeat=3):
        ups = [(a, ks[0], 70 + a), (b, ks[1], 70 + b), (c, ks[2], 70 + c)]
        ops.append(Op(_rebind_src(ups), _rebind_cid(ups), ref=_ref_rebind(ups), alts=_alts_rebind(ups)))
  # the other forms of the marker: two per single operation, one per set of several paths
  ops += marker_variants(ops[:n_single]) + marker_variants(ops[n_single:], one=True)
  if slices:
    bounds = [None] + list(range(lo, hi + 1))
    for s in bounds:
      for e in bounds:
        for st in steps:
          ops.append(Op(f'del x[{_sl(s, e, st)}]', 'list.delitem-slice' + ('/step=0' if st == 0 else '')))
          for k in range(0, max_new + 1):
            new = list(range(80, 80 + k))
            ops.append(Op(f'x[{_sl(s, e, st)}] = {new!r}', _set_slice_cid(s, e, st, k)))
    ops += [
        Op('x[1:2] = (7, [8])', 'list.setitem-slice/from-tuple'),
        Op('x[1:2] = (e for e in (7, 8))', 'list.setitem-slice/from-generator'),
        Op('x[0:1] = x', 'list.setitem-slice/from-self'),
        Op('x[::2] = x[::2]', 'list.setitem-slice/from-own-slice'),
        Op('x[0:1] = 5', 'list.setitem-slice/non-iterable'),
        Op('x[:] = pg.List([1, [2]])', 'list.setitem-slice/from-pg.List', ref=lambda r: r.__setitem__(slice(None), [1, [2]])),
        Op('x[:] = []', 'list.setitem-slice/clear'),
    ]
  return ops


def _map_ints(r):
  def m(v):
    if isinstance(v, bool):
      return v
    if isinstance(v, int):
      return v + 100
    return v
  # The rebinder visits nodes top-down; a replaced node is not entered.
  def walk(v):
    if isinstance(v, list):
      return [walk(e) for e in v]
    if isinstance(v, dict):
      return {k: walk(e) for k, e in v.items()}
    return m(v)
  r[:] = walk(r)
  return r


def _list_inits(max_len):
  inits = [list(range(n)) for n in range(max_len + 1)]
  inits += [[1, 0, 1], ['b', 'a'], [0, [1, [2]], {'k': 0}, None, 'v'], [[0], [0]], [None, None], [2, 1, 0, 1, 2][:max_len + 1]]
  inits += [[1, 1.0, True, 0.0]]    # equal but distinguishable elements
  return inits


def drv_list_single(tier, seed):
  """Every single list operation on every small initial list."""
  del seed
  max_len = 3 if tier == 'quick' else 5
  steps = [None, 1, 2, 3, -1, -2, -3, 0] if tier == 'quick' else [None, 1, 2, 3, 4, -1, -2, -3, -4, 0]
  rec = Recorder(
      'C02', 'pg.List single operations vs list',
      scope=f'initial lists: range(n) n<=5 + duplicates/nested/mixed; every read and write op of the list API '
            f'(indices and slice bounds in [-n-2, n+2]+None for n<={max_len}, steps {steps}, slice-assignment sizes 0..n+1, '
            f'rebind with 1..3 paths x replace/insert/delete, MISSING, Insertion); every operation that takes the missing-value marker '
            f'also with a typed marker (pg.typing.MissingValue(spec), field of a partial pg.Dict) and an untyped copy (deepcopy, JSON round trip); '
            f'full state comparison after each')
  for init in _list_inits(5):
    n = len(init)
    wide = n <= max_len
    lo, hi = -n - 2, n + 2
    st = steps if wide else [None, 2, -1]
    sample = [0, 1, 5, 'v', None, [0], {'k': 0}]
    ops = list_read_ops(lo, hi, st, sample) + list_write_ops(
        lo, hi, st, n + 1 if wide else 1, slices=wide or tier != 'quick', multi=wide or tier != 'quick')
    if not wide:
      ops += [o for o in _hist_alphabet(0) if 'slice' in o.cid(init) or 'rebind' in o.cid(init)]
    for op in ops:
      s = Session(rec, 'List', init, full_reads=True, resync_on_fail=False)
      s.step(op, (init, op.src))
  return rec.result()


def _hist_alphabet(size):
  """A compact alphabet of mutators (and a few reads) for histories."""
  ops = [
      Op('x.append(5)', 'list.append'),
      Op('x.append([6, [7]])', 'list.append'),
      Op('x.insert(0, 4)', _ins_cid(0)),
      Op('x.insert(1, {"k": 8})', _ins_cid(1)),
      Op('x.insert(-1, 3)', _ins_cid(-1)),
      Op('x.insert(9, 2)', _ins_cid(9)),
      Op('x.extend([7, 8])', 'list.extend/list'),
      Op('x.pop()', lambda r: 'list.pop/default' + ('-empty' if not r else '')),
      Op('x.pop(0)', lambda r: 'list.pop/' + ('empty' if not r else _icls(0, len(r)))),
      Op('x.pop(-2)', lambda r: 'list.pop/' + ('empty' if not r else _icls(-2, len(r)))),
      Op('x.remove(5)', lambda r: 'list.remove/' + ('present' if 5 in r else 'absent')),
      Op('del x[0]', lambda r: f'list.delitem/{_icls(0, len(r))}'),
      Op('del x[-1]', lambda r: f'list.delitem/{_icls(-1, len(r))}'),
      Op('del x[1:3]', 'list.delitem-slice'),
      Op('del x[::2]', 'list.delitem-slice'),
      Op('x[0] = 9', lambda r: f'list.setitem/{_icls(0, len(r))}'),
      Op('x[-1] = [1]', lambda r: f'list.setitem/{_icls(-1, len(r))}'),
      Op('x[1] = M', lambda r: f'list.setitem-MISSING/{_icls(1, len(r))}', ref=_ref_setitem_missing(1)),
      Op('x[1:2] = [7, 8, 9]', _set_slice_cid(1, 2, None, 3)),
      Op('x[0:2] = [7]', _set_slice_cid(0, 2, None, 1)),
      Op('x[1:1] = [3]', _set_slice_cid(1, 1, None, 1)),
      Op('x[2:1] = [3]', _set_slice_cid(2, 1, None, 1)),
      Op('x[::2] = [0] * len(x[::2])', 'list.setitem-slice/step>1/size-match'),
      Op('x[::-1] = list(range(len(x)))', 'list.setitem-slice/step<0'),
      Op('x[-1:0:-1] = [4] * max(0, len(x) - 1)', 'list.setitem-slice/step<0'),
      Op('x.sort(key=repr)', 'list.sort/key'),
      Op('x.reverse()', 'list.reverse'),
      Op('x.clear()', 'list.clear'),
      Op('x += [1, 2]', 'list.iadd/list'),
      Op('x *= 2', 'list.imul/k>1'),
      Op('x *= 0', 'list.imul/k<=0'),
      Op('x[:]', 'list.getitem-slice/step=1', mut=False),
      Op('x[::-1]', 'list.getitem-slice/step<0', mut=False),
      Op('x[1::2]', 'list.getitem-slice/step>1', mut=False),
      Op('x[-2:]', 'list.getitem-slice/step=1', mut=False),
      Op('x.copy()', 'list.copy', mut=False),
      Op('x + [1]', 'list.add/list', mut=False),
      Op('x * 2', 'list.mul/k>1', mut=False),
  ]
  ops += [sort_op(_ANY_KEYS[0], 'True', 'desc'), sort_op(_ANY_KEYS[1], None, 'asc')]
  for ups in ([(0, 'r', 50)], [(1, 'i', 51)], [(0, 'd', 0)], [(9, 'r', 59)], [(-1, 'r', 58)],
              [(0, 'i', 60), (1, 'd', 0)], [(0, 'd', 0), (2, 'r', 62)], [(1, 'r', 61), (7, 'r', 67)],
              [(0, 'r', [1]), (1, 'i', {'a': 2}), (2, 'd', 0)]):
    ops.append(Op(_rebind_src(ups), _rebind_cid(ups), ref=_ref_rebind(ups), alts=_alts_rebind(ups)))
  if not size:
    # other forms of the marker: item assignment, one single-path and one multi-path rebind
    ops += marker_variants([o for o in ops if o.src in ('x[1] = M', 'x.rebind({0: M})', 'x.rebind({0: M, 2: 62})')], one=True)
  return ops[:size] if size else ops


def _deep_ops():
  """Rebind through key paths into nested containers (needs a nested init)."""
  def mk(src, cid, fn):
    return Op(src, cid, ref=fn)
  def d0(r):
    r[0][1] = 9
    return r
  def d1(r):
    r[1]['a'] = 7
    r[1]['n'] = [1]
    return r
  def d2(r):
    if len(r[0]) > 5:
      r[0][5] = 5
    else:
      r[0].append(5)   # '[0][5]' is past the end of r[0] -> append
    return r
  def d3(r):
    del r[1]['a']
    return r
  def d4(r):
    r[0].insert(0, 3)
    r[1]['a'] = None
    return r
  def d5(r):
    del r[1]['a']
    del r[0][0]
    return r
  return [
      mk("x.rebind({'[0][1]': 9})", 'list.rebind-deep/replace', d0),
      mk("x.rebind({'[1].a': 7, '[1].n': [1]})", 'list.rebind-deep/dict-keys', d1),
      mk("x.rebind({'[0][5]': 5})", lambda r: 'list.rebind-deep/' + ('append' if len(r[0]) <= 5 else 'replace'), d2),
      mk("x.rebind({'[1].a': M})", 'list.rebind-deep/delete-key', d3),
      mk("x.rebind({'[0][0]': Ins(3), '[1].a': None})", 'list.rebind-deep/insert', d4),
      mk("x.rebind({'[1].a': MT})", 'list.rebind-deep/delete-key/typed-marker', d3),
      mk("x.rebind({'[1].a': MJ, '[0][0]': MF})", 'list.rebind-deep/delete-key+element/marker-forms', d5),
  ]


def drv_list_histories(tier, seed):
  """All short histories + seeded random long histories over the list API."""
  rec = Recorder(
      'C02', 'pg.List mutation histories vs list',
      scope=(f'all histories of length <=2 over a {len(_hist_alphabet(0))}-op alphabet from 3 initial lists; '
             + ('all of length 3 over the first 30 ops; ' if tier != 'quick' else '')
             + 'seeded random histories of length <=12 over the full single-op alphabet incl. nested-path rebind; '
               'outcome and full state compared after every step'))
  alpha = _hist_alphabet(0)
  inits = [[], [0, 1, 2], [3, [1, [2]], {'a': 0}, 5]]
  for init in inits:
    for k in (1, 2):
      for hist in itertools.product(range(len(alpha)), repeat=k):
        s = Session(rec, 'List', init)
        for j, oi in enumerate(hist):
          s.step(alpha[oi], (init, hist[:j + 1]))
  if tier != 'quick':
    small = _hist_alphabet(30)
    for init in inits[:2]:
      for hist in itertools.product(range(len(small)), repeat=3):
        s = Session(rec, 'List', init)
        for j, oi in enumerate(hist):
          ok = s.step(small[oi], (init, 'h3', hist[:j + 1]))
  # Random long histories.
  rnd = rng(seed, 'c02-list-hist')
  big = list_write_ops(-4, 4, [None, 1, 2, -1, -2, 0], 3, slices=True, multi=True) + \
      list_read_ops(-4, 4, [None, 2, -1], [0, 5, None])
  deep = _deep_ops()
  n_hist = 700 if tier == 'quick' else 12000
  for h in range(n_hist):
    init = rnd.choice([[], [0], [0, 1, 2], [[0, 1], {'a': 1}, 2], list(range(5))])
    s = Session(rec, 'List', init)
    for j in range(rnd.randint(3, 12)):
      r = s.r
      if (len(r) >= 2 and isinstance(r[0], list) and len(r[0]) >= 2 and isinstance(r[1], dict)
          and 'a' in r[1] and r[0] is not r[1] and rnd.random() < 0.3
          and not any(a is b for i, a in enumerate(r) for b in r[i + 1:] if isinstance(a, (list, dict)))):
        op = rnd.choice(deep)
      else:
        op = rnd.choice(big)
        if op.src in ('x *= 2', 'x *= 3', 'x.extend(x)', 'x += x', 'x[0:1] = x') and len(r) > 12:
          continue
      s.step(op, ('rand', seed, h, j))
    json_after_history(rec, s, ('rand', seed, h), _one_per_family(_JSON_LIVE_PATHS, h))
  return rec.result()


# ---------------------------------------------------------------------------
# Order-sensitive list operations on elements that *tie*: they compare equal
# (1 == 1.0 == True) or have equal sort keys, yet can be told apart.  Python
# pins the outcome: sort()/sorted() are stable in both directions (tied
# elements keep their original relative order, also with reverse=True),
# min()/max()/index()/remove() pick the first of several candidates.
# ---------------------------------------------------------------------------

# (source of the `reverse` argument or None for "not passed", direction label)
_REV_FORMS = [(None, 'asc'), ('False', 'asc'), ('True', 'desc'),
              ('0', 'asc-falsy-arg'), ('1', 'desc-truthy-arg')]


def _distinct(a, b):
  return repr(N(a)) != repr(N(b))


def _tie_class(r, kf):
  """Input class of sorting `r` under key function `kf` (None: no key)."""
  try:
    ks = [kf(e) for e in r] if kf is not None else list(r)
  except Exception:  # pylint: disable=broad-except
    return 'key-raises'
  tie = False
  try:
    for i in range(len(ks)):
      for j in range(i + 1, len(ks)):
        lt, gt = ks[i] < ks[j], ks[j] < ks[i]
        if not lt and not gt and _distinct(r[i], r[j]):
          tie = True
  except Exception:  # pylint: disable=broad-except
    return 'incomparable'
  return 'distinguishable-ties' if tie else 'no-ties'


def _key_fn(key_src):
  return eval(key_src, dict(_ENV)) if key_src is not None else None  # pylint: disable=eval-used


# Key functions defined on every element (nested containers are symbolic on one
# side, so keys go through N and never look at List-vs-list); they tie a lot.
_ANY_KEYS = ['lambda e: len(str(N(e)))', 'lambda e: isinstance(e, (list, dict))', 'lambda e: 0']


def _sort_args(key_src, rev_src):
  return ', '.join(([f'key={key_src}'] if key_src is not None else [])
                   + ([f'reverse={rev_src}'] if rev_src is not None else []))


def _sort_cid(opname, key_src, rev_label):
  kf = _key_fn(key_src)
  kk = 'no-key' if kf is None else 'key'
  return lambda r: f'{opname}/{kk}/{rev_label}/{_tie_class(r, kf)}'


def sort_op(key_src, rev_src, rev_label):
  return Op(f'x.sort({_sort_args(key_src, rev_src)})', _sort_cid('list.sort', key_src, rev_label))


def tie_sort_ops(keys, rev_forms, reads=True):
  """sort / sorted / min / max for every key function x every `reverse` form."""
  ops = []
  for key_src in keys:
    for rev_src, label in rev_forms:
      ops.append(sort_op(key_src, rev_src, label))
      if reads and rev_src in (None, 'True'):
        a = _sort_args(key_src, rev_src)
        ops.append(Op(f'sorted(x{", " + a if a else ""})', _sort_cid('list.sorted-builtin', key_src, label), mut=False))
    if reads:
      a = _sort_args(key_src, None)
      for fn in ('min', 'max'):
        ops.append(Op(f'{fn}(x{", " + a if a else ""})',
                      lambda r, kf=_key_fn(key_src), fn=fn: (
                          f'list.{fn}-builtin/' + ('no-key' if kf is None else 'key') + '/'
                          + ('empty' if not r else _tie_class(r, kf))), mut=False))
  return ops


def _eq_cls(v):
  """present / absent / equal-but-distinct (an element equal to v that is not v's twin)."""
  def f(r):
    m = [e for e in r if e == v]
    if not m:
      return 'absent'
    return 'equal-but-distinct' if any(_distinct(e, v) for e in m) else 'present'
  return f


def tie_search_ops(probes, n, grid_probes=1):
  """Value-searching operations: which of several equal elements is found."""
  ops = []
  for v in probes:
    c = _eq_cls(v)
    ops += [
        Op(f'x.remove({v!r})', lambda r, c=c: f'list.remove/{c(r)}'),
        Op(f'x.index({v!r})', lambda r, c=c: f'list.index/{c(r)}', mut=False),
        Op(f'x.count({v!r})', lambda r, c=c: f'list.count/{c(r)}', mut=False),
        Op(f'{v!r} in x', lambda r, c=c: f'list.contains/{c(r)}', mut=False),
        Op(f'x.pop(x.index({v!r}))', lambda r, c=c: f'list.pop-index-of/{c(r)}'),
    ]
  # The probe is an element taken from the container itself: Python matches by
  # identity first, so this must succeed even for an element with e != e (NaN).
  def own(i):
    def f(r):
      if not -len(r) <= i < len(r):
        return 'index-out-of-range'
      return 'element-not-equal-to-itself' if r[i] != r[i] else _eq_cls(r[i])(r)
    return f
  for i in (0, 1, -1):
    c = own(i)
    ops += [
        Op(f'x.remove(x[{i}])', lambda r, c=c: f'list.remove-own-element/{c(r)}'),
        Op(f'x.index(x[{i}])', lambda r, c=c: f'list.index-own-element/{c(r)}', mut=False),
        Op(f'x.count(x[{i}])', lambda r, c=c: f'list.count-own-element/{c(r)}', mut=False),
        Op(f'x[{i}] in x', lambda r, c=c: f'list.contains-own-element/{c(r)}', mut=False),
    ]
  for v in probes[:grid_probes]:
    for s in range(-n - 1, n + 2):
      ops.append(Op(f'x.index({v!r}, {s})',
                    lambda r, v=v, s=s: 'list.index-start/' + _eq_cls(v)(r[s:]), mut=False))
      for e in range(-n - 1, n + 2):
        ops.append(Op(f'x.index({v!r}, {s}, {e})',
                      lambda r, v=v, s=s, e=e: 'list.index-start-stop/' + _eq_cls(v)(r[s:e]), mut=False))
  return ops


_NAN_A, _NAN_B = float('nan'), float('nan')

# Element pools whose members tie under `==` and/or under the listed keys.
_TIE_POOLS = {
    'numeric': dict(
        elems=[1, 1.0, True, 0, 0.0, -1, 2, -1.0, False, -2, 2.0],
        keys=[None, 'None', 'abs', 'lambda e: 0', 'lambda e: -e', 'lambda e: e % 2',
              'lambda e: type(e).__name__', 'lambda e: 1 // e'],
        probes=[1, 1.0, True, 0, False, -1.0, 7]),
    'str': dict(
        elems=['c', 'bb', 'aa', 'd', 'B', 'eee', '', 'b', 'Bb'],
        keys=[None, 'len', 'str.lower', 'lambda e: 0', 'lambda e: e[:1]', 'lambda e: -len(e)',
              'lambda e: e[0]'],
        probes=['c', 'bb', 'b', '', 'zz']),
    'tuple': dict(
        elems=[(1, 'a'), (1, 'b'), (0, 'c'), (1.0, 'a'), (0,), (True, 'b'), (2, 'a')],
        keys=[None, 'lambda e: e[0]', 'len', 'lambda e: 0', 'lambda e: e[-1]', 'lambda e: e[1]'],
        probes=[(1, 'a'), (1.0, 'a'), (True, 'b'), (0,), (9,)]),
    'record': dict(   # nested containers sorted by one of their entries
        elems=[{'k': 1, 'v': 'first'}, {'k': 2, 'v': 'x'}, {'k': 1, 'v': 'second'}, {'k': 1.0, 'v': 'first'},
               {'k': 0, 'v': 'x', 'w': None}, {'k': 2.0, 'v': 'third'}],
        keys=[None, "lambda e: e['k']", 'len', "lambda e: e['v'][0]", 'lambda e: 0', "lambda e: -e['k']",
              "lambda e: e['w']", "lambda e: e.get('w', 5)", 'lambda e: list(e)'],
        probes=[{'k': 1, 'v': 'first'}, {'k': 1.0, 'v': 'first'}, {'k': 2, 'v': 'third'}, {'k': 1}]),
    'nested-list': dict(
        elems=[[1, 'a'], [1.0, 'b'], [0], [1.0, 'a'], [True, 'a', None], [2, 'b']],
        keys=[None, 'lambda e: e[0]', 'len', 'lambda e: 0', 'lambda e: e[1]', 'lambda e: e[-1:] == ["a"]'],
        probes=[[1, 'a'], [1.0, 'a'], [True, 'b'], [0.0], [9]]),
    'nan': dict(      # two distinct NaN objects: e != e, found only by identity
        elems=[_NAN_A, 1.0, _NAN_B, 0, -1, 1],
        keys=[None, 'lambda e: 0', 'lambda e: e != e', 'lambda e: -e', 'abs'],
        probes=[1, 0.0, 7]),
    'mixed': dict(
        elems=[1, 'a', None, [1], {'k': 1}, 1.0, 'b', (1,), True, [1.0]],
        # (nested containers are symbolic on one side: keys must not depend on List-vs-list)
        keys=[None, 'lambda e: type(e).__name__.lower()', 'lambda e: 0', 'lambda e: len(str(N(e)))',
              'lambda e: isinstance(e, (int, float))', 'lambda e: e == 1', 'lambda e: e',
              'lambda e: isinstance(e, (list, dict))'],
        probes=[1, True, [1], [True], None, {'k': 1.0}, (1.0,)]),
}

_TIE_OBS = {'list(x)', 'len', 'getitem+', 'eq', 'to_json'}
_TIE_OBS_TUPLES = _TIE_OBS - {'to_json'}   # JSON has no tuples: nothing to compare a tuple's JSON form with


def _run_ops(rec, init, ops, obs, key_of):
  """Each mutator on a fresh container; the reads share one (checked intact after each)."""
  reader = Session(rec, 'List', init, obs=obs)
  for op in ops:
    s = reader if not op.mut else Session(rec, 'List', init, resync_on_fail=False, obs=obs)
    s.step(op, key_of(op))


def drv_list_ties(tier, seed):
  """Sorting and searching lists whose elements tie but are distinguishable."""
  quick = tier == 'quick'
  base_n, max_k = (4, 3) if quick else (5, 4)
  n_rand = 30 if quick else 600
  rec = Recorder(
      'C02', 'pg.List order-sensitive operations on tied (equal / equal-key) elements vs list',
      scope=(f'{len(_TIE_POOLS)} element pools (numbers 1/1.0/True.., strings, tuples, nested dicts, nested lists, NaN objects, mixed); '
             f'initial lists: every arrangement of <={max_k} of the first {base_n} pool elements + {n_rand} seeded random '
             f'lists of length 4..7 per pool; sort/sorted with every key function of the pool (none, key=None, ties, '
             f'all-tie, raising, incomparable keys) x reverse in (absent, False, True, 0, 1); min/max; '
             f'remove/index/count/in/pop(index()) with probes equal to several distinguishable elements and with the '
             f"container's own elements as probes; "
             f'index(v, start[, stop]) over start, stop in [-n-1, n+1] (every 4th longest list); contents compared by repr (1 != 1.0 != True)'))
  rnd = rng(seed, 'c02-list-ties')
  for pname, pool in _TIE_POOLS.items():
    elems, keys, probes = pool['elems'], pool['keys'], pool['probes']
    obs = _TIE_OBS_TUPLES if any(isinstance(e, tuple) for e in elems) else _TIE_OBS
    base = elems[:base_n]
    inits = [[]] + [[e] for e in base[:2]]
    for k in range(2, max_k + 1):
      inits += [list(p) for p in itertools.permutations(base, k)]
    inits.append([base[0], base[0], base[1], base[0]])       # identical twins next to ties
    # every key x reverse in (absent, False, True); the int forms 0 / 1 with the first three keys
    sort_all = tie_sort_ops(keys, _REV_FORMS[:3], reads=True) + tie_sort_ops(keys[:3], _REV_FORMS[3:], reads=False)
    for ii, init in enumerate(inits):
      ops = sort_all + tie_search_ops(probes, len(init), grid_probes=1 if len(init) == max_k and ii % 4 == 0 else 0)
      _run_ops(rec, init, ops, obs, lambda op: (pname, init, op.src))
    sort_some = tie_sort_ops(keys, [(None, 'asc'), ('True', 'desc')], reads=False)
    for h in range(n_rand):
      init = [rnd.choice(elems) for _ in range(rnd.randint(4, 7))]
      _run_ops(rec, init, sort_some + tie_search_ops(probes, len(init), grid_probes=0), obs,
               lambda op: (pname, 'rand', seed, h, op.src))
  # Argument-form classes of sort().
  for init in ([], [2, 1], ['b', 'a', 'c']):
    for op in (Op('x.sort(len)', 'list.sort/positional-arg'),
               Op('x.sort(None, True)', 'list.sort/positional-arg'),
               Op('x.sort(key=5)', 'list.sort/non-callable-key'),
               Op('x.sort(cmp=None)', 'list.sort/unknown-kwarg'),
               Op('x.sort(key=lambda e: x.append(0) or 0)', 'list.sort/key-mutates-list'),
               Op('x.sort(key=lambda e: x.clear() or 0, reverse=True)', 'list.sort/key-mutates-list')):
      s = Session(rec, 'List', init, resync_on_fail=False, obs=_TIE_OBS)
      s.step(op, ('args', init, op.src))
  return rec.result()


# ---------------------------------------------------------------------------
# Dict operations
# ---------------------------------------------------------------------------

def _kcls(k):
  if isinstance(k, bool):
    return 'bool-key'      # an int: True == 1 and False == 0 address the same entry
  if isinstance(k, int):
    return 'int-key'
  if k == '' or any(c in k for c in '.[]'):
    return 'path-syntax-key'
  return 'str-key'


_DKEYS = ['a', 'b', 'new', 0, 1, -1, '0', 'a.b', 'a.z', '[0]', 'a[0]', '', 'x y', '$', True, False]
_DVALS = [5, 'v', None, [6, [7]], {'k': 8}, {'k': {'j': [1]}}]


def _upd_cid(op, kc, presence):
  """update()/|= with a key that has key-path syntax is one input class."""
  if kc == 'path-syntax-key':
    return 'dict.update-family/path-syntax-key'
  return f'{op}/{kc}/{presence}'.rstrip('/')


def _ref_setitem_m(k):
  def f(r):
    r.pop(k, None)
  return f


def _ref_dict_rebind(ups):
  def f(r):
    if not ups:
      raise ValueError('nothing to rebind')
    for k, v in ups:
      if v is M:
        r.pop(k, None)
      else:
        r[k] = N(v)
    return r
  return f


def _REF_FROM_PD(r):  # pylint: disable=invalid-name
  """Reference for copying the items of PD: ('a', marker), ('new', 1), ('b', marker)."""
  r.pop('a', None)
  r['new'] = 1
  r.pop('b', None)


def _val_src(v):
  return 'M' if v is M else repr(v)


def dict_ops(keys=None, vals=None):
  keys = keys or _DKEYS
  vals = vals or _DVALS
  pres = lambda k: (lambda r: 'present' if k in r else 'absent')
  ops = []
  for k in keys:
    kc = _kcls(k)
    p = pres(k)
    ops += [
        Op(f'x[{k!r}]', lambda r, p=p, kc=kc: f'dict.getitem/{kc}/{p(r)}', mut=False),
        Op(f'x.get({k!r})', lambda r, p=p, kc=kc: f'dict.get/{kc}/{p(r)}', mut=False),
        Op(f'x.get({k!r}, "dflt")', lambda r, p=p, kc=kc: f'dict.get-default/{kc}/{p(r)}', mut=False),
        Op(f'{k!r} in x', lambda r, p=p, kc=kc: f'dict.contains/{kc}/{p(r)}', mut=False),
        Op(f'del x[{k!r}]', lambda r, p=p, kc=kc: f'dict.delitem/{kc}/{p(r)}'),
        Op(f'x.pop({k!r})', lambda r, p=p, kc=kc: f'dict.pop/{kc}/{p(r)}'),
        Op(f'x.pop({k!r}, "dflt")', lambda r, p=p, kc=kc: f'dict.pop-default/{kc}/{p(r)}'),
        Op(f'x.pop({k!r}, None)', lambda r, p=p, kc=kc: f'dict.pop-default/{kc}/{p(r)}'),
        Op(f'x.setdefault({k!r})', lambda r, p=p, kc=kc: f'dict.setdefault-none/{kc}/{p(r)}'),
        Op(f'x[{k!r}] = M', lambda r, p=p, kc=kc: f'dict.setitem-MISSING/{kc}/{p(r)}', ref=_ref_setitem_m(k)),
        Op(f'x.update({{{k!r}: M}})', lambda r, p=p, kc=kc: _upd_cid('dict.update-MISSING', kc, p(r)),
           ref=_ref_setitem_m(k)),
        Op(f'x.update([({k!r}, M)])', lambda r, p=p, kc=kc: _upd_cid('dict.update-pairs-MISSING', kc, p(r)),
           ref=_ref_setitem_m(k)),
        Op(f'x |= {{{k!r}: M}}', lambda r, p=p, kc=kc: _upd_cid('dict.ior-MISSING', kc, p(r)),
           ref=_ref_setitem_m(k)),
        # a marker as the *default* of a read is an ordinary value
        Op(f'x.get({k!r}, MT)', lambda r, p=p, kc=kc: f'dict.get-default/{kc}/{p(r)}/marker-as-default', mut=False),
        Op(f'x.pop({k!r}, MC)', lambda r, p=p, kc=kc: f'dict.pop-default/{kc}/{p(r)}/marker-as-default'),
    ]
    if isinstance(k, str) and k.isidentifier():
      ops += [
          Op(f'x.{k} = M', lambda r, p=p: f'dict.setattr-MISSING/{p(r)}', ref=_ref_setitem_m(k)),
          Op(f'x.update({k}=M)', lambda r, p=p: f'dict.update-kwargs-MISSING/{p(r)}', ref=_ref_setitem_m(k)),
          Op(f'x.rebind({k}=M, raise_on_no_change=False)', lambda r, p=p: f'dict.rebind-kwargs-MISSING/{p(r)}',
             ref=_ref_dict_rebind([(k, M)])),
      ]
    if kc != 'path-syntax-key':
      # rebind keys are key paths by documentation; only path-free keys are
      # comparable with a plain item assignment / deletion.
      ops.append(Op(f'x.rebind({{{k!r}: M}}, raise_on_no_change=False)',
                    lambda r, p=p, kc=kc: f'dict.rebind-MISSING/{kc}/{p(r)}', ref=_ref_dict_rebind([(k, M)])))
    for v in vals:
      ops += [
          Op(f'x[{k!r}] = {v!r}', lambda r, p=p, kc=kc: f'dict.setitem/{kc}/{p(r)}'),
          Op(f'x.setdefault({k!r}, {v!r})', lambda r, p=p, kc=kc: f'dict.setdefault/{kc}/{p(r)}'),
          Op(f'x.update({{{k!r}: {v!r}}})', lambda r, p=p, kc=kc: _upd_cid('dict.update', kc, p(r))),
          Op(f'x.update([({k!r}, {v!r})])', lambda r, p=p, kc=kc: _upd_cid('dict.update-pairs', kc, p(r))),
          Op(f'x |= {{{k!r}: {v!r}}}', lambda r, p=p, kc=kc: _upd_cid('dict.ior', kc, p(r))),
          Op(f'x | {{{k!r}: {v!r}}}', lambda r, p=p, kc=kc: f'dict.or/{kc}/{p(r)}', mut=False),
          Op(f'{{{k!r}: {v!r}}} | x', lambda r, p=p, kc=kc: f'dict.ror/{kc}/{p(r)}', mut=False),
      ]
      if kc != 'path-syntax-key':
        key_src = repr(k)
        ops.append(Op(f'x.rebind({{{key_src}: {v!r}}})', lambda r, p=p, kc=kc: f'dict.rebind/{kc}/{p(r)}',
                      ref=_ref_dict_rebind([(k, v)])))
    if isinstance(k, str) and k.isidentifier():
      ops += [
          Op(f'x.{k} = 11', lambda r, p=p: f'dict.setattr/{p(r)}', ref=lambda r, k=k: r.__setitem__(k, 11)),
          Op(f'del x.{k}', lambda r, p=p: f'dict.delattr/{p(r)}', ref=lambda r, k=k: r.__delitem__(k)),
          Op(f'x.update({k}=[1, 2])', lambda r, p=p: f'dict.update-kwargs/{p(r)}'),
          Op(f'x.rebind({k}={{"q": 1}})', lambda r, p=p: f'dict.rebind-kwargs/{p(r)}',
             ref=_ref_dict_rebind([(k, {'q': 1})])),
          Op(f'x.update({{"zz": 0}}, {k}=3)', lambda r, p=p: f'dict.update-dict+kwargs/{p(r)}'),
      ]
  for k, v in (('a', '1.0'), ('a', 'True'), (0, "'z'"), ('b', '2.0'), (1, 'True')):
    ops += [
        Op(f'x[{k!r}] = {v}', 'dict.setitem-equal-value'),
        Op(f'x.update({{{k!r}: {v}}})', 'dict.update-equal-value'),
        Op(f'x.rebind({{{k!r}: {v}}})', 'dict.rebind-equal-value', ref=_ref_dict_rebind([(k, eval(v))])),  # pylint: disable=eval-used
        Op(f'x.setdefault({k!r}, {v})', 'dict.setdefault-equal-value'),
    ]
  ops += [
      Op('x.popitem()', lambda r: 'dict.popitem/' + ('nonempty' if r else 'empty')),
      Op('x.clear()', 'dict.clear'),
      Op('x.update()', 'dict.update/no-arg'),
      Op('x.update({})', 'dict.update/empty'),
      Op('x.update(None)', 'dict.update/None', ref=lambda r: None),
      Op('x.update({"b": 1, "a": 2, "c": [3], 0: 4})', 'dict.update/multi'),
      Op('x.update([("c", 1), ("a", 2), (5, 3)])', 'dict.update-pairs/multi'),
      Op('x.update(pg.Dict({"a": 9, "m": {"n": 1}}))', 'dict.update/pg.Dict', ref=lambda r: r.update({'a': 9, 'm': {'n': 1}})),
      Op('x.update(x)', lambda r: _upd_cid('dict.update/self', 'path-syntax-key' if any(_kcls(k) == 'path-syntax-key' for k in r) else 'k', '')),
      Op('x |= {"b": 1, "a": 2, "c": [3], 0: 4}', 'dict.ior/multi'),
      Op('x |= [("c", 1), (5, 3)]', 'dict.ior/pairs'),
      Op('x |= {}', 'dict.ior/empty'),
      Op('x.rebind({"a": 1, "c": [2], 0: M, "b": M})', 'dict.rebind-multi', ref=_ref_dict_rebind([('a', 1), ('c', [2]), (0, M), ('b', M)])),
      Op('x.rebind({})', 'dict.rebind/empty', ref=_ref_dict_rebind([])),
      Op('x.rebind({}, raise_on_no_change=False)', 'dict.rebind/empty-allowed', ref=lambda r: r),
      Op('(lambda c: [c.__setitem__("zz", 1), dict(c), dict(x), type(c).__name__][1:])(x.copy())', 'dict.copy', mut=False,
         ref=lambda r: [dict(r, zz=1), dict(r), 'Dict']),
      Op('(lambda c: [c.__setitem__("zz", 1), dict(c), dict(x)][1:])(__import__("copy").copy(x))', 'dict.copy-module', mut=False),
      Op('(lambda c: [c.__setitem__("zz", 1), dict(c), dict(x)][1:])(__import__("copy").deepcopy(x))', 'dict.deepcopy-module', mut=False),
      Op('len(x)', 'dict.len', mut=False),
      Op('list(x)', 'dict.iter', mut=False),
      Op('list(x.keys())', 'dict.keys', mut=False),
      Op('list(x.values())', 'dict.values', mut=False),
      Op('list(x.items())', 'dict.items', mut=False),
      Op('list(reversed(x))', 'dict.reversed', mut=False),
      Op('x == dict(x)', 'dict.eq', mut=False),
      Op('(x == {**x, "@": 1}, x != {**x, "@": 1}, x == list(x))', 'dict.eq/unequal', mut=False),
      Op('pg.to_json(x)', 'dict.to_json', mut=False, ref=lambda r: r),
      Op('dict(pg.Dict(x))', 'dict.ctor-from-pg.Dict', mut=False, ref=lambda r: dict(r)),
      Op('dict(pg.Dict(list(x.items())))', 'dict.ctor-from-pairs', mut=False, ref=lambda r: dict(r)),
      Op('dict(pg.Dict(dict(x), extra=1))', 'dict.ctor-kwargs', mut=False, ref=lambda r: dict(r, extra=1)),
      Op('dict(pg.Dict(dict(x), gone=M, extra=1))', 'dict.ctor-with-MISSING', mut=False, ref=lambda r: dict(r, extra=1)),
      Op('dict(pg.Dict(dict(x), a=99, b=98))', 'dict.ctor-kwargs-override', mut=False, ref=lambda r: dict(r, a=99, b=98)),
      Op('dict(pg.Dict.fromkeys(list(x), 0))', 'dict.fromkeys', mut=False, ref=lambda r: dict.fromkeys(list(r), 0)),
      # the marker among the constructor's items: that key is not there
      Op('dict(pg.Dict({**dict(x), "gone": M, "extra": 1, "a": M}))', 'dict.ctor-dict-with-MISSING', mut=False,
         ref=lambda r: {k: v for k, v in dict(r, extra=1).items() if k != 'a'}),
      Op('dict(pg.Dict(list(x.items()) + [("gone", M), ("extra", 1)]))', 'dict.ctor-pairs-with-MISSING', mut=False,
         ref=lambda r: dict(r, extra=1)),
      Op('dict(pg.Dict(dict(x), a=M, b=98))', 'dict.ctor-kwargs-override-with-MISSING', mut=False,
         ref=lambda r: {k: v for k, v in dict(r, b=98).items() if k != 'a'}),
      Op('x.update({"b": M, "zz": 1, "a": M, "new": M})', 'dict.update-multi-MISSING', 
         ref=lambda r: (_ref_dict_rebind([('b', M), ('zz', 1), ('a', M), ('new', M)])(r), None)[1]),
      # copying from a partial symbolic dict (PD: 'a' and 'b' unfilled, 'new' = 1), as a whole and item by item
      Op('x.update(PD)', 'dict.update/partial-pg.Dict', ref=_REF_FROM_PD),
      Op('x |= PD', 'dict.ior/partial-pg.Dict', ref=_REF_FROM_PD),
      Op('for k_, v_ in PD.sym_items(): x[k_] = v_', 'dict.setitem/items-of-partial-pg.Dict', ref=_REF_FROM_PD),
      Op('for k_, v_ in PD.items(): setattr(x, k_, v_)', 'dict.setattr/items-of-partial-pg.Dict', ref=_REF_FROM_PD),
      Op('x.rebind(dict(PD.sym_items()), raise_on_no_change=False)', 'dict.rebind/items-of-partial-pg.Dict',
         ref=lambda r: (_REF_FROM_PD(r), r)[1]),
      Op('dict(pg.Dict(PD))', 'dict.ctor-from-partial-pg.Dict', mut=False, ref=lambda r: {'new': 1}),
      Op('dict(pg.Dict(dict(x), **PD))', 'dict.ctor-kwargs-from-partial-pg.Dict', mut=False,
         ref=lambda r: (lambda c: (_REF_FROM_PD(c), c)[1])(dict(r))),
  ]
  return ops + marker_variants(ops)


def _dict_deep_ops():
  def d0(r):
    r['a']['x'][0] = 9
    r['a']['y'] = 3
    return r
  def d1(r):
    del r['a']['x']
    return r
  def d2(r):
    r['a']['x'].insert(0, 4)
    r['b'] = 1
    return r
  return [
      Op("x.rebind({'a.x[0]': 9, 'a.y': 3})", 'dict.rebind-deep/replace', ref=d0),
      Op("x.rebind({'a.x': M})", 'dict.rebind-deep/delete-key', ref=d1),
      Op("x.rebind({'a.x[0]': Ins(4), 'b': 1})", 'dict.rebind-deep/insert', ref=d2),
      Op("x.rebind({'a.x': MF})", 'dict.rebind-deep/delete-key/typed-marker', ref=d1),
      Op("x.rebind({'a.x': MC})", 'dict.rebind-deep/delete-key/marker-copy', ref=d1),
  ]


_DICT_INITS = [
    {}, {'a': 1}, {'a': 1, 'b': 2, 0: 'z'}, {0: 'i', '0': 's', -1: 'n'},
    {'b': 1, 'a': {'x': [1, 2], 'w': None}}, {'a.b': 1, 'a': {'b': 2}, '': 3, '[0]': 4},
    {'a': None, 'new': [1, {'k': 2}]},
    {'a': _NAN_A, 'b': [_NAN_A, 1.0], 1: True},     # values with v != v; 1 / 1.0 / True
]


def drv_dict_single(tier, seed):
  """Every single dict operation on every small initial dict."""
  del seed
  rec = Recorder(
      'C02', 'pg.Dict single operations vs dict',
      scope=f'{len(_DICT_INITS)} initial dicts (str/int keys incl. keys containing . [ ] and the empty string); '
            f'every read/write op of the dict API x {len(_DKEYS)} keys x {len(_DVALS)} values; '
            'item/attribute assignment, update (dict, pairs, kwargs), |=, rebind and the constructors with the missing-value marker in 5 forms '
            '(pg.MISSING_VALUE, pg.typing.MissingValue(spec), unfilled field of a partial pg.Dict, deepcopy, JSON round trip); '
            'update / |= / constructor / item-wise copy from a partial pg.Dict; '
            'full state comparison (order included) after each')
  ops = dict_ops()
  for init in _DICT_INITS:
    for op in ops:
      s = Session(rec, 'Dict', init, full_reads=True, resync_on_fail=False)
      s.step(op, (init, op.src))
    if isinstance(init.get('a'), dict) and 'x' in init['a']:
      for op in _dict_deep_ops():
        s = Session(rec, 'Dict', init)
        s.step(op, (init, op.src))
  del tier
  return rec.result()


def _dict_hist_alphabet():
  def c(name):
    return name
  ops = [
      Op("x['a'] = 1", c('dict.setitem/h')),
      Op("x['b'] = [1, {'k': 2}]", c('dict.setitem/h')),
      Op("x[0] = 'i'", c('dict.setitem/h')),
      Op("x['a'] = M", c('dict.setitem-MISSING/h'), ref=_ref_setitem_m('a')),
      Op("x.c = {'d': 1}", c('dict.setattr/h'), ref=lambda r: r.__setitem__('c', {'d': 1})),
      Op("del x['a']", c('dict.delitem/h')),
      Op("del x[0]", c('dict.delitem/h')),
      Op("x.pop('b')", c('dict.pop/h')),
      Op("x.pop('a', None)", c('dict.pop-default/h')),
      Op("x.popitem()", c('dict.popitem/h')),
      Op("x.setdefault('a', 7)", c('dict.setdefault/h')),
      Op("x.setdefault('e')", c('dict.setdefault-none/h')),
      Op("x.update({'b': 2, 'a': 3})", c('dict.update/h')),
      Op("x.update([(0, 1), ('f', 2)], a=4)", c('dict.update-pairs/h')),
      Op("x.update({'a.b': 5})", 'dict.update-family/path-syntax-key'),
      Op("x |= {'a': 6, 1: 7}", c('dict.ior/h')),
      Op("x.clear()", c('dict.clear')),
      Op("x.rebind({'a': 8, 'g': 9}, raise_on_no_change=False)", c('dict.rebind/h'), ref=_ref_dict_rebind([('a', 8), ('g', 9)])),
      Op("x.rebind({'b': M, 0: M, 'a': 1}, raise_on_no_change=False)", c('dict.rebind-multi/h'),
         ref=_ref_dict_rebind([('b', M), (0, M), ('a', 1)])),
      Op("x.copy()", c('dict.copy/h'), mut=False),
      Op("list(x.items())", c('dict.items'), mut=False),
      Op("x | {'z': 1}", c('dict.or/h'), mut=False),
  ]
  # other forms of the marker: item assignment and the multi-path rebind, and a copy from a partial pg.Dict
  ops += marker_variants(ops, one=True)
  ops.append(Op('x.update(PD)', 'dict.update/partial-pg.Dict/h', ref=_REF_FROM_PD))
  return ops


def drv_dict_histories(tier, seed):
  rec = Recorder(
      'C02', 'pg.Dict mutation histories vs dict',
      scope=('all histories of length <=' + ('2' if tier == 'quick' else '3')
             + f' over a {len(_dict_hist_alphabet())}-op alphabet from 3 initial dicts; seeded random histories of length <=12 over the full '
               'single-op alphabet; outcome and full state (order included) compared after every step'))
  alpha = _dict_hist_alphabet()
  inits = [{}, {'a': 1, 'b': 2, 0: 'z'}, {'b': {'x': 1}, 'a': [1]}]
  depth = 2 if tier == 'quick' else 3
  for init in inits:
    for k in range(1, depth + 1):
      for hist in itertools.product(range(len(alpha)), repeat=k):
        s = Session(rec, 'Dict', init)
        for j, oi in enumerate(hist):
          s.step(alpha[oi], (init, hist[:j + 1]))
  rnd = rng(seed, 'c02-dict-hist')
  big = dict_ops(keys=['a', 'b', 0, 1, -1, 'a.b', '[0]', '', True], vals=[5, None, [6, [7]], {'k': {'j': [1]}}])
  deep = _dict_deep_ops()
  n_hist = 700 if tier == 'quick' else 12000
  for h in range(n_hist):
    init = rnd.choice([{}, {'a': 1}, {'a': {'x': [1, 2]}, 'b': 0}, {0: 1, 1: 2, 'a': 3}])
    s = Session(rec, 'Dict', init)
    for j in range(rnd.randint(3, 12)):
      r = s.r
      a = r.get('a')
      if isinstance(a, dict) and isinstance(a.get('x'), list) and a['x'] and rnd.random() < 0.3:
        op = rnd.choice(deep)
      else:
        op = rnd.choice(big)
      s.step(op, ('rand', seed, h, j))
    json_after_history(rec, s, ('rand', seed, h), _one_per_family(_JSON_LIVE_PATHS, h))
  return rec.result()


# ---------------------------------------------------------------------------
# Nested containers, ancestor-level rebind, notification switched off.
#
# The statement quantifies over *any* sequence of container operations.  A
# container that sits inside another symbolic value can be changed (a) directly
# and (b) through any of its ancestors: `ancestor.rebind({'<path to the
# container><key>': value})`, with the same documented extensions (missing-value
# marker deletes, an index past the end appends, an insertion marker inserts,
# several paths address the original positions).  Form (b) must leave the
# container exactly as the same update addressed to the container itself, i.e.
# as the plain reference.  Neither form may depend on whether change
# notification is delivered (`pg.notify_on_change(False)`, `skip_notification`,
# `notify_parents=False`): notification is no part of the contents.
#
# The Session drives the *nested* container `x` (reference: a plain list/dict);
# the ancestors are reached from it (`x.sym_parent`, `x.sym_root`).  After every
# step the whole host is compared as well: the target as seen from the root and
# a sibling container that some of the ancestor-level updates touch too.
# ---------------------------------------------------------------------------

_HOLDER_SRC = """@pg.members([('v', pg.typing.Any()), ('w', pg.typing.Any())])
class Holder(pg.Object):
 pass"""

_NP_SRC = """def NP(v):
 if isinstance(v,pg.Object):return {k:NP(e) for k,e in v.sym_items()}
 if isinstance(v,dict):return {k:NP(v[k]) for k in list(v)}
 if isinstance(v,(list,tuple)):return (tuple if isinstance(v,tuple) else list)(NP(e) for e in v)
 return v"""

exec(_HOLDER_SRC + '\n' + _NP_SRC, _ENV)  # pylint: disable=exec-used
NP = _ENV['NP']


class Host:
  """Where the container under test lives.

  embed(t, sib): the plain root holding target contents t and sibling list sib.
  mk:   source over `P` (the plain root) building the symbolic root.
  get:  source over `h` (the symbolic root) reaching the target.
  recv: [(receiver source over x, path of the target below that receiver,
          path of the sibling below that receiver, kind of the receiver)].
  """

  def __init__(self, name, embed, mk, get, recv):
    self.name, self.embed, self.mk, self.get, self.recv = name, embed, mk, get, recv


_HOSTS = [
    Host('top-level', lambda t, s: t, 'pg.{kind}(P)', 'h', []),
    Host('in-dict', lambda t, s: {'a': t, 'b': s}, 'pg.Dict(P)', "h['a']",
         [('x.sym_parent', 'a', 'b', 'Dict')]),
    Host('in-list', lambda t, s: ['lead', t, s], 'pg.List(P)', 'h[1]',
         [('x.sym_parent', '[1]', '[2]', 'List')]),
    Host('in-object', lambda t, s: {'v': t, 'w': s}, 'Holder(**P)', 'h.v',
         [('x.sym_parent', 'v', 'w', 'Object')]),
    Host('depth-3', lambda t, s: {'p': [{'k': 1}, {'q': t, 's': s}], 'z': 0}, 'pg.Dict(P)', "h['p'][1]['q']",
         [('x.sym_parent', 'q', 's', 'Dict'), ('x.sym_parent.sym_parent', '[1].q', '[1].s', 'List'),
          ('x.sym_root', 'p[1].q', 'p[1].s', 'Dict')]),
    Host('below-object-in-dict', lambda t, s: {'o': {'v': [t, s], 'w': 0}}, "pg.Dict(o=Holder(**P['o']))",
         "h['o'].v[0]",
         [('x.sym_parent', '[0]', '[1]', 'List'), ('x.sym_parent.sym_parent', 'v[0]', 'v[1]', 'Object'),
          ('x.sym_root', 'o.v[0]', 'o.v[1]', 'Dict')]),
]

_SIB0 = [70, [71], {'s': 72}]


class NestedSession(Session):
  """A Session whose container lives inside a host; also checks the host."""

  def __init__(self, rec, host, kind, init, **kw):
    self.host, self.sib = host, N(_SIB0)
    self.mk = host.mk.format(kind=kind)
    super().__init__(rec, kind, init, **kw)

  def _make(self, r):
    self.base_sib = N(self.sib)
    self.root = eval(self.mk, dict(_ENV, P=self.host.embed(N(r), N(self.sib))))  # pylint: disable=eval-used
    return eval(self.host.get, dict(_ENV, h=self.root))  # pylint: disable=eval-used

  def _ctor(self):
    return '\n'.join([_HOLDER_SRC, _NP_SRC, f'P = {self.host.embed(N(self.base), N(self.base_sib))!r}',
                      f'h = {self.mk}', f'x = {self.host.get}'])

  def step(self, op, key):
    fn = getattr(op, 'sib_fn', None)
    if fn is not None:
      self.sib = fn(self.sib)    # (such ops never raise on the reference side)
    return super().step(op, key)

  def _post(self, op, cid, key, before):
    want_root = self.host.embed(N(self.r), N(self.sib))
    checks = [('NP(h)', repr(NP(self.root)), repr(want_root))]
    if 'Holder' not in self.mk:
      try:
        js = repr(pg.to_json(self.root))
      except Exception as e:  # pylint: disable=broad-except
        js = f'raised {type(e).__name__}'
      checks.append(('pg.to_json(h)', js, repr(want_root)))
    for src, got, want in checks:
      if got != want:
        self.rec.case(
            cid, key, False,
            f'host {self.host.name}: after {op.src} on {before!r}: {src} is {got}, reference {want}',
            _witness(self._ctor(), self.base, self.prefix + [op.src], None,
                     f'got = repr({src})\nassert got == {want!r}, got'))
        return False
    return True


def _join(prefix, k):
  if isinstance(k, int):
    return f'{prefix}[{k}]'
  return f'{prefix}.{k}' if prefix else k


# (label in the case id, context-manager prefix, extra rebind arguments)
_NOTIFY_MODES = [
    ('notification-on', '', ''),
    ('no-parent-notification', '', ', notify_parents=False'),
    ('notification-off', '', ', skip_notification=True'),
    ('notification-off', 'with pg.notify_on_change(False): ', ''),
]
_REBINDER = ('rebinder-function', None, None)
_ALL_MODES = _NOTIFY_MODES + [_REBINDER]


def _sib_part(spre, sib):
  """An additional update of the (non-empty) sibling list in the same rebind call."""
  if sib == 'del':
    return f'{_join(spre, 0)!r}: M', (lambda s: s[1:])
  if sib == 'rep':
    return f'{_join(spre, 0)!r}: "S"', (lambda s: ['S'] + s[1:])
  if sib == 'app':
    return f'{_join(spre, 9)!r}: 5', (lambda s: s + [5])
  return None, None


def _sib_choices(mode, sib_len):
  """Sibling updates that are meaningful under `mode`.

  A rebinder function is not offered a slot past the end, so it cannot append.
  With notification off, deletion is exercised on the target only (a deletion
  in the sibling would be the very same input class as one in the target).
  """
  if sib_len < 2:
    return (None, 'app') if mode[1] is not None else (None,)
  if mode[1] is None:
    return (None, 'del', 'rep')
  if mode[0] == 'notification-off':
    return (None, 'rep', 'app')
  return (None, 'del', 'app')


def _anc_ok(ups):
  """Update sets whose meaning does not depend on the order of application.

  The statement fixes what one insertion does; for an insertion *combined with*
  updates at higher positions of the same list it does not say whether those
  address the positions before or after the insertion.  Such sets are only used
  on the container itself (drv_list_*: pyglove documents 'original positions'
  there), not through ancestors.
  """
  ins = [i for i, k, _ in ups if k == 'i']
  return not ins or (len(ins) == 1 and ins[0] == max(i for i, _, _ in ups))


def _rebind_call(recv, parts, mode):
  _, ctx, kw = mode
  body = '{' + ', '.join(parts) + '}'
  if ctx is None:    # rebinder function: every node is offered, keyed by its path below the receiver
    return f'_ = {recv}.rebind(lambda k, v: {body}.get(str(k), v), raise_on_no_change=False)'
  return f'{ctx}_ = {recv}.rebind({body}{kw})'


def _anc_list_cid(label, ups, sib=None):
  def f(r):
    n = len(r)
    if len(ups) > 1 and sum(1 for i, _, _ in ups if i >= n) >= 2:
      return 'list.rebind-multi/several-past-end'     # (same input class as at top level)
    if sib == 'del':      # an element of the sibling list is deleted in the same call
      return f'nested-list.anc-rebind/{label}/with-delete'
    if any(i < -n for i, _, _ in ups):
      cls = 'negative-out-of-range'
    elif any(k == 'd' and i < n for i, k, _ in ups):
      cls = 'with-delete'
    elif any(k == 'i' for _, k, _ in ups):
      cls = 'with-insert'
    else:
      cls = 'replace-or-append'
    return f'nested-list.anc-rebind/{label}/{cls}'
  return f


def anc_list_op(recv, tpre, spre, ups, mode, sib=None):
  """`ups` applied to the nested list through the ancestor `recv`."""
  parts = []
  for i, k, v in ups:
    parts.append(f'{_join(tpre, i)!r}: ' + {'r': repr(v), 'i': f'Ins({v!r})', 'd': 'M'}[k])
  sp, sib_fn = _sib_part(spre, sib)
  if sp is not None:
    parts.insert(0 if sib == 'del' else len(parts), sp)
  if mode[1] is None:
    # A rebinder function is only offered the existing elements.
    def ref(r):
      seen = [u for u in ups if 0 <= u[0] < len(r)]
      if seen:
        _ref_rebind(seen)(r)
  else:
    def ref(r):
      _ref_rebind(ups)(r)
  op = Op(_rebind_call(recv, parts, mode), _anc_list_cid(mode[0], ups, sib), ref=ref, alts=_alts_rebind(ups))
  op.sib_fn = sib_fn
  return op


def anc_dict_op(recv, tpre, spre, ups, mode, sib=None, recv_kind='Dict'):
  """`ups` = [(key, value or M)] applied to the nested dict through `recv`."""
  parts = [f'{_join(tpre, k)!r}: {_val_src(v)}' for k, v in ups]
  sp, sib_fn = _sib_part(spre, sib)
  if sp is not None:
    parts.insert(0 if sib == 'del' else len(parts), sp)
  if mode[1] is None:
    def ref(r):
      seen = [u for u in ups if u[0] in r]
      if seen:
        _ref_dict_rebind(seen)(r)
  else:
    def ref(r):
      _ref_dict_rebind(ups)(r)
  def cid(r):
    new = sum(1 for k, v in ups if v is not M and k not in r)
    if new >= 2 and recv_kind == 'List' and mode[1] is not None:
      # several new keys in one call, the call being made on a list (which
      # orders the paths it is given): one input class whatever the mode.
      return 'nested-dict.anc-rebind/several-new-keys/list-receiver'
    if sib == 'del':      # the sibling is a nested *list*: same input class as for a list target
      return f'nested-list.anc-rebind/{mode[0]}/with-delete'
    cls = 'with-delete' if any(v is M and k in r for k, v in ups) else ('several-new-keys' if new >= 2 else 'set')
    return f'nested-dict.anc-rebind/{mode[0]}/{cls}'
  op = Op(_rebind_call(recv, parts, mode), cid, ref=ref)
  op.sib_fn = sib_fn
  return op


def _quiet(op):
  """The same (mutating) operation with change notification switched off."""
  ref = None
  if op.ref is not None:
    def ref(r, f=op.ref):
      f(r)
  def cid(r):
    c = op.cid(r)
    return c if c == 'list.rebind-multi/several-past-end' else c + '/notification-off'
  return Op('with pg.notify_on_change(False): ' + op.src, cid, ref=ref, alts=op.alts)


def _direct_list_ops():
  ops = [o for o in _hist_alphabet(0)]
  for i in (0, -1, 2, 7):
    ops.append(Op(f'x[{i}] = M', lambda r, i=i: f'list.setitem-MISSING/{_icls(i, len(r))}',
                  ref=_ref_setitem_missing(i)))
  ops.append(Op('x.append(M)', 'list.append/MISSING(no-op)', ref=lambda r: None))
  ops += marker_variants(ops[-5:], one=True)
  return ops + [_quiet(o) for o in ops if o.mut]


def _direct_dict_ops():
  ops = _dict_hist_alphabet()
  return ops + [_quiet(o) for o in ops if o.mut]


_NEST_VALS = [5, 'v', None, [6, [7]], {'k': 8}]


def _anc_list_ups(n, triples):
  """Update sets for a list of length n: 1..3 paths x replace/insert/delete."""
  res = []
  for i in range(-n - 1, n + 2):
    for k in 'rid':
      res.append([(i, k, _NEST_VALS[(i + len(k)) % len(_NEST_VALS)] if i % 2 else 50 + abs(i))])
  idx = list(range(0, n + 2))
  for a, b in itertools.combinations(idx, 2):
    for ka in 'rid':
      for kb in 'rid':
        ups = [(a, ka, 60 + a), (b, kb, [60 + b])]
        res.append(ups if (a + b) % 2 else ups[::-1])
  if triples:
    for a, b, c in itertools.combinations(idx[:4], 3):
      for ks in itertools.product('rid', repeat=3):
        res.append([(a, ks[0], 70 + a), (c, ks[2], {'t': 70 + c}), (b, ks[1], 70 + b)])
  return res


_ANC_DICT_UPS = (
    [[(k, v)] for k in ('a', 'b', 'new', 0, 1) for v in (5, [6, [7]], {'k': {'j': [1]}}, None, M)]
    + [[('new', 1), ('a', M), (0, [2])], [('c', 1), ('q', 2), ('a', 3)], [(0, [2]), ('new', 1), (1, 3)], [('a', M), ('b', M), (0, M)],
       [(0, M), ('zz', {'y': 1}), ('b', [9])], [('b', M), ('b2', 4)],
       [(-1, 5)], [(-1, {'k': 1}), (0, M), (-2, [7])]])      # negative int keys: '[-1]' in a key path is a key, not an index


def drv_nested(tier, seed):
  """Containers inside other symbolic values; updates through ancestors; notification off."""
  quick = tier == 'quick'
  rec = Recorder(
      'C02', 'nested pg.List / pg.Dict: direct and ancestor-level updates, with and without change notification, vs list / dict',
      scope=(f'4 initial lists (len 0,1,3,4) and 3 initial dicts; {len(_HOSTS)} hosts (top level, value of a Dict, element of a List, field of an Object, depth 3, below an '
             'Object inside a Dict); every ancestor as receiver of rebind; update sets of 1..3 paths x replace / insert '
             '(Insertion) / delete (MISSING_VALUE, also spelled as a typed marker or an untyped copy of it) incl. negative and past-the-end indices, optionally with an update of a '
             'sibling list in the same call; 5 delivery modes (default, notify_parents=False, skip_notification=True, '
             'pg.notify_on_change(False), rebinder function); the history alphabets applied directly to the nested '
             'container, each mutator also under pg.notify_on_change(False); seeded random histories (length <=10) mixing '
             'all of these; after every step: outcome, full read API of the nested container and the whole host'))
  list_inits = [[], [0], [0, 1, 2], [3, [1, [2]], {'a': 0}, 5]] + ([] if quick else [list(range(5))])
  dict_inits = [{}, {'a': 1, 'b': 2, 0: 'z'}, {'b': {'x': 1}, 'a': [1]}]
  direct_l, direct_d = _direct_list_ops(), _direct_dict_ops()
  for hi, host in enumerate(_HOSTS):
    # (hosts that hold an Object are several times dearer to build: fewer initial contents in the quick tier)
    dear = quick and 'Holder' in host.mk
    for init in (list_inits if not dear else [[], [0, 1, 2]]):
      for op in direct_l:
        NestedSession(rec, host, 'List', init, resync_on_fail=False).step(op, (host.name, init, op.src))
      for ri, (recv, tpre, spre, _) in enumerate(host.recv):
        for mi, mode in enumerate(_ALL_MODES):
          # quick: every single path always; the sets of 2 paths in full for the default mode on the direct parent
          # (initial length < 4) and a rotating third elsewhere; the sets of 3 paths on the direct parent of two hosts (default mode and
          # notification off).  thorough: everything everywhere.
          full = not quick or (ri == 0 and mi == 0 and len(init) < 4)
          upsets = _anc_list_ups(len(init), triples=not quick or (hi in (1, 4) and ri == 0 and mi in (0, 3)))
          for ui, ups in enumerate(upsets):
            if not _anc_ok(ups) or (len(ups) > 1 and not full and ui % 3 != (ri + mi) % 3):
              continue
            safe = all(i >= 0 for i, _, _ in ups)
            sibs = _sib_choices(mode, len(_SIB0))
            op = anc_list_op(recv, tpre, spre, ups, mode, sibs[(ui + mi) % len(sibs)] if safe else None)
            NestedSession(rec, host, 'List', init, resync_on_fail=False).step(op, (host.name, init, op.src))
            # a deletion spelled with another form of the marker: every single path, every 4th set of paths
            # (quick: every delivery mode on the direct parent, the default mode on the higher ancestors)
            if (any(k == 'd' for _, k, _ in ups) and (len(ups) == 1 or not quick or ui % 4 == 0)
                and (not quick or ri == 0 or mi == 0)):
              for v in marker_variants([op], start=ui + mi + ri, one=True):
                NestedSession(rec, host, 'List', init, resync_on_fail=False).step(v, (host.name, init, v.src))
    for init in (dict_inits if not dear else dict_inits[1:2]):
      for op in direct_d:
        NestedSession(rec, host, 'Dict', init, resync_on_fail=False).step(op, (host.name, init, op.src))
      for ri, (recv, tpre, spre, rkind) in enumerate(host.recv):
        for mi, mode in enumerate(_ALL_MODES):
          sibs = _sib_choices(mode, len(_SIB0))
          for ui, ups in enumerate(_ANC_DICT_UPS):
            op = anc_dict_op(recv, tpre, spre, ups, mode, sibs[(ui + mi) % len(sibs)], rkind)
            NestedSession(rec, host, 'Dict', init, resync_on_fail=False).step(op, (host.name, init, op.src))
            if not any(v is M for _, v in ups) or (quick and ri and mi):
              continue
            for v in marker_variants([op], start=ui + mi, one=True):
              NestedSession(rec, host, 'Dict', init, resync_on_fail=False).step(v, (host.name, init, v.src))
  # Random histories mixing direct and ancestor-level operations.
  rnd = rng(seed, 'c02-nested')
  rnd_form = rng(seed, 'c02-nested-marker-form')
  n_hist = 400 if quick else 8000
  for h in range(n_hist):
    host = rnd.choice(_HOSTS)
    kind = 'List' if rnd.random() < 0.65 else 'Dict'
    init = rnd.choice(list_inits if kind == 'List' else dict_inits)
    s = NestedSession(rec, host, kind, init)
    for j in range(rnd.randint(3, 10)):
      if not host.recv or rnd.random() < 0.4:
        op = rnd.choice(direct_l if kind == 'List' else direct_d)
        if kind == 'List' and len(s.r) > 12 and ('*=' in op.src or 'x[0:1] = x' in op.src):
          continue
      else:
        recv, tpre, spre, rkind = rnd.choice(host.recv)
        mode = rnd.choice(_ALL_MODES)
        sib = rnd.choice((None,) + _sib_choices(mode, len(s.sib)))
        if kind == 'List':
          n = len(s.r)
          if rnd.random() < 0.15:
            ups, sib = [(rnd.randint(-n - 1, -1), rnd.choice('rid'), 40)], None
          else:
            m = rnd.randint(1, min(3, n + 2))
            ups = [(i, rnd.choice('rid'), rnd.choice(_NEST_VALS + [41, 42, 43]))
                   for i in rnd.sample(range(0, n + 2), m)]
            if not _anc_ok(ups):
              ups = [(i, 'r' if k == 'i' else k, v) for i, k, v in ups]
          op = anc_list_op(recv, tpre, spre, ups, mode, sib)
        else:
          keys = rnd.sample(['a', 'b', 'new', 0, 1, 'c', -1], rnd.randint(1, 3))
          ups = [(k, rnd.choice(_NEST_VALS + [M, M])) for k in keys]
          op = anc_dict_op(recv, tpre, spre, ups, mode, sib, rkind)
        if _M_TOKEN.search(op.src) and rnd_form.random() < 0.4:
          op = marker_variants([op], start=rnd_form.randrange(4), one=True)[0]
      s.step(op, ('rand', seed, h, j))
    json_after_history(rec, s, ('rand', seed, h), _one_per_family(_JSON_LIVE_PATHS, h))
  return rec.result()


# ---------------------------------------------------------------------------
# JSON conversion.
#
# "Reading back through ... JSON conversion all agree with that reference."
# JSON conversion is the whole family: the JSON *value* (pg.to_json /
# x.to_json / x.sym_jsonify, read with pg.from_json / pg.Dict.from_json /
# pg.List.from_json), the JSON *string* (pg.to_json_str / x.to_json_str with
# and without indentation, read with pg.from_json_str) and the *files* built on
# the string form (pg.save / pg.load, x.save / cls.load, pg.open_jsonl).
#
# Oracle.  (1) pg.to_json(x) is the reference itself, made of plain containers
# only.  (2) Whatever a conversion path reads back is again a symbolic
# container that agrees with the reference through the *whole* read API
# (contents with key types and order, items, iteration, len, `in`, get,
# equality both ways, ...) -- at the root and at the nested container.  (3) The
# JSON string of the symbolic container is valid JSON, is the same text as the
# JSON string of the plain reference, and -- where JSON itself can express the
# contents (string keys only, no tuples) -- json.loads of it is the reference;
# a JSON text written by the json module for the reference reads back as the
# reference.  Integer keys have no JSON spelling of their own, so for them the
# judge of the string form is the way back.
#
# Classes: the dict keys (str; int > 0, 0, < 0, beyond 64 bit; an int next to
# the string of its digits; strings that look like ints, contain key-path
# syntax, quotes, escapes, non-ASCII; strings that merely *contain* the codec's
# int-key marker), the values (strings that look like codec markers or JSON
# literals, special floats, 0 / 0.0 / False / None, big ints, empty and deep
# containers), the position of the container (top level, value of a dict,
# element of a list, depth 3, inside a tuple, field of an Object) and the way it
# was built (constructor, item by item, update + setdefault, pop + re-insert).
# Bool keys are outside "strings and integers" (bounded/waivers.json) and are
# left to the value form.  Three classes collide with reserved words of the
# codec ('_type' key, 'n_:' key prefix, '__tuple__' list head): they have their
# own ids (json/reserved-word/...).
# ---------------------------------------------------------------------------

_JMEM = '/mem/c02json'
_SYM_ROOT = '(type(x) if isinstance(x, (pg.Dict, pg.List)) else pg)'

# (family, path name, statements computing `y` from the symbolic `x` / the plain `R`, needs the plain root)
_JSON_PATHS = [
    ('json-value', 'to_json+from_json', 'y = pg.from_json(pg.to_json(x))', False),
    ('json-value', 'methods', f'y = {_SYM_ROOT}.from_json(x.to_json())', False),
    ('json-value', 'sym_jsonify+flags',
     'y = pg.from_json(x.sym_jsonify(hide_default_values=True, hide_frozen=False, use_inferred=True))', False),
    ('json-value', 'of-plain', 'y = pg.from_json(pg.to_json(R))', True),
    ('json-str', 'to_json_str+from_json_str', 'y = pg.from_json_str(pg.to_json_str(x))', False),
    ('json-str', 'method+indent', 'y = pg.from_json_str(x.to_json_str(json_indent=2))', False),
    ('json-str', 'flags+allow_partial',
     'y = pg.from_json_str(pg.to_json_str(x, hide_default_values=True), allow_partial=True)', False),
    ('json-str', 'of-plain', 'y = pg.from_json_str(pg.to_json_str(R))', True),
    ('json-file', 'pg.save+pg.load', f"pg.save(x, '{_JMEM}/a.json')\ny = pg.load('{_JMEM}/a.json')", False),
    ('json-file', 'x.save+cls.load',
     f"x.save('{_JMEM}/b.json', indent=1)\ny = type(x).load('{_JMEM}/b.json')", False),
    ('json-file', 'open_jsonl',
     f"with pg.open_jsonl('{_JMEM}/c.jsonl', 'w') as f_:\n f_.add(0)\n f_.add(x)\n"
     f"with pg.open_jsonl('{_JMEM}/c.jsonl', 'r') as f_:\n y = list(iter(f_))[1]", False),
]
# A JSON text that did not come from pyglove (only for contents JSON itself can express).
_JSON_FOREIGN = ('json-str', 'text-by-json-module',
                 'y = pg.from_json_str(__import__("json").dumps(R, ensure_ascii=False, indent=3))', True)
_JSON_FAMILIES = ['json-value', 'json-str', 'json-file']
_JSON_LIVE_PATHS = [p for p in _JSON_PATHS if not p[3]]

_JSON_WITNESS_HEAD = '''import pyglove as pg
nan=float('nan');inf=float('inf');M=pg.MISSING_VALUE;Ins=pg.Insertion
def N(v):
 if isinstance(v,dict):return {k:N(v[k]) for k in list(v)}
 if isinstance(v,list):return [N(e) for e in v]
 if isinstance(v,tuple):return tuple(N(e) for e in v)
 if hasattr(v,'__next__') or type(v).__name__[:5]=='dict_':return [N(e) for e in v]
 return v
NF=lambda y:N(dict(y.sym_items())) if isinstance(y,pg.Object) else N(y)'''

# the observations that do not rely on == of the elements (a NaN read back is another object)
_NOT_EQ_OBS = {'list(x)', 'dict(x)', 'len', 'iter', 'keys', 'values', 'items', 'getitem', 'getitem+', 'getitem-',
               'slice[:]', 'get', 'getattr', 'reversed', 'bool', 'to_json'}


def _json_kcls(k):
  if isinstance(k, bool):
    return 'bool-key'
  if isinstance(k, int):
    if k < 0:
      return 'int-key/negative'
    if k == 0:
      return 'int-key/zero'
    return 'int-key/big' if k >= 2 ** 63 else 'int-key/positive'
  if k == '_type':
    return 'reserved-word/_type-key'
  if k.startswith('n_:'):
    return 'reserved-word/int-key-prefix'
  if re.fullmatch(r'[+-]?\d+', k):
    return 'str-key/looks-like-int'
  if k == '' or any(c in k for c in '.[]'):
    return 'str-key/path-syntax'
  return 'str-key'


_JSON_KCLS_ORDER = ['reserved-word/_type-key', 'reserved-word/int-key-prefix', 'bool-key', 'int-key/negative',
                    'int-key/big', 'int-key/zero', 'int-key/positive', 'str-key/looks-like-int',
                    'str-key/path-syntax', 'str-key']


def _json_cls(r):
  """The most delicate class of dict key anywhere in the contents `r`."""
  found = set()
  def walk(v):
    if isinstance(v, dict):
      for k, e in v.items():
        found.add(_json_kcls(k))
        walk(e)
    elif isinstance(v, (list, tuple)):
      for e in v:
        walk(e)
  walk(r)
  for c in _JSON_KCLS_ORDER:
    if c in found:
      return c
  return 'no-dict-inside'


def _json_native(r):
  """Whether JSON itself can express `r`: string keys only, no tuples."""
  if isinstance(r, dict):
    return all(isinstance(k, str) and _json_native(v) for k, v in r.items())
  if isinstance(r, list):
    return all(_json_native(e) for e in r)
  return not isinstance(r, tuple)


def _has(r, pred):
  if pred(r):
    return True
  if isinstance(r, dict):
    return any(_has(v, pred) for v in r.values())
  if isinstance(r, (list, tuple)):
    return any(_has(e, pred) for e in r)
  return False


def _is_nan(v):
  return isinstance(v, float) and v != v


def _all_symbolic(y):
  """Nested plain containers become symbolic ones: no plain list/dict below a value read back."""
  if isinstance(y, pg.Object):
    return all(_all_symbolic(v) for _, v in y.sym_items())
  if isinstance(y, dict):
    return isinstance(y, pg.Dict) and all(_all_symbolic(v) for v in dict.values(y))
  if isinstance(y, list):
    return isinstance(y, pg.List) and all(_all_symbolic(v) for v in list.__iter__(y))
  if isinstance(y, tuple):
    return all(_all_symbolic(v) for v in y)
  return True


def _all_plain(j):
  if isinstance(j, dict):
    return type(j) is dict and all(_all_plain(v) for v in j.values())
  if isinstance(j, list):
    return type(j) is list and all(_all_plain(v) for v in j)
  return not isinstance(j, pg.Symbolic)


def _compile_exec(src):
  c = _CODE.get(('exec', src))
  if c is None:
    c = _CODE[('exec', src)] = compile(src, '<json>', 'exec')
  return c


def _exec_path(stmts, x, R):  # pylint: disable=invalid-name
  env = dict(_ENV, x=x, R=R)
  exec(_compile_exec(stmts), env)  # pylint: disable=exec-used
  return env['y']


def _build(src, P):  # pylint: disable=invalid-name
  """Runs a build source (binding `x`) with the plain contents `P`."""
  env = dict(_ENV, P=N(P))
  exec(_compile_exec(src), env)  # pylint: disable=exec-used
  return env['x']


def _root_nf(y):
  """Plain normal form of a root (an Object root: its fields)."""
  return N(dict(y.sym_items())) if isinstance(y, pg.Object) else N(y)


def _json_cid(fam, cls):
  return f'json/{cls}' if cls.startswith('reserved-word/') else f'{fam}/{cls}'


def json_case(rec, fam, cls, key, x, r, build, path, get='y', target=None, names=None):
  """One conversion path on one container.

  x: the symbolic root, r: its plain reference (for an Object root: the plain
  dict of its fields), build: source lines binding `x` (and `R`) for the
  witness, path: (family, name, statements, needs-R), get: source reaching the
  nested container under test from the root `y` read back, target: its reference.
  """
  _, pname, stmts, _ = path
  cid = _json_cid(fam, cls)
  key = (pname,) + tuple(key)
  head = '\n'.join([_JSON_WITNESS_HEAD, build, stmts])
  def fail(msg, check):
    return rec.case(cid, key, False, f'{pname}: {msg}', head + '\n' + check)
  want = repr(N(r))
  root_check = f'assert type(y) is type(x) and repr(NF(y)) == {want!r}, (type(y), NF(y))'
  try:
    y = _exec_path(stmts, x, N(r))
  except Exception as e:  # pylint: disable=broad-except
    return fail(f'raised {type(e).__name__}: {e} (reference contents {r!r})', root_check)
  try:
    got = repr(_root_nf(y))
  except Exception as e:  # pylint: disable=broad-except
    got = f'raised {type(e).__name__}'
  if got != want or type(y) is not type(x):
    return fail(f'read back {type(y).__name__} {got}, reference {type(x).__name__} {want}', root_check)
  if not _all_symbolic(y):
    return fail(f'a plain list/dict below the value read back: {y!r}', 'assert False, "plain container below y"')
  checks = [] if isinstance(x, pg.Object) else [('y', y, r, 'List' if isinstance(r, list) else 'Dict')]
  if target is not None and get != 'y':
    try:
      ty = eval(get, dict(_ENV, y=y))  # pylint: disable=eval-used
    except Exception as e:  # pylint: disable=broad-except
      return fail(f'{get} raised {type(e).__name__}: {e}', f'{get}')
    checks.append((get, ty, target, 'List' if isinstance(target, list) else 'Dict'))
  for gsrc, c, cr, kind in checks:
    if not isinstance(c, pg.List if kind == 'List' else pg.Dict):
      return fail(f'{gsrc} is a {type(c).__name__}', f'assert isinstance({gsrc}, pg.{kind}), type({gsrc})')
    bad = _observe(c, cr, kind, names=names)
    if bad is not None:
      _, name, osrc, ogot, owant = bad
      return fail(f'{gsrc} read back: observation {name}: got {ogot}, reference {owant} (reference contents {cr!r})',
                  f'x = {gsrc}\ntry: got = ("ok", repr(N(eval({osrc!r}))))\n'
                  f'except Exception as e: got = ("exc", type(e).__name__)\nassert got == {owant!r}, got')
  return rec.case(cid, key, True)


def json_text_case(rec, cls, key, x, r, build):
  """The JSON value and the JSON string themselves (not the way back)."""
  import json  # pylint: disable=g-import-not-at-top
  head = '\n'.join([_JSON_WITNESS_HEAD, 'import json', build])
  is_obj = isinstance(x, pg.Object)
  want = repr(N(r))
  # (1) the JSON value is the reference, in plain containers
  msg = ''
  try:
    j, j2 = pg.to_json(x), x.to_json()
    if repr(j) != repr(j2):
      msg = f'pg.to_json(x) is {j!r}, x.to_json() is {j2!r}'
    elif not is_obj and not _has(r, lambda v: isinstance(v, tuple)) and repr(j) != want:
      msg = f'pg.to_json(x) is {j!r}, reference {want}'
    elif not _all_plain(j):
      msg = f'pg.to_json(x) holds symbolic values: {j!r}'
  except Exception as e:  # pylint: disable=broad-except
    msg = f'to_json raised {type(e).__name__}: {e}'
  check = 'j = pg.to_json(x)\nassert repr(j) == repr(x.to_json())\n'
  if not is_obj and not _has(r, lambda v: isinstance(v, tuple)):
    check += f'assert repr(j) == {want!r}, j\n'
  check += 'assert "pyglove" not in repr([type(v) for v in (j.values() if isinstance(j, dict) else j)]), j'
  rec.case(_json_cid('json-value', cls), ('to_json',) + tuple(key), not msg, msg, head + '\n' + check)
  # (2) the JSON string: valid JSON; the same text by function and method, and as for the plain
  #     reference; the indented text holds the same value; json.loads gives the reference
  msg = ''
  try:
    s = pg.to_json_str(x)
    back = None
    try:
      back = json.loads(s)
    except ValueError as e:
      msg = f'pg.to_json_str(x) is not JSON: {s!r} ({e})'
    if not msg and x.to_json_str() != s:
      msg = f'x.to_json_str() is {x.to_json_str()!r}, pg.to_json_str(x) is {s!r}'
    if not msg and repr(json.loads(pg.to_json_str(x, json_indent=2))) != repr(back):
      msg = f'the indented JSON string does not hold the value of the compact one {s!r}'
    if not msg and not is_obj:
      sp = pg.to_json_str(N(r))
      if sp != s:
        msg = f'pg.to_json_str(x) is {s!r}, of the plain reference {sp!r}'
    if not msg and not is_obj and _json_native(r) and repr(back) != want:
      msg = f'json.loads(pg.to_json_str(x)) is {back!r}, reference {want}'
  except Exception as e:  # pylint: disable=broad-except
    msg = f'to_json_str raised {type(e).__name__}: {e}'
  check = 's = pg.to_json_str(x)\nassert x.to_json_str() == s\n'
  if not is_obj:
    check += 'assert s == pg.to_json_str(R), (s, pg.to_json_str(R))\n'
    if _json_native(r):
      check += 'assert repr(json.loads(s)) == repr(R), json.loads(s)\n'
  check += 'assert repr(json.loads(pg.to_json_str(x, json_indent=2))) == repr(json.loads(s))'
  rec.case(_json_cid('json-str', cls), ('to_json_str',) + tuple(key), not msg, msg, head + '\n' + check)


# Dict contents by class of key; list contents (and dicts of them) by class of value.
_JSON_DICTS = [
    ('str-key', {'a': 1, 'b': [1, {'c': None}], 'c': {'d': 'v'}}),
    ('int-key/positive', {1: 'a', 12: 'b'}),
    ('int-key/positive', {'k': 0, 7: [1, {3: 'x'}]}),
    ('int-key/zero', {0: 'a'}),
    ('int-key/zero', {'a': 1, 0: {0: 2}}),
    ('int-key/negative', {-1: 'a'}),
    ('int-key/negative', {-12: 'far', 3: 'r', -1: 'l', 'k': 0}),
    ('int-key/negative', {'a': 1, -7: [1, {-8: {}}]}),
    ('int-key/negative', {'a': [[{'b': [{-1: [0, {-2: {-3: 1}}]}]}]]}),      # deep below str keys
    ('int-key/big', {2 ** 63: 1, 10 ** 30: 3}),
    ('int-key/negative', {-2 ** 70: 2, -2 ** 63 - 1: 1}),
    ('int-key/negative', {2: 'a', -1: 'b', 'x': 'c', 1: 'd', 0: 'e', -3: 'f'}),      # signs mixed: the order
    ('int-key/negative', {1: 'i', '1': 's', -1: 'n', '-1': 'm', 0: 'z', '0': 'y', '-0': 'w'}),   # next to the strings of their digits
    ('int-key/positive', {1: 'i', '1': 's', '01': 't', 10: 'u', '10': 'v'}),
    ('str-key/looks-like-int', {'0': 1, '-1': 2, '007': 3, '+5': 4}),
    ('str-key/path-syntax', {'a.b': 1, '[0]': 2, '': 3, 'a[0]': {'': 4}}),
    ('str-key', {'\xe9': 1, 'k"q': 2, 'new\nline': 3, ' ': 4, 'tab\t': 5, '\\': 6, "'": 7, ' ': 8}),
    # keys that merely contain the codec's markers
    ('str-key', {'xn_:1': 1, 'n_': 2, 'n:1': 3, 'N_:1': 4, ' n_:1': 5, 'n_;1': 6, '_n_:1': 7, 'type': 8, '__type': 9}),
    ('reserved-word/_type-key', {'_type': 'x'}),
    ('reserved-word/int-key-prefix', {'n_:1': 1}),
    ('reserved-word/int-key-prefix', {'n_:a': 1, 'n_:': 2}),
]
_JSON_VALUES = [
    ('values/codec-marker-like-str', ['n_:5', 'n_:-1', '_type', 'n_:', '__tuple__x', ['x', '__tuple__']]),
    ('values/json-literal-like-str', ['null', 'true', 'NaN', '{"a": 1}', '[1]', '"', '1']),
    ('values/special-float', [float('nan'), float('inf'), float('-inf'), -0.0, 1e308, 5e-324, 0.1]),
    ('values/equal-but-distinct', [None, True, False, 0, 0.0, 1, 1.0, '', '0']),
    ('values/big-int', [2 ** 64, -2 ** 70, 2 ** 63 - 1, -2 ** 63]),
    ('values/non-ascii-and-escapes', ['\xe9', ' ', 'a"b', 'x\ny', '\\', '\x00', '\U0001f600']),
    ('values/empty-containers', [[], {}, [[]], [{}], {'a': {}}, {'a': []}]),
    ('values/deep', [[[[[[{'a': [{'b': [{'c': [0]}]}]}]]]]]]),
    ('reserved-word/__tuple__-list-head', [['__tuple__', 1]]),
]

# positions: name, embed(t) -> plain root, source building the symbolic root from P, source reaching the target from y
_JSON_POS = [
    ('top', lambda t: t, 'x = pg.{kind}(P)', 'y'),
    ('in-dict', lambda t: {'k': t, 'z': 0}, 'x = pg.Dict(P)', "y['k']"),
    ('in-list', lambda t: [0, t], 'x = pg.List(P)', 'y[1]'),
    ('depth-3', lambda t: {'p': [{'q': t}, 1]}, 'x = pg.Dict(P)', "y['p'][0]['q']"),
    ('in-tuple', lambda t: [(1, t)], 'x = pg.List(P)', 'y[0][1]'),
    ('in-object', lambda t: {'v': t, 'w': [t]}, _HOLDER_SRC + '\nx = Holder(**P)', 'y.v'),
]

# other ways to arrive at the contents (D: pg.Dict / dict, L: pg.List / list); the reference is built by the same recipe
_JSON_DICT_BUILDS = [
    ('item-by-item', 'x = D()\nfor k_ in P: x[k_] = P[k_]'),
    ('update+setdefault',
     'x = D()\nx.update({k_: P[k_] for k_ in list(P)[::2]})\nfor k_ in list(P)[1::2]: x.setdefault(k_, P[k_])'),
    ('pop+re-insert', 'x = D(P)\nk_ = next(iter(P))\nv_ = x.pop(k_)\nx[k_] = v_'),
]
_JSON_LIST_BUILDS = [
    ('append-each', 'x = L()\nfor v_ in P: x.append(v_)'),
    ('insert-front', 'x = L()\nfor v_ in P: x.insert(0, v_)'),
    ('slice+extend', 'x = L([0, 0])\nx[0:2] = P[:1]\nx.extend(P[1:])\nx += []'),
]


def _one_per_family(paths, n):
  out = []
  for fi, f in enumerate(_JSON_FAMILIES):
    ps = [p for p in paths if p[0] == f]
    out.append(ps[(n + fi) % len(ps)])
  return out


class JsonSession(Session):
  """A Session whose symbolic container is read back from JSON (at the start and at every re-sync)."""

  def __init__(self, rec, kind, init, path, key):
    self.path, self.key = path, key
    super().__init__(rec, kind, init)
    self.cid_prefix = 'loaded-from-json/'

  def _make(self, r):
    x = _fresh(self.kind, r)
    try:
      y = _exec_path(self.path[2], x, N(r))
      if isinstance(y, pg.List if self.kind == 'List' else pg.Dict) and _raw_equal(y, r, self.kind):
        return y
      msg = f'read back {y!r}'
    except Exception as e:  # pylint: disable=broad-except
      msg = f'raised {type(e).__name__}: {e}'
    self.rec.case(_json_cid(self.path[0], _json_cls(r)), (self.path[1],) + tuple(self.key), False,
                  f'{self.path[1]} of {r!r}: {msg}',
                  '\n'.join([_JSON_WITNESS_HEAD, f'R = {N(r)!r}', f'x = pg.{self.kind}(R)', self.path[2],
                             f'assert type(y) is type(x) and repr(N(y)) == {repr(N(r))!r}, y']))
    return x

  def _ctor(self):
    return f'R = {N(self.base)!r}\nx = pg.{self.kind}(R)\n{self.path[2]}\nx = y'


def json_after_history(rec, s, key, paths):
  """The final container of a history through JSON (the class of its contents from the contents)."""
  r = N(s.r)
  if _has(r, _is_nan):
    return
  cls = _json_cls(r)
  kind = s.kind
  short = f'R = {r!r}\nx = pg.{kind}(R)'
  for path in paths:
    if cls == 'bool-key' and path[0] != 'json-value':
      continue      # (bool keys are outside "strings and integers": bounded/waivers.json)
    key2 = ('after-history',) + tuple(key)
    probe = Recorder('C02', '', '')
    json_case(probe, path[0], cls, key2, s.x, r, short, path)
    if not probe.fail:
      rec.case(_json_cid(path[0], cls), (path[1],) + key2, True)
      continue
    # A witness from the final contents alone if they show the failure as well; else the whole history.
    f = next(iter(probe.fail.values()))
    fresh = Recorder('C02', '', '')
    json_case(fresh, path[0], cls, key2, _fresh(kind, r), r, short, path)
    wit = f['witness']
    if not fresh.fail:
      ctor = s._ctor().replace(_NP_SRC + '\n', '')  # pylint: disable=protected-access
      lines = [f'x = pg.{ctor}({N(s.base)!r})' if ctor in ('List', 'Dict') else ctor]
      lines += ['def run(s_):\n try:exec(s_,globals())\n except Exception:pass']
      lines += [f'run({p!r})' for p in s.prefix]
      wit = wit.replace(short, '\n'.join(lines + [f'R = {r!r}']), 1)
    rec.case(f['case_id'], (path[1],) + key2, False, 'after a history: ' + f['message'], wit)


def drv_json(tier, seed):
  """JSON conversion of symbolic containers, in every spelling, vs the plain reference."""
  quick = tier == 'quick'
  rec = Recorder(
      'C02', 'JSON conversion of pg.List / pg.Dict (value, string, files) vs the plain reference',
      scope=(f'{len(_JSON_DICTS)} dicts over the classes of keys (str, int >0 / 0 / <0 / beyond 64 bit, ints next to the strings of '
             f'their digits, path syntax, escapes, non-ASCII, strings containing the codec markers) and {len(_JSON_VALUES)} lists '
             f'(and dicts of them) over the classes of values; {len(_JSON_POS)} positions (top, in a dict, in a list, depth 3, in a '
             f'tuple, field of an Object); built by the constructor and by 3 mutation recipes; {len(_JSON_PATHS) + 1} conversion paths '
             '(to_json / from_json as functions and methods, sym_jsonify with flags, to_json_str / from_json_str plain, '
             'indented, with flags, pg.save / pg.load, x.save / cls.load, pg.open_jsonl, a JSON text written by the json '
             'module; each also for the plain reference; quick: all paths at the top level, one per family elsewhere); the value '
             'read back must agree with the reference through the whole read API, the JSON string must be valid JSON equal to '
             'that of the reference; containers read back from JSON then driven through seeded random histories (length <= 8) '
             'of the single-op alphabets (keys incl. negative ints); bool keys only in the value form'))
  try:
    pg.io.mkdirs(_JMEM, exist_ok=True)
  except Exception:  # pylint: disable=broad-except
    pass
  targets = list(_JSON_DICTS)
  for c, l in _JSON_VALUES:
    targets.append((c, l))
    if not c.startswith('reserved-word/'):
      targets.append((c, {f'k{i}': v for i, v in enumerate(l)}))
  for ti, (cls, t) in enumerate(targets):
    kind = 'List' if isinstance(t, list) else 'Dict'
    names0 = _NOT_EQ_OBS if _has(t, _is_nan) else set(n_ for n_, _, _ in _LIST_OBS + _DICT_OBS)
    for pi, (pos, embed, mk, get) in enumerate(_JSON_POS):
      P = embed(t)  # pylint: disable=invalid-name
      # (JSON has no tuples: nothing to compare the JSON value of a tuple with)
      names = names0 - {'to_json'} if pos == 'in-tuple' else names0
      mk_src = mk.format(kind=kind)
      build = f'P = R = {N(P)!r}\n{mk_src}'
      try:
        x = _build(mk_src, P)
      except Exception as e:  # pylint: disable=broad-except
        rec.case(_json_cid('json-build', cls), (pos, ti), False, f'cannot build ({pos}): {type(e).__name__}: {e}',
                 _JSON_WITNESS_HEAD + '\n' + build)
        continue
      obj = pos == 'in-object'
      paths = [p for p in _JSON_PATHS if not (obj and p[3])]
      if _json_native(P) and not obj:
        paths = paths + [_JSON_FOREIGN]
      if pos != 'top' and quick:
        paths = _one_per_family(paths, ti + pi)
      for path in paths:
        json_case(rec, path[0], cls, (pos, ti), x, P, build, path, get=get, target=t, names=names)
      if pos == 'top' or not quick or (ti + pi) % 3 == 0:
        json_text_case(rec, cls, (pos, ti), x, P, build)
    # the same contents arrived at by mutations (the reference by the same recipe on a plain container)
    if cls.startswith('reserved-word/'):
      continue
    for bi, (bname, bsrc) in enumerate(_JSON_DICT_BUILDS if kind == 'Dict' else _JSON_LIST_BUILDS):
      sym_src = bsrc.replace('D(', 'pg.Dict(').replace('L(', 'pg.List(')
      try:
        x = _build(sym_src, t)
        r = _build(bsrc.replace('D(', 'dict(').replace('L(', 'list('), t)
      except Exception as e:  # pylint: disable=broad-except
        rec.case(_json_cid('json-build', cls), (bname, ti), False, f'cannot build ({bname}): {type(e).__name__}: {e}',
                 f'{_JSON_WITNESS_HEAD}\nP = {N(t)!r}\n{sym_src}')
        continue
      build = f'P = {N(t)!r}\n{sym_src}\nR = {N(r)!r}'
      for path in (_JSON_PATHS if not quick else _one_per_family(_JSON_PATHS, ti + bi)):
        json_case(rec, path[0], cls, (bname, ti), x, r, build, path, names=names0)
      json_text_case(rec, cls, (bname, ti), x, r, build)

  # Containers that came out of JSON are symbolic containers without a value
  # spec like any other: histories over them, and through JSON again at the end.
  rnd = rng(seed, 'c02-json-hist')
  live_paths = [p for p in _JSON_PATHS if not p[3]]
  dops = dict_ops(keys=['a', 'b', 0, 1, -1, -12, 'a.b', '', '0', '-1'], vals=[5, None, [6, [7]], {-2: {'j': [1]}}])
  lops = (list_write_ops(-3, 3, [None, 2, -1], 2, vals=[5, 'v', None, [6, [7]], {-1: 8}], slices=True, multi=False)
          + list_read_ops(-3, 3, [None, -1], [0, 5, None]))
  d_inits = [{}, {'a': 1, -1: 'n', 0: 'z'}, {-3: {'x': [1, 2], -4: None}, 'b': 0}, {0: 1, 1: 2, -1: 3, 'a': {'b': -1}}]
  l_inits = [[], [0, 1, 2], [{-1: 1}, [0, {0: 'z', -2: []}], 2], [[0, 1], {'a': 1}, 2]]
  n_hist = 90 if quick else 3000
  for h in range(n_hist):
    kind = 'Dict' if h % 3 else 'List'
    init = rnd.choice(d_inits if kind == 'Dict' else l_inits)
    path = live_paths[h % len(live_paths)]
    s = JsonSession(rec, kind, init, path, key=('json-hist', seed, h))
    ops = dops if kind == 'Dict' else lops
    for j in range(rnd.randint(3, 8)):
      op = rnd.choice(ops)
      if kind == 'List' and len(s.r) > 12 and ('*=' in op.src or 'extend(x)' in op.src or '+= x' in op.src or '= x' in op.src):
        continue
      s.step(op, ('json-hist', seed, h, j))
    json_after_history(rec, s, ('json-hist', seed, h), [path])
  return rec.result()


DRIVERS = [drv_list_single, drv_list_histories, drv_list_ties, drv_dict_single, drv_dict_histories, drv_nested, drv_json]


def replay(rec):
  """Re-executes rec['witness']; returns (ok, message)."""
  try:
    exec(rec['witness'], {'__name__': '__c02_replay__'})  # pylint: disable=exec-used
    return True, 'witness passes'
  except Exception as e:  # pylint: disable=broad-except
    return False, f'{type(e).__name__}: {e}'
