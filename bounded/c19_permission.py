"""C19 bounded drivers: permission-gated code execution.

Programs are assembled from a small grammar in which every leaf construct
(one per permission-relevant syntax form) is placed inside chains of container
constructs (every statement / expression position that can hold code).  Each
template declares by construction which permissions it needs:

  hard: the program must be refused when one of them is not granted;
  soft: forms whose classification the statement leaves open (conditional
        expression, comprehensions, `async with` ...) - never required for a
        refusal, always granted when a program is expected to run.

Every program starts with the statement `S.hit`, a plain attribute access that
needs no permission and records a side effect: a refused program must leave
the log of `S` empty ("refused before any of it executes").  Granted programs
are compared with plain `exec` of the same text on a fresh `S`: outcome,
stdout, new variables and the complete access log of `S`.
"""
import ast
import contextlib
import io
import itertools
import re
import traceback
import warnings

import pyglove as pg
from pyvc.bounded import Recorder, rng

P = pg.coding.CodePermission
FLAGS = [P.ASSIGN, P.CONDITION, P.LOOP, P.CALL, P.EXCEPTION, P.CLASS_DEFINITION,
         P.FUNCTION_DEFINITION, P.IMPORT]
NAMES = {f: f.name for f in FLAGS}
A, C, L, K, X, D, F, I = FLAGS       # assign cond loop call exception classdef funcdef import


def perm_of(flags):
  p = P(0)
  for f in flags:
    p |= f
  return p


def perm_src(p):
  parts = [f'P.{f.name}' for f in FLAGS if f & p]
  return ' | '.join(parts) if parts else 'P(0)'


SENTINEL_SRC = '''import contextlib
class Sentinel:
  """Every access is logged; nothing here needs a permission to be *used*."""
  def __init__(self):
    object.__setattr__(self, 'log', [])
    object.__setattr__(self, 'd', {0: 0, 1: 1})
    object.__setattr__(self, 'l', [0, 1, 2])
    object.__setattr__(self, '_once', [True])
  def __getattr__(self, name):
    self.log.append(name)
    if name == 'hit': return 1
    if name == 't': return True
    if name == 'f0': return False
    if name == 'n': return 1
    if name == 'one': return [0]
    if name == 'two': return [0, 1]
    if name == 'once':
      v = self._once[0]; self._once[0] = False; return v
    if name == 'f': return lambda *a, **k: (self.log.append(('call', a, tuple(sorted(k)))), len(a))[1]
    if name == 'cm': return contextlib.nullcontext(5)
    if name == 'err': return KeyError('boom')
    if name == 'deco': return lambda fn: fn
    raise AttributeError(name)
  def __setattr__(self, name, value):
    self.log.append(('set', name, value))
'''
_ns = {}
exec(SENTINEL_SRC, _ns)  # pylint: disable=exec-used
Sentinel = _ns['Sentinel']


class T:
  """A template: leaf (no hole) or container (one hole `<B>` block / `<E>` expr)."""

  def __init__(self, name, kind, src, hard=(), soft=(), hole=None, needs=None):
    self.name, self.kind, self.src = name, kind, src     # kind: 'stmt' | 'expr'
    self.hard, self.soft = frozenset(hard), frozenset(soft)
    self.hole = hole                                      # None | 'stmt' | 'expr'
    self.needs = needs                                    # 'async' -> only valid inside async def


LEAVES = [
    T('assign/simple', 'stmt', 'q = 1', [A]),
    T('assign/tuple-target', 'stmt', 'q, r = 1, 2', [A]),
    T('assign/chained', 'stmt', 'q = r = 1', [A]),
    T('assign/attribute-target', 'stmt', 'S.attr = 1', [A]),
    T('assign/subscript-target', 'stmt', 'S.d[0] = 7', [A]),
    T('assign/augmented', 'stmt', 'S.d[0] += 1', [A]),
    T('assign/augmented-name', 'stmt', 'hitcount_ -= 1', [A]),
    T('assign/annotated', 'stmt', 'q: int = 1', [A]),
    T('assign/walrus', 'expr', '(q := 1)', [A]),
    # every mix of target kinds, in both orders (each is also the LAST statement of its program)
    T('assign/chained-name-then-attribute', 'stmt', 'q = S.attr = 1', [A]),
    T('assign/chained-attribute-then-name', 'stmt', 'S.attr = q = 1', [A]),
    T('assign/chained-name-then-subscript', 'stmt', 'q = S.d[0] = 7', [A]),
    T('assign/chained-subscript-then-name', 'stmt', 'S.d[1] = q = 7', [A]),
    T('assign/chained-name-then-tuple', 'stmt', 'q = (r, s) = (1, 2)', [A]),
    T('assign/chained-tuple-then-name', 'stmt', '(r, s) = q = (1, 2)', [A]),
    T('assign/chained-name-then-starred-list', 'stmt', 'q = [r, *s] = [1, 2, 3]', [A]),
    T('assign/chained-name-slice-name', 'stmt', 'q = S.l[0:1] = r = [9, 9]', [A]),
    T('assign/chained-attribute-then-subscript', 'stmt', 'S.attr = S.d[0] = 3', [A]),
    T('assign/chained-mixed-value-evaluated-once', 'stmt', 'q = S.attr = S.d[S.n] = S.f(2)', [A, K]),
    T('assign/starred-target', 'stmt', 'q, *r = [1, 2, 3]', [A]),
    T('assign/nested-tuple-target', 'stmt', '(q, (r, s)) = (1, (2, 3))', [A]),
    T('assign/tuple-of-attribute-and-name', 'stmt', 'S.attr, q = 1, 2', [A]),
    T('assign/slice-target', 'stmt', 'S.l[0:1] = [9, 9]', [A]),
    T('condition/if', 'stmt', 'if S.t:\n  S.n', [C]),
    T('condition/if-else', 'stmt', 'if S.f0:\n  S.n\nelif S.t:\n  S.n\nelse:\n  S.n', [C]),
    T('condition/match', 'stmt', 'match S.n:\n  case 1:\n    S.n\n  case _:\n    S.t', [C]),
    T('loop/for', 'stmt', 'for _ in S.two:\n  S.n', [L]),
    T('loop/for-else', 'stmt', 'for _ in S.one:\n  S.n\nelse:\n  S.t', [L]),
    T('loop/while', 'stmt', 'while S.once:\n  S.n', [L]),
    T('loop/async-for', 'stmt', 'async for _ in S.one:\n  S.n', [L], needs='async'),
    T('call/no-args', 'expr', 'S.f()', [K]),
    T('call/args-and-keywords', 'expr', 'S.f(1, *S.one, k=2)', [K]),
    T('call/builtin', 'expr', 'len(S.two)', [K]),
    T('call/method-chain', 'expr', 'S.two.copy().count(0)', [K]),
    T('exception/try-except', 'stmt', 'try:\n  S.n\nexcept KeyError:\n  S.t', [X]),
    T('exception/try-finally', 'stmt', 'try:\n  S.n\nfinally:\n  S.t', [X]),
    T('exception/try-except-star', 'stmt', 'try:\n  S.n\nexcept* KeyError:\n  S.t', [X]),
    T('exception/raise', 'stmt', 'raise S.err', [X]),
    T('exception/raise-bare-name', 'stmt', 'raise KeyError', [X]),
    T('exception/assert', 'stmt', 'assert S.t, S.n', [X]),
    T('class/plain', 'stmt', 'class Kls:\n  z = S.n', [D], soft=[A]),
    T('class/empty', 'stmt', 'class Kls:\n  pass', [D]),
    T('function/def', 'stmt', 'def fn(x, y=2):\n  pass', [F]),
    T('function/async-def', 'stmt', 'async def afn():\n  pass', [F]),
    T('function/lambda', 'expr', '(lambda x=1: x)', [F]),
    T('function/generator-def', 'stmt', 'def gen():\n  yield 1', [F]),
    T('import/import', 'stmt', 'import math', [I]),
    T('import/import-as', 'stmt', 'import os.path as osp', [I]),
    T('import/from', 'stmt', 'from math import pi', [I]),
    T('import/from-star', 'stmt', 'from math import *', [I]),
]

# Forms whose gating the statement leaves to interpretation (own driver).
EXT_LEAVES = [
    T('condition/conditional-expression', 'expr', '(S.n if S.t else S.f0)', [C]),
    T('condition/comprehension-if', 'expr', '[i for i in S.two if i]', [C, L]),
    T('loop/list-comprehension', 'expr', '[i for i in S.two]', [L]),
    T('loop/generator-expression', 'expr', 'list(i for i in S.two)', [L, K]),
    T('loop/dict-comprehension', 'expr', '{i: i for i in S.two}', [L]),
    T('loop/set-comprehension', 'expr', '{i for i in S.two}', [L]),
]
# Implicit bindings / implicit calls: reported separately, not part of DRIVERS.
IMPLICIT_LEAVES = [
    T('assign/for-target-binding', 'stmt', 'for q in S.one:\n  pass', [L, A]),
    T('assign/with-as-binding', 'stmt', 'with S.cm as q:\n  pass', [A]),
    T('assign/del', 'stmt', 'del S.d[0]', [A]),
    T('assign/type-alias', 'stmt', 'type Alias = int', [A]),
    T('call/decorator-application', 'stmt', '@S.deco\ndef fn():\n  pass', [F, K]),
]

CONTAINERS = [
    # statement hole -> statement
    T('if-body', 'stmt', 'if S.t:\n  <B>', [C], hole='stmt'),
    T('else-body', 'stmt', 'if S.f0:\n  pass\nelse:\n  <B>', [C], hole='stmt'),
    T('elif-body', 'stmt', 'if S.f0:\n  pass\nelif S.t:\n  <B>', [C], hole='stmt'),
    T('for-body', 'stmt', 'for _ in S.one:\n  <B>', [L], hole='stmt'),
    T('for-else-body', 'stmt', 'for _ in S.one:\n  pass\nelse:\n  <B>', [L], hole='stmt'),
    T('while-body', 'stmt', 'while S.once:\n  <B>', [L], hole='stmt'),
    T('while-else-body', 'stmt', 'while S.f0:\n  pass\nelse:\n  <B>', [L], hole='stmt'),
    T('try-body', 'stmt', 'try:\n  <B>\nexcept ZeroDivisionError:\n  pass', [X], hole='stmt'),
    T('except-body', 'stmt', 'try:\n  1 / 0\nexcept ZeroDivisionError:\n  <B>', [X], hole='stmt'),
    T('try-else-body', 'stmt', 'try:\n  pass\nexcept ZeroDivisionError:\n  pass\nelse:\n  <B>', [X], hole='stmt'),
    T('finally-body', 'stmt', 'try:\n  pass\nfinally:\n  <B>', [X], hole='stmt'),
    T('try-star-body', 'stmt', 'try:\n  <B>\nexcept* ZeroDivisionError:\n  pass', [X], hole='stmt'),
    T('except-star-body', 'stmt', 'try:\n  1 / 0\nexcept* ZeroDivisionError:\n  <B>', [X], hole='stmt'),
    T('with-body', 'stmt', 'with S.cm:\n  <B>', [], hole='stmt'),
    T('def-body', 'stmt', 'def fn():\n  <B>', [F], hole='stmt'),
    T('async-def-body', 'stmt', 'async def afn():\n  <B>', [F], hole='stmt'),
    T('async-with-body', 'stmt', 'async with S.cm:\n  <B>', [], soft=[L], hole='stmt', needs='async'),
    T('async-for-body', 'stmt', 'async for _ in S.one:\n  <B>', [L], hole='stmt', needs='async'),
    T('class-body', 'stmt', 'class Kls:\n  <B>', [D], hole='stmt'),
    T('match-case-body', 'stmt', 'match S.n:\n  case 1:\n    <B>\n  case _:\n    pass', [C], hole='stmt'),
    T('method-body', 'stmt', 'class Kls:\n  def m(self):\n    <B>', [D, F], hole='stmt'),
    # expression hole -> statement
    T('expression-statement', 'stmt', '<E>', [], hole='expr'),
    T('assign-value', 'stmt', 'v = <E>', [A], hole='expr'),
    T('augassign-value', 'stmt', 'hitcount_ += <E>', [A], hole='expr'),
    T('annassign-value', 'stmt', 'v: int = <E>', [A], hole='expr'),
    T('annassign-annotation', 'stmt', 'v: <E> = 1', [A], hole='expr'),
    T('bare-annotation', 'stmt', 'v: <E>', [], soft=[A], hole='expr'),
    T('if-test', 'stmt', 'if <E>:\n  pass', [C], hole='expr'),
    T('while-test', 'stmt', 'while S.once and <E>:\n  pass', [L], hole='expr'),
    T('for-iter', 'stmt', 'for _ in [<E>]:\n  pass', [L], hole='expr'),
    T('with-item', 'stmt', 'with S.cm, <E>:\n  pass', [], hole='expr'),
    T('return-value', 'stmt', 'def fn():\n  return <E>', [F], hole='expr'),
    T('yield-value', 'stmt', 'def fn():\n  yield <E>', [F], hole='expr'),
    T('yield-from-value', 'stmt', 'def fn():\n  yield from <E>', [F], hole='expr'),
    T('await-value', 'stmt', 'async def afn():\n  await <E>', [F], hole='expr'),
    T('default-argument', 'stmt', 'def fn(x=<E>):\n  pass', [F], hole='expr'),
    T('kwonly-default', 'stmt', 'def fn(*, x=<E>):\n  pass', [F], hole='expr'),
    T('argument-annotation', 'stmt', 'def fn(x: <E>):\n  pass', [F], hole='expr'),
    T('return-annotation', 'stmt', 'def fn() -> <E>:\n  pass', [F], hole='expr'),
    T('function-decorator', 'stmt', '@<E>\ndef fn():\n  pass', [F], soft=[K], hole='expr'),
    T('class-decorator', 'stmt', '@<E>\nclass Kls:\n  pass', [D], soft=[K], hole='expr'),
    T('class-base', 'stmt', 'class Kls(<E>):\n  pass', [D], hole='expr'),
    T('class-keyword', 'stmt', 'class Kls(metaclass=<E>):\n  pass', [D], hole='expr'),
    T('raise-exception', 'stmt', 'raise <E>', [X], hole='expr'),
    T('raise-cause', 'stmt', 'raise KeyError from <E>', [X], hole='expr'),
    T('assert-test', 'stmt', 'assert <E>', [X], hole='expr'),
    T('assert-message', 'stmt', 'assert S.t, <E>', [X], hole='expr'),
    T('except-type', 'stmt', 'try:\n  pass\nexcept <E>:\n  pass', [X], hole='expr'),
    T('del-subscript', 'stmt', 'del S.l[<E>]', [], soft=[A], hole='expr'),
    T('match-subject', 'stmt', 'match <E>:\n  case _:\n    pass', [C], hole='expr'),
    T('match-guard', 'stmt', 'match S.n:\n  case _ if <E>:\n    pass', [C], hole='expr'),
    T('subscript-assign-index', 'stmt', 'S.d[<E>] = 1', [A], hole='expr'),
    T('type-alias-value', 'stmt', 'type Alias = <E>', [], soft=[A], hole='expr'),
    # expression hole -> expression
    T('call-argument', 'expr', 'S.f(<E>)', [K], hole='expr'),
    T('call-keyword', 'expr', 'S.f(k=<E>)', [K], hole='expr'),
    T('call-star', 'expr', 'S.f(*[<E>])', [K], hole='expr'),
    T('call-function-position', 'expr', '(<E>)()', [K], hole='expr'),
    T('lambda-body', 'expr', '(lambda: <E>)', [F], hole='expr'),
    T('lambda-default', 'expr', '(lambda x=<E>: x)', [F], hole='expr'),
    T('tuple-element', 'expr', '(0, <E>)', [], hole='expr'),
    T('list-element', 'expr', '[<E>]', [], hole='expr'),
    T('set-element', 'expr', '{<E>}', [], hole='expr'),
    T('dict-key', 'expr', '{<E>: 0}', [], hole='expr'),
    T('dict-value', 'expr', '{0: <E>}', [], hole='expr'),
    T('dict-unpack', 'expr', '{**{0: <E>}}', [], hole='expr'),
    T('starred', 'expr', '[*[<E>]]', [], hole='expr'),
    T('binary-operand', 'expr', '(1 + <E>)', [], hole='expr'),
    T('unary-operand', 'expr', '(not <E>)', [], hole='expr'),
    T('boolean-operand', 'expr', '(S.t and <E>)', [], hole='expr'),
    T('comparison-operand', 'expr', '(0 < <E> < 9)', [], hole='expr'),
    T('attribute-base', 'expr', '(<E>).real', [], hole='expr'),
    T('subscript-index', 'expr', 'S.d[<E>]', [], hole='expr'),
    T('subscript-base', 'expr', '[<E>][0]', [], hole='expr'),
    T('slice-bound', 'expr', 'S.l[<E>:]', [], hole='expr'),
    T('fstring-value', 'expr', "f'x{ (<E>) }y'", [], hole='expr'),
    T('fstring-format-spec', 'expr', "f'{1:{ (<E>) }}'", [], hole='expr'),
    T('walrus-value', 'expr', '(w := <E>)', [A], hole='expr'),
    T('conditional-expression-test', 'expr', '(1 if <E> else 2)', [], soft=[C], hole='expr'),
    T('conditional-expression-branch', 'expr', '(<E> if S.t else 2)', [], soft=[C], hole='expr'),
    T('comprehension-element', 'expr', '[<E> for _ in S.one]', [], soft=[L], hole='expr'),
    T('comprehension-iterable', 'expr', '[0 for _ in [<E>]]', [], soft=[L], hole='expr'),
    T('comprehension-condition', 'expr', '[0 for _ in S.one if <E>]', [], soft=[L, C], hole='expr'),
    T('generator-element', 'expr', 'tuple(<E> for _ in S.one)', [K], soft=[L], hole='expr'),
    T('dict-comprehension-value', 'expr', '{0: <E> for _ in S.one}', [], soft=[L], hole='expr'),
    T('set-comprehension-element', 'expr', '{<E> for _ in S.one}', [], soft=[L], hole='expr'),
]
BY_NAME = {t.name: t for t in LEAVES + EXT_LEAVES + IMPLICIT_LEAVES + CONTAINERS}


def _indent(src, ind):
  return ('\n' + ind).join(src.split('\n'))


def fill(container, inner_src):
  if container.hole == 'expr':
    return container.src.replace('<E>', inner_src)
  lines = container.src.split('\n')
  out = []
  for line in lines:
    if line.strip() == '<B>':
      ind = line[:len(line) - len(line.lstrip())]
      out.append(ind + _indent(inner_src, ind))
    else:
      out.append(line)
  return '\n'.join(out)


def compatible(container, inner):
  """Can `inner` (leaf or container) be placed in the hole of `container`?"""
  if container.hole == 'expr':
    return inner.kind == 'expr'
  return True          # a statement hole takes statements and expression statements


def assemble(chain):
  """chain: [outermost container, ..., leaf] (template names) -> (source, hard, soft).

  None when the chain is not well-formed (kinds / async context)."""
  ts = [BY_NAME[n] for n in chain]
  for outer, inner in zip(ts, ts[1:]):
    if not compatible(outer, inner):
      return None
  in_async = False
  for i, t in enumerate(ts):
    if t.needs == 'async' and not in_async:
      return None
    if t.name in ('async-def-body',):
      in_async = True
    elif t.name in ('def-body', 'method-body', 'class-body', 'lambda-body', 'lambda-default'):
      in_async = False
  src = ts[-1].src
  for t in reversed(ts[:-1]):
    src = fill(t, src)
  hard = frozenset().union(*[t.hard for t in ts])
  soft = frozenset().union(*[t.soft for t in ts]) - hard
  return 'S.hit\n' + src, hard, soft


def valid_python(src):
  try:
    compile(src, '<c19>', 'exec')
    return True
  except SyntaxError:
    return False


warnings.filterwarnings('ignore', category=SyntaxWarning)


# ---------------------------------------------------------------------------
# Running a program through the library and through plain exec.
# ---------------------------------------------------------------------------

def _norm(v):
  if isinstance(v, type):
    return ('class', v.__name__)
  if callable(v) and hasattr(v, '__name__'):
    return ('callable', v.__name__)
  if type(v).__name__ == 'module':
    return ('module', v.__name__)
  if isinstance(v, (list, tuple)):
    return type(v)(_norm(x) for x in v)
  if isinstance(v, dict):
    return {_norm(k): _norm(x) for k, x in v.items()}
  if isinstance(v, (set, frozenset)):
    return ('set', sorted(repr(_norm(x)) for x in v))
  if isinstance(v, BaseException):
    return ('exception', type(v).__name__, str(v))
  if isinstance(v, str):
    return re.sub(r' at 0x[0-9a-f]+', '', v)
  if isinstance(v, float) and v != v:
    return ('float', 'nan')          # equal to itself also after a trip through pickle
  if isinstance(v, (int, float, bool, bytes, type(None))):
    return v
  return ('object', type(v).__name__)


class _TooLong(BaseException):
  pass


def terminates(src, limit=20000):
  """Runs `src` under a line-event budget (guards the harness against generated loops)."""
  import sys
  n = [0]

  def tracer(frame, event, arg):
    n[0] += 1
    if n[0] > limit:
      raise _TooLong()
    return tracer
  old = sys.gettrace()
  try:
    sys.settrace(tracer)
    with contextlib.redirect_stdout(io.StringIO()):
      exec(compile(src, '<budget>', 'exec'), {'S': Sentinel(), 'hitcount_': 0})  # pylint: disable=exec-used
  except _TooLong:
    return False
  except BaseException:  # pylint: disable=broad-except
    return True
  finally:
    sys.settrace(old)
  return True


def reference(src, extra_globals=None):
  """Plain exec of the same text: dict(outcome, stdout, vars, log, lineno, result)."""
  s = Sentinel()
  g = {'S': s, 'hitcount_': 0}
  g.update(extra_globals or {})
  before = dict(g)
  out = io.StringIO()
  res = dict(outcome='ok', lineno=None, result=('<none>',), message=None)
  try:
    tree = ast.parse(src)
    last = tree.body[-1] if tree.body else None
    with contextlib.redirect_stdout(out):
      if isinstance(last, ast.Expr):
        tree.body.pop()
        exec(compile(tree, '<ref>', 'exec'), g)  # pylint: disable=exec-used
        res['result'] = _norm(eval(compile(ast.Expression(last.value), '<ref>', 'eval'), g))  # pylint: disable=eval-used
      else:
        exec(compile(src, '<ref>', 'exec'), g)  # pylint: disable=exec-used
        if isinstance(last, ast.Assign) and all(isinstance(t, ast.Name) for t in last.targets):
          res['result'] = _norm(g[last.targets[0].id])
  except SyntaxError as e:
    res.update(outcome=type(e).__name__, lineno={e.lineno}, message=_norm(str(e)))
  except Exception as e:  # pylint: disable=broad-except
    lns = [fr.lineno for fr in traceback.extract_tb(e.__traceback__) if fr.filename == '<ref>']
    # position = line of the failing top-level statement or of the innermost frame OF THE PROGRAM
    # (frames of other code the program calls into are not positions in the program)
    res.update(outcome=type(e).__name__, lineno=({lns[0], lns[-1]} if lns else None),
               message=_norm(str(e)))
  res['stdout'] = out.getvalue()
  res['vars'] = {k: _norm(v) for k, v in g.items()
                 if k != '__builtins__' and (k not in before or v is not before[k])}
  res['log'] = _norm(s.log + [('final', dict(s.d), list(s.l))]) if s.log else []
  return res


_EV = 'pg.coding.evaluate(CODE, global_vars=G, outputs_intermediate=True%s)'
_RUN = 'pg.coding.run(CODE, global_vars=G, outputs_intermediate=True, sandbox=False%s)'
# Every entry point grants exactly PERM (an explicit argument and an enclosing
# scope combine to their intersection; ALL is the neutral element).
# name -> (expression, mode); mode: what the call returns ('dict' | 'stdout' | 'result').
API_SRC = {
    'evaluate(permission=)': (_EV % ', permission=PERM', 'dict'),
    'permission-scope+evaluate': ('with_scope(PERM, lambda: %s)' % (_EV % ''), 'dict'),
    'run(sandbox=False)': (_RUN % ', permission=PERM', 'dict'),
    'permission-scope+context+evaluate': (
        'with_scope(PERM, lambda: with_context(G, lambda: pg.coding.evaluate(CODE, outputs_intermediate=True)))',
        'dict'),
    'wider-scope+evaluate(permission=)': ('with_scope(ALL, lambda: %s)' % (_EV % ', permission=PERM'), 'dict'),
    'permission-scope+evaluate(permission=ALL)': ('with_scope(PERM, lambda: %s)' % (_EV % ', permission=ALL'), 'dict'),
    'permission-scope+run()': ('with_scope(PERM, lambda: %s)' % (_RUN % ''), 'dict'),
    'wider-scope+run(permission=)': ('with_scope(ALL, lambda: %s)' % (_RUN % ', permission=PERM'), 'dict'),
    'permission-scope+run(permission=ALL)': ('with_scope(PERM, lambda: %s)' % (_RUN % ', permission=ALL'), 'dict'),
    # scope and argument each grant something the other does not: PERM is their intersection
    'overlapping-scope+evaluate(permission=)': ('with_scope(PERM_X, lambda: %s)' % (_EV % ', permission=PERM_Y'), 'dict'),
    'overlapping-scope+run(permission=)': ('with_scope(PERM_X, lambda: %s)' % (_RUN % ', permission=PERM_Y'), 'dict'),
    'evaluate(returns_stdout=True)': (
        'pg.coding.evaluate(CODE, global_vars=G, permission=PERM, returns_stdout=True)', 'stdout'),
    'evaluate(result-only)': ('pg.coding.evaluate(CODE, global_vars=G, permission=PERM)', 'result'),
    'wider-scope+run(result-only)': (
        'with_scope(ALL, lambda: pg.coding.run(CODE, global_vars=G, permission=PERM, sandbox=False))', 'result'),
}
APIS = list(API_SRC)
BASE_API = 'evaluate(permission=)'
DICT_APIS = [a for a in APIS if API_SRC[a][1] == 'dict']


NOT_RETURNED = ('<not-returned-by-this-entry-point>',)


def with_scope(perm, fn):
  with pg.coding.permission(perm):
    return fn()


def with_context(g, fn):
  with pg.coding.context(**g):
    return fn()


def overlapping(perm):
  """(x, y) with x & y == perm, neither contained in the other when perm lacks >= 2 flags."""
  rest = [f for f in FLAGS if not f & perm]
  return perm | perm_of(rest[::2]), perm | perm_of(rest[1::2])


def library(src, perm, api, extra_globals=None):
  """Runs through pg.coding: dict(outcome, stdout, vars, log, lineno, result, cause, ...).

  Fields the entry point does not return are NOT_RETURNED (not judged)."""
  s = Sentinel()
  g = {'S': s, 'hitcount_': 0}
  g.update(extra_globals or {})
  expr, mode = API_SRC[api]
  px, py = overlapping(perm)
  env = dict(pg=pg, CODE=src, G=g, PERM=perm, ALL=perm_of(FLAGS), PERM_X=px, PERM_Y=py,
             with_scope=with_scope, with_context=with_context)
  res = dict(outcome='ok', lineno=None, end_lineno=None, result=('<none>',), stdout='', vars={},
             cause=None, message=None, code=None, mode=mode)
  try:
    out = eval(expr, env)  # pylint: disable=eval-used
    if mode == 'dict':
      res['stdout'] = out.pop('__stdout__', '')
      if '__result__' in out:
        res['result'] = _norm(out.pop('__result__'))
      res['vars'] = {k: _norm(v) for k, v in out.items()}
    elif mode == 'stdout':
      res.update(stdout=out, vars=NOT_RETURNED, result=NOT_RETURNED)
    else:
      res.update(stdout=NOT_RETURNED, vars=NOT_RETURNED, result=_norm(out))
  except pg.coding.CodeError as e:
    res.update(outcome='CodeError', cause=type(e.cause).__name__, lineno=e.lineno,
               end_lineno=e.end_lineno, message=_norm(str(e.cause)), code=e.code)
  except BaseException as e:  # pylint: disable=broad-except
    res.update(outcome='raised-' + type(e).__name__, cause=type(e).__name__)
  res['log'] = _norm(s.log + [('final', dict(s.d), list(s.l))]) if s.log else []
  return res


def _wit(src, perm, api, check):
  return ('import pyglove as pg, bounded.c19_permission as m\n'
          'P = pg.coding.CodePermission\n'
          f'code = {src!r}\n'
          f'r = m.library(code, {perm_src(perm)}, {api!r})\n' + check)


WIT_REFUSED = ("assert r['outcome'] == 'CodeError' and r['log'] == [], (r['outcome'], r['log'])\n")
WIT_SAME = ("ref = m.reference(code)\n"
            "assert m.same_execution(ref, r) is None, m.same_execution(ref, r)\n")


def same_execution(ref, got, judge_result=True, judge_log=True):
  """None when the library run equals plain exec, else a description."""
  if ref['outcome'] == 'ok':
    if got['outcome'] != 'ok':
      return f"exec succeeds, library: {got['outcome']}({got['cause']})"
  else:
    if got['outcome'] != 'CodeError':
      return f"exec raises {ref['outcome']}, library outcome {got['outcome']}"
    if got['cause'] != ref['outcome']:
      return f"exec raises {ref['outcome']}, CodeError.cause is {got['cause']}"
    if ref.get('message') is not None and got.get('message') is not None and got['message'] != ref['message']:
      return f"exec raises {ref['outcome']}({ref['message']!r}), CodeError.cause is {got['cause']}({got['message']!r})"
    if ref['lineno'] is not None and got['lineno'] not in ref['lineno']:
      return f"{ref['outcome']} raised at line {sorted(ref['lineno'])}, CodeError.lineno = {got['lineno']}"
  if judge_log and got['log'] != ref['log']:
    return f"side effects differ: exec {ref['log']!r}, library {got['log']!r}"
  if ref['outcome'] == 'ok':
    if got['stdout'] != NOT_RETURNED and got['stdout'] != ref['stdout']:
      return f"stdout differs: exec {ref['stdout']!r}, library {got['stdout']!r}"
    if got['vars'] != NOT_RETURNED and got['vars'] != ref['vars']:
      return f"variables differ: exec {ref['vars']!r}, library {got['vars']!r}"
    if (judge_result and got['result'] != NOT_RETURNED and ref['result'] != ('<none>',)
        and got['result'] != ref['result']):
      return f"result differs: exec {ref['result']!r}, library {got['result']!r}"
  return None


# ---------------------------------------------------------------------------
# Drivers
# ---------------------------------------------------------------------------

ALL = perm_of(FLAGS)


_POPPED = ('Assign', 'AugAssign', 'AnnAssign', 'TypeAlias', 'Return')


def _last_stmt(src):
  last = ast.parse(src).body[-1]
  name = type(last).__name__
  if isinstance(last, ast.Assign):
    names = [isinstance(t, ast.Name) for t in last.targets]
    name += '(names)' if all(names) else '(chain-of-names-and-other-targets)' if any(names) else '(other-targets)'
  if isinstance(last, ast.AnnAssign) and last.value is None:
    name += '(no-value)'
  return name


def _diff_kind(msg):
  for k in ('side effects', 'stdout', 'variables', 'result', 'CodeError.lineno', 'CodeError.cause',
            'exec succeeds', 'library outcome'):
    if k in msg:
      return k.replace(' ', '-')
  return 'other'


class Checker:
  """Shared bookkeeping: which leaves are refused at top level (for case ids)."""

  def __init__(self, rec):
    self.rec = rec
    self.baseline_bad = set()      # (leaf name, flag) not refused at top level

  def learn_baseline(self, leaves):
    """So that nested ids point at the leaf when the leaf itself is ungated."""
    for leaf in leaves:
      prog = assemble([leaf.name] if leaf.needs != 'async' else ['async-def-body', leaf.name])
      for f in leaf.hard:
        got = library(prog[0], ALL & ~f, BASE_API)
        if not (got['outcome'] == 'CodeError' and got['log'] == []):
          self.baseline_bad.add((leaf.name, f))

  def refusal(self, chain, src, hard, perm, api, where):
    missing = [f for f in FLAGS if f in hard and not f & perm]
    got = library(src, perm, api)
    ok = got['outcome'] == 'CodeError' and got['log'] == []
    ts = [BY_NAME[n] for n in chain]
    # Which template owns a missing permission?  innermost first.
    owner = next((t for t in reversed(ts) if any(f in t.hard for f in missing)), ts[-1])
    if len(ts) == 1 or (owner.name, missing[0]) in self.baseline_bad or owner is not ts[-1]:
      cid = f'refuse/{NAMES[missing[0]]}/{owner.name}'
      if not ok and len(ts) == 1 and api == BASE_API:
        self.baseline_bad.add((owner.name, missing[0]))
    else:
      cid = f'refuse-nested/{NAMES[missing[0]]}/inside-{ts[-2].name}'
    if got['outcome'] == 'CodeError' and got['cause'] == 'SyntaxError' and got['log']:
      cid += '/refused-after-partial-execution'
    if not ok and api != BASE_API:
      # the same program and grant through the plain entry point: is it this entry point's fault?
      base = library(src, perm, BASE_API)
      if base['outcome'] == 'CodeError' and base['log'] == []:
        cid = f'refuse/entry-point:{api}'
    self.rec.case(cid, (where, tuple(chain), perm.value, api), ok=ok,
                  message=(f"{api}, granted {perm_src(perm)}, needs {[NAMES[f] for f in sorted(hard, key=FLAGS.index)]}: "
                           f"outcome {got['outcome']}({got['cause']}), side effects {got['log']!r}; code {src!r}"),
                  witness=_wit(src, perm, api, WIT_REFUSED))
    return ok

  def execution(self, chain, src, perm, api, where, ref=None):
    ref = ref or reference(src)
    got = library(src, perm, api)
    msg = same_execution(ref, got)
    last = _last_stmt(src)
    if last in ('Expr', 'Assign(names)') or not last.startswith(_POPPED):
      cid = f'run-equals-exec/last-statement:{last}/' + (_diff_kind(msg) if msg else 'same')
    else:
      cid = f'run-equals-exec/last-statement-not-executed-as-statement:{last}'
    if msg and got['outcome'] == 'CodeError' and got['cause'] == 'SyntaxError' and ref['outcome'] not in ('SyntaxError', 'IndentationError'):
      cid = f'run-equals-exec/granted-program-refused/{chain[-1] if chain else "program"}'
    if msg and api != BASE_API and same_execution(ref, library(src, perm, BASE_API)) is None:
      cid = f'run-equals-exec/entry-point:{api}/{_diff_kind(msg)}'
    self.rec.case(cid, (where, tuple(chain), perm.value, api), ok=msg is None,
                  message=f'{api}, granted {perm_src(perm)}: {msg}; code {src!r}',
                  witness=_wit(src, perm, api, WIT_SAME))
    return msg is None


def _programs_depth1(leaves):
  for leaf in leaves:
    for cont in [None] + CONTAINERS:
      chain = ([cont.name] if cont else []) + [leaf.name]
      if cont is not None and cont.needs == 'async':
        chain = ['async-def-body'] + chain
      elif leaf.needs == 'async':
        chain = ['async-def-body'] + chain if cont is None else None
        if chain is None:
          chain = ['async-def-body', cont.name, leaf.name]
      prog = assemble(chain)
      if prog is None or not valid_python(prog[0]):
        continue
      yield chain, prog


def _tail(src):
  return src + '\nS.n'


def _refusal_driver(rec, leaves, tier, seed, where):
  chk = Checker(rec)
  chk.learn_baseline(leaves)
  r = rng(seed, 'c19-' + where)
  r_api = rng(seed, 'c19-api-' + where)
  quick = tier == 'quick'
  for n, (chain, (src, hard, soft)) in enumerate(_programs_depth1(leaves)):
    need = perm_of(hard | soft)
    api = r_api.choice(APIS)
    if quick or len(chain) > 1 and n % 4:
      perms = [ALL & ~f for f in hard] + [need & ~f for f in hard] + [P(0), need, ALL]
      perms += [perm_of(r.sample(FLAGS, r.randrange(1, 8))) for _ in range(2)]
    else:
      perms = [P(v) for v in range(256)]
    seen = set()
    ref = {}
    for k, perm in enumerate(perms):
      if perm.value in seen:
        continue
      seen.add(perm.value)
      a = r_api.choice(APIS) if not quick else api
      if any(not f & perm for f in hard):
        chk.refusal(chain, src, hard, perm, a, where)
        if k % 5 == 0:       # the same with more code behind the forbidden construct
          chk.refusal(chain, _tail(src), hard, perm, a, where)
      elif not any(not f & perm for f in soft):
        for variant in (src, _tail(src)):
          if variant not in ref:
            ref[variant] = reference(variant)
          if perm in (need, ALL) or k % 16 == 0:
            chk.execution(chain, variant, perm, a, where, ref[variant])
  return rec.result()


def drv_refusal_every_position(tier, seed):
  rec = Recorder(
      'C19', 'a forbidden construct is refused (nothing runs) wherever it sits; granted programs equal exec',
      scope=(f'{len(LEAVES)} leaf constructs (all forms of assignment, condition, loop, call, '
             f'exception handling, class/function definition, import) at top level and inside each '
             f'of {len(CONTAINERS)} statement/expression positions; permission sets: '
             + ('ALL minus each needed flag, needed minus each flag, empty, exactly needed, ALL, 2 random'
                if tier == 'quick' else 'all 256 subsets for top-level leaves and a quarter of the '
                'nested programs, the quick selection otherwise')
             + f'; {len(APIS)} ways of granting exactly that set (rotating): permission= argument, enclosing '
             'scope, both (wider scope + argument, scope + wider argument, overlapping scope and '
             'argument whose intersection is the set), through evaluate and run(sandbox=False), with '
             'global_vars or pg.coding.context, returning the dict / stdout / the result only; side-effect sentinel first statement; granted runs compared with exec '
             '(outcome, cause, line, stdout, variables, access log), with and without a trailing statement'))
  return _refusal_driver(rec, LEAVES, tier, seed, 'core')


def drv_refusal_expression_forms(tier, seed):
  rec = Recorder(
      'C19', 'expression forms of condition and loop: conditional expression, comprehensions, '
             'generator expressions',
      scope=(f'{len(EXT_LEAVES)} leaves x top level + {len(CONTAINERS)} positions; same permission '
             'sets and entry points as drv_refusal_every_position'))
  return _refusal_driver(rec, EXT_LEAVES, tier, seed, 'ext')


def drv_refusal_implicit_forms(tier, seed):
  """NOT in DRIVERS: implicit bindings (for target, with-as, del, type alias) as
  assignment and decorator application as call are a matter of interpretation."""
  rec = Recorder(
      'C19', 'implicit bindings and implicit calls (interpretation dependent)',
      scope=f'{len(IMPLICIT_LEAVES)} leaves x top level + {len(CONTAINERS)} positions')
  return _refusal_driver(rec, IMPLICIT_LEAVES, tier, seed, 'implicit')


def drv_refusal_deep_nesting(tier, seed):
  quick = tier == 'quick'
  n_chains = 1200 if quick else 15000
  rec = Recorder(
      'C19', 'forbidden construct below 2..3 nested positions',
      scope=(f'{n_chains} seeded chains container>container(>container)>leaf over all templates; '
             'per chain: ALL minus one needed flag (each), exactly needed, a random subset; '
             'refusal with empty side-effect log, or equality with exec'))
  chk = Checker(rec)
  chk.learn_baseline(LEAVES)
  r = rng(seed, 'c19-deep')
  done = 0
  tries = 0
  while done < n_chains and tries < n_chains * 30:
    tries += 1
    depth = r.choice((2, 2, 3))
    chain = [r.choice(CONTAINERS).name for _ in range(depth)] + [r.choice(LEAVES).name]
    if any(BY_NAME[c].needs == 'async' for c in chain):
      chain = ['async-def-body'] + chain
    prog = assemble(chain)
    if prog is None or not valid_python(prog[0]):
      continue
    done += 1
    src, hard, soft = prog
    need = perm_of(hard | soft)
    api = r.choice(APIS)
    for f in sorted(hard, key=FLAGS.index):
      chk.refusal(chain, src, hard, ALL & ~f, api, 'deep')
    sub = perm_of(r.sample(FLAGS, r.randrange(0, 9)))
    if any(not f & sub for f in hard):
      chk.refusal(chain, src, hard, sub, api, 'deep')
    for variant in (src, _tail(src)):
      chk.execution(chain, variant, need if done % 2 else ALL, api, 'deep')
  return rec.result()


# ---------------------------------------------------------------------------
# Nested permission scopes: the outermost scope bounds everything inside.
# ---------------------------------------------------------------------------

ENTRIES = {
    'evaluate': lambda src, g, kw: pg.coding.evaluate(src, global_vars=g, **kw),
    'run': lambda src, g, kw: pg.coding.run(src, global_vars=g, sandbox=False, **kw),
    'maybe_sandbox_call': lambda src, g, kw: pg.coding.maybe_sandbox_call(
        pg.coding.evaluate, src, global_vars=g, sandbox=False, **kw),
}


def run_nested(src, p_outer, p_inner, p_arg, entry='evaluate'):
  """with permission(p_outer): [with permission(p_inner):] <entry>(src[, permission=p_arg])."""
  s = Sentinel()
  g = {'S': s, 'hitcount_': 0}
  res = dict(outcome='ok', cause=None, seen=None, yielded=None)
  try:
    with pg.coding.permission(p_outer) as y1:
      with (pg.coding.permission(p_inner) if p_inner is not None else contextlib.nullcontext()) as y2:
        res['seen'] = pg.coding.get_permission()
        res['yielded'] = (y1, y2)
        kw = {} if p_arg is None else {'permission': p_arg}
        try:
          ENTRIES[entry](src, g, kw)
        finally:
          res['after_call'] = pg.coding.get_permission()
      res['after_inner'] = pg.coding.get_permission()
    res['after_outer'] = pg.coding.get_permission()
  except pg.coding.CodeError as e:
    res.update(outcome='CodeError', cause=type(e.cause).__name__)
    res['after_outer'] = pg.coding.get_permission()
  except Exception as e:  # pylint: disable=broad-except
    res.update(outcome='raised-' + type(e).__name__, cause=type(e).__name__)
    res['after_outer'] = pg.coding.get_permission()
  res['log'] = _norm(s.log)
  return res


def drv_nested_scopes(tier, seed):
  quick = tier == 'quick'
  rec = Recorder(
      'C19', 'nested pg.coding.permission scopes and the permission= argument can only narrow',
      scope=('top-level leaf programs x (outer scope, optional inner scope, optional permission= '
             'argument) x entry point {evaluate, run(sandbox=False), maybe_sandbox_call(evaluate, '
             'sandbox=False)}: outer in {ALL minus a needed flag, exactly needed, ALL, ALL minus an unneeded '
             'flag, empty}, inner/argument in {ALL, exactly needed, needed minus a flag, empty, ALL minus a '
             'needed flag (incomparable with the last outer), absent} ('
             + ('seeded third of the combinations' if quick else 'all combinations')
             + '); refusal whenever any level lacks a needed flag (nothing runs), run when '
             'every level grants everything; get_permission() inside, after the call and after the scopes'))
  r = rng(seed, 'c19-scopes')
  for leaf in LEAVES:
    if leaf.needs == 'async':
      continue
    src, hard, soft = assemble([leaf.name])
    need = perm_of(hard | soft)
    f0 = sorted(hard, key=FLAGS.index)[0]
    u = next(f for f in FLAGS if f not in hard | soft)          # a flag the program does not need
    outers = [ALL & ~f0, need, ALL, ALL & ~u, P(0)]
    inners = [None, ALL, need, need & ~f0, P(0), ALL & ~f0]     # the last: incomparable with ALL & ~u
    ref = reference(src)
    for entry, po, pi, pa in itertools.product(ENTRIES, outers, inners, inners):
      if quick and r.random() > 0.34:
        continue
      res = run_nested(src, po, pi, pa, entry)
      via = '' if entry == 'evaluate' else f'/via-{entry}'
      levels = [p for p in (po, pi, pa) if p is not None]
      desc = (f'with permission({perm_src(po)}): '
              + (f'with permission({perm_src(pi)}): ' if pi is not None else '')
              + f'{entry}(code' + (f', permission={perm_src(pa)}' if pa is not None else '') + ')')
      wit = ('import pyglove as pg, bounded.c19_permission as m\nP = pg.coding.CodePermission\n'
             f'r = m.run_nested({src!r}, {perm_src(po)}, {perm_src(pi) if pi is not None else None}, '
             f'{perm_src(pa) if pa is not None else None}, {entry!r})\n')
      key = (leaf.name, entry, po.value, pi and pi.value, pa and pa.value)
      if any(not f & po for f in hard):
        ok = res['outcome'] == 'CodeError' and res['log'] == []
        what = ('permission-argument-widens-enclosing-scope' if pa is not None and not any(not f & pa for f in hard)
                else 'inner-scope-widens-outer-scope' if pi is not None else 'outer-scope-not-applied')
        rec.case(f'nested-scope/{what}{via}', key, ok=ok,
                 message=f"{desc}: outcome {res['outcome']}, side effects {res['log']!r}; code {src!r}",
                 witness=wit + "assert r['outcome'] == 'CodeError' and r['log'] == [], r\n")
      elif all(not any(not f & p for f in hard | soft) for p in levels):
        ok = res['outcome'] == 'ok' and res['log'] != []
        if ref['outcome'] != 'ok':
          ok = res['outcome'] == 'CodeError' and res['cause'] == ref['outcome']
        rec.case(f'nested-scope/granted-at-every-level-runs{via}', key,
                 ok=ok, message=f"{desc}: outcome {res['outcome']}({res['cause']}); code {src!r}",
                 witness=wit + f"assert r['outcome'] == {'ok' if ref['outcome'] == 'ok' else 'CodeError'!r}, r\n")
      elif pa is not None and any(not f & pa for f in hard):
        # the enclosing scopes grant the construct, the explicit argument does not
        ok = res['outcome'] == 'CodeError' and res['log'] == []
        rec.case(f'nested-scope/narrower-permission-argument-refuses{via}', key,
                 ok=ok, message=f"{desc}: outcome {res['outcome']}, side effects {res['log']!r}; code {src!r}",
                 witness=wit + "assert r['outcome'] == 'CodeError' and r['log'] == [], r\n")
      if res['seen'] is not None:
        rec.case('nested-scope/get_permission-inside-is-outermost', key,
                 ok=res['seen'] == po and res['yielded'][0] == po and (pi is None or res['yielded'][1] == po),
                 message=f"{desc}: get_permission() = {res['seen']!r}, yielded {res['yielded']!r}",
                 witness=wit + f"assert r['seen'] == {perm_src(po)}, r['seen']\n")
      if 'after_call' in res:
        rec.case(f'nested-scope/call-leaves-enclosing-scope-unchanged{via}', key,
                 ok=res['after_call'] == po,
                 message=f"{desc}: get_permission() after the call, still inside the scopes: {res['after_call']!r}",
                 witness=wit + f"assert r['after_call'] == {perm_src(po)}, r['after_call']\n")
      rec.case('nested-scope/permission-restored-after-exit', key,
               ok=res.get('after_outer') is None and res.get('after_inner', po) == po,
               message=f"{desc}: after inner {res.get('after_inner')!r}, after outer {res.get('after_outer')!r}",
               witness=wit + "assert r['after_outer'] is None and r.get('after_inner', 1) in (1, " + perm_src(po) + "), r\n")
  return rec.result()


# ---------------------------------------------------------------------------
# Random multi-statement programs: execution equals exec, refusal is atomic.
# ---------------------------------------------------------------------------

_HARD_NODES = [
    ((ast.Assign, ast.AugAssign, ast.AnnAssign, ast.NamedExpr), A),
    ((ast.If, ast.Match), C),
    ((ast.For, ast.While, ast.AsyncFor), L),
    ((ast.Call,), K),
    ((ast.Try, ast.TryStar, ast.Raise, ast.Assert), X),
    ((ast.ClassDef,), D),
    ((ast.FunctionDef, ast.AsyncFunctionDef, ast.Lambda), F),
    ((ast.Import, ast.ImportFrom), I),
]
_SOFT_NODES = [
    ((ast.IfExp,), C), ((ast.ListComp, ast.SetComp, ast.DictComp, ast.GeneratorExp), L),
    ((ast.AsyncWith,), L), ((ast.Delete, ast.With, ast.TypeAlias), A),
]


def classify(src):
  """Own table (from the statement's list of constructs) -> (hard, soft)."""
  hard, soft = set(), set()
  for node in ast.walk(ast.parse(src)):
    for types_, flag in _HARD_NODES:
      if isinstance(node, types_):
        hard.add(flag)
    for types_, flag in _SOFT_NODES:
      if isinstance(node, types_):
        soft.add(flag)
    if isinstance(node, ast.comprehension) and node.ifs:
      soft.add(C)
    if isinstance(node, (ast.FunctionDef, ast.ClassDef, ast.AsyncFunctionDef)) and node.decorator_list:
      soft.add(K)
  return frozenset(hard), frozenset(soft - hard)


class _Gen:
  """Small straight-line / structured programs with data flow and prints."""

  def __init__(self, r):
    self.r = r
    self.vars = []
    self.counters = set()       # loop counters: readable, never reassigned by generated code
    self.funcs = []
    self.n = 0

  def fresh(self, p='v'):
    self.n += 1
    return f'{p}{self.n}'

  def expr(self, d=0):
    r = self.r
    x = r.random()
    if x < 0.25 or d > 2:
      return str(r.randrange(-3, 10))
    if x < 0.5 and self.vars:
      return r.choice(self.vars)
    if x < 0.7:
      return f'({self.expr(d + 1)} {r.choice(["+", "-", "*", "//", "%"])} {self.expr(d + 1)})'
    if x < 0.78 and self.funcs:
      return f'{r.choice(self.funcs)}({self.expr(d + 1)})'
    if x < 0.84:
      return f'abs({self.expr(d + 1)})'
    if x < 0.88:
      return f'({self.expr(d + 1)} if {self.expr(d + 1)} > 2 else {self.expr(d + 1)})'
    if x < 0.92:
      return f'sum([i * {self.expr(d + 1)} for i in range(3)])'
    if x < 0.95:
      return f'(lambda t: t + {self.expr(d + 1)})({self.expr(d + 1)})'
    if x < 0.97:
      return 'S.n'
    return f'len(str({self.expr(d + 1)}))'

  def mixed_assignment(self):
    """Assignment whose targets mix names, attributes, items, tuples (chained or not)."""
    r = self.r
    v, w = self.fresh(), self.fresh()
    form = r.choice([
        '{v} = S.attr = {e}', 'S.attr = {v} = {e}', '{v} = S.d[{k}] = {e}', 'S.d[{k}] = {v} = {e}',
        '{v} = S.attr = {w} = {e}', 'S.attr = S.d[{k}] = {e}', '{v} = ({w}, S.attr) = ({e}, {e2})',
        '({w}, S.d[{k}]) = {v} = ({e}, {e2})', '{v}, {w} = {e}, {e2}', 'S.attr, {v} = {e}, {e2}',
        '{v} = {w} = {e}', 'S.d[{k}] = {e}', 'S.attr = {e}', '{v} = [{w}, *S.l[1:]] = [{e}, {e2}, 3]'])
    line = form.format(v=v, w=w, k=r.randrange(0, 3), e=self.expr(1), e2=self.expr(1))
    self.vars.append(v)
    if '{w}' in form:
      self.vars.append(w)
    return line

  def block(self, d, n=None):
    out = []
    for _ in range(n or self.r.choice((1, 1, 2, 3))):
      out.extend(self.stmt(d))
    return out

  def ind(self, lines):
    return ['  ' + l for l in lines]

  def stmt(self, d):
    r = self.r
    x = r.random()
    if x < 0.28 or d >= 2 and x < 0.6:
      v = self.fresh()
      line = f'{v} = {self.expr()}'
      self.vars.append(v)
      return [line]
    if x < 0.36:
      return [f'print({self.expr()}, {self.expr()})']
    if x < 0.42 and [v for v in self.vars if v not in self.counters]:
      v = r.choice([v for v in self.vars if v not in self.counters])
      return [f'{v} {r.choice(["+=", "-=", "*="])} {self.expr()}']
    if x < 0.46:
      v = self.fresh()
      self.vars.append(v)
      return [f'{v}: int = {self.expr()}']
    if x < 0.50:
      v = self.fresh('w')
      line = f'print(({v} := {self.expr()}) + 1)'
      self.vars.append(v)
      return [line]
    if x < 0.535:
      return [self.mixed_assignment()]
    if d >= 2:
      return ['S.n']
    if x < 0.58:
      return ([f'if {self.expr()} > {self.expr()}:'] + self.ind(self.block(d + 1))
              + (['else:'] + self.ind(self.block(d + 1)) if r.random() < 0.5 else []))
    if x < 0.65:
      i = self.fresh('i')
      body = self.ind(self.block(d + 1))
      self.vars.append(i)
      return [f'for {i} in range({r.randrange(0, 4)}):'] + body
    if x < 0.69:
      c = self.fresh('c')
      self.vars.append(c)
      self.counters.add(c)
      return [f'{c} = 0', f'while {c} < {r.randrange(1, 4)}:'] + self.ind(self.block(d + 1) + [f'{c} += 1'])
    if x < 0.76:
      f = self.fresh('f')
      saved = list(self.vars)
      self.vars.append('a')
      body = self.ind(self.block(d + 1, 1) + [f'return a + {self.expr()}'])
      self.vars = saved
      self.funcs.append(f)
      return [f'def {f}(a, b=1):'] + body
    if x < 0.80:
      k = self.fresh('K')
      return [f'class {k}:', f'  z = {self.expr()}', '  def m(self, t):', f'    return t + self.z',
              f'print({k}().m({self.expr()}))']
    if x < 0.87:
      e = r.choice(['ZeroDivisionError', 'KeyError', 'Exception'])
      return (['try:'] + self.ind(self.block(d + 1) + [r.choice(['1 // 0', '{}[1]', 'S.n', 'raise KeyError(3)'])])
              + [f'except {e} as err:'] + self.ind(['print(type(err).__name__)'])
              + (['finally:'] + self.ind(['S.t']) if r.random() < 0.4 else []))
    if x < 0.90:
      return ['import math', f'print(math.floor({self.expr()} / 2))']
    if x < 0.93:
      return [f'assert {self.expr()} < 50, "big"']
    if x < 0.955:
      return [r.choice(['raise ValueError("v")', '1 // 0', 'undefined_name', '[][2]'])]
    if x < 0.97:
      return ['with S.cm as cmv:'] + self.ind(self.block(d + 1))
    return [self.expr()]

  def program(self):
    lines = ['S.hit'] + self.block(0, self.r.choice((2, 3, 4, 5)))
    tail = self.r.random()
    if tail < 0.35:
      lines.append(self.expr())
    elif tail < 0.5 and self.vars:
      lines.append(self.r.choice(self.vars))
    elif tail < 0.68:
      lines.append(self.mixed_assignment())        # the last statement is an assignment of any target mix
    return '\n'.join(lines)


def drv_random_programs(tier, seed):
  n = 700 if tier == 'quick' else 12000
  rec = Recorder(
      'C19', 'random structured programs: granted -> same as exec; one needed flag missing -> refused, nothing ran',
      scope=(f'{n} seeded programs (2..5 top-level statements, nesting<=2) with assignments of all '
             'kinds (chained / tuple / starred / attribute / item targets in every mix, also as the '
             'last statement), prints, if/for/while, def+calls, classes, try/except/finally, imports, asserts, '
             'uncaught errors at arbitrary lines, lambdas, comprehensions; needed flags by an own '
             'AST table; runs with ALL and with exactly the needed set are compared with exec '
             '(outcome, cause, line, stdout, variables, result, sentinel log); every needed-minus-'
             'one-flag set must be refused before the first statement runs'))
  r = rng(seed, 'c19-random')
  chk = Checker(rec)
  for k in range(n):
    src = _Gen(r).program()
    if not valid_python(src) or not terminates(src):
      continue
    hard, soft = classify(src)
    need = perm_of(hard | soft)
    api = APIS[(k // 2) % len(APIS)]          # k alternates ALL / exactly-needed: both with every entry point
    ref = reference(src)
    chk.execution(['random-program'], src, ALL if k % 2 else need, api, 'random', ref)
    for f in sorted(hard, key=FLAGS.index):
      got = library(src, need & ~f, api)
      rec.case(f'refuse-random-program/{NAMES[f]}', (src, f.value, api),
               ok=got['outcome'] == 'CodeError' and got['log'] == [] and got['stdout'] == '',
               message=f"granted {perm_src(need & ~f)}: outcome {got['outcome']}({got['cause']}), log {got['log']!r}; code {src!r}",
               witness=_wit(src, need & ~f, api, WIT_REFUSED))
  return rec.result()


def drv_errors_and_edge_sources(tier, seed):
  del tier, seed
  rec = Recorder(
      'C19', 'fixed edge sources: empty code, syntax errors, errors at known lines, stdout capture, parse()',
      scope=f'hand-picked sources through all {len(APIS)} entry points / ways of granting, ALL granted')
  cases = [
      ('empty', ''), ('comment-only', '# nothing'), ('expression', '1 + 2'),
      ('syntax-error-line-2', 'x = 1\ny = = 2'), ('syntax-error-line-1', 'def'),
      ('indentation-error', 'if True:\nx = 1'),
      ('runtime-error-line-3', 'x = 1\ny = 2\nz = x // 0\nw = 3'),
      ('runtime-error-in-last-expression', 'x = 1\nx // 0'),
      ('runtime-error-inside-function', 'def f():\n  return 1 // 0\nx = 1\nf()\n'),
      ('raise-custom-exception', 'class E(Exception):\n  pass\nraise E("m")'),
      ('stdout', 'print("a")\nprint("b", end="")\n3'),
      ('stdout-then-error', 'print("a")\n1 // 0'),
      ('last-line-assignment', 'x = 1\ny = x + 1'),
      ('function-calls-function', 'def f(a):\n  return a + 1\ndef g(a):\n  return f(a) * 2\ng(3)'),
      ('recursion', 'def f(n):\n  return 1 if n < 2 else n * f(n - 1)\nf(5)'),
      ('generator', 'def g():\n  yield 1\n  yield 2\nlist(g())'),
      ('closure-over-global', 'k = 3\nf = lambda a: a + k\nf(1)'),
      ('system-exit-is-not-swallowed-silently', 'x = 1\nraise KeyError("k")'),
      ('program-raises-TimeoutError', 'x = 1\nraise TimeoutError("slow")'),
      ('program-raises-subclass-of-OSError', 'x = 1\nraise FileNotFoundError(2, "nothing there")'),
      ('multi-line-statement-error', 'x = [1,\n 2,\n 3 // 0]\n'),
      ('semicolons', 'a = 1; b = 2; a + b'),
      ('unicode-and-strings', 's = "é\\n"\ns * 2'),
  ]
  chk = Checker(rec)
  for name, src in cases:
    for api in APIS:
      for perm in (ALL,):
        if not src.strip() or src.lstrip().startswith('#'):
          if api not in DICT_APIS:
            continue
          got = library(src, perm, api)
          rec.case(f'edge/{name}', (name, api), ok=got['outcome'] == 'ok' and got['vars'] == {},
                   message=f'{got}', witness=_wit(src, perm, api, "assert r['outcome'] == 'ok' and r['vars'] == {}, r\n"))
          continue
        ref = reference(src)
        got = library(src, perm, api)
        msg = same_execution(ref, got)
        rec.case(f'edge/{name}', (name, api), ok=msg is None, message=f'{msg}; code {src!r}',
                 witness=_wit(src, perm, api, WIT_SAME))
    # parse(): returns an AST for granted code, CodeError otherwise.
    try:
      tree = pg.coding.parse(src, ALL)
      ok = isinstance(tree, ast.AST) and ast.dump(tree) == ast.dump(ast.parse(src))
      msg = 'ast differs'
    except pg.coding.CodeError as e:
      ok = not valid_python(src) and isinstance(e.cause, SyntaxError)
      msg = f'CodeError({type(e.cause).__name__})'
    except SyntaxError:
      ok, msg = False, 'raw SyntaxError'
    rec.case(f'edge/parse/{name}', name, ok=ok, message=msg,
             witness=('import pyglove as pg, ast\nP = pg.coding.CodePermission\n'
                      f'src = {src!r}\n'
                      'try:\n  t = pg.coding.parse(src, P.ALL); assert ast.dump(t) == ast.dump(ast.parse(src))\n'
                      'except pg.coding.CodeError as e:\n  assert isinstance(e.cause, SyntaxError)\n'
                      '  try: compile(src, "", "exec"); raise AssertionError("valid code refused")\n'
                      '  except SyntaxError: pass\n'))
  return rec.result()


# ---------------------------------------------------------------------------
# Position of run-time errors: a line of the evaluated program, whatever other
# code the error travels through on its way out.
# ---------------------------------------------------------------------------

_HELPER_SRC = '\n' * 70 + '''def H(x):
  return 1 // x
def H2(x):
  y = x
  return H(y)
def HCB(f):
  return f()
class XO:
  @property
  def prop(self):
    return 1 // 0
  def __add__(self, other):
    return {}['missing']
  def __getitem__(self, k):
    raise LookupError('no item')
  def __iter__(self):
    raise ValueError('no iteration')
  def __bool__(self):
    raise ValueError('no truth value')
XOBJ = XO()
'''
_CODE_FEXPRS = ['H(0)', 'H2(0)', 'HCB(lambda: 1 // 0)', 'XOBJ.prop', 'XOBJ + 1', 'XOBJ[0]', '[*XOBJ]', 'not XOBJ']


def _module_level_helper(x):
  return 1 // x


def _nested_evaluate(x):
  return pg.coding.evaluate('\n' * 40 + f'u = 1\n1 // {x}', permission=perm_of(FLAGS))


def _compiled_helpers(filename):
  def build():
    ns = {}
    if filename is None:
      exec(_HELPER_SRC, ns)  # pylint: disable=exec-used     (file name '<string>')
    else:
      exec(compile(_HELPER_SRC, filename, 'exec'), ns)  # pylint: disable=exec-used
    return {k: ns[k] for k in ('H', 'H2', 'HCB', 'XOBJ')}
  return build


def _evaluated_helpers():
  """Functions and objects defined by an EARLIER evaluation (a previous cell of a session)."""
  out = pg.coding.evaluate(_HELPER_SRC, permission=perm_of(FLAGS), outputs_intermediate=True)
  return {k: out[k] for k in ('H', 'H2', 'HCB', 'XOBJ')}


def _pg_make_function():
  return {'MF': pg.coding.make_function('MF', ['x'], ['y = x', 'z = y', 'w = z', 'return 1 // w'])}


def _pg_object_getter():
  class FailingInference(pg.symbolic.InferredValue):
    def infer(self, **kwargs):
      raise LookupError('registry is empty')

  class Holder(pg.Object):
    x: int = FailingInference()
    y: int = 1
  return {'POBJ': Holder()}


def _pg_functor():
  @pg.functor()
  def fun(x):
    return 1 // x
  return {'FUN': fun(0)}


def _pg_object_method():
  class WithMethod(pg.Object):
    x: int

    def m(self):
      return 1 // self.x
  return {'POBJ2': WithMethod(0)}


# kind of code the error passes through -> (builder of the globals handed to the program, failing expressions)
FOREIGN = {
    'program-frames-only': (dict, ['1 // 0', '{}[1]', 'undefined_name_', 'S.one[5]']),
    'code-from-exec-of-source-text': (_compiled_helpers(None), _CODE_FEXPRS),
    'code-compiled-with-filename:<string>': (_compiled_helpers('<string>'), _CODE_FEXPRS),
    'code-compiled-with-filename:empty': (_compiled_helpers(''), _CODE_FEXPRS),
    'code-compiled-with-filename:<stdin>': (_compiled_helpers('<stdin>'), _CODE_FEXPRS),
    'code-compiled-with-filename:<unknown>': (_compiled_helpers('<unknown>'), _CODE_FEXPRS),
    'code-compiled-with-filename:<generated-code>': (_compiled_helpers('<generated-code>'), _CODE_FEXPRS),
    'code-compiled-with-filename:helpers.py': (_compiled_helpers('helpers.py'), _CODE_FEXPRS),
    'code-defined-by-an-earlier-evaluate': (_evaluated_helpers, _CODE_FEXPRS),
    'regular-module-function': (lambda: {'RH': _module_level_helper}, ['RH(0)']),
    'pg.coding.make_function': (_pg_make_function, ['MF(0)']),
    'pg.Object-symbolic-attribute-getter': (_pg_object_getter, ['POBJ.x', 'POBJ.y + POBJ.x']),
    'pg.functor-call': (_pg_functor, ['FUN()']),
    'pg.Object-method': (_pg_object_method, ['POBJ2.m()']),
    'nested-pg.coding.evaluate': (lambda: {'NE': _nested_evaluate}, ['NE(0)']),
}


def _deep(n, last_is_expression=False):
  lines = ['def f1():', '  a = 1', '  return <F>']
  for k in range(2, n + 1):
    lines += [f'def f{k}():', '  a = 1', '  a += 1', f'  return f{k - 1}()']
  lines += ['b = 1', f'f{n}()' if last_is_expression else f'c = f{n}()'] + ([] if last_is_expression else ['d = 2'])
  return '\n'.join(lines)


SHAPES = {
    'expression-statement/middle': 'a = 1\n<F>\nb = 2',
    'expression/last': 'a = 1\nb = 2\n<F>',
    'assignment-value/middle': 'a = 1\nb = <F>\nc = 2',
    'assignment-value/last-name-target': 'a = 1\nb = <F>',
    'assignment-value/last-attribute-target': 'a = 1\nS.attr = <F>',
    'assignment-value/last-chain-of-name-and-item': 'a = 1\na = 2\nb = S.d[0] = <F>',
    'augmented-assignment-value/last': 'a = 1\na += <F>',
    'if-body': 'a = 1\nif S.t:\n  a = 2\n  <F>\nb = 3',
    'if-test': 'a = 1\nif <F>:\n  a = 2\nb = 3',
    'for-body': 'for i in S.two:\n  S.n\n  <F>',
    'while-body': 'while S.once:\n  S.n\n  <F>\nb = 1',
    'try-finally-body': 'try:\n  a = 1\n  <F>\nfinally:\n  S.t',
    'except-handler-reraises': 'try:\n  a = 1\n  <F>\nexcept Exception:\n  S.t\n  raise\nb = 1',
    'raised-from-handler': 'try:\n  {}[0]\nexcept KeyError:\n  S.t\n  <F>',
    'with-body': 'with S.cm:\n  a = 1\n  <F>',
    'multi-line-statement': 'a = [1,\n  2,\n  <F>,\n  4]\nb = 1',
    'call-argument': 'a = 1\nS.f(1,\n  <F>)\nb = 2',
    'inside-lambda': 'g = lambda: <F>\nb = 1\ng()\nc = 1',
    'inside-comprehension': 'a = 1\nb = [<F> for _ in S.one]\nc = 1',
    'inside-class-body': 'class K:\n  a = 1\n  z = <F>\nb = 2',
    'inside-method': 'class K:\n  def m(self):\n    a = 1\n    return <F>\nk = K()\nk.m()',
    'inside-generator': 'def g():\n  yield 1\n  yield <F>\nb = list(g())\nc = 1',
    'default-argument': 'a = 1\ndef f(x=<F>):\n  pass\nb = 1',
    'function/1-call-deep': _deep(1),
    'function/2-calls-deep': _deep(2),
    'function/3-calls-deep': _deep(3),
    'function/4-calls-deep': _deep(4),
    'function/6-calls-deep': _deep(6),
    'function/2-calls-deep-from-last-expression': _deep(2, True),
    'function/4-calls-deep-from-last-expression': _deep(4, True),
}
_POS_PREFIX = 'S.hit\n' + '#\n' * 6      # every line of interest is > 7: never a line number of generated pyglove code


def position_program(fexpr, shape):
  return _POS_PREFIX + SHAPES[shape].replace('<F>', fexpr)


_FOREIGN_CACHE = {}


def foreign_globals(kind):
  if kind not in _FOREIGN_CACHE:
    _FOREIGN_CACHE[kind] = FOREIGN[kind][0]()
  return _FOREIGN_CACHE[kind]


def position_case(kind, fexpr, shape, api, perm=None):
  """None when the error is reported as exec reports it (cause, message, program line), else text."""
  src = position_program(fexpr, shape)
  g = foreign_globals(kind)
  ref = reference(src, g)
  if ref['outcome'] == 'ok':
    return 'harness: the program does not fail'
  got = library(src, perm_of(FLAGS) if perm is None else perm, api, g)
  msg = same_execution(ref, got)
  if msg is None and got['code'] != src:
    msg = f"CodeError.code is not the program text: {got['code']!r}"
  if msg is None and got['lineno'] is not None:
    # the reported range stays inside the statement that contains the reported line
    spans = [(n.lineno, n.end_lineno) for n in ast.walk(ast.parse(src))
             if isinstance(n, ast.stmt) and n.lineno <= got['lineno'] <= n.end_lineno]
    lo, hi = min(spans, key=lambda se: se[1] - se[0]) if spans else (got['lineno'], got['lineno'])
    if got['end_lineno'] is None or not got['lineno'] <= got['end_lineno'] <= max(e for _, e in spans or [(lo, hi)]):
      msg = f"CodeError.end_lineno = {got['end_lineno']!r} for lineno = {got['lineno']} (statement lines {lo}..{hi})"
  return msg


def drv_error_position(tier, seed):
  quick = tier == 'quick'
  rec = Recorder(
      'C19', 'errors raised by a granted program: cause, message and a position IN THE PROGRAM, '
             'whatever code the error passes through',
      scope=(f'{sum(len(v[1]) for v in FOREIGN.values())} failing expressions (plain; calls, operators, '
             'attribute/item access, iteration, truth value of objects whose code was compiled from text '
             'with file names <string>, empty, <stdin>, <unknown>, <generated-code>, a .py name, or defined '
             'by an earlier evaluate; module function; pg.coding.make_function; symbolic attribute getter '
             'with a failing inferred value; functor; pg.Object method; nested evaluate; callback into the '
             f'program) x {len(SHAPES)} places (statement kinds, last expression / last assignment of each '
             'target mix, bodies, handlers, multi-line statements, lambdas, comprehensions, class bodies, '
             'generators, 1..6 calls deep) x '
             + ('2 of the entry points (rotating)' if quick else 'all entry points')
             + '; compared with exec of the same text: exception class, message, line in {top-level '
             'statement, innermost frame of the program}, side effects before the error, end_lineno '
             'inside the statement, CodeError.code'))
  n = 0
  r = rng(seed, 'c19-position')
  for kind, (_, fexprs) in FOREIGN.items():
    try:
      foreign_globals(kind)
    except Exception as e:  # pylint: disable=broad-except
      rec.case(f'error-position/{kind}/cannot-build-the-helper-objects', kind, ok=False,
               message=f'{type(e).__name__}: {e}',
               witness=f'import bounded.c19_permission as m\nm.foreign_globals({kind!r})\n')
      continue
    for fexpr in fexprs:
      for shape in SHAPES:
        src = position_program(fexpr, shape)
        if not valid_python(src):
          continue
        n += 1
        apis = r.sample(APIS, 2) if quick else APIS
        for api in dict.fromkeys(apis):
          try:
            msg = position_case(kind, fexpr, shape, api)
          except Exception as e:  # pylint: disable=broad-except
            msg = f'unexpected {type(e).__name__}: {e}'
          what = _diff_kind(msg) if msg else 'same'
          if kind == 'program-frames-only':
            depth = shape if shape.startswith('function/') else 'top-level-frame-only'
            cid = f'error-position/{kind}/{depth}/{what}'
          else:
            cid = f'error-position/through-{kind}/{what}'
          rec.case(cid, (kind, fexpr, shape, api), ok=msg is None,
                   message=f'{api}: {msg}; failing expression {fexpr!r} in {src!r}',
                   witness=('import bounded.c19_permission as m\n'
                            f'msg = m.position_case({kind!r}, {fexpr!r}, {shape!r}, {api!r})\n'
                            'assert msg is None, msg\n'))
  return rec.result()


# ---------------------------------------------------------------------------
# pg.coding.run with a sandbox (child process): same refusals, same results.
# ---------------------------------------------------------------------------

@contextlib.contextmanager
def _child_processes_allowed():
  """`./check` runs each driver in a daemonic process and multiprocessing refuses to start
  children from daemons; the sandbox of pg.coding.run is such a child.  Lift the flag of
  THIS (already forked, private) driver process while sandboxed calls are made."""
  import multiprocessing
  cfg = multiprocessing.current_process()._config   # pylint: disable=protected-access
  old = cfg.get('daemon')
  cfg['daemon'] = False
  try:
    yield
  finally:
    if old is None:
      cfg.pop('daemon', None)
    else:
      cfg['daemon'] = old


class SharedSentinel(Sentinel):
  """Counts accesses in shared memory: visible to the parent when the program ran in a child."""

  def __init__(self, counter):
    super().__init__()
    object.__setattr__(self, 'counter', counter)

  def __getattr__(self, name):
    c = object.__getattribute__(self, 'counter')
    with c.get_lock():
      c.value += 1
    return Sentinel.__getattr__(self, name)


def _picklable(v):
  import pickle
  try:
    pickle.dumps(v)
    return True
  except Exception:  # pylint: disable=broad-except
    return False


def sandboxed(src, p_arg, p_scope, sandbox, counter, extra_globals=None):
  """[with permission(p_scope):] pg.coding.run(src[, permission=p_arg], sandbox=sandbox)."""
  s = SharedSentinel(counter)
  g = {'S': s, 'hitcount_': 0}
  g.update(extra_globals or {})
  counter.value = 0
  kw = {} if p_arg is None else {'permission': p_arg}
  res = dict(outcome='ok', lineno=None, end_lineno=None, result=('<none>',), stdout='', vars={},
             cause=None, message=None, code=None, mode='dict')
  try:
    with _child_processes_allowed():
      with (pg.coding.permission(p_scope) if p_scope is not None else contextlib.nullcontext()):
        out = pg.coding.run(src, global_vars=g, outputs_intermediate=True, sandbox=sandbox, timeout=60, **kw)
    res['stdout'] = out.pop('__stdout__', '')
    if '__result__' in out:
      res['result'] = _norm(out.pop('__result__'))
    res['vars'] = {k: _norm(v) for k, v in out.items()}
  except pg.coding.CodeError as e:
    res.update(outcome='CodeError', cause=type(e.cause).__name__, lineno=e.lineno,
               end_lineno=e.end_lineno, message=_norm(str(e.cause)), code=e.code)
  except BaseException as e:  # pylint: disable=broad-except
    res.update(outcome='raised-' + type(e).__name__, cause=type(e).__name__, message=str(e)[:200])
  res['touched'] = counter.value
  res['log'] = []
  return res


def _raw_outputs(src, extra_globals=None):
  """(new variables, value of the last expression) of plain exec, un-normalised."""
  g = {'S': Sentinel(), 'hitcount_': 0}
  g.update(extra_globals or {})
  before = dict(g)
  result = None
  try:
    tree = ast.parse(src)
    last = tree.body[-1] if tree.body else None
    with contextlib.redirect_stdout(io.StringIO()):
      if isinstance(last, ast.Expr):
        tree.body.pop()
        exec(compile(tree, '<ref>', 'exec'), g)  # pylint: disable=exec-used
        result = eval(compile(ast.Expression(last.value), '<ref>', 'eval'), g)  # pylint: disable=eval-used
      else:
        exec(compile(tree, '<ref>', 'exec'), g)  # pylint: disable=exec-used
  except Exception:  # pylint: disable=broad-except
    pass
  return {k: v for k, v in g.items() if k != '__builtins__' and (k not in before or v is not before[k])}, result


SANDBOX_GRANTS = {          # name -> (permission= argument, enclosing scope) given the effective permission p
    'permission-argument-only': lambda p: (p, None),
    'permission-argument-inside-wider-scope': lambda p: (p, ALL),
    'scope-only': lambda p: (None, p),
    'wider-permission-argument-inside-scope': lambda p: (ALL, p),
}


def sandbox_case(kind, src, p_eff, grant, sandbox, extra_kind=None):
  """kind 'refuse' | 'same'.  None when fine, else text."""
  import multiprocessing
  counter = multiprocessing.Value('i', 0)
  extra = foreign_globals(extra_kind) if extra_kind else None
  p_arg, p_scope = SANDBOX_GRANTS[grant](p_eff)
  got = sandboxed(src, p_arg, p_scope, sandbox, counter, extra)
  if kind == 'refuse':
    if got['outcome'] != 'CodeError' or got['touched']:
      return f"outcome {got['outcome']}({got['cause']}: {got['message']}), {got['touched']} accesses of S happened"
    return None
  ref = reference(src, extra)
  if got['outcome'] == 'raised-SerializationError' and sandbox is True and ref['outcome'] == 'ok':
    if not _picklable(_raw_outputs(src, extra)):
      return None           # the outputs cannot cross the process boundary: nothing to compare
  msg = same_execution(ref, got, judge_log=False)
  if msg is None and ref['log'] and not got['touched']:
    msg = 'the program reports success but never ran'
  return msg


def drv_sandboxed_run(tier, seed):
  quick = tier == 'quick'
  rec = Recorder(
      'C19', 'pg.coding.run(sandbox=True / None): a child process refuses and executes like evaluate',
      scope=('top-level leaf programs x sandbox in {True, None} x how the permission is given '
             f'({", ".join(SANDBOX_GRANTS)}): ALL minus each needed flag -> code error and no access of the '
             'sentinel in any process (shared-memory counter); exactly needed -> outcome, result, '
             'stdout, variables of exec (skipped when the variables cannot be pickled and sandbox=True); '
             'run-time errors raised in the child: cause, message, line ('
             + ('2 of the 8 combinations per program, rotating' if quick else 'all combinations') + ')'))
  combos = list(itertools.product(SANDBOX_GRANTS, (True, None)))
  n = 0

  timeouts = [0]

  def emit(cid, key, kind, src, p_eff, grant, sandbox, extra_kind=None):
    if timeouts[0] >= 3:
      return                        # a sandbox that hangs: reported three times, do not wait for the rest
    try:
      msg = sandbox_case(kind, src, p_eff, grant, sandbox, extra_kind)
    except Exception as e:  # pylint: disable=broad-except
      msg = f'unexpected {type(e).__name__}: {e}'
    if msg and 'TimeoutError' in msg:
      timeouts[0] += 1
    rec.case(cid, key, ok=msg is None,
             message=f'run(sandbox={sandbox}), {grant}, effective permission {perm_src(p_eff)}: {msg}; code {src!r}',
             witness=('import pyglove as pg, bounded.c19_permission as m\nP = pg.coding.CodePermission\n'
                      f'msg = m.sandbox_case({kind!r}, {src!r}, {perm_src(p_eff)}, {grant!r}, {sandbox!r}, {extra_kind!r})\n'
                      'assert msg is None, msg\n'))

  for leaf in LEAVES:
    if leaf.needs == 'async':
      continue
    src, hard, soft = assemble([leaf.name])
    need = perm_of(hard | soft)
    for f in sorted(hard, key=FLAGS.index):
      n += 1
      for j, (grant, sandbox) in enumerate(combos):
        if quick and (j + n + seed) % 4:
          continue
        emit(f'sandbox={sandbox}/refuse/{grant}', (leaf.name, NAMES[f], grant, sandbox),
             'refuse', src, ALL & ~f, grant, sandbox)
    n += 1
    for j, (grant, sandbox) in enumerate(combos):
      if quick and (j + n + seed) % 4:
        continue
      emit(f'sandbox={sandbox}/granted-program-equals-exec/{grant}', (leaf.name, grant, sandbox),
           'same', src, need, grant, sandbox)
  # run-time errors raised in the child process
  shapes = ['expression-statement/middle', 'expression/last', 'assignment-value/last-chain-of-name-and-item',
            'inside-class-body', 'function/2-calls-deep', 'function/4-calls-deep']
  for kind, fexpr in [('program-frames-only', '1 // 0'), ('code-from-exec-of-source-text', 'H(0)'),
                      ('code-compiled-with-filename:empty', 'XOBJ.prop'),
                      ('pg.coding.make_function', 'MF(0)'),
                      ('pg.Object-symbolic-attribute-getter', 'POBJ.x')]:
    try:
      foreign_globals(kind)
    except Exception:  # pylint: disable=broad-except
      continue                      # reported by drv_error_position
    for i, shape in enumerate(shapes):
      src = position_program(fexpr, shape)
      sandbox = (True, None)[(i + seed) % 2]
      emit(f'sandbox={sandbox}/error-position/through-{kind}', (kind, fexpr, shape, sandbox),
           'same', src, ALL, 'permission-argument-only', sandbox, kind)
  return rec.result()



# ---------------------------------------------------------------------------
# What travels back from the sandbox: every kind of result VALUE, through every
# way of asking for the output, is the value plain execution yields; only an
# error the program RAISES is reported as a (code) error.
# ---------------------------------------------------------------------------

class UserError(Exception):
  """An exception class of an importable module: instances cross a process boundary."""


class TwoArgError(Exception):
  """pickle.dumps works, pickle.loads does not (the constructor wants two arguments)."""

  def __init__(self, a, b):
    super().__init__(f'{a}-{b}')


def _value_globals():
  import pickle
  return {
      'ERR': LookupError('handed in'), 'UERR': UserError, 'E2': TwoArgError,
      'SER': pg.coding.SerializationError('not raised', ValueError('c')),
      'CERR': pg.coding.CodeError('1 // 0', ZeroDivisionError('z')),
      'PICKLED_NONE': pickle.dumps(None), 'PICKLED_ERROR': pickle.dumps(ValueError('boom')),
      'PICKLED_LIST': pickle.dumps([1, 2]),
  }


# (value class, name, program).  Every program ends in an expression statement or an
# assignment to a name: the value of that statement is the result.
VALUE_PROGRAMS = [
    ('plain-value', 'none', 'None'),
    ('plain-value', 'true', 'S.t'),
    ('plain-value', 'int', 'hitcount_ + 41'),
    ('plain-value', 'big-int', '2 ** 100'),
    ('plain-value', 'float-nan-inf', '[float("nan"), float("-inf"), 0.5]'),
    ('plain-value', 'complex', '1j * 2'),
    ('plain-value', 'str-unicode', '"é\\n\\x00"'),
    ('plain-value', 'nested-containers', '{"a": [1, (2, 3), {4}], (1, 2): frozenset([5]), None: range(3)}'),
    ('plain-value', 'singletons', '(..., NotImplemented)'),
    ('plain-value', 'assigned-by-the-last-statement', 'q = S.n + 1'),
    ('plain-value', 'printed-and-returned', 'print("out")\nprint("more", end="")\nq = 2\nq * 3'),
    ('falsy-value', 'zero', '0'),
    ('falsy-value', 'false', 'S.f0'),
    ('falsy-value', 'empty-str', '""'),
    ('falsy-value', 'empty-list', '[]'),
    ('falsy-value', 'empty-dict', '{}'),
    ('falsy-value', 'empty-tuple', '()'),
    ('falsy-value', 'empty-bytes', 'b""'),
    ('falsy-value', 'zero-float', '0.0'),
    ('bytes-value', 'bytes', 'b"\\x00\\xff abc"'),
    ('bytes-value', 'bytearray', 'bytearray(b"ab")'),
    ('bytes-value', 'bytes-that-are-the-pickle-of-None', 'PICKLED_NONE'),
    ('bytes-value', 'bytes-that-are-the-pickle-of-an-exception', 'PICKLED_ERROR'),
    ('bytes-value', 'bytes-that-are-the-pickle-of-a-list', 'q = PICKLED_LIST'),
    ('bytes-value', 'bytes-that-are-half-a-pickle', 'PICKLED_LIST[:5]'),
    ('class-or-function-value', 'builtin-class', 'int'),
    ('class-or-function-value', 'exception-class', 'ValueError'),
    ('class-or-function-value', 'base-exception-class', 'KeyboardInterrupt'),
    ('class-or-function-value', 'builtin-function', 'len'),
    ('class-or-function-value', 'class-of-a-module', 'UERR'),
    ('exception-instance', 'built-by-a-call', 'ValueError("just a value, never raised")'),
    ('exception-instance', 'no-arguments', 'KeyError()'),
    ('exception-instance', 'several-arguments', 'OSError(2, "No such file")'),
    ('exception-instance', 'kept-from-a-handled-error',
     'try:\n  int("not a number")\nexcept ValueError as err:\n  caught = err\nprint("handled")\ncaught'),
    ('exception-instance', 'looked-up-in-a-table', 'errors = dict(missing=KeyError("k"), bad=TypeError("t"))\nerrors["bad"]'),
    ('exception-instance', 'assigned-by-the-last-statement', 'e = RuntimeError("r", 2)'),
    ('exception-instance', 'handed-in-as-global-variable', 'ERR'),
    ('exception-instance', 'class-of-a-module', 'UERR("u", 1)'),
    ('exception-instance', 'TimeoutError', 'TimeoutError("Execution time exceed 60 seconds.")'),
    ('exception-instance', 'StopIteration', 'StopIteration(3)'),
    ('exception-instance', 'SyntaxError', 'SyntaxError("bad", ("f.py", 3, 1, "x ="))'),
    ('exception-instance', 'exception-group', 'ExceptionGroup("g", [ValueError(1), KeyError("k")])'),
    ('exception-instance', 'with-cause-and-context',
     'try:\n  try:\n    {}[0]\n  except KeyError as k:\n    raise ValueError("v") from k\nexcept ValueError as err:\n  kept = err\nkept'),
    ('exception-instance', 'pg-SerializationError', 'SER'),
    ('exception-instance', 'pg-CodeError', 'CERR'),
    ('base-exception-instance', 'KeyboardInterrupt', 'KeyboardInterrupt()'),
    ('base-exception-instance', 'SystemExit', 'SystemExit(3)'),
    ('base-exception-instance', 'GeneratorExit', 'q = GeneratorExit()'),
    ('container-of-exceptions', 'list', '[ValueError("x"), 1, KeyError()]'),
    ('container-of-exceptions', 'dict', '{"e": KeyError("k"), "cls": KeyError}'),
    ('container-of-exceptions', 'tuple-of-result-and-error', '(None, TypeError("t"))'),
    # values that cannot cross a process boundary: sandbox=None must fall back to this process
    ('value-that-cannot-be-pickled', 'lambda', '(lambda: 1)'),
    ('value-that-cannot-be-pickled', 'function-defined-in-program', 'def fn():\n  return 1\nfn'),
    ('value-that-cannot-be-pickled', 'class-defined-in-program', 'class Kls:\n  pass\nKls'),
    ('value-that-cannot-be-pickled', 'instance-of-program-class', 'class Kls:\n  pass\nk = Kls()'),
    ('value-that-cannot-be-pickled', 'exception-instance-of-program-class', 'class Err(Exception):\n  pass\nErr("m")'),
    ('value-that-cannot-be-pickled', 'generator', '(i for i in S.one)'),
    ('value-that-cannot-be-pickled', 'module', 'import math\nmath'),
    ('value-that-cannot-be-pickled', 'container-with-lambda', '[1, lambda: 2]'),
    ('value-that-cannot-be-unpickled', 'exception-with-two-argument-constructor', 'E2("a", "b")'),
    ('value-that-cannot-be-unpickled', 'container-of-such-an-exception', '[E2("a", "b")]'),
]

# Programs that RAISE: a code error with the cause and the line, whatever the class.
RAISING_PROGRAMS = [
    ('builtin-exception', 'ValueError', 'q = 1\nraise ValueError("v")'),
    ('builtin-exception', 'raised-instance-from-a-table', 'errors = dict(bad=TypeError("t"))\nq = 1\nraise errors["bad"]'),
    ('builtin-exception', 'handed-in-as-global-variable', 'q = 1\nq = 2\nraise ERR'),
    ('program-raises-TimeoutError', 'TimeoutError', 'q = 1\nraise TimeoutError("slow")'),
    ('builtin-exception', 'StopIteration', 'q = 1\nnext(iter(()))'),
    ('builtin-exception', 'exception-group', 'raise ExceptionGroup("g", [ValueError(1)])'),
    ('builtin-exception', 'with-cause', 'try:\n  {}[0]\nexcept KeyError as k:\n  raise ValueError("v") from k'),
    ('exception-class-of-a-module', 'user-error', 'q = 1\nraise UERR("u")'),
    ('pg-error-class', 'SerializationError', 'q = 1\nraise SER'),
    ('pg-error-class', 'CodeError', 'q = 1\nraise CERR'),
    ('exception-that-cannot-be-pickled', 'class-defined-in-program', 'class Err(Exception):\n  pass\nraise Err("m")'),
    ('exception-that-cannot-be-unpickled', 'two-argument-constructor', 'q = 1\nraise E2("a", "b")'),
]

# classes whose (separately reported) behaviour does not depend on the entry point: one id each
_ONE_ID_FOR_ALL_ENTRIES = ('exception-that-cannot-be-pickled', 'exception-that-cannot-be-unpickled',
                           'program-raises-TimeoutError')

VALUE_MODES = {'result-only': {}, 'outputs_intermediate': {'outputs_intermediate': True},
               'returns_stdout': {'returns_stdout': True}}
VALUE_ENTRIES = {        # name -> (sandbox argument, call)
    'run(sandbox=True)': (True, lambda src, kw: pg.coding.run(src, sandbox=True, **kw)),
    'run(sandbox=None)': (None, lambda src, kw: pg.coding.run(src, sandbox=None, **kw)),
    'run()': (None, lambda src, kw: pg.coding.run(src, **kw)),          # the default IS the sandbox
    'maybe_sandbox_call(evaluate, sandbox=True)': (
        True, lambda src, kw: pg.coding.maybe_sandbox_call(pg.coding.evaluate, src, sandbox=True, **kw)),
    'maybe_sandbox_call(evaluate, sandbox=None)': (
        None, lambda src, kw: pg.coding.maybe_sandbox_call(pg.coding.evaluate, src, sandbox=None, **kw)),
    'sandbox_call(evaluate)': (True, lambda src, kw: pg.coding.sandbox_call(pg.coding.evaluate, src, **kw)),
}
_VALUE_BY_NAME = {(c, n): s for c, n, s in VALUE_PROGRAMS + RAISING_PROGRAMS}


def vnorm(v, depth=0):
  """Typed structural form of a value: class and content, nothing that `==` blurs (True/1, b''/bytearray)."""
  if depth > 6:
    return ('deep',)
  if isinstance(v, BaseException):
    sub = tuple(vnorm(x, depth + 1) for x in v.exceptions) if isinstance(v, BaseExceptionGroup) else ()
    return ('exception-instance', type(v).__name__, tuple(vnorm(a, depth + 1) for a in v.args), sub)
  if isinstance(v, type):
    return ('class', v.__name__)
  if type(v).__name__ == 'module':
    return ('module', v.__name__)
  if type(v).__name__ == 'generator':
    return ('generator',)
  if callable(v) and hasattr(v, '__name__'):
    return ('callable', type(v).__name__, v.__name__)
  if isinstance(v, (list, tuple)):
    return (type(v).__name__,) + tuple(vnorm(x, depth + 1) for x in v)
  if isinstance(v, dict):
    return ('dict',) + tuple((vnorm(k, depth + 1), vnorm(x, depth + 1)) for k, x in v.items())
  if isinstance(v, (set, frozenset)):
    return (type(v).__name__,) + tuple(sorted(repr(vnorm(x, depth + 1)) for x in v))
  if isinstance(v, (bool, int, float, complex, str, bytes, bytearray, range, type(None), type(...), type(NotImplemented))):
    return (type(v).__name__, repr(v))
  return ('object', type(v).__name__)


def _round_trips(v):
  import pickle
  try:
    pickle.loads(pickle.dumps(v))
    return True
  except Exception:  # pylint: disable=broad-except
    return False


def _exec_values(src, g):
  """Plain exec of the text: (outcome, raised exception or None, stdout, new variables, result), raw objects."""
  before = dict(g)
  out = io.StringIO()
  result, err = None, None
  tree = ast.parse(src)
  last = tree.body[-1]
  try:
    with contextlib.redirect_stdout(out):
      if isinstance(last, ast.Expr):
        tree.body.pop()
        exec(compile(tree, '<ref>', 'exec'), g)  # pylint: disable=exec-used
        result = eval(compile(ast.Expression(last.value), '<ref>', 'eval'), g)  # pylint: disable=eval-used
      else:
        exec(compile(tree, '<ref>', 'exec'), g)  # pylint: disable=exec-used
        if isinstance(last, ast.Assign):
          result = g[last.targets[0].id]
  except Exception as e:  # pylint: disable=broad-except
    err = e
  new = {k: v for k, v in g.items() if k != '__builtins__' and (k not in before or v is not before[k])}
  return err, out.getvalue(), new, result


def value_case(cls, name, entry, mode, grant='exactly-needed', timeout=60):
  """One program of VALUE_PROGRAMS / RAISING_PROGRAMS through one sandboxed entry point.

  None when the call hands back what plain exec of the text yields, else text."""
  import multiprocessing
  src = 'S.hit\n' + _VALUE_BY_NAME[(cls, name)]
  hard, soft = classify(src)
  need = perm_of(hard | soft)
  counter = multiprocessing.Value('i', 0)
  sandbox, call = VALUE_ENTRIES[entry]

  def fresh():
    g = {'S': SharedSentinel(counter), 'hitcount_': 0}
    g.update(_value_globals())
    return g
  err, stdout, new, result = _exec_values(src, fresh())
  kw = dict(VALUE_MODES[mode], global_vars=fresh(), timeout=timeout)
  counter.value = 0
  if grant == 'one-needed-flag-missing':
    kw['permission'] = need & ~sorted(hard, key=FLAGS.index)[0]
  elif grant == 'exactly-needed':
    kw['permission'] = need
  elif grant == 'all':
    kw['permission'] = ALL
  else:
    raise ValueError(grant)
  outcome, got, cause = 'ok', None, None
  try:
    with _child_processes_allowed():
      got = call(src, kw)
  except pg.coding.CodeError as e:
    outcome, cause = 'CodeError', e
  except BaseException as e:  # pylint: disable=broad-except
    outcome, cause = 'raised-' + type(e).__name__, e
  touched = counter.value
  if grant == 'one-needed-flag-missing':
    if outcome != 'CodeError' or not isinstance(cause.cause, SyntaxError) or touched:
      return f'not refused: outcome {outcome}({cause!r:.200}), {touched} accesses of S happened'
    return None
  if err is not None:
    lns = {fr.lineno for fr in traceback.extract_tb(err.__traceback__) if fr.filename == '<ref>'}
    if sandbox is True and not _round_trips(err):
      # the exception object itself cannot cross the process boundary: sandbox=True may say so, or
      # report a code error at the right line with a stand-in cause; it may not hang or leak another error
      if outcome == 'raised-SerializationError' or outcome == 'CodeError' and cause.lineno in lns:
        return None
    if outcome != 'CodeError':
      return (f'exec raises {type(err).__name__}({str(err)!r:.80}); the call does not report a code error: '
              f'{outcome}({cause!r:.200})')
    if vnorm(cause.cause) != vnorm(err):
      return f'exec raises {err!r:.100}, CodeError.cause is {cause.cause!r:.100}'
    if cause.lineno not in lns:
      return f'{type(err).__name__} raised at line {sorted(lns)}, CodeError.lineno = {cause.lineno}'
    if cause.code != src:
      return f'CodeError.code is not the program text: {cause.code!r:.100}'
    return None
  if mode == 'returns_stdout':
    want = stdout
  elif mode == 'outputs_intermediate':
    want = dict(new, __result__=result, __stdout__=stdout)
  else:
    want = result
  if outcome == 'raised-SerializationError' and sandbox is True and not _round_trips(want):
    return None               # sandbox=True and the output cannot cross the process boundary
  if outcome != 'ok':
    if isinstance(want, BaseException) and vnorm(cause) == vnorm(want):
      return (f'the program completes and its result is the value {want!r:.80}; that value was RAISED out of '
              f'the call ({outcome}) instead of being returned')
    return f'exec succeeds (result {result!r:.80}), the call: {outcome}({cause!r:.200})'
  if not touched:
    return 'the call reports success but the program never ran'
  if mode == 'outputs_intermediate' and isinstance(got, dict):
    got = {k: got[k] for k in sorted(got, key=lambda k: list(want).index(k) if k in want else 99)}
  if vnorm(got) != vnorm(want):
    return f'exec yields {want!r:.150}, the call returned {got!r:.150}'
  return None


def drv_sandbox_values(tier, seed):
  quick = tier == 'quick'
  combos = list(itertools.product(VALUE_ENTRIES, VALUE_MODES))
  rec = Recorder(
      'C19', 'what comes back from the sandbox: every kind of result value through every entry point and '
             'output mode equals exec; only raised errors are errors',
      scope=(f'{len(VALUE_PROGRAMS)} programs by kind of result value (plain, falsy, bytes incl. bytes that are '
             'themselves pickles, classes / functions, exception INSTANCES built / caught / looked up / handed '
             'in / of builtin, module and pyglove classes / groups / with cause, BaseException instances, '
             'containers of exceptions, values that cannot be pickled or cannot be unpickled) + '
             f'{len(RAISING_PROGRAMS)} programs that raise (same classes) x {len(VALUE_ENTRIES)} sandboxed entry '
             f'points ({", ".join(VALUE_ENTRIES)}) x output mode (result only, outputs_intermediate, '
             'returns_stdout) x permission {exactly needed, ALL}'
             + (': result-only through every entry point, 3 of the 12 other combinations rotating' if quick else '')
             + '; typed structural comparison with exec (class and args of exceptions, bool/int, bytes/bytearray); '
             'sandbox=True may answer SerializationError only when the output does not survive pickling, '
             'sandbox=None must then fall back; a raised error is a code error with exec\'s cause (class, args) and '
             'line (sandbox=True and a cause that does not survive pickling: SerializationError or a code error at '
             'the right line; never a hang - one program, 8 s limit - or another bare error); one needed flag '
             'missing -> refused in every mode, nothing ran'))
  hung = [0]

  def emit(cid, cls, name, entry, mode, grant, timeout=60):
    if hung[0] >= 3:
      return
    import time
    t0 = time.time()
    try:
      msg = value_case(cls, name, entry, mode, grant, timeout)
    except Exception as e:  # pylint: disable=broad-except
      msg = f'unexpected {type(e).__name__}: {e}'
    if msg and timeout >= 60 and time.time() - t0 >= timeout:
      hung[0] += 1                  # a sandbox that hangs: reported three times, do not wait for the rest
    rec.case(cid, (cls, name, entry, mode, grant), ok=msg is None,
             message=f'{entry}, {mode}, permission {grant}: {msg}; code {"S.hit" + chr(10) + _VALUE_BY_NAME[(cls, name)]!r}',
             witness=('import bounded.c19_permission as m\n'
                      f'msg = m.value_case({cls!r}, {name!r}, {entry!r}, {mode!r}, {grant!r}, {timeout!r})\n'
                      'assert msg is None, msg\n'))

  for i, (cls, name, body) in enumerate(VALUE_PROGRAMS):
    for j, (entry, mode) in enumerate(combos):
      if quick and mode != 'result-only' and (i + j + seed) % 4:
        continue
      sandbox = VALUE_ENTRIES[entry][0]
      grant = ('exactly-needed', 'all')[(i + j + seed) % 2]
      for gr in ([grant] if quick else ['exactly-needed', 'all']):
        emit(f'sandbox={sandbox}/result-value/{cls}/{mode}', cls, name, entry, mode, gr)
    if classify('S.hit\n' + body)[0]:
      entry, mode = combos[(i + seed) % len(combos)]
      emit(f'sandbox={VALUE_ENTRIES[entry][0]}/refuse/{mode}', cls, name, entry, mode, 'one-needed-flag-missing')
  for i, (cls, name, body) in enumerate(RAISING_PROGRAMS):
    slow = cls == 'exception-that-cannot-be-pickled'    # known to end in the time limit: one short wait
    for j, (entry, mode) in enumerate(combos):
      if slow and (j != (seed % len(combos)) if quick else mode != 'result-only'):
        continue
      if quick and not slow and (i + j + seed) % 3:
        continue
      sandbox = VALUE_ENTRIES[entry][0]
      emit(f'sandbox/raised-error/{cls}' if cls in _ONE_ID_FOR_ALL_ENTRIES
           else f'sandbox={sandbox}/raised-error/{cls}', cls, name, entry, mode,
           ('exactly-needed', 'all')[(i + j + seed) % 2], 8 if slow else 60)
  return rec.result()


DRIVERS = [drv_refusal_every_position, drv_refusal_expression_forms, drv_refusal_deep_nesting,
           drv_nested_scopes, drv_random_programs, drv_errors_and_edge_sources, drv_error_position,
           drv_sandboxed_run, drv_sandbox_values]
EXTRA_DRIVERS = [drv_refusal_implicit_forms]     # interpretation dependent, see docstring


def replay(rec):
  """Re-executes rec['witness']; returns (ok, message)."""
  try:
    exec(rec['witness'], {})  # pylint: disable=exec-used
    return True, 'witness passes'
  except BaseException as e:  # pylint: disable=broad-except
    return False, f'{type(e).__name__}: {e}'[:500]
