"""C12 -- DNA views are lossless and aligned with the spec (bounded drivers).

Property (from /verif/properties.jsonl): for every spec and every DNA valid
for it, each exported view (flat numbers, nested numbers, dictionaries under
every key/value style, JSON compact and verbose) reconstructs, together with
the spec, a DNA equal to the original; lookups by decision id, name or decision
point return the decision actually made there.  Every DNA handed out by the
library (iteration, random generation, parsing, cloning, search operators) has
each node bound to the decision point of its own position, so that its views
equal those of a DNA rebuilt from its raw numbers.

Oracle.  Specs are described by the model of c11_enumeration (plus names and
literal values); valid DNAs are the brute-force members of the model.  For a
member tree we know, from the model alone, which decision point is answered by
which node (`records`): the real DecisionPoint objects are reached by
navigating the public structure of the spec (`elements`, `candidates`,
`subchoice(i)`) in parallel with the model, never through ids or the
library's own lookup tables.  The expected dictionary views are assembled from
these records following the documented meaning of the to_dict options.

Drivers: numbers/JSON views, dictionary views and lookups, alignment of DNAs
handed out by the library, literal values of every form in the dictionary
views, long literals and free-text custom values (drv_literal_forms),
specifications derived from hyper values, whose literal texts the library makes
up (drv_hyper_specs), search operators over the matrix of multi-choice
kinds with mutation aimed at every decision point (drv_operator_matrix), and
the history of the DNA object before a successful use_spec: refused bindings
that were repaired, edits of bound DNAs, other specs first, children that are
already bound (drv_binding_history), and the matrix of public entry points
that hand out DNAs x the spellings of their optional arguments (left out, by
keyword, by position) x root kinds and parts of a spec (drv_entry_points).
Time budgets are CPU time, so a loaded machine does not change which cases
are run.
"""
import copy
import itertools
import json
import random as _random
import time

import pyglove as pg
from pyvc.bounded import Recorder, rng

from bounded import c11_enumeration as _c11

from bounded.c11_enumeration import (
    C, CH, CU, FL, FLAGS, LOCS, ONE, SP, S2, S22, S3, SF, SM, SN, accepts,
    build, corruptions, count_members, depth_of, dsrc, flat, gen_dps,
    handpicked_roots, has_kind, is_finite, leaf, members, mk, node_pairs,
    occurrences, plan_of, plan_src, shape, src, tkey, why_not_dp, wit)

PROP = 'C12'


class XS(str):
  """A str written as a short expression (`'a' * 130`): its repr is that
  expression (unbracketed: only used between commas, brackets and `==`), so specification sources, keys and witnesses that mention a long
  literal stay far below the size limit of a recorded witness.  The library
  never sees this class: specifications are built by evaluating the source."""

  def __new__(cls, expr):
    self = super().__new__(cls, eval(expr))  # pylint: disable=eval-used
    self.expr = expr
    return self

  def __repr__(self):
    return self.expr


class XI(int):
  """An int written as a short expression (`10 ** 130`), see XS."""

  def __new__(cls, expr):
    self = super().__new__(cls, eval(expr))  # pylint: disable=eval-used
    self.expr = expr
    return self

  def __repr__(self):
    return self.expr

  __str__ = int.__repr__
  __format__ = int.__format__


KEY_TYPES = ['id', 'name_or_id', 'dna_spec']
VALUE_TYPES = ['value', 'dna', 'choice', 'literal', 'choice_and_literal']
MULTI_KEYS = ['subchoice', 'parent', 'both']
COMBOS = [(kt, vt, mk_, inc) for kt in KEY_TYPES for vt in VALUE_TYPES
          for mk_ in MULTI_KEYS for inc in (False, True)]


# =============================================================================
# Spec family (names, literal values, conditional, floats, custom)
# =============================================================================


def named_specs():
  x3 = leaf(3, name='x', lits=('a', 'b', 'c'))
  return [
      # flat, named, str/int/float literals
      SP(x3, leaf(3, 2, name='m', lits=(10, 20, 30)), FL(0.0, 1.0, 'f')),
      SP(leaf(2, lits=(0.5, 1.5)), leaf(2, 2, False, True, lits=('p', 'q (r)'))),
      # conditional with names inside the candidates
      SP(ONE([C, SP(leaf(2, name='y', lits=('p', 'q'))),
              SP(CH(2, [C, C, C], True, True, name='z'))], name='x')),
      SP(ONE([SP(FL(0.0, 1.0, 'f1'), CU('c1')), C], lits=('ff', 'none')),
         leaf(2, name='t')),
      # a named point below a multi-choice: the name repeats per subchoice
      SP(CH(2, [SP(ONE([C, C], name='in')), C, C], False, False, name='out')),
      SP(CH(2, [SP(FL(0.0, 1.0, 'fin'), CU('cin')), C], False, False)),
      # multi-choice whose candidates are conditional, with literals
      SP(CH(2, [S2, C, SM], True, False, lits=('s2', 'c', 'sm'))),
      SP(CH(2, [SP(leaf(2), FL(-1.0, 1.0)), C], False, True), CU('cu')),
      # depth 3 chains of single choices (nested-number form)
      SP(ONE([SP(ONE([SP(ONE([C, C, C], name='c'))], name='b'))], name='a')),
      SP(ONE([SP(ONE([C, S22])), C])),
      SP(ONE([C, SP(ONE([SM, C]))]), leaf(2)),
      # bare decision points as root
      CH(2, [S2, C, S3], True, True, name='r'),
      leaf(3, name='solo', lits=('u', 'v', 'w')),
      FL(0.5, 1.5, 'ff'),
      # float decisions whose text needs 17 digits / an exponent
      SP(FL(0.1 + 0.2, 4.0 / 3.0, 'g'), FL(1e-07, 3e-07), leaf(2)),
      SP(ONE([SP(FL(-1e+20, 1.5e+20)), C]), FL(-2.0 / 3.0, 2.5e-300)),
      # names and literal values longer than any display width
      SP(leaf(3, name=XS("'n' * 130"),
              lits=(XS("'u' * 121"), 'v', XS("'Block(' + 'w, ' * 60 + ')'"))),
         CH(2, [C, SP(FL(0.0, 1.0, XS("'f' * 200"))), C], False, False,
            name=XS("'m' * 121"))),
  ]


def view_specs(tier, r):
  specs = named_specs() + [m for m in handpicked_roots()]
  # seeded random specs of the exhaustive C11 family (weight <= 4)
  pool = [m for m in gen_dps(4, 3, 3, 3) if depth_of(m) >= 2
          and count_members(m) <= 400]
  specs += [SP(m) for m in r.sample(pool, 6 if tier == 'quick' else 60)]
  return specs


def sample_members(m, cap, r):
  mem = members(m)
  if len(mem) <= cap:
    return mem
  return [mem[0], mem[-1]] + r.sample(mem[1:-1], cap - 2)


def duplicate_literals(m):
  """True if some Choices of the model shows one literal for two candidates."""
  if m[0] == 'space':
    return any(duplicate_literals(e) for e in m[1])
  if m[0] == 'choices':
    if m[6] is not None and len(set(m[6])) < len(m[6]):
      return True
    return any(duplicate_literals(c) for c in m[2])
  return False


def int_literals(m):
  """True if some Choices of the model has an int literal value."""
  if m[0] == 'space':
    return any(int_literals(e) for e in m[1])
  if m[0] == 'choices':
    if m[6] is not None and any(
        isinstance(v, int) and not isinstance(v, bool) for v in m[6]):
      return True
    return any(int_literals(c) for c in m[2])
  return False


# =============================================================================
# Records: which node answers which decision point (from the model)
# =============================================================================


class Rec:
  """One decision point of the spec with the decision made in a given DNA."""

  def __init__(self, m, dp, parent, index, node, real, eid=None):
    self.eid = eid          # expected id text (from locations/conditions)
    self.m = m              # model of the Choices/Float/Custom
    self.dp = dp            # real DecisionPoint (subchoice spec for k>1)
    self.parent = parent    # real multi-choice spec or None
    self.index = index      # subchoice index or None
    self.node = node        # model tree of the decision (None if inactive)
    self.real = real        # real pg.DNA node (None if inactive / unknown)

  @property
  def active(self):
    return self.node is not None

  @property
  def name(self):
    return self.m[5] if self.m[0] == 'choices' else (
        self.m[3] if self.m[0] == 'float' else self.m[1])


def render_id(parts):
  """'a[=1/3].m[0]': str keys joined by '.', other keys in brackets."""
  out = ''
  for kind, text in parts:
    if kind == 'k':
      out += ('.' if out else '') + text
    else:
      out += f'[{text}]'
  return out


def records(m, spec, tree, dna=None):
  """Decision records of `tree` (model) / `dna` (real, optional) in order."""
  out = []
  containers = []    # (real container node, expected spec object)

  def walk_dp(mm, obj, node, real, parts):
    """node/real: the single node of this decision point (None: inactive)."""
    if mm[0] != 'choices':
      out.append(Rec(mm, obj, None, None, node, real, render_id(parts)))
      return
    k, cands = mm[1], mm[2]
    if k == 1:
      out.append(Rec(mm, obj, None, None, node, real, render_id(parts)))
      for j, cm in enumerate(cands):
        act = node is not None and node[0] == j
        walk_children(cm, obj.candidates[j],
                      node[1] if act else None,
                      list(real.children) if act and real is not None else None,
                      parts + [('c', f'={j}/{len(cands)}')])
      return
    if real is not None and node is not None:
      containers.append((real, obj))
    walk_multi(mm, obj, node[1] if node is not None else None,
               list(real.children) if real is not None and node is not None
               else None, parts)

  def walk_multi(mm, obj, children, reals, parts):
    k, cands = mm[1], mm[2]
    for i in range(k):
      sub = obj.subchoice(i)
      child = children[i] if children is not None else None
      real = reals[i] if reals is not None else None
      sparts = parts + [('i', str(i))]
      r_ = Rec(mm, sub, obj, i, child, real, render_id(sparts))
      r_.parent_eid = render_id(parts)
      out.append(r_)
      for j, cm in enumerate(cands):
        act = child is not None and child[0] == j
        walk_children(cm, sub.candidates[j], child[1] if act else None,
                      list(real.children) if act and real is not None else None,
                      sparts + [('c', f'={j}/{len(cands)}')])

  def walk_children(sm, sobj, children, reals, parts):
    elems = sm[1]
    if not elems:
      return
    if len(elems) == 1:
      e = elems[0]
      eobj = sobj.elements[0]
      eparts = parts + [('k', LOCS[0])]
      if e[0] == 'choices' and e[1] > 1:
        walk_multi(e, eobj, children, reals, eparts)
      else:
        walk_dp(e, eobj, children[0] if children is not None else None,
                reals[0] if reals is not None else None, eparts)
      return
    for i, e in enumerate(elems):
      walk_dp(e, sobj.elements[i],
              children[i] if children is not None else None,
              reals[i] if reals is not None else None,
              parts + [('k', LOCS[i])])

  if m[0] != 'space':
    walk_dp(m, spec, tree, dna, [])
  elif len(m[1]) == 1:
    walk_dp(m[1][0], spec.elements[0], tree, dna, [('k', LOCS[0])])
  elif m[1]:
    if dna is not None:
      containers.append((dna, spec))
    walk_children(m, spec, tree[1], list(dna.children) if dna is not None
                  else None, [])
  return out, containers


def fmt_value(rec, value_type):
  """Expected dict value of an active record under value_type."""
  m, node = rec.m, rec.node
  if value_type == 'dna':
    return ('dna', tkey(node))
  v = node[0]
  if m[0] != 'choices' or value_type == 'value':
    return v
  n = len(m[2])
  lits = m[6]
  if value_type == 'choice' or lits is None:
    return f'{v}/{n}'
  if value_type == 'literal':
    return lits[v]
  # documented form: '<index>/<num_candidates> (<literal>)'
  if isinstance(lits[v], (XS, XI)):
    return XS(f"'{v}/{n} (%s)' % ({lits[v]!r})")
  return f'{v}/{n} ({lits[v]})'


def norm_value(v):
  """Normalises a dict value returned by the library for comparison."""
  if isinstance(v, pg.DNA):
    return ('dna', tkey(shape(v)))
  if isinstance(v, list):
    return [norm_value(x) for x in v]
  return v


def name_clash(recs):
  """True if a name is shared by points other than the subchoices of one
  multi-choice (then name keyed views aggregate; content not asserted)."""
  owners = {}
  for rec in recs:
    if rec.name is None:
      continue
    owner = id(rec.parent) if rec.parent is not None else id(rec.dp)
    owners.setdefault(rec.name, set()).add(owner)
  return any(len(v) > 1 for v in owners.values())


def repeated_name_members(m, spec, mem):
  """Members in which one name is answered more than once, differently (a
  named point inside a candidate that several sub-choices picked)."""
  out = []
  for t in mem:
    rs, _ = records(m, spec, t)
    seen = {}
    for rec in rs:
      if rec.active and rec.name is not None and rec.parent is None:
        seen.setdefault(rec.name, set()).add(tkey(rec.node))
    if any(len(v) > 1 for v in seen.values()):
      out.append(t)
  return out


NAME_COMBOS = [c for c in COMBOS if c[0] == 'name_or_id'
               and c[1] in ('value', 'literal')]


def expected_dict(recs, key_type, value_type, multi_key, include_inactive):
  """Expected to_dict() result: {key: normalised value}."""
  def key(dp, name):
    if key_type == 'dna_spec':
      return dp
    if key_type == 'name_or_id' and name is not None:
      return name
    return dp.id.path

  out = {}
  for rec in recs:
    if not rec.active and not include_inactive:
      continue
    val = fmt_value(rec, value_type) if rec.active else None
    if rec.parent is None:
      out[key(rec.dp, rec.name)] = val
      continue
    named = key_type == 'name_or_id' and rec.name is not None
    # the k subchoices of one multi-choice
    if multi_key in ('parent', 'both') or named:
      if rec.index == 0:
        group = [x for x in recs if x.parent is rec.parent]
        if group[0].active:
          out[key(rec.parent, rec.name)] = [
              fmt_value(x, value_type) for x in group]
        elif include_inactive:
          out[key(rec.parent, rec.name)] = None
    if multi_key in ('subchoice', 'both') and not named:
      out[key(rec.dp, None)] = val
  return out


# =============================================================================
# Checks
# =============================================================================


def chain_depth3(node):
  """True if some valued node has a single child that itself has children."""
  if node[0] is not None and len(node[1]) == 1 and node[1][0][1]:
    return True
  return any(chain_depth3(c) for c in node[1])


def bind_src(t):
  return f'{dsrc(t)}.use_spec(spec)'


def same(a, b):
  return tkey(a) == tkey(b)


def check_numbers(rec, m, spec, t, d):
  key = (src(m), t)
  base = f'd = {bind_src(t)}\n'
  # flat
  want = flat(t)
  got = d.to_numbers()
  rec.case('to_numbers-flat/content', key,
           got == want and [type(x) for x in got] == [type(x) for x in want],
           f'to_numbers()={got!r}, want {want!r}',
           wit(m, base + f'assert d.to_numbers() == {want!r}, d.to_numbers()'))
  try:
    back = pg.DNA.from_numbers(list(got), spec)
    ok = same(shape(back), t) and back == d
    msg = f'from_numbers({got!r}) = {shape(back)!r}, want {t!r}'
  except Exception as e:  # pylint: disable=broad-except
    ok, msg = False, f'from_numbers({got!r}) raised {type(e).__name__}: {e}'
    back = None
  rec.case('to_numbers-flat/roundtrip', key, ok, msg, wit(
      m, base + 'assert D.from_numbers(d.to_numbers(), spec) == d'))
  if back is not None and ok:
    # a constant root space is its own input class (`spec=` is not honoured)
    check_alignment(rec, m, spec, t, back, 'from_numbers' + (
        '[constant-root-space]' if m == C else ''), base +
                    'x = D.from_numbers(d.to_numbers(), spec)\n')
  # nested
  cls = 'chain-depth>=3' if chain_depth3(t) else 'depth<3'
  try:
    nested = d.to_numbers(flatten=False)
    back = pg.DNA(nested, spec=spec)
    ok = same(shape(back), t)
    msg = (f'to_numbers(flatten=False)={nested!r} rebuilds {shape(back)!r}, '
           f'want {t!r}')
  except Exception as e:  # pylint: disable=broad-except
    ok, msg = False, (f'to_numbers(flatten=False) of {t!r} does not rebuild: '
                      f'{type(e).__name__}: {e}')[:400]
  rec.case(f'to_numbers-nested/roundtrip/{cls}', key, ok, msg, wit(
      m, base + 'assert D(d.to_numbers(flatten=False), spec=spec) == d'))


def check_json(rec, m, spec, t, d, strings=True):
  key = (src(m), t)
  base = f'd = {bind_src(t)}\n'
  forms = [
      ('compact', lambda: pg.from_json(d.to_json()),
       'pg.from_json(d.to_json())'),
      ('verbose', lambda: pg.from_json(d.to_json(compact=False)),
       'pg.from_json(d.to_json(compact=False))'),
      ('compact-str', lambda: pg.from_json(json.loads(json.dumps(d.to_json()))),
       'pg.from_json(json.loads(json.dumps(d.to_json())))'),
      ('verbose-str', lambda: pg.from_json_str(d.to_json_str(compact=False)),
       'pg.from_json_str(d.to_json_str(compact=False))'),
      ('compact-str-api', lambda: pg.from_json_str(d.to_json_str()),
       'pg.from_json_str(d.to_json_str())'),
  ]
  for name, fn, text in forms:
    if not strings and name.endswith(('-str', '-str-api')):
      continue
    try:
      back = fn()
      ok = isinstance(back, pg.DNA) and same(shape(back), t)
      msg = f'{text} = {shape(back) if isinstance(back, pg.DNA) else back!r}, want {t!r}'
      if ok:
        back.use_spec(spec)
        ok = back == d
    except Exception as e:  # pylint: disable=broad-except
      ok, msg, back = False, f'{text} raised {type(e).__name__}: {e}'[:400], None
    rec.case(f'json/{name}/roundtrip', key, ok, msg, wit(
        m, 'import json\n' + base + f'x = {text}\nassert x == d, x\n'
        'x.use_spec(spec)'))
    if ok and name in ('compact', 'verbose'):
      check_alignment(rec, m, spec, t, back, f'from_json-{name}+use_spec',
                      'import json\n' + base + f'x = {text}.use_spec(spec)\n')


def check_alignment(rec, m, spec, t, x, source, make_x, wm=None):
  """Every node of x (tree t) is bound to the decision point of its position
  and its dict views are those of a DNA rebuilt from its numbers.

  wm: model the witness is built from when `spec` is a part of a larger
  specification (make_x then starts by re-assigning `spec` to that part)."""
  key = (src(m), t) if wm is None else (src(wm), make_x.split('\n')[0], t)
  recs_c = records(m, spec, t, x)
  rs, containers = recs_c
  bad = None
  for r_ in rs:
    if r_.real is not None and r_.real.spec is not r_.dp:
      sp_ = r_.real.spec
      bad = (f'node {shape(r_.real)!r} answering {r_.dp.id.path!r} is bound to '
             + ('no spec' if sp_ is None else f'{type(sp_).__name__} {sp_.id.path!r}'))
      break
  if bad is None:
    for node, want in containers:
      if node.spec is not want:
        bad = (f'container node {shape(node)!r} is bound to '
               f'{type(node.spec).__name__}, want the {type(want).__name__}')
        break
  rebuilt = f'D.from_numbers({flat(t)!r}, spec)'
  # views of x versus the views expected for its raw numbers
  try:
    got = {k: norm_value(v) for k, v in x.to_dict('dna_spec', 'value', 'both',
                                                  True).items()}
    want = expected_dict(rs, 'dna_spec', 'value', 'both', True)
    ok = got == want
    msg = ('' if ok else 'to_dict(dna_spec,value,both,inactive) differs from '
           f'the decisions of its numbers {flat(t)!r}: ' + _dict_diff(got, want))
  except Exception as e:  # pylint: disable=broad-except
    ok, msg = False, f'to_dict raised {type(e).__name__}: {e}'[:300]
  rec.case(f'aligned/{source}', key, bad is None and ok,
           '; '.join(x_ for x_ in (bad, msg) if x_), wit(
               wm or m, make_x + f'y = {rebuilt}\n'
               'def specs(n): return [n.spec] + [s for c in n.children for s in specs(c)]\n'
               'assert all(a is b for a, b in zip(specs(x), specs(y))), '
               '[(a and a.id.path, b and b.id.path) for a, b in '
               'zip(specs(x), specs(y)) if a is not b]\n'
               'assert x.to_dict() == y.to_dict(), (x.to_dict(), y.to_dict())'))
  return bad is None and ok


def _dict_diff(got, want):
  def kk(k):
    return k.id.path if isinstance(k, pg.geno.DNASpec) else k
  out = []
  for k in set(got) | set(want):
    g, w = got.get(k, '<absent>'), want.get(k, '<absent>')
    if g != w:
      out.append(f'{kk(k)!r}: got {g!r}, want {w!r}')
  return '; '.join(sorted(out)[:4])


def check_dict_content(rec, m, spec, t, d, rs, combos, tag=''):
  key0 = (src(m), t)
  clash = name_clash(rs)
  for kt, vt, mkk, inc in combos:
    if kt == 'name_or_id' and clash:
      continue
    call = (f'd.to_dict(key_type={kt!r}, value_type={vt!r}, '
            f'multi_choice_key={mkk!r}, include_inactive_decisions={inc})')
    try:
      got = {k: norm_value(v) for k, v in
             d.to_dict(kt, vt, mkk, inc).items()}
      want = expected_dict(rs, kt, vt, mkk, inc)
      ok = got == want
      msg = '' if ok else f'{call}: ' + _dict_diff(got, want)
    except Exception as e:  # pylint: disable=broad-except
      ok, msg, want = False, f'{call} raised {type(e).__name__}: {e}'[:300], {}
    # witness: printable keys only
    wtxt = ''
    if kt != 'dna_spec' and vt != 'dna':
      wtxt = f'assert {call} == {want!r}, {call}'
    else:
      want2 = {(k.id.path if not isinstance(k, str) else k): v
               for k, v in want.items()}
      wtxt = ('def nv(v):\n'
              '  if isinstance(v, D): return ("dna", tk(v))\n'
              '  return [nv(x) for x in v] if isinstance(v, list) else v\n'
              'def tk(n): return (type(n.value).__name__, n.value, '
              'tuple(tk(c) for c in n.children))\n'
              f'got = {{(k if isinstance(k, str) else k.id.path): nv(v) '
              f'for k, v in {call}.items()}}\n'
              f'assert got == {want2!r}, got')
    rec.case(f'to_dict/content/value={vt}{tag}' if tag else
             f'to_dict/content/key={kt}/value={vt}/multi={mkk}',
             (key0, kt, mkk, inc), ok, msg,
             wit(m, f'd = {bind_src(t)}\n' + wtxt))


DUP_ID = 'from_dict/roundtrip/value=literal/duplicate-literal-values'


def check_dict_roundtrip(rec, m, spec, t, d, combos, tag=''):
  key0 = (src(m), t)
  ints = int_literals(m)
  dup = duplicate_literals(m)
  for kt, vt, mkk, inc in combos:
    kw = ', use_ints_as_literals=True' if (vt == 'literal' and ints) else ''
    call = (f'd.to_dict(key_type={kt!r}, value_type={vt!r}, '
            f'multi_choice_key={mkk!r}, include_inactive_decisions={inc})')
    try:
      dd = d.to_dict(kt, vt, mkk, inc)
      back = pg.DNA.from_dict(dict(dd), spec,
                              use_ints_as_literals=(vt == 'literal' and ints))
      ok = same(shape(back), t) and back == d
      msg = f'from_dict({call}) = {shape(back)!r}, want {t!r}'
    except Exception as e:  # pylint: disable=broad-except
      ok, back = False, None
      msg = f'from_dict({call}) raised {type(e).__name__}: {e}'[:400]
    rec.case(DUP_ID if dup and vt == 'literal' else
             f'from_dict/roundtrip/value={vt}{tag}' if tag else
             f'from_dict/roundtrip/key={kt}/value={vt}/multi={mkk}',
             (key0, kt, mkk, inc), ok, msg, wit(
                 m, f'd = {bind_src(t)}\n'
                 f'x = D.from_dict(dict({call}), spec{kw})\nassert x == d, x'))
    if ok and vt in ('value', 'dna'):
      check_alignment(rec, m, spec, t, back, f'from_dict[{vt}]',
                      f'd = {bind_src(t)}\n'
                      f'x = D.from_dict(dict({call}), spec{kw})\n')


def check_lookups(rec, m, spec, t, d, rs, base=None, tag='lookup',
                  key_extra=None, spec_side=True):
  """base: witness text that builds `d` (default: a fresh bound DNA of t);
  tag: prefix of the case ids; spec_side: also check the id side of the spec."""
  key = (src(m), t) if key_extra is None else (src(m), t, key_extra)
  if base is None:
    base = f'd = {bind_src(t)}\n'
  clash = name_clash(rs)

  def want_of(r_):
    return ('dna', tkey(r_.node)) if r_.active else None

  def path_to(r_):
    return r_.dp.id.path

  for r_ in rs:
    want = want_of(r_)
    wsrc = 'None' if not r_.active else dsrc(r_.node)
    probes = [('decision-point', lambda: d[r_.dp],
               f'd[spec[{path_to(r_)!r}]]' if r_.parent is None else
               f'd[spec[{r_.parent.id.path!r}][{r_.index}]]'),
              ('id-str', lambda: d[r_.dp.id.path], f'd[{path_to(r_)!r}]'),
              ('id-keypath', lambda: d[r_.dp.id],
               f'd[pg.KeyPath.parse({path_to(r_)!r})]'),
              ('get-id', lambda: d.get(r_.dp.id.path, 'dflt'),
               f'd.get({path_to(r_)!r}, "dflt")')]
    if r_.name is not None and r_.parent is None and not clash:
      probes.append(('name', lambda: d[r_.name], f'd[{r_.name!r}]'))
    for pname, fn, text in probes:
      try:
        got = norm_value(fn())
        ok = got == want
        msg = f'{text} = {got!r}, want {want!r}'
      except Exception as e:  # pylint: disable=broad-except
        ok, msg = False, f'{text} raised {type(e).__name__}: {e}'[:300]
      cls = ('subchoice' if r_.parent is not None else r_.m[0]) + (
          '' if r_.active else '-inactive')
      if pname == 'name' and not r_.active:
        cls = 'inactive'
      rec.case(f'{tag}/{pname}/{cls}', (key, path_to(r_)), ok, msg, wit(
          m, base + f'got = {text}\nassert got == {wsrc}, got'))
    # spec side: the id resolves to this very decision point
    if r_.parent is None and spec_side:
      try:
        ok = spec[r_.dp.id.path] is r_.dp and spec.get(r_.dp.id) is r_.dp
      except Exception:  # pylint: disable=broad-except
        ok = False
      rec.case('lookup/spec-by-id', (src(m), path_to(r_)), ok,
               f'spec[{path_to(r_)!r}] is not the decision point at that position',
               wit(m, f'assert spec[{path_to(r_)!r}].id.path == {path_to(r_)!r}'))
      if r_.name is not None and not clash:
        try:
          ok = spec[r_.name] is r_.dp
        except Exception:  # pylint: disable=broad-except
          ok = False
        rec.case('lookup/spec-by-name', (src(m), r_.name), ok,
                 f'spec[{r_.name!r}] is not the decision point named so',
                 wit(m, f'assert spec[{r_.name!r}].name == {r_.name!r}'))
  # parent multi-choice keys
  seen = set()
  for r_ in rs:
    if r_.parent is None or id(r_.parent) in seen:
      continue
    seen.add(id(r_.parent))
    group = [x for x in rs if x.parent is r_.parent]
    want = [want_of(x) for x in group] if group[0].active else None
    wsrc = 'None' if want is None else '[' + ', '.join(
        dsrc(x.node) for x in group) + ']'
    pid = r_.parent.id.path
    probes = [('decision-point', lambda: d[r_.parent], f'd[spec[{pid!r}][0].parent_spec]'),
              ('id-str', lambda: d[pid], f'd[{pid!r}]')]
    if r_.name is not None and not clash:
      probes.append(('name', lambda: d[r_.name], f'd[{r_.name!r}]'))
    for pname, fn, text in probes:
      try:
        got = norm_value(fn())
        ok = got == want
        msg = f'{text} = {got!r}, want {want!r}'
      except Exception as e:  # pylint: disable=broad-except
        ok, msg = False, f'{text} raised {type(e).__name__}: {e}'[:300]
      rec.case((f'{tag}/{pname}/multi-choice-parent' + (
          '' if want is not None else '-inactive'))
               if not (pname == 'name' and want is None) else
               f'{tag}/name/inactive', (key, pid), ok, msg,
               wit(m, base + f'got = {text}\nassert got == {wsrc}, got'))
  if not spec_side:
    return
  # id = path of locations with conditional keys '[=index/num_candidates]'
  for r_ in rs:
    rec.case('lookup/id-format/' + ('subchoice' if r_.parent is not None
                                    else r_.m[0]), (src(m), r_.eid),
             r_.dp.id.path == r_.eid and str(r_.dp.id) == r_.eid,
             f'id of the decision point at {r_.eid!r} is {r_.dp.id.path!r}',
             wit(m, 'ids = [dp.id.path for dp in spec.decision_points]\n'
                 f'assert {r_.eid!r} in ids, ids'))
  # ids are pairwise different
  ids = [r_.dp.id.path for r_ in rs]
  rec.case('lookup/ids-unique', src(m), len(set(ids)) == len(ids),
           f'decision ids are not unique: {ids!r}',
           wit(m, 'ids = [dp.id.path for dp in spec.decision_points]\n'
               'assert len(set(ids)) == len(ids), ids'))


# =============================================================================
# Drivers
# =============================================================================


def drv_numbers_and_json(tier, seed):
  rec = Recorder(
      PROP, 'to_numbers / from_numbers / nested numbers / JSON are lossless',
      scope=('17 named/literal/conditional/float/custom specs (one with names '
             'and literals of more than 120 characters) + 32 hand-picked '
             '+ 6 (thorough 60) seeded random conditional specs of weight<=4; '
             'specs (multi-element roots, inlined multi-choices, depth<=3, bare '
             'decision-point roots); members: all up to a cap (quick 8, '
             'thorough 60) else first/last + seeded sample; views: flat, '
             'nested, JSON compact/verbose as object and as string (quick: the '
             'string forms on the first 4 members of a spec)'))
  r = rng(seed, 'c12.numbers')
  cap = 8 if tier == 'quick' else 60
  t0 = time.process_time()
  budget = 38 if tier == 'quick' else 500
  for m in view_specs(tier, r):
    if time.process_time() - t0 > budget:
      break
    spec = build(m)
    for j, t in enumerate(sample_members(m, cap, r)):
      d = mk(t).use_spec(spec)
      check_numbers(rec, m, spec, t, d)
      check_json(rec, m, spec, t, d, strings=(j < 4 or tier != 'quick'))
  return rec.result()


def drv_dict_views(tier, seed):
  rec = Recorder(
      PROP, 'to_dict content, from_dict round trip and lookups',
      scope=('same specs as drv_numbers_and_json; members: all up to a cap (quick 5, thorough 40) '
             'else seeded sample; to_dict content under all 3 key types x 5 '
             'value types x 3 multi_choice_key x include_inactive (90 '
             'combinations) for every sampled member (quick: from the third '
             'member of a spec on, one include_inactive setting per '
             'combination); from_dict round trip: all 90 combinations on the '
             'first member of the first 6 (thorough 45) named specs and a '
             'rotating window of combinations on the others (every combination '
             'is hit many times); for the named specs up to 3 extra members in '
             'which one name is answered more than once with different '
             'decisions, round trip under all name keyed value/literal '
             'combinations; lookups d[dp], d[id], d[KeyPath], d.get, '
             'd[name], spec[id], spec[name] for every decision point incl. '
             'inactive ones and multi-choice parents'))
  r = rng(seed, 'c12.dict')
  cap = 5 if tier == 'quick' else 40
  window = 2 if tier == 'quick' else 16
  t0 = time.process_time()
  budget = 40 if tier == 'quick' else 540
  rot = 0
  specs = view_specs(tier, r)
  n_named = len(named_specs())
  # round-robin over specs so that a time cut never starves a spec class
  work = []
  built = {}
  repeated = set()
  for si, m in enumerate(specs):
    sample = list(sample_members(m, cap, r))
    if si < n_named:
      # input class of its own: a repeated name answered more than once
      built[si] = build(m)
      rep = [t for t in repeated_name_members(m, built[si], members(m))
             if t not in sample]
      rep = rep if len(rep) <= 3 else r.sample(rep, 3)
      repeated.update((si, tkey(t)) for t in rep)
      sample += rep
    for j, t in enumerate(sample):
      work.append((j, si, m, t))
  work.sort(key=lambda w: (w[0], w[1]))
  full_budget = 6 if tier == 'quick' else 45
  for j, si, m, t in work:
    if time.process_time() - t0 > budget:
      break
    if si not in built:
      built[si] = build(m)
    spec = built[si]
    d = mk(t).use_spec(spec)
    rs, _ = records(m, spec, t, d)
    check_dict_content(
        rec, m, spec, t, d, rs,
        COMBOS if j < 2 or tier != 'quick' else
        [c for i, c in enumerate(COMBOS) if i % 2 == (j + si) % 2])
    check_lookups(rec, m, spec, t, d, rs)
    if j == 0 and full_budget > 0 and (si < n_named):
      full_budget -= 1
      combos = COMBOS
    else:
      combos = [COMBOS[(rot + i * 31) % len(COMBOS)] for i in range(window)]
      rot += 7
    if (si, tkey(t)) in repeated:
      combos = combos + [c for c in NAME_COMBOS if c not in combos]
    check_dict_roundtrip(rec, m, spec, t, d, combos)
  return rec.result()


# ---------------------------------------------------------------------------
# Alignment of DNAs handed out by the library
# ---------------------------------------------------------------------------


def _evo():
  import pyglove.ext.evolution as evo  # pylint: disable=g-import-not-at-top
  return evo


def operators(seed):
  """(name, arity, callable(list of DNA) -> list of DNA, source text)."""
  evo = _evo()
  mu, rc = evo.mutators, evo.recombinators
  ops = [
      ('mutators.Uniform', 1, lambda xs: mu.Uniform(seed=seed)(xs),
       f'pg.evolution.mutators.Uniform(seed={seed})'),
      ('mutators.Swap', 1, lambda xs: mu.Swap(seed=seed)(xs),
       f'pg.evolution.mutators.Swap(seed={seed})'),
      ('recombinators.Uniform', 2, lambda xs: rc.Uniform(seed=seed)(xs),
       f'pg.evolution.recombinators.Uniform(seed={seed})'),
      ('recombinators.Sample', 2,
       lambda xs: rc.Sample(lambda ps: [1.0 + i for i in range(len(ps))],
                            seed=seed)(xs),
       'pg.evolution.recombinators.Sample(lambda ps: [1.0 + i for i in '
       f'range(len(ps))], seed={seed})'),
      ('recombinators.Average', 2, lambda xs: rc.Average()(xs),
       'pg.evolution.recombinators.Average()'),
      ('recombinators.WeightedAverage', 2,
       lambda xs: rc.WeightedAverage(lambda ps: [1.0 + i for i in range(len(ps))])(xs),
       'pg.evolution.recombinators.WeightedAverage(lambda ps: [1.0 + i for i '
       'in range(len(ps))])'),
      ('recombinators.KPoint', 2, lambda xs: rc.KPoint(1 + seed % 2, seed=seed)(xs),
       f'pg.evolution.recombinators.KPoint({1 + seed % 2}, seed={seed})'),
      ('recombinators.Segmented', 2,
       lambda xs: rc.Segmented(lambda dps: [1] if len(dps) > 1 else [])(xs),
       'pg.evolution.recombinators.Segmented(lambda dps: [1] if len(dps) > 1 '
       'else [])'),
      ('recombinators.PartiallyMapped', 2,
       lambda xs: rc.PartiallyMapped(seed=seed)(xs),
       f'pg.evolution.recombinators.PartiallyMapped(seed={seed})'),
      ('recombinators.Order', 2, lambda xs: rc.Order(seed=seed)(xs),
       f'pg.evolution.recombinators.Order(seed={seed})'),
      ('recombinators.Cycle', 2, lambda xs: rc.Cycle(seed=seed)(xs),
       f'pg.evolution.recombinators.Cycle(seed={seed})'),
  ]
  return ops


def alignment_specs():
  perm3 = leaf(3, 3, True, False)
  return [
      SP(leaf(3), leaf(3, 2, True, False), leaf(2)),
      SP(perm3, leaf(2)),
      SP(leaf(3, 2, False, False), leaf(3, 2, True, True)),
      SP(leaf(3, 2, False, True), FL(0.0, 1.0)),
      SP(CH(3, [S2, C, SP(leaf(3))], True, False)),
      SP(CH(2, [S2, C, SM], False, False), leaf(2)),
      SP(ONE([SP(perm3), C, S22]), FL(-1.0, 1.0)),
      SP(ONE([SP(CH(2, [S2, C], True, False), leaf(2)), SN])),
      SP(CH(2, [SP(CH(2, [C, S2], True, False)), C], True, False)),
      SP(ONE([SF, C, S3]), CH(2, [SF, S2], False, True)),
      CH(2, [S2, C, S3], True, False),
      SP(leaf(3, name='x', lits=('a', 'b', 'c')),
         CH(3, [C, C, C], True, False, name='p')),
  ]


def audit_dna(rec, m, spec, x, source, make_x, wm=None):
  """x: pg.DNA handed out by `source`; valid, bound and aligned?"""
  t = shape(x)
  if not accepts(m, t):
    rec.case(f'aligned/{source}/output-is-valid', (src(m), t), False,
             f'{source} returned {t!r}, not a valid DNA of the spec',
             wit(wm or m, make_x +
                 'spec.validate(D(x.to_json(type_info=False)))\n'
                 f'assert x.to_numbers() != {flat(t)!r}'))
    return False
  if x.spec is None:
    rec.case(f'aligned/{source}/bound', (src(m), t), False,
             f'{source} returned an unbound DNA', wit(
                 wm or m, make_x + 'assert x.spec is not None'))
    return False
  return check_alignment(rec, m, spec, t, x, source, make_x, wm)


def _members_of_float_spec(m, r, n):
  mem = members(m)
  return mem if len(mem) <= n else r.sample(mem, n)


def drv_alignment(tier, seed):
  rec = Recorder(
      PROP, 'every DNA handed out is aligned with the spec',
      scope=('12 specs (multi-choices of every distinct/sorted kind, '
             'permutations, conditional and nested multi-choices, floats, bare '
             'root); sources: iter_dna/next_dna, random_dna (plain and '
             'previous_dna), DNA(x, spec=), DNA.parse, from_numbers, from_dict, '
             'from_json+use_spec, rebinding to a second equal spec object, '
             'clone/clone(deep)/copy.deepcopy, 2 mutators and 9 recombinators, '
             'and seeded operator chains up to length 3 (check after every '
             'step): node.spec identity per position + to_dict vs expectation '
             'from raw numbers'))
  r = rng(seed, 'c12.align')
  t0 = time.process_time()
  budget = 40 if tier == 'quick' else 540
  n_start = 3 if tier == 'quick' else 10
  chains = 3 if tier == 'quick' else 14
  specs = alignment_specs()

  def audit(m, spec, x, source, make_x):
    return audit_dna(rec, m, spec, x, source, make_x)

  for rnd in range(2 if tier == 'quick' else 3):
    for si, m in enumerate(specs):
      if time.process_time() - t0 > budget:
        break
      spec = build(m)
      mem = members(m)
      starts = _members_of_float_spec(m, r, n_start)
      finite = is_finite(m)
      if rnd == 0:
        # ---- iteration ----------------------------------------------------
        if finite:
          for i, x in enumerate(itertools.islice(spec.iter_dna(), 4)):
            audit(m, spec, x, 'iter_dna',
                  f'x = list(spec.iter_dna())[{i}]\n')
          i = r.randrange(len(mem) - 1)
          x = spec.next_dna(mk(mem[i]))
          audit(m, spec, x, 'next_dna', f'x = spec.next_dna({dsrc(mem[i])})\n')
          x = mk(mem[i]).use_spec(spec).next_dna()
          audit(m, spec, x, 'DNA.next_dna',
                f'x = {bind_src(mem[i])}.next_dna()\n')
        # ---- random -------------------------------------------------------
        prev = None
        for j in range(3):
          s = r.randrange(10**6)
          x = spec.random_dna(_random.Random(s), previous_dna=prev)
          audit(m, spec, x, 'random_dna' if prev is None else
                'random_dna[previous_dna]',
                'import random\n' + f'x = spec.random_dna(random.Random({s}), '
                'previous_dna=' + ('None' if prev is None else
                                   bind_src(shape(prev))) + ')\n')
          prev = x
      for t in starts:
        if time.process_time() - t0 > budget:
          break
        tsrc = dsrc(t)
        d = mk(t).use_spec(spec)
        if rnd == 0:
          # ---- parsing ----------------------------------------------------
          audit(m, spec, d, 'use_spec', f'x = {tsrc}.use_spec(spec)\n')
          x = pg.DNA(t[0], [mk(c) for c in t[1]], spec=spec)
          audit(m, spec, x, 'DNA(spec=)', f'x = D({t[0]!r}, [' + ', '.join(
              dsrc(c) for c in t[1]) + '], spec=spec)\n')
          cj = d.to_json(type_info=False)
          x = pg.DNA.parse(cj, spec)
          audit(m, spec, x, 'DNA.parse', f'x = D.parse({cj!r}, spec)\n')
          x = pg.DNA.from_numbers(flat(t), spec)
          audit(m, spec, x, 'from_numbers',
                f'x = D.from_numbers({flat(t)!r}, spec)\n')
          x = pg.DNA.from_dict(d.to_dict(), spec)
          audit(m, spec, x, 'from_dict',
                f'x = D.from_dict({bind_src(t)}.to_dict(), spec)\n')
          x = pg.DNA.from_dict(d.to_dict('dna_spec', 'dna', 'parent'), spec)
          audit(m, spec, x, 'from_dict[dna nodes]',
                f'x = D.from_dict({bind_src(t)}.to_dict("dna_spec", "dna", '
                '"parent"), spec)\n')
          x = pg.from_json(d.to_json()).use_spec(spec)
          audit(m, spec, x, 'from_json+use_spec',
                f'x = pg.from_json({bind_src(t)}.to_json()).use_spec(spec)\n')
          # rebinding to a second, equal spec object
          spec2 = build(m)
          x = mk(t).use_spec(spec).use_spec(spec2)
          audit(m, spec2, x, 'rebind-to-other-spec-object',
                f'spec0 = {src(m)}\nx = {tsrc}.use_spec(spec0).use_spec(spec)\n')
          # ---- cloning ----------------------------------------------------
          for cname, fn, text in [
              ('clone', lambda: d.clone(), 'd.clone()'),
              ('clone-deep', lambda: d.clone(deep=True), 'd.clone(deep=True)'),
              ('deepcopy', lambda: copy.deepcopy(d), 'copy.deepcopy(d)'),
              ('copy', lambda: copy.copy(d), 'copy.copy(d)'),
              ('pg.clone', lambda: pg.clone(d, deep=True), 'pg.clone(d, deep=True)'),
          ]:
            x = fn()
            audit(m, spec, x, cname,
                  f'import copy\nd = {bind_src(t)}\nx = {text}\n')
            ok = same(shape(x), t)
            rec.case(f'clone/{cname}/equal', (src(m), t), ok,
                     f'{text} = {shape(x)!r}, want {t!r}',
                     wit(m, f'import copy\nd = {bind_src(t)}\nassert {text} == d'))
        # ---- single operators and chains ----------------------------------
        for c in range(chains):
          if time.process_time() - t0 > budget:
            break
          opseed = r.randrange(1000)
          ops = operators(opseed)
          length = 1 if c < len(ops) / 3 and rnd == 0 else r.choice([2, 3])
          cur = d
          text = f'x = {bind_src(t)}\n'
          names = []
          for step in range(length):
            if rnd == 0 and step == 0:
              op = ops[(c * 4 + si + starts.index(t) * 3) % len(ops)]
            else:
              op = r.choice(ops)
            name, arity, fn, osrc = op
            if arity == 2:
              o = r.choice(mem)
              inputs = [cur, mk(o).use_spec(spec)]
              itxt = f'[x, {bind_src(o)}]'
            else:
              inputs = [cur]
              itxt = '[x]'
            try:
              outs = fn(inputs)
            except Exception as e:  # pylint: disable=broad-except
              rec.case(f'aligned/{name}/raises', (src(m), t, tuple(names)),
                       False, f'{name} raised {type(e).__name__}: {e}'[:300],
                       wit(m, text + f'{osrc}({itxt})'))
              break
            if not outs:
              break
            pick = r.randrange(len(outs))
            # recombinators return a set-derived list: pick by content
            outs_sorted = sorted(outs, key=lambda z: repr(z.to_numbers()))
            nxt = outs_sorted[pick]
            text += (f'x = sorted({osrc}({itxt}), key=lambda z: '
                     f'repr(z.to_numbers()))[{pick}]\n')
            names.append(name)
            source = name
            ok = audit(m, spec, nxt, source, text)
            if not ok:
              break       # do not continue a chain from a broken DNA
            cur = nxt
  return rec.result()


# ---------------------------------------------------------------------------
# Literal value forms (the text of the 'literal' / 'choice_and_literal' styles)
# ---------------------------------------------------------------------------

# Every form is a class of literal values a specification may legally carry
# (str / int / float).  The dictionary views that show literals must still
# rebuild the DNA, whatever the literal looks like.
LITERAL_FORMS = [
    ('float-17-digits', (0.1 + 0.2, 1.0 / 3.0, 2.0 / 3.0)),
    ('float-exponent', (1e-07, 1.5e+20, 2.5e-300)),
    ('float-negative-zero-integral', (-0.5, 0.0, 3.0)),
    ('float-7th-decimal', (0.1234567, 0.1234568, 1.0000001)),
    ('int-small-and-negative', (10, -3, 0)),
    ('int-large', (2 ** 40, -2 ** 33, 7)),
    ('mixed-types', ('a', 1, 0.5)),
    ('str-brackets-slashes', ('q (r)', 'a/b', 'x) (y')),
    ('str-whitespace-empty', ('', ' ', ' lead trail ')),
    ('str-number-looking', ('1', '0.5', '-2')),
    ('str-unicode-control', ('é日本', 'a\nb', '\t')),
    ('str-fraction-looking', ('1/2', '1/4', '3/4')),
    # length classes: a literal is data, however long it is
    ('str-length-119-120-121',
     (XS("'a' * 119"), XS("'b' * 120"), XS("'c' * 121"))),
    ('str-long', (XS("'x' * 130"),
                  XS("'S(\\n' + 'C,\\n' * 40 + ')'"),
                  XS("'z' * 999"))),
    ('str-long-common-prefix',
     (XS("'p' * 150 + '1'"), XS("'p' * 150 + '2'"), XS("'p' * 150 + '3'"))),
    # a literal that looks like the shortened form of another one
    ('str-ellipsis-lookalike',
     (XS("'a' * 117 + '...'"), XS("'a' * 130"), '...')),
    ('int-huge', (XI('10 ** 130'), XI('-10 ** 125'), 7)),
    # two candidates showing the same literal: the 'literal' style cannot tell
    # them apart (own case id), every other style must
    ('duplicate-values', ('a', 'a', 'b')),
]

# Values of custom decision points are free text.
CUSTOM_VALUE_FORMS = [
    ('empty', ''),
    ('long', 'Layer(' + 'k=3, ' * 23 + ')'),
    ('choice-looking', '1/2'),
    ('choice-and-literal-looking', '0/2 (p)'),
    ('unicode-control', 'é\n\t日本'),
    ('number-looking', '3'),
]

LITERAL_VALUE_TYPES = ['choice', 'literal', 'choice_and_literal']
LITERAL_COMBOS = [c for c in COMBOS if c[1] in LITERAL_VALUE_TYPES]


def literal_specs(lits):
  l3 = tuple(lits)
  return [
      # non-distinct multi-choice (a literal may repeat in the parent list)
      SP(leaf(3, 2, False, False, name='m', lits=l3), leaf(2)),
      # literals on a conditional choice, on a point inside it and on a sorted
      # multi-choice
      SP(ONE([SP(leaf(3, lits=l3), FL(0.0, 1.0)), C], lits=l3[:2]),
         leaf(3, 2, True, True, lits=l3)),
  ]


def drv_literal_forms(tier, seed):
  rec = Recorder(
      PROP, 'dictionary views with literal values of every form are lossless',
      scope=('18 classes of literal values (floats needing 17 digits / an '
             'exponent / a 7th decimal, negative, zero and integral floats, '
             'small, negative and large ints, mixed types, strings with '
             'brackets and slashes, whitespace / empty, number looking, '
             'unicode / control characters, fraction looking, strings of 119 '
             '/ 120 / 121 characters, long (130..999 characters, multi-line), '
             'long with a common prefix of 150 characters, ending in an '
             'ellipsis like a shortened form of another literal, ints of more '
             'than 120 digits, one literal shown for two candidates) x 2 specs '
             '(non-distinct named multi-choice; conditional + nested + sorted '
             'multi-choice) x members (quick 3, thorough 16 per spec): '
             'to_dict content and from_dict round trip under 3 key types x '
             "value types choice/literal/choice_and_literal x 3 "
             'multi_choice_key x include_inactive (quick: content under one '
             'include_inactive setting per member; round trip under every key '
             'type x value type with one (multi key, inactive) pair per '
             'member); parameters() / from_parameters round trip.  Values of '
             'custom decision points (free text): 6 classes (empty, 122 '
             'characters, choice looking, choice-and-literal looking, unicode '
             '/ control, number looking) x custom point at the root / inside '
             'a candidate: numbers, JSON, to_dict content (45 combinations) '
             'and from_dict round trip (quick 13 combinations, thorough 90)'))
  r = rng(seed, 'c12.literals')
  cap = 3 if tier == 'quick' else 16
  t0 = time.process_time()
  budget = 35 if tier == 'quick' else 400
  for form, lits in LITERAL_FORMS:
    tag = f'/lits={form}'
    for si_, m in enumerate(literal_specs(lits)):
      if time.process_time() - t0 > budget:
        break
      spec = build(m)
      for j, t in enumerate(sample_members(m, cap, r)):
        d = mk(t).use_spec(spec)
        rs, _ = records(m, spec, t, d)
        # LITERAL_COMBOS is ordered key type x value type x multi key x
        # inactive: member j takes every key type x value type with the j-th
        # (multi key, inactive) pair for the round trip (all pairs in the
        # thorough tier) and one `inactive` setting for the content.
        quick = tier == 'quick'
        check_dict_content(
            rec, m, spec, t, d, rs,
            [c for i, c in enumerate(LITERAL_COMBOS)
             if not quick or i % 2 == j % 2], tag)
        check_dict_roundtrip(
            rec, m, spec, t, d,
            [c for i, c in enumerate(LITERAL_COMBOS)
             if not quick or i % 6 == (j + si_) % 6], tag)
        for use_lit in (False, True):
          call = f'd.parameters(use_literal_values={use_lit})'
          try:
            back = pg.DNA.from_parameters(
                dict(d.parameters(use_literal_values=use_lit)), spec,
                use_literal_values=use_lit)
            ok = same(shape(back), t) and back == d
            msg = f'from_parameters({call}) = {shape(back)!r}, want {t!r}'
          except Exception as e:  # pylint: disable=broad-except
            ok = False
            msg = f'from_parameters({call}) raised {type(e).__name__}: {e}'[:400]
          rec.case(f'parameters/roundtrip/use_literal_values={use_lit}{tag}',
                   (src(m), t), ok, msg, wit(
                       m, f'd = {bind_src(t)}\n'
                       f'x = D.from_parameters(dict({call}), spec, '
                       f'use_literal_values={use_lit})\nassert x == d, x'))
  # ---- values of custom decision points: free text of every form ----------
  # (one occurrence of the value per DNA keeps the witnesses short)
  cms = [SP(CU('c1'), leaf(2, lits=('p', 'q'))),      # at the root
         SP(ONE([SP(CU()), C]), leaf(2))]             # inside a candidate
  cspecs = [build(cm) for cm in cms]
  for form, val in CUSTOM_VALUE_FORMS:
    if time.process_time() - t0 > budget:
      break
    tag = f'/custom-value={form}'
    for j, t in enumerate([(None, ((val, ()), (1, ()))),
                           (None, ((0, ((val, ()),)), (0, ())))]):
      cm, cspec = cms[j], cspecs[j]
      try:
        d = mk(t).use_spec(cspec)
      except Exception as e:  # pylint: disable=broad-except
        rec.case(f'use_spec/accepts{tag}', (src(cm), t), False,
                 f'use_spec refused {t!r}: {type(e).__name__}: {e}'[:300],
                 wit(cm, bind_src(t)))
        continue
      rs, _ = records(cm, cspec, t, d)
      check_numbers(rec, cm, cspec, t, d)
      check_json(rec, cm, cspec, t, d, strings=(j == 0 or tier != 'quick'))
      check_dict_content(rec, cm, cspec, t, d, rs,
                         [c for i, c in enumerate(COMBOS) if i % 2 == j], tag)
      # 90 = 3 key types x 5 value types x 6: step 7 walks through every
      # key type, value type and (multi key, inactive) pair
      check_dict_roundtrip(rec, cm, cspec, t, d,
                           [c for i, c in enumerate(COMBOS)
                            if tier != 'quick' or i % 7 == j], tag)
  return rec.result()


# ---------------------------------------------------------------------------
# Specifications derived from hyper values (pg.dna_spec)
# ---------------------------------------------------------------------------
# "For every specification": the specifications above are written with the
# pg.geno API; the ones users meet most are derived from a search space of
# hyper values, where the literal values are texts the library makes up from
# the candidates.  Whatever these texts are, each dictionary view of a DNA must
# rebuild the DNA.  (form, candidates source, candidates hold ints, model of
# the decision points below `a` / `b`, two candidates read the same)
HYPER_FORMS = [
    ('int', '[1, 2, 3]', True, None, False),
    ('float', '[0.1 + 0.2, 1e-07, 2.0]', False, None, False),
    ('str-short', "['a', 'b (c)', 'd/e']", False, None, False),
    ('str-long', "['s' * 130, 't' * 121, 'u' * 120]", False, None, False),
    ('dict-long-format',
     "[dict(x=1, y='q' * 150), dict(x=2, y='q' * 150), dict(x=3, y='r')]",
     False, None, False),
    ('container', "[dict(a=1), [1, 2], None]", False, None, False),
    ('nested-hyper-long',
     "[pg.oneof(['x' * 130, 'y']), 'k', "
     "pg.manyof(2, ['u', 'v', 'w' * 125], distinct=True, sorted=False)]",
     False, [SP(leaf(2)), C, SP(leaf(3, 2, True, False))], False),
    # candidates whose texts start alike for more than any display width
    ('long-common-prefix', "['s' * 130 + '1', 's' * 130 + '2', 't']", False,
     None, True),
]


def drv_hyper_specs(tier, seed):
  rec = Recorder(
      PROP, 'dictionary views are lossless for specifications derived from '
      'hyper values',
      scope=('pg.dna_spec(pg.Dict(a=pg.oneof(C), b=pg.manyof(2, C, '
             'distinct=False, sorted=False))) for 8 classes of candidate '
             'lists C (ints, floats, short strings, strings of 120..130 '
             'characters, dicts with a long text form, containers and None, '
             'nested oneof/manyof with long candidates, long strings with a '
             'common prefix of 130 characters) x members (quick 3, thorough '
             'all up to 40): from_dict(to_dict()) under 3 key types x 5 value '
             'types with a rotating (multi_choice_key, include_inactive) pair '
             '(thorough: all 90 combinations), parameters()/from_parameters '
             'with and without literal values'))
  r = rng(seed, 'c12.hyper')
  cap = 3 if tier == 'quick' else 40
  t0 = time.process_time()
  budget = 15 if tier == 'quick' else 200
  for form, csrc, ints, cands, dup in HYPER_FORMS:
    if time.process_time() - t0 > budget:
      break
    cands = cands or [C, C, C]
    m = SP(ONE(cands), CH(2, cands, False, False))
    ssrc = (f'pg.dna_spec(pg.Dict(a=pg.oneof({csrc}), b=pg.manyof(2, {csrc}, '
            'distinct=False, sorted=False)))')
    pre = f'import pyglove as pg\nD = pg.DNA\nspec = {ssrc}\n'
    tag = f'/hyper-candidates={form}'
    try:
      spec = eval(ssrc, {'pg': pg})  # pylint: disable=eval-used
    except Exception as e:  # pylint: disable=broad-except
      rec.case(f'dna_spec/builds{tag}', ssrc, False,
               f'{type(e).__name__}: {e}'[:300], pre)
      continue
    for j, t in enumerate(sample_members(m, cap, r)):
      base = pre + f'd = {bind_src(t)}\n'
      try:
        d = mk(t).use_spec(spec)
      except Exception as e:  # pylint: disable=broad-except
        rec.case(f'use_spec/accepts{tag}', (form, t), False,
                 f'use_spec refused {t!r}: {type(e).__name__}: {e}'[:300], base)
        continue
      pairs = [(mkk, inc) for mkk in MULTI_KEYS for inc in (False, True)]
      if tier == 'quick':
        pairs = [pairs[j % 6]]
      for kt in KEY_TYPES:
        for vt in VALUE_TYPES:
          for mkk, inc in pairs:
            ul = vt == 'literal' and ints
            call = (f'd.to_dict(key_type={kt!r}, value_type={vt!r}, '
                    f'multi_choice_key={mkk!r}, '
                    f'include_inactive_decisions={inc})')
            try:
              back = pg.DNA.from_dict(dict(d.to_dict(kt, vt, mkk, inc)), spec,
                                      use_ints_as_literals=ul)
              ok = same(shape(back), t) and back == d
              msg = f'from_dict({call}) = {shape(back)!r}, want {t!r}'
            except Exception as e:  # pylint: disable=broad-except
              ok = False
              msg = f'from_dict({call}) raised {type(e).__name__}: {e}'[:400]
            rec.case(DUP_ID if dup and vt == 'literal' else
                     f'from_dict/roundtrip/value={vt}{tag}',
                     (form, t, kt, mkk, inc), ok, msg,
                     base + f'x = D.from_dict(dict({call}), spec'
                     + (', use_ints_as_literals=True' if ul else '')
                     + ')\nassert x == d, x')
      for use_lit in (False, True):
        call = f'd.parameters(use_literal_values={use_lit})'
        try:
          back = pg.DNA.from_parameters(
              dict(d.parameters(use_literal_values=use_lit)), spec,
              use_literal_values=use_lit)
          ok = same(shape(back), t) and back == d
          msg = f'from_parameters({call}) = {shape(back)!r}, want {t!r}'
        except Exception as e:  # pylint: disable=broad-except
          ok = False
          msg = f'from_parameters({call}) raised {type(e).__name__}: {e}'[:400]
        rec.case(f'parameters/roundtrip/use_literal_values={use_lit}{tag}',
                 (form, t), ok, msg,
                 base + f'x = D.from_parameters(dict({call}), spec, '
                 f'use_literal_values={use_lit})\nassert x == d, x')
  return rec.result()


# ---------------------------------------------------------------------------
# Search operators over the matrix of multi-choice kinds
# ---------------------------------------------------------------------------


def matrix_specs(tier):
  """Multi-choices of every distinct/sorted kind with >= 3 sub-choices."""
  out = []
  for distinct, srt in FLAGS:
    out += [
        SP(leaf(4, 3, distinct, srt), FL(0.0, 1.0)),
        # candidates with nested decision points (equal indices may still
        # carry different sub-trees)
        SP(CH(3, [S2, C, SM], distinct, srt)),
        # a multi-choice inlined below a conditional choice
        SP(ONE([SP(leaf(4, 3, distinct, srt)), C]), leaf(2)),
    ]
    if tier != 'quick':
      out += [
          SP(leaf(3, 2, distinct, srt), leaf(2)),
          SP(leaf(4, 4, distinct, srt)),
          SP(leaf(5, 3, distinct, srt), leaf(2)),
          CH(3, [S2, C, S3, C], distinct, srt),
          SP(CH(2, [SP(leaf(3, 3, distinct, srt)), C, C], True, False)),
      ]
  return out


def _repeats(t):
  """Number of equal-valued sibling pairs anywhere in the tree."""
  vals = [c[0] for c in t[1]]
  n = sum(1 for i in range(len(vals)) for j in range(i)
          if vals[i] == vals[j] and vals[i] is not None)
  return n + sum(_repeats(c) for c in t[1])


def matrix_starts(m, r, n):
  """Members with the most equal-valued siblings first, then a sample."""
  mem = members(m)
  if len(mem) <= n:
    return mem
  by_rep = sorted(mem, key=lambda t: -_repeats(t))
  head = by_rep[:max(1, n // 2)] if _repeats(by_rep[0]) else []
  rest = [t for t in mem if t not in head]
  return head + r.sample(rest, n - len(head))


def drv_operator_matrix(tier, seed):
  rec = Recorder(
      PROP, 'search operators keep every node aligned, for every kind of '
      'multi-choice',
      scope=('multi-choices of all 4 distinct/sorted kinds x 3 layouts (4 '
             'choose 3 + float, 3 of conditional candidates, 4 choose 3 below '
             'a conditional choice; thorough: 5 more incl. 3 choose 2, 4 of 4, '
             '5 choose 3, bare root, nested multi-choice); starts: members '
             'with most equal-valued siblings + seeded sample (quick 3, '
             'thorough 12); operators: mutators.Uniform restricted (where=) '
             'to each active decision point in turn x seeds (quick 3, '
             'thorough 6), unrestricted Uniform and Swap x seeds, and the 9 '
             'recombinators with seeded partners (quick: 1 partner on every '
             'other start, thorough 3): node.spec identity per position + '
             'to_dict vs expectation from raw numbers'))
  evo = _evo()
  r = rng(seed, 'c12.matrix')
  t0 = time.process_time()
  budget = 35 if tier == 'quick' else 500
  n_start = 3 if tier == 'quick' else 12
  n_seed = 3 if tier == 'quick' else 6
  n_partner = 1 if tier == 'quick' else 3
  for m in matrix_specs(tier):
    if time.process_time() - t0 > budget:
      break
    spec = build(m)
    mem = members(m)
    for ti, t in enumerate(matrix_starts(m, r, n_start)):
      d = mk(t).use_spec(spec)
      base = f'd = {bind_src(t)}\n'
      rs, _ = records(m, spec, t, d)
      # ---- Uniform mutation at each active decision point -----------------
      for r_ in rs:
        if not r_.active:
          continue
        path = r_.dp.id.path
        wsrc = ('lambda n: isinstance(n.spec, g.DecisionPoint) and '
                f'n.spec.id.path == {path!r}')
        for k in range(n_seed):
          s = r.randrange(1000)
          osrc = f'pg.evolution.mutators.Uniform(where={wsrc}, seed={s})'
          mut = evo.mutators.Uniform(
              where=lambda n, p_=path: (isinstance(n.spec, pg.geno.DecisionPoint)
                                        and n.spec.id.path == p_), seed=s)
          try:
            x = mut.mutate(d)
          except Exception as e:  # pylint: disable=broad-except
            rec.case('aligned/mutators.Uniform/raises', (src(m), t, path), False,
                     f'Uniform(where={path!r}) raised {type(e).__name__}: {e}'[:300],
                     wit(m, base + f'{osrc}.mutate(d)'))
            continue
          audit_dna(rec, m, spec, x, 'mutators.Uniform',
                    base + f'x = {osrc}.mutate(d)\n')
      # ---- unrestricted mutators and recombinators ------------------------
      for k in range(n_seed):
        opseed = r.randrange(1000)
        for name, arity, fn, osrc in operators(opseed):
          if arity == 1:
            inputs, itxt = [d], '[d]'
          elif k < n_partner and (ti % 2 == 0 or tier != 'quick'):
            o = r.choice(mem)
            inputs, itxt = [d, mk(o).use_spec(spec)], f'[d, {bind_src(o)}]'
          else:
            continue
          try:
            outs = fn(inputs)
          except Exception as e:  # pylint: disable=broad-except
            rec.case(f'aligned/{name}/raises', (src(m), t, itxt), False,
                     f'{name} raised {type(e).__name__}: {e}'[:300],
                     wit(m, base + f'{osrc}({itxt})'))
            continue
          outs = sorted(outs, key=lambda z: repr(z.to_numbers()))
          for i, x in enumerate(outs[:2]):
            audit_dna(rec, m, spec, x, name,
                      base + f'x = sorted({osrc}({itxt}), key=lambda z: '
                      f'repr(z.to_numbers()))[{i}]\n')
  return rec.result()


# ---------------------------------------------------------------------------
# Binding history: what happened to the object before it was (re)bound
# ---------------------------------------------------------------------------


def history_specs():
  a = alignment_specs()
  n = named_specs()
  return [
      # several root elements, the later ones conditional
      SP(leaf(3, name='o', lits=('sgd', 'adam', 'lamb')), FL(0.0, 1.0, 'lr'),
         ONE([SP(leaf(3, name='k', lits=(1, 3, 5))), C], name='blk')),
      a[0], a[3], a[4], a[5], a[6], a[7], a[8], a[9], a[10],
      n[2], n[3], n[6], n[7],
  ]


def widen(m):
  """A different spec (one more candidate, wider floats, other names) that
  accepts every member of m."""
  if m[0] == 'space':
    return SP(*[widen(e) for e in m[1]])
  if m[0] == 'choices':
    _, k, cands, distinct, srt, name, lits = m
    return ('choices', k, tuple(widen(c) for c in cands) + (C,), distinct, srt,
            None if name is None else name + '_w',
            None if lits is None else tuple(lits) + ('extra',))
  if m[0] == 'float':
    return ('float', m[1] - 1.0, m[2] + 1.0, m[3])
  return m


def diff_path(a, b, prefix=()):
  """Path of the smallest sub-tree that contains all differences, or None."""
  if tkey(a) == tkey(b):
    return None
  if tkey((a[0], ())) != tkey((b[0], ())) or len(a[1]) != len(b[1]):
    return prefix
  diffs = [i for i in range(len(a[1])) if tkey(a[1][i]) != tkey(b[1][i])]
  if len(diffs) == 1:
    return diff_path(a[1][diffs[0]], b[1][diffs[0]], prefix + (diffs[0],))
  return prefix


def _get_tree(node, path):
  for i in path:
    node = node[1][i]
  return node


def _node_src(path):
  return 'x' + ''.join(f'.children[{i}]' for i in path)


def _node_at(d, path):
  for i in path:
    d = d.children[i]
  return d


def edit_to(d, cur, want, style):
  """Edits pg.DNA d (tree `cur`) in place so that its tree becomes `want`.

  Returns the source text of the edit (on variable x) or None if the style
  does not apply.  Only symbolic rebind on the object is used."""
  p = diff_path(cur, want)
  if p is None:
    return None
  a, b = _get_tree(cur, p), _get_tree(want, p)
  nd = _node_at(d, p)
  if style == 'replace-node':
    if not p:
      return None
    key = '.'.join(f'children[{i}]' for i in p)
    d.rebind({key: mk(b)})
    return f'x.rebind({{{key!r}: {dsrc(b)}}})\n'
  if style == 'in-place':
    kw, txt = {}, []
    if tkey((a[0], ())) != tkey((b[0], ())):
      kw['value'] = b[0]
      txt.append(f'value={b[0]!r}')
    if tkey((None, a[1])) != tkey((None, b[1])):
      kw['children'] = [mk(c) for c in b[1]]
      txt.append('children=[' + ', '.join(dsrc(c) for c in b[1]) + ']')
    nd.rebind(**kw)
    return f'{_node_src(p)}.rebind({", ".join(txt)})\n'
  if style == 'reorder-bound-children':
    # only when `want` has the same children in another order
    if tkey((a[0], ())) != tkey((b[0], ())) or len(a[1]) != len(b[1]):
      return None
    pool = list(range(len(a[1])))
    order = []
    for c in b[1]:
      hit = [i for i in pool if tkey(a[1][i]) == tkey(c)]
      if not hit:
        return None
      order.append(hit[0])
      pool.remove(hit[0])
    old = list(nd.children)
    nd.rebind(children=[old[i] for i in order])
    return (f'n = {_node_src(p)}; old = list(n.children); '
            f'n.rebind(children=[old[i] for i in {order!r}])\n')
  raise ValueError(style)


def _as_single(rec_):
  """Model of the decision point a record's node answers on its own."""
  mm = rec_.m
  if mm[0] == 'choices' and rec_.parent is not None:
    return ('choices', 1, mm[2], True, False, mm[5], mm[6])
  return mm


def drv_binding_history(tier, seed):
  rec = Recorder(
      PROP, 'a DNA is aligned after use_spec whatever happened to the object '
      'before',
      scope=('14 specs (several root elements, conditional, multi-choices of '
             'every kind, nested multi-choices, floats, custom, bare root) x '
             'members (quick 2, thorough 8) x histories: (a) a binding that is '
             'refused (one corruption per kind of c11.corruptions: value out '
             'of range / wrong type / None, float out of range, dropped, '
             'extra, swapped and duplicated children ...), the object is '
             'repaired (in place via rebind(value=/children=), by replacing '
             'the node (quick: for every other kind), or by re-ordering the '
             'already bound children) and bound again; (b) a bound DNA is edited into another member and '
             'bound again to the same spec; (c) bound to / refused by another '
             'spec (wider spec, unrelated spec, equal spec object) first; (d) '
             'assembled from children that are already bound (to this spec, to '
             'an equal spec object).  After the final successful use_spec: '
             'node.spec identity per position, to_dict vs expectation from raw '
             'numbers, lookup of every decision, from_dict(to_dict())'))
  r = rng(seed, 'c12.history')
  t0 = time.process_time()
  budget = 35 if tier == 'quick' else 500
  n_mem = 2 if tier == 'quick' else 8
  per_kind = 1 if tier == 'quick' else 3
  specs = history_specs()

  def final(m, spec, x, source, make_x, key, roundtrip=False):
    """x.use_spec(spec) must succeed and leave x aligned."""
    try:
      x.use_spec(spec)
    except Exception as e:  # pylint: disable=broad-except
      rec.case(f'aligned/{source}/accepted', key, False,
               f'use_spec refused the valid DNA {shape(x)!r}: '
               f'{type(e).__name__}: {e}'[:400], wit(m, make_x + 'x.use_spec(spec)'))
      return
    make_x += 'x.use_spec(spec)\n'
    if not audit_dna(rec, m, spec, x, source, make_x):
      return
    t = shape(x)
    rs, _ = records(m, spec, t, x)
    try:
      ok, msg = True, ''
      for r_ in rs:
        got = norm_value(x[r_.dp])
        want = ('dna', tkey(r_.node)) if r_.active else None
        if got != want:
          ok, msg = False, f'x[{r_.dp.id.path!r}] = {got!r}, want {want!r}'
          break
      if ok and roundtrip:
        back = pg.DNA.from_dict(x.to_dict(), spec)
        ok = same(shape(back), t)
        msg = f'from_dict(x.to_dict()) = {shape(back)!r}, want {t!r}'
    except Exception as e:  # pylint: disable=broad-except
      ok, msg = False, f'{type(e).__name__}: {e}'[:300]
    rec.case(f'views/{source}', key, ok, msg, wit(
        m, make_x + f'y = D.from_numbers({flat(t)!r}, spec)\n'
        'for dp in spec.decision_points:\n'
        '  assert x[dp] == y[dp], (dp.id.path, x[dp], y[dp])\n'
        'assert D.from_dict(x.to_dict(), spec) == x'))

  for si, m in enumerate(specs):
    if time.process_time() - t0 > budget:
      break
    spec = build(m)
    mem = members(m)
    other_m = specs[(si + 1) % len(specs)]
    other = build(other_m)
    wide = build(widen(m))
    twin = build(m)
    for ti, t in enumerate(sample_members(m, n_mem, r)):
      tsrc = dsrc(t)
      # which decision point does the node at a path answer (from the model)
      probe = mk(t)
      rs0, _ = records(m, spec, t, probe)
      by_node = {id(r_.real): r_ for r_ in rs0 if r_.real is not None}
      # ---- (a) refused, repaired, bound again -----------------------------
      by_kind = {}
      for kind, bad in corruptions(t):
        if not accepts(m, bad):
          by_kind.setdefault(kind, []).append(bad)
      for ki, kind in enumerate(sorted(by_kind)):
        for bad in r.sample(by_kind[kind], min(per_kind, len(by_kind[kind]))):
          p = diff_path(bad, t)
          # Is the edited node, taken alone, a valid answer of its decision
          # point (the DNA was refused for a constraint among siblings)?  Then
          # an in-place repair edits a node that was bound successfully.
          at = by_node.get(id(_node_at(probe, p)))
          alone_ok = at is not None and why_not_dp(
              _as_single(at), _get_tree(bad, p)) is None
          styles = ['in-place']
          if p and (tier != 'quick' or (ki + ti) % 2 == 0):
            styles.append('replace-node')
          if kind in ('swap-children', 'duplicate-child'):
            styles.append('reorder-bound-children')
          for style in styles:
            x = mk(bad)
            if not same(shape(x), bad):
              break                      # normalised by the constructor
            try:
              x.use_spec(spec)
              break                      # not refused: C11's business
            except Exception:  # pylint: disable=broad-except
              pass
            try:
              etxt = edit_to(x, bad, t, style)
            except Exception:  # pylint: disable=broad-except
              continue                   # this edit is not possible
            if etxt is None or not same(shape(x), t):
              continue
            if style == 'reorder-bound-children':
              source = 'use_spec[after-refused-binding+reordered-bound-children]'
            elif style == 'in-place' and alone_ok:
              source = 'use_spec[again-after-edit-of-bound-node]'
            else:
              source = 'use_spec[after-refused-binding+repair]'
            make_x = (f'x = {dsrc(bad)}\n'
                      'try:\n  x.use_spec(spec)\nexcept Exception: pass\n'
                      + etxt)
            final(m, spec, x, source, make_x, (src(m), t, kind, style),
                  roundtrip=(style == 'in-place'))
      # ---- (b) bound, edited into another member, bound again -------------
      for t1 in r.sample(mem, min(2, len(mem))):
        for style in ('in-place', 'replace-node'):
          x = mk(t).use_spec(spec)
          try:
            etxt = edit_to(x, t, t1, style)
          except Exception:  # pylint: disable=broad-except
            continue
          if etxt is None or not same(shape(x), t1):
            continue
          final(m, spec, x, 'use_spec[again-after-edit-of-bound-node]',
                f'x = {bind_src(t)}\n' + etxt, (src(m), t, t1, style))
      # ---- (c) another spec first -----------------------------------------
      x = mk(t).use_spec(wide)
      final(m, spec, x, 'use_spec[after-binding-to-wider-spec]',
            f'x = {tsrc}.use_spec({src(widen(m))})\n', (src(m), t),
            roundtrip=True)
      x = mk(t).use_spec(twin)
      final(m, spec, x, 'rebind-to-other-spec-object',
            f'x = {tsrc}.use_spec({src(m)})\n', (src(m), t))
      if not has_kind(other_m, 'custom'):
        x = mk(t)
        try:
          x.use_spec(other)
          source = 'use_spec[after-binding-to-unrelated-spec]'
        except Exception:  # pylint: disable=broad-except
          source = 'use_spec[after-refused-binding-to-unrelated-spec]'
        final(m, spec, x, source,
              f'x = {tsrc}\ntry:\n  x.use_spec({src(other_m)})\n'
              'except Exception: pass\n', (src(m), t))
      # ---- (d) assembled from bound children ------------------------------
      if t[1]:
        for label, sp_, ssrc in (('this-spec', spec, 'spec'),
                                 ('equal-spec-object', twin, src(m))):
          donor = mk(t).use_spec(sp_)
          x = pg.DNA(t[0], list(donor.children))
          if not same(shape(x), t):
            continue
          final(m, spec, x, f'use_spec[children-already-bound-to-{label}]',
                f'donor = {tsrc}.use_spec({ssrc})\n'
                f'x = D({t[0]!r}, list(donor.children))\n', (src(m), t))
  return rec.result()

# ---------------------------------------------------------------------------
# Lookups on a DNA with a history: look up, edit in place, look up again
# ---------------------------------------------------------------------------
# The statement promises that a lookup returns the decision *actually made
# there*: not the decision that was there when somebody looked first.  The
# input class here is the history of one DNA object: lookups of every kind (by
# decision point, id, name; at the root and at inner nodes), then an edit in
# place that keeps every node bound to the decision point of its position (the
# way the evolution mutators edit their clones: a node bound to the position's
# decision point put in by index; a value rewritten; the children rewritten by
# bound nodes; pure metadata writes), then every lookup again, then a second
# edit of another style.  The expectation is computed from the raw numbers.

EDIT_STYLES = ('replace/root-path', 'replace/parent-list-index',
               'replace/parent-node-path', 'replace/list-setitem',
               'value=', 'children=', 'metadata-only')
WARMUPS = ('cold', 'decision-point', 'id', 'name', 'all', 'all+inner-nodes')


def _warm(d, mode, p):
  """Looks decisions up before the edit; returns the source text."""
  if mode == 'cold':
    return ''
  txt = ''
  if mode in ('decision-point', 'all', 'all+inner-nodes'):
    for dp in d.spec.decision_points:
      d[dp]                              # pylint: disable=pointless-statement
    txt += '[d[dp] for dp in spec.decision_points]\n'
  if mode in ('id', 'all', 'all+inner-nodes'):
    for dp in d.spec.decision_points:
      d.get(dp.id.path)
    txt += '[d.get(dp.id.path) for dp in spec.decision_points]\n'
  if mode in ('name', 'all', 'all+inner-nodes'):
    d.named_decisions                    # pylint: disable=pointless-statement
    txt += 'd.named_decisions\n'
  if mode == 'all+inner-nodes':
    for k in range(1, len(p) + 1):
      nd = _node_at(d, p[:k])
      nd.named_decisions                 # pylint: disable=pointless-statement
      nd.get('no such id', None)
      ns = _node_src(p[:k]).replace('x', 'd', 1)
      txt += f'{ns}.named_decisions; {ns}.get("no such id", None)\n'
  return txt


def aligned_edit(d, cur, want, style):
  """Edits the aligned pg.DNA d (tree `cur`) in place into `want`, keeping
  every node bound to the decision point of its position.  Returns the source
  text of the edit (on variable d) or None if the style does not apply."""
  if style == 'metadata-only':
    d.set_metadata('note', 1)
    d.rebind({'metadata.tag': 'v'})
    return "d.set_metadata('note', 1); d.rebind({'metadata.tag': 'v'})\n"
  p = diff_path(cur, want)
  if p is None:
    return None
  a, b = _get_tree(cur, p), _get_tree(want, p)
  nd = _node_at(d, p)
  nsrc = _node_src(p).replace('x', 'd', 1)
  if style.startswith('replace/'):
    if not p or nd.spec is None:
      return None
    n = mk(b)
    n.use_spec(nd.spec)
    head = f'n = {dsrc(b)}; n.use_spec({nsrc}.spec)\n'
    par = _node_at(d, p[:-1])
    psrc = _node_src(p[:-1]).replace('x', 'd', 1)
    if style == 'replace/root-path':
      key = '.'.join(f'children[{i}]' for i in p)
      d.rebind({key: n})
      return head + f'd.rebind({{{key!r}: n}})\n'
    if style == 'replace/parent-list-index':
      par.children.rebind({p[-1]: n})
      return head + f'{psrc}.children.rebind({{{p[-1]}: n}})\n'
    if style == 'replace/parent-node-path':
      par.rebind({f'children[{p[-1]}]': n})
      return head + f"{psrc}.rebind({{'children[{p[-1]}]': n}})\n"
    if style == 'replace/list-setitem':
      with pg.allow_writable_accessors(True):
        par.children[p[-1]] = n
      return head + ('with pg.allow_writable_accessors(True):\n'
                     f'  {psrc}.children[{p[-1]}] = n\n')
  if style == 'value=':
    # only childless nodes: below a rewritten value the children would answer
    # the decision points of another candidate
    if a[1] or b[1]:
      return None
    nd.rebind(value=b[0])
    return f'{nsrc}.rebind(value={b[0]!r})\n'
  if style == 'children=':
    if tkey((a[0], ())) != tkey((b[0], ())) or len(a[1]) != len(b[1]):
      return None
    olds = list(nd.children)
    if any(o.spec is None for o in olds):
      return None
    new = [mk(c).use_spec(o.spec) for c, o in zip(b[1], olds)]
    nd.rebind(children=new)
    return (f'old = list({nsrc}.children)\n'
            f'{nsrc}.rebind(children=[c.use_spec(o.spec) for c, o in zip(['
            + ', '.join(dsrc(c) for c in b[1]) + '], old)])\n')
  raise ValueError(style)


def edit_history_specs():
  a = alignment_specs()
  return history_specs() + [n for n in named_specs()
                            if n not in history_specs()][:6] + a[1:3]


def drv_edit_history(tier, seed):
  rec = Recorder(
      PROP, 'lookups return the decision actually made there after the DNA '
      'was looked up and then edited in place',
      scope=('specs of drv_binding_history + named specs (several root '
             'elements, conditional, multi-choices, nested multi-choices, '
             'floats, custom, repeated names) x members (quick 2, thorough 6) '
             'x targets (2 other members) x edit style (node bound to the '
             "position's decision point put in by index through the root "
             'path / the parent list / the parent node / list item '
             'assignment; rebind(value=); rebind(children=bound nodes); '
             'metadata writes only) x lookups before the edit (none, by '
             'decision point, by id, by name, all, all + at every inner node '
             'above the edit; quick: 2 of the 6 per case in rotation, always '
             'one of the last two) x a second edit of the next style.  After '
             'each edit: node.spec identity per position, to_dict vs '
             'expectation from the raw numbers, d[dp], d[id], d[KeyPath], '
             'd.get(id), d[name], multi-choice parents, lookups of the '
             'decisions below every inner node above the edit'))
  r = rng(seed, 'c12.edit-history')
  t0 = time.process_time()
  budget = 14 if tier == 'quick' else 300
  n_mem = 2 if tier == 'quick' else 6
  count = 0

  def inner_lookups(m, spec, x, t, p, rs, style, base, key):
    """Decisions below an inner node, looked up at that node."""
    for k in range(1, len(p)):
      anc = _node_at(x, p[:k])
      inside = set()
      stack = [anc]
      while stack:
        q = stack.pop()
        inside.add(id(q))
        stack.extend(q.children)
      ok, msg = True, ''
      try:
        for r_ in rs:
          if r_.real is None or id(r_.real) not in inside or r_.real is anc:
            continue
          got = norm_value(anc[r_.dp])
          want = ('dna', tkey(r_.node))
          if got != want:
            ok, msg = False, (f'inner node {shape(anc)!r}: [{r_.dp.id.path!r}]'
                              f' = {got!r}, want {want!r}')
            break
      except Exception as e:  # pylint: disable=broad-except
        ok, msg = False, f'{type(e).__name__}: {e}'[:300]
      asrc = _node_src(p[:k]).replace('x', 'd', 1)
      rec.case(f'lookup-after-edit[{style}]/decision-point/at-inner-node',
               (key, p[:k]), ok, msg, wit(
                   m, base + f'y = D.from_numbers({flat(t)!r}, spec)\n'
                   f'a, b = {asrc}, {asrc.replace("d", "y", 1)}\n'
                   'for dp in spec.decision_points:\n'
                   '  if b.get(dp) is not None:\n'
                   '    assert a.get(dp) == b.get(dp), (dp.id.path, a.get(dp), b.get(dp))'))

  def step(m, spec, x, cur, want, style, base, key):
    """One edit + all checks.  Returns the new witness text or None."""
    p = diff_path(cur, want) or ()
    try:
      etxt = aligned_edit(x, cur, want, style)
    except Exception:  # pylint: disable=broad-except
      return None                        # this edit is not possible
    if etxt is None:
      return None
    goal = cur if style == 'metadata-only' else want
    if not same(shape(x), goal):
      return None
    base = base + etxt
    if not check_alignment(rec, m, spec, goal, x, f'edit[{style}]',
                           base + 'x = d\n'):
      return None
    rs, _ = records(m, spec, goal, x)
    check_lookups(rec, m, spec, goal, x, rs, base=base,
                  tag=f'lookup-after-edit[{style}]', key_extra=key,
                  spec_side=False)
    inner_lookups(m, spec, x, goal, p, rs, style, base, key)
    return base

  for m in edit_history_specs():
    if time.process_time() - t0 > budget:
      break
    spec = build(m)
    mem = members(m)
    if len(mem) < 2:
      continue
    for t in sample_members(m, n_mem, r):
      others = [u for u in mem if not same(u, t)]
      for t1 in r.sample(others, min(2, len(others))):
        p = diff_path(t, t1) or ()
        for si, style in enumerate(EDIT_STYLES):
          if tier == 'quick':
            warms = (WARMUPS[count % 4], WARMUPS[4 + count % 2])
          else:
            warms = WARMUPS
          for warm in warms:
            count += 1
            x = mk(t).use_spec(spec)
            base = f'd = {bind_src(t)}\n' + _warm(x, warm, p)
            key = (t1, warm)
            base1 = step(m, spec, x, t, t1, style, base, key)
            if base1 is None:
              break                      # style does not apply to this pair
            # second edit (the lookups above have built every table again)
            cur = t if style == 'metadata-only' else t1
            rest = [u for u in mem if not same(u, cur)]
            t2 = r.choice(rest)
            base1 += ('[d[dp] for dp in spec.decision_points]; '
                      'd.named_decisions\n')
            for s2 in (EDIT_STYLES[(si + 1) % len(EDIT_STYLES)],
                       EDIT_STYLES[(si + 2) % len(EDIT_STYLES)]):
              if s2 == 'metadata-only':
                continue
              if step(m, spec, x, cur, t2, s2, base1,
                      (t1, warm, 'then', t2)) is not None:
                break
  return rec.result()


# ---------------------------------------------------------------------------
# Entry points: every public way of being handed a DNA x every form of its
# optional arguments
# ---------------------------------------------------------------------------
# The statement speaks of *every* DNA handed out by the library.  The drivers
# above obtain their DNAs through one call form per function; here the input
# class is the call itself: each public function / method / generator that
# returns a DNA for a specification, called with its optional arguments left
# out, given by keyword and given by position, on specifications of every root
# kind and on the parts of a specification.  A caller that asks for an unbound
# DNA (attach_spec=False) and binds it afterwards must end up with the same
# aligned DNA.  Every call is executed from its source text, so the witness is
# exactly what ran.


def entry_specs():
  return [
      ('space/multi-element',
       SP(leaf(3, name='x', lits=('a', 'b', 'c')), leaf(3, 2, True, False),
          leaf(2))),
      ('space/single-element-inlined', SP(CH(2, [S2, C, SM], False, True))),
      ('space/conditional',
       SP(ONE([C, S2, SP(CH(2, [C, C, C], True, True, name='z'))], name='r'),
          leaf(2))),
      ('space/float+custom',
       SP(ONE([C, SP(FL(0.0, 1.0))], lits=('none', 'dropout')),
          leaf(3, 2, True, False), FL(-1.0, 1.0), CU('cu'))),
      ('root/choices', ONE([S2, C, SM], name='r')),
      ('root/multi-choice', CH(2, [S2, C, S3], True, False)),
      ('root/float', FL(0.5, 1.5, 'ff')),
      ('root/custom', CU('c')),
      ('root/constant-space', C),
  ]


def head_calls():
  """(source, [code]) that hand out the first DNA of the iteration order."""
  sweep = 'a = pg.geno.Sweeping(); a.setup(spec)\n'
  return [
      ('first_dna[default-args]', ['x = spec.first_dna()\n']),
      ('first_dna[attach_spec=True]', ['x = spec.first_dna(attach_spec=True)\n',
                                       'x = spec.first_dna(True)\n']),
      ('first_dna[attach_spec=False]+use_spec',
       ['x = spec.first_dna(attach_spec=False).use_spec(spec)\n',
        'x = spec.first_dna(False).use_spec(spec)\n']),
      ('next_dna[head,default-args]', ['x = spec.next_dna()\n',
                                       'x = spec.next_dna(None)\n',
                                       'x = spec.next_dna(dna=None)\n']),
      ('next_dna[head,attach_spec=True]',
       ['x = spec.next_dna(None, True)\n',
        'x = spec.next_dna(attach_spec=True)\n']),
      ('next_dna[head,attach_spec=False]+use_spec',
       ['x = spec.next_dna(None, False).use_spec(spec)\n',
        'x = spec.next_dna(attach_spec=False).use_spec(spec)\n']),
      ('iter_dna[default-args]/first', ['x = next(spec.iter_dna())\n',
                                        'x = next(spec.iter_dna(None))\n',
                                        'for x in spec.iter_dna(): break\n']),
      ('iter_dna[attach_spec=True]/first',
       ['x = next(spec.iter_dna(attach_spec=True))\n',
        'x = next(spec.iter_dna(None, True))\n']),
      ('iter_dna[attach_spec=False]+use_spec/first',
       ['x = next(spec.iter_dna(attach_spec=False)).use_spec(spec)\n']),
      ('Sweeping.propose/first', [sweep + 'x = a.propose()\n']),
      ('iter(Sweeping)/first', [sweep + 'x = next(iter(a))\n']),
      ('Deduping(Sweeping).propose/first',
       ['a = pg.geno.Deduping(pg.geno.Sweeping()); a.setup(spec)\n'
        'x = a.propose()\n']),
      # DNAs made from the head by the library
      ('clone[of-handed-out]', ['x = spec.first_dna().clone()\n',
                                'x = spec.next_dna().clone(deep=True)\n',
                                'import copy\n'
                                'x = copy.deepcopy(next(spec.iter_dna()))\n']),
  ]


def later_calls(t, twin_src):
  """(source, [code]) that continue the iteration after member t."""
  d_un, d_b = dsrc(t), bind_src(t)
  starts = [('unbound', d_un), ('bound', d_b),
            ('bound-to-equal-spec-object', f'{d_un}.use_spec({twin_src})')]
  out = []
  for form, args in [('default-args', ['d', 'dna=d']),
                     ('attach_spec=True', ['d, True', 'd, attach_spec=True',
                                           'dna=d, attach_spec=True'])]:
    out.append((f'next_dna[from-dna,{form}]', [
        f'd = {s_}\nx = spec.next_dna({a})\n'
        for _, s_ in starts for a in args]))
    out.append((f'iter_dna[from-dna,{form}]/first', [
        f'd = {s_}\nx = next(spec.iter_dna({a}))\n'
        for _, s_ in starts for a in args]))
  out += [
      ('next_dna[from-dna,attach_spec=False]+use_spec', [
          f'd = {s_}\nx = spec.next_dna(d, {a}).use_spec(spec)\n'
          for _, s_ in starts for a in ('False', 'attach_spec=False')]),
      ('DNA.next_dna', [f'x = {d_b}.next_dna()\n',
                        f'x = D({t[0]!r}, [' + ', '.join(
                            dsrc(c) for c in t[1]) + '], spec=spec).next_dna()\n']),
      ('DNA.iter_dna/first', [f'x = next({d_b}.iter_dna())\n']),
      ('Sweeping[recovered].propose', [
          'a = pg.geno.Sweeping(); a.setup(spec); '
          f'a.recover([({h}, None)])\nx = a.propose()\n'
          for h in (d_b, d_un)]),
  ]
  return out


def second_calls():
  """(source, [code]) whose result is the second DNA of the iteration."""
  return [
      ('iter_dna[default-args]/later',
       ['import itertools\nx = list(itertools.islice(spec.iter_dna(), 2))[1]\n',
        'i = spec.iter_dna(); next(i); x = next(i)\n']),
      ('iter_dna[attach_spec=True]/later',
       ['i = spec.iter_dna(None, True); next(i); x = next(i)\n']),
      ('next_dna[from-handed-out-dna]',
       ['x = spec.next_dna(spec.first_dna())\n',
        'x = spec.next_dna(spec.next_dna())\n',
        'x = spec.next_dna(next(spec.iter_dna()), True)\n']),
      ('DNA.next_dna[of-handed-out]',
       ['x = spec.first_dna().next_dna()\n',
        'x = spec.next_dna().next_dna()\n',
        'x = spec.first_dna().clone().next_dna()\n']),
      ('DNA.iter_dna[of-handed-out]/first',
       ['x = next(spec.first_dna().iter_dna())\n']),
      ('Sweeping.propose/later',
       ['a = pg.geno.Sweeping(); a.setup(spec); a.propose()\nx = a.propose()\n']),
      ('iter(Sweeping)/later',
       ['a = pg.geno.Sweeping(); a.setup(spec)\ni = iter(a); next(i); '
        'x = next(i)\n']),
      ('Deduping(Sweeping).propose/later',
       ['a = pg.geno.Deduping(pg.geno.Sweeping()); a.setup(spec); a.propose()\n'
        'x = a.propose()\n']),
  ]


def random_calls(s, prev_srcs, fns):
  """(source, [code]) that hand out a random DNA (seed s)."""
  rnd = f'random.Random({s})'
  out = []
  for fn, pre in fns:
    bare = pre.rstrip(', ') + ')'    # the call with nothing but the spec
    kw0 = pre
    out += [
        (f'{fn}[default-args]', [f'random.seed({s})\nx = {bare}\n']),
        (f'{fn}[random-module]', [
            f'random.seed({s})\nx = {pre}random)\n',
            f'random.seed({s})\nx = {kw0}random_generator=random)\n',
            f'random.seed({s})\nx = {pre}None)\n']),
        (f'{fn}[Random-object]', [f'x = {pre}{rnd})\n',
                                  f'x = {kw0}random_generator={rnd})\n']),
        (f'{fn}[attach_spec=True]', [
            f'x = {pre}{rnd}, True)\n',
            f'x = {pre}{rnd}, attach_spec=True)\n',
            f'random.seed({s})\nx = {kw0}attach_spec=True)\n']),
        (f'{fn}[attach_spec=False]+use_spec', [
            f'x = {pre}{rnd}, False).use_spec(spec)\n',
            f'x = {pre}{rnd}, attach_spec=False).use_spec(spec)\n']),
        (f'{fn}[previous_dna]', [
            f'p = {ps}\nx = {pre}{rnd}, {a})\n'
            for ps in prev_srcs
            for a in ('True, p', 'previous_dna=p',
                      'attach_spec=True, previous_dna=p')]
         + [f'random.seed({s})\np = {prev_srcs[0]}\n'
            f'x = {kw0}previous_dna=p)\n']),
        (f'{fn}[previous_dna,attach_spec=False]+use_spec', [
            f'p = {prev_srcs[0]}\n'
            f'x = {pre}{rnd}, False, p).use_spec(spec)\n']),
    ]
  gen = f'a = pg.geno.Random(seed={s}); a.setup(spec)\n'
  out += [
      ('geno.Random[seed].propose/first', [gen + 'x = a.propose()\n']),
      ('geno.Random[seed].propose/later',
       [gen + 'a.propose(); x = a.propose()\n']),
      ('iter(geno.Random)', [gen + 'x = next(iter(a))\n',
                             gen + 'i = iter(a); next(i); x = next(i)\n']),
      ('geno.Random[no-seed].propose',
       [f'random.seed({s})\na = pg.geno.Random(); a.setup(spec)\n'
        'x = a.propose()\n']),
      ('Deduping(geno.Random).propose',
       [f'a = pg.geno.Deduping(pg.geno.Random(seed={s}), max_duplicates=5); '
        'a.setup(spec)\nx = a.propose()\n']),
  ]
  return out


# fn of DNA.from_fn: the planned answers, looked up by decision point object
_FN_SRC = ('q = {}\n'
           'for p, a in ans:\n'
           "  q.setdefault(id(eval('spec.' + p) if p else spec), []).append(a)\n"
           'fn = lambda dp: q[id(dp)].pop(0)\n')


def _plan_src(plan):
  return plan_src(plan).replace(_c11.FN_SRC, _FN_SRC)


def parse_calls(m, t):
  """(source, [code]) that build member t for the spec from an exported view
  or from per-decision answers."""
  d_b = bind_src(t)
  out = [
      ('DNA(nested-numbers, spec=)',
       [f'x = D({d_b}.to_numbers(flatten=False), spec=spec)\n',
        f'x = D({d_b}.to_numbers(flatten=False), None, spec)\n']),
      ('DNA.parse[nested-numbers]',
       [f'x = D.parse({d_b}.to_numbers(flatten=False), spec)\n',
        f'x = D.parse({d_b}.to_numbers(flatten=False), spec=spec)\n']),
      ('from_numbers', [f'x = D.from_numbers({flat(t)!r}, spec)\n',
                        f'x = D.from_numbers({d_b}.to_numbers(), spec)\n']),
      ('from_dict[default-args]',
       [f'x = D.from_dict({d_b}.to_dict(), spec)\n',
        f'x = D.from_dict({d_b}.to_dict(), dna_spec=spec)\n']),
      ('from_parameters[default-args]',
       [f'x = D.from_parameters({d_b}.parameters(), spec)\n']),
      ('from_parameters[use_literal_values=False]',
       [f'x = D.from_parameters({d_b}.parameters(use_literal_values=False), '
        'spec, use_literal_values=False)\n',
        f'x = D.from_parameters({d_b}.parameters(False), spec, False)\n']),
      ('from_json[default-args]+use_spec',
       [f'x = pg.from_json({d_b}.to_json()).use_spec(spec)\n',
        f'x = D.from_json({d_b}.to_json()).use_spec(spec)\n',
        f'x = pg.from_json_str({d_b}.to_json_str()).use_spec(spec)\n']),
  ]
  if m != C:
    plan = plan_of(occurrences(m, t))
    out.append(('DNA.from_fn[index-answers]',
                [_plan_src(plan) + 'x = D.from_fn(spec, fn)\n',
                 _plan_src(plan) + 'x = D.from_fn(dna_spec=spec, '
                 'generator_fn=fn)\n']))
    # every top-level decision point answered with a ready-made sub-tree
    tops = occurrences(m, t)
    for o in tops:
      o.answer = ('dna', o.node)
    out.append(('DNA.from_fn[dna-answers]',
                [_plan_src(plan_of(tops)) + 'x = D.from_fn(spec, fn)\n']))
    # ... with DNAs that the decision points handed out themselves
    out.append(('DNA.from_fn[handed-out-dna-answers]', [
        'x = D.from_fn(spec, lambda dp: dp.first_dna())\n',
        f'rr = random.Random({len(flat(t))})\n'
        'x = D.from_fn(spec, lambda dp: dp.random_dna(rr))\n',
        'x = D.from_fn(spec, lambda dp: dp.next_dna(attach_spec=False))\n']))
  return out


def evolution_calls(s):
  algo = ('a = pg.evolution.regularized_evolution('
          f'pg.evolution.mutators.Uniform(seed={s}), population_size=3, '
          f'tournament_size=2, seed={s}); a.setup(spec)\n')
  return [
      ('regularized_evolution.propose/initial-population',
       [algo + 'x = a.propose()\n',
        algo + 'a.propose(); x = a.propose()\n']),
      ('regularized_evolution.propose/offspring',
       [algo + 'for i in range(3): a.feedback(a.propose(), float(i))\n'
        'x = a.propose()\n',
        algo + 'for i in range(5):\n  x = a.propose(); a.feedback(x, float(i))\n'
        'x = a.propose()\n']),
  ]


def run_entry(rec, m, spec, source, code, wm=None, pre='', globs=None):
  """Executes `code` (which assigns x) and audits x.  Returns x or None."""
  env = dict(_c11._ENV)  # pylint: disable=protected-access
  env.update({'pg': pg, 'D': pg.DNA, 'g': pg.geno, 'spec': spec,
              'random': _random})
  if globs:
    env.update(globs)
  full = 'import random\n' + pre + code
  state = _random.getstate()
  try:
    exec(code, env)  # pylint: disable=exec-used
    x = env.get('x')
  except BaseException as e:  # pylint: disable=broad-except
    if isinstance(e, (KeyboardInterrupt, SystemExit)):
      raise
    rec.case(f'aligned/{source}/raises', (src(wm or m), pre, code), False,
             f'{code.strip()!r} raised {type(e).__name__}: {e}'[:400],
             wit(wm or m, full))
    return None
  finally:
    _random.setstate(state)
  if not isinstance(x, pg.DNA):
    rec.case(f'aligned/{source}/returns-dna', (src(wm or m), pre, code), False,
             f'{code.strip()!r} gave {x!r}, want a DNA',
             wit(wm or m, full + 'assert isinstance(x, D), x'))
    return None
  audit_dna(rec, m, spec, x, source, full, wm)
  return x


def drv_entry_points(tier, seed):
  rec = Recorder(
      PROP, 'every public entry point hands out aligned DNAs, with its '
      'optional arguments left out, by keyword and by position',
      scope=('9 specs (root: space of several elements / one inlined '
             'multi-choice / conditional / with float and custom points, bare '
             'single choice, multi-choice, float, custom point, constant '
             'space) and every non-constant part of them taken as a spec of '
             'its own.  Heads of the iteration: first_dna, next_dna, iter_dna '
             '(no argument / None / attach_spec by keyword and by position), '
             'Sweeping and Deduping(Sweeping) via propose and iter, clones of '
             'handed out DNAs; second DNA of the iteration and continuation '
             'from a seeded member (quick 1, thorough 4 starts; unbound, '
             'bound, bound to an equal spec object, handed out by the '
             'library): next_dna, iter_dna, DNA.next_dna, DNA.iter_dna, '
             'recovered Sweeping; random: spec.random_dna / pg.random_dna '
             'with the global generator (default, module, None), a Random '
             'object, attach_spec and previous_dna by keyword and by position, '
             'geno.Random with and without seed, Deduping(Random) (quick 1, '
             'thorough 5 seeds); rebuilding a member (quick 1, thorough 5; '
             'from_fn one more) from nested numbers, numbers, to_dict(), '
             'parameters(), JSON and DNA.from_fn; regularized_evolution '
             'proposals (initial population, offspring); attach_spec=False '
             'followed by use_spec.  Every entry point is called on every '
             'spec; quick: one spelling of its arguments per spec, rotating, '
             'so that every spelling is used on some spec; thorough: every '
             'spelling on every spec.  Parts of a spec: the default-argument '
             'form of first_dna / next_dna / iter_dna / random_dna / '
             'pg.random_dna / DNA.next_dna.  Checked: output valid, bound, '
             'node.spec identity per position, to_dict vs expectation from '
             'raw numbers'))
  r = rng(seed, 'c12.entry')
  quick = tier == 'quick'
  t0 = time.process_time()
  budget = 30 if quick else 400
  n_start = 1 if quick else 4
  n_seed = 1 if quick else 5
  n_parse = 1 if quick else 5
  rot = [0]
  # pg.geno.random_dna is the same function object as pg.random_dna unless a
  # change makes them differ; then both are entry points.
  fns = [('random_dna', 'spec.random_dna('),
         ('pg.random_dna', 'pg.random_dna(spec, ')]
  if pg.geno.random_dna is not pg.random_dna:
    fns.append(('pg.geno.random_dna', 'pg.geno.random_dna(spec, '))

  def run_all(m, spec, calls, wm=None, pre=''):
    rot[0] += 1
    for j, (source, codes) in enumerate(calls):
      if quick:
        codes = [codes[(rot[0] + j) % len(codes)]]
      for code in codes:
        run_entry(rec, m, spec, source + ('@part-of-spec' if wm else ''), code,
                  wm, pre)

  for label, m in entry_specs():
    if time.process_time() - t0 > budget:
      break
    spec = build(m)
    mem = members(m)
    run_all(m, spec, head_calls())
    if is_finite(m) and len(mem) >= 2:
      run_all(m, spec, second_calls())
      if len(mem) >= 3:
        for i in sorted(r.sample(range(1, len(mem) - 1),
                                 min(n_start, len(mem) - 2))):
          run_all(m, spec, later_calls(mem[i], src(m)))
    # random generation
    for _ in range(n_seed):
      s = r.randrange(10**6)
      prevs = [dsrc(r.choice(mem)), bind_src(r.choice(mem)),
               f'spec.random_dna(random.Random({s + 1}))']
      run_all(m, spec, random_calls(s, prevs, fns))
      if m != C:
        run_all(m, spec, evolution_calls(s))
    # rebuilding members
    sample = sample_members(m, n_parse + 1, r)
    for k, t in enumerate(sample):
      calls = parse_calls(m, t)
      run_all(m, spec, calls if k < n_parse else
              [c for c in calls if c[0].startswith('DNA.from_fn')])
    # ---- the parts of the specification, each taken as a spec ------------
    for sub_m, sub, attr in node_pairs(m, spec):
      if not attr or sub_m == C:
        continue
      if time.process_time() - t0 > budget:
        break
      s = r.randrange(10**6)
      keep = ('first_dna[default-args]', 'next_dna[head,default-args]',
              'iter_dna[default-args]/first', 'random_dna[default-args]',
              'random_dna[Random-object]', 'pg.random_dna[default-args]')
      calls = [c for c in head_calls() + random_calls(s, ['None'], fns)
               if c[0] in keep]
      if is_finite(sub_m) and count_members(sub_m) >= 2:
        calls += [c for c in second_calls()
                  if c[0] in ('DNA.next_dna[of-handed-out]',
                              'iter_dna[default-args]/later')]
      run_all(sub_m, sub, calls, wm=m, pre=f'spec = spec{attr}\n')
  return rec.result()


DRIVERS = [drv_numbers_and_json, drv_dict_views, drv_alignment,
           drv_literal_forms, drv_hyper_specs, drv_operator_matrix,
           drv_binding_history, drv_edit_history, drv_entry_points]


def replay(rec):
  """Re-executes rec['witness']; returns (ok, message)."""
  try:
    exec(rec['witness'], {})  # pylint: disable=exec-used
    return True, 'witness passes'
  except Exception as e:  # pylint: disable=broad-except
    return False, f'{type(e).__name__}: {e}'
