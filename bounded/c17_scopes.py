"""C17 bounded drivers: scoped settings restore exactly and never leak across threads.

Every manager is described by *source strings* (so that the executed program and
the witness are the same text) plus a tiny reference model of its documented
nesting rule.  A program is a well-nested tree of

    ('W', manager, arg_index, [children])   with <cm> as y: ...
    ('R', 'E'|'B')                          raise E_() / BE_()   (Exception / BaseException)
    ('T', [children])                       try: ... except BaseException: pass
    ('C',)                                  w = pg.with_contextual_override(getter)
    ('A', action)                           an operation of the public API performed *inside* the
                                            block on the scope object / yielded value / scoped
                                            state (t.end(), thread_local_set(...), y.clear(), ...)

A manager argument may also be marked `exit_raises`: the user callback it was
given (exit_fn) raises E_ when the block is left normally, i.e. the `with`
statement itself raises after its body completed.

The executor probes every getter (and the behavioural probes of the involved
state keys) at every slot of every block, after every exceptional exit of every
`with`, compares with the model, and finally with the initial state.

Besides the getters and one behavioural probe per setting there is, per
setting, a *consumer matrix* (section "Consumer matrices"): every operation
documented to obey the setting, over the sibling classes and entry points.
Matrices are expensive and evaluated only by drv_setting_consumers.
"""
import contextlib
import itertools
import queue
import threading

import pyglove as pg
from pyvc.bounded import Recorder, rng

SKIP = ('<skip>',)

COMMON = '''import pyglove as pg, threading, contextlib
class E_(Exception): pass
class BE_(BaseException): pass
def ok_(f, *a, **k):
  try: f(*a, **k); return True
  except (TypeError, ValueError, KeyError, pg.WritePermissionError): return False
'''


class Key:
  """One piece of scoped state: initial model value + probes."""

  def __init__(self, name, prelude, init, probes, process_wide=False):
    self.name = name
    self.prelude = prelude
    self.init = init
    self.probes = probes          # list of Probe
    self.process_wide = process_wide


class Probe:
  def __init__(self, name, src, expect, behavioural=False, template=False,
               expensive=False, table=None, evaluator='ok_', flags='None'):
    self.name = name
    self.expensive = expensive    # only probed right after enter / exception exit / at the end
    # A *consumer matrix* (table is not None): `table` names a list of (consumer
    # name, fn(flag)) in the consumers prelude; the probe evaluates every
    # consumer for every object-level flag value in `flags` (source of an
    # argument list, or fn(model) -> source) and `expect` returns {consumer
    # name: expected tuple}.  A mismatch is reported under an id of its own,
    # '<probe>[<consumer>]/<phase>'.  Matrices are expensive: they are only
    # evaluated by the drivers that ask for them (Ctx.heavy).
    self.table, self.evaluator, self.flags = table, evaluator, flags
    self.heavy = table is not None
    if self.heavy:
      src, behavioural, template, expensive = '<matrix>', True, False, True
      self.expensive = True
    self.src = src
    self.expect = expect          # fn(full model dict) -> value | SKIP
    self.behavioural = behavioural
    self.template = src if template else None   # '%s' <- repr(model state of the key)
    self.code = None if (template or self.heavy) else compile(src, f'<probe {name}>', 'eval')

  def _flags(self, model):
    return self.flags(model) if callable(self.flags) else self.flags

  def matrix_src(self, model):
    return f'mx_({self.table}, {self.evaluator}, {self._flags(model)})'

  def consumer_src(self, model, consumer):
    return f'mx1_({self.table}, {consumer!r}, {self.evaluator}, {self._flags(model)})'


class Arg:
  def __init__(self, src, marg, enter_raises=None, allowed=None, exit_probe=None,
               exit_raises=False):
    self.exit_raises = exit_raises  # the user callback run at normal exit raises E_
    self.src = src                # source of the context manager expression
    self.marg = marg              # model-side argument
    self.enter_raises = enter_raises
    self.allowed = allowed        # fn(key state) -> bool
    self.exit_probe = exit_probe  # (src, delta_normal, delta_exc_E)
    self.code = compile(src, '<cm>', 'eval')


class Mgr:
  def __init__(self, name, key, args, enter, yields=None, hook=None,
               process_wide=False, conflicts=()):
    self.name = name
    self.key = key                # Key name
    self.args = args
    self.enter = enter            # fn(key state, marg) -> key state inside
    self.yields = yields          # fn(state before, marg, state inside) -> expected yield (plain data) | SKIP
    self.hook = hook
    self.process_wide = process_wide
    self.conflicts = conflicts    # manager names that must not enclose / be enclosed


class Act:
  """An operation performed inside the block of an open scope.

  `src` is a statement; '{y}' stands for the value yielded by the target scope:
  the (1+up)-th innermost open scope of one of the managers `mgrs`.  `effect`
  (model, depth) updates the model of every block from the target's block down
  to the current one (depth = index of the target among the open scopes of
  `mgrs`).  A `dirty` action leaves the scoped state *inside* the block
  unspecified (the block mutated the value it was handed); the only demand is
  the one of the property statement: leaving the block restores the state
  observed before entering."""

  def __init__(self, name, mgrs, src, tag, effect=None, up=0, dirty=False):
    self.name, self.mgrs, self.src, self.tag = name, tuple(mgrs), src, tag
    self.effect, self.up, self.dirty = effect, up, dirty
    self.code = compile(src.format(y='Y_'), f'<action {name}>', 'exec')


KEYS = {}
MGRS = {}
ACTS = {}


def _act(*a, **k):
  x = Act(*a, **k)
  ACTS[x.name] = x
  return x


def _key(*a, **k):
  x = Key(*a, **k)
  KEYS[x.name] = x
  return x


def _mgr(*a, **k):
  x = Mgr(*a, **k)
  MGRS[x.name] = x
  return x


def _innermost(state, marg):
  return marg


def _blocked(m):
  """Scopes under which probes that build/modify symbolic objects are refused."""
  return m['sealed'] is True or m['writable'] is False


# ---------------------------------------------------------------------------
# flags.py managers (thread_local_value_scope); rule: innermost scope wins.
# ---------------------------------------------------------------------------

_key('notify', '''class N_(pg.Object):
  x: int = 0
  def _on_change(self, u): N_.c[threading.get_ident()] = N_.c.get(threading.get_ident(), 0) + 1
N_.c = {}
def p_notify():
  n = N_(); i = threading.get_ident(); c = N_.c.get(i, 0); n.rebind(x=1); return N_.c.get(i, 0) > c
def p_notify_l():
  got = []; l = pg.List([pg.Dict(a=1)], onchange_callback=lambda u: got.append(1)); l.append(2); l[0].a = 3
  return len(got)
''', True, [
    Probe('notify.getter', 'pg.symbolic.is_change_notification_enabled()',
          lambda m: m['notify']),
    Probe('notify.rebind-calls-on_change', 'p_notify()',
          lambda m: SKIP if _blocked(m) else m['notify'], True),
    Probe('notify.list-and-dict-callbacks', 'p_notify_l()',
          lambda m: SKIP if _blocked(m) else (2 if m['notify'] else 0), True),
])
_mgr('notify_on_change', 'notify',
     [Arg('pg.notify_on_change(False)', False), Arg('pg.notify_on_change(True)', True),
      Arg('pg.notify_on_change()', True)], _innermost)

_key('typecheck', '''VS_ = pg.typing.Dict([('x', pg.typing.Int())])
@pg.functor([], returns=pg.typing.Int())
def rf_(): return 'a'
with pg.auto_call_functors(False): rf0_ = rf_()
def p_tc():
  return (not ok_(pg.Dict, x='a', value_spec=VS_),
          not ok_(pg.List, ['a'], value_spec=pg.typing.List(pg.typing.Int())),
          not ok_(rf0_))
''', True, [
    Probe('typecheck.getter', 'pg.symbolic.is_type_check_enabled()',
          lambda m: m['typecheck']),
    Probe('typecheck.dict-list-functor-return', 'p_tc()',
          lambda m: (m['typecheck'],) * 3, True),
])
_mgr('enable_type_check', 'typecheck',
     [Arg('pg.enable_type_check(False)', False), Arg('pg.enable_type_check(True)', True),
      Arg('pg.enable_type_check()', True)], _innermost)

_key('origin', '''D_ = pg.Dict(x=1)
def p_origin(): return (D_.clone().sym_origin is not None, pg.Dict().sym_origin is not None)
''', False, [
    Probe('origin.getter', 'pg.symbolic.is_tracking_origin()', lambda m: m['origin']),
    Probe('origin.clone-and-init-origin', 'p_origin()', lambda m: (m['origin'],) * 2, True),
])
_mgr('track_origin', 'origin',
     [Arg('pg.track_origin(True)', True), Arg('pg.track_origin(False)', False),
      Arg('pg.track_origin()', True)], _innermost)


def _tri(state, unset, on, off):
  return unset if state is None else (on if state else off)


_key('writable', '''def w_(d):
  try: d.a = 2; return True
  except pg.WritePermissionError: return False
def p_writable(): return (w_(pg.Dict()), w_(pg.Dict(accessor_writable=False)))
''', None, [
    Probe('writable.getter', 'pg.symbolic.is_under_accessor_writable_scope()',
          lambda m: m['writable']),
    Probe('writable.setattr-on-writable-and-nonwritable', 'p_writable()',
          lambda m: SKIP if m['sealed'] is True else
          _tri(m['writable'], (True, False), (True, True), (False, False)), True),
])
_mgr('allow_writable_accessors', 'writable',
     [Arg('pg.allow_writable_accessors(False)', False),
      Arg('pg.allow_writable_accessors(True)', True),
      Arg('pg.allow_writable_accessors(None)', None),
      Arg('pg.allow_writable_accessors()', True)], _innermost)

_key('sealed', '''def rb_(d):
  try: d.rebind(a=2); return True
  except pg.WritePermissionError: return False
def p_sealed(): return (rb_(pg.Dict()), rb_(pg.Dict().seal()))
''', None, [
    Probe('sealed.getter', 'pg.symbolic.is_under_sealed_scope()', lambda m: m['sealed']),
    Probe('sealed.rebind-on-unsealed-and-sealed', 'p_sealed()',
          lambda m: _tri(m['sealed'], (True, False), (False, False), (True, True)), True),
])
_mgr('as_sealed', 'sealed',
     [Arg('pg.as_sealed(True)', True), Arg('pg.as_sealed(False)', False),
      Arg('pg.as_sealed(None)', None), Arg('pg.as_sealed()', True)], _innermost)

_key('partial', '''class PA_(pg.Object):
  x: int
  y: int
def p_partial(): return (ok_(PA_, x=1), ok_(PA_.partial, x=1))
''', None, [
    Probe('partial.getter', 'pg.symbolic.is_under_partial_scope()', lambda m: m['partial']),
    Probe('partial.construct-missing-field', 'p_partial()',
          lambda m: SKIP if (not m['typecheck'] or _blocked(m)) else
          _tri(m['partial'], (False, True), (True, True), (False, False)), True),
])
_mgr('allow_partial', 'partial',
     [Arg('pg.allow_partial(True)', True), Arg('pg.allow_partial(False)', False),
      Arg('pg.allow_partial(None)', None), Arg('pg.allow_partial()', True)], _innermost)

_key('autocall', '''@pg.symbolize
def foo_(x, y): return x + y
def p_autocall(): return foo_(1, 2) == 3 and isinstance(foo_(1, 2), int)
''', None, [
    Probe('autocall.getter', 'pg.symbolic.should_call_functors_during_init()',
          lambda m: m['autocall']),
    Probe('autocall.functor-init-returns-result', 'p_autocall()',
          lambda m: bool(m['autocall']), True),
])
_mgr('auto_call_functors', 'autocall',
     [Arg('pg.auto_call_functors(True)', True), Arg('pg.auto_call_functors(False)', False),
      Arg('pg.auto_call_functors()', True)], _innermost)


# ---------------------------------------------------------------------------
# contextual overrides.  State: {name: (value, cascade, override_attrs)}.
# Rule: inner scope replaces a variable unless the enclosing entry has
# cascade=True, in which case the enclosing entry stays.
# ---------------------------------------------------------------------------

def _ctx_enter(state, marg):
  new = dict(state)
  for k, v in marg.items():
    old = new.get(k)
    if old is not None and old[1]:
      continue
    new[k] = v
  return new


_CTX_PRELUDE = '''CX_ = pg.utils.contextual.ContextualOverride
def ov_(o): return None if o is None else (o.value, o.cascade, o.override_attrs)
class CO_(pg.ContextualObject):
  x: int = pg.contextual_attribute()
  y: int = 1
co_ = CO_()
def at_(n):
  try: return getattr(co_, n)
  except AttributeError: return 'AE'
def gx_(): return {k: ov_(pg.utils.get_contextual_override(k)) for k in 'xy' if pg.utils.get_contextual_override(k) is not None}
def th_(f):
  r = []; t = threading.Thread(target=lambda: r.append(f())); t.start(); t.join(); return r[0]
TL_ = threading.local()
'''


def _co_attr(m, name):
  obj = m['objoverride'].get(name)
  if obj is not None:
    return obj[0]
  g = m['ctx'].get(name)
  if name == 'x':
    return g[0] if g is not None else 'AE'
  return g[0] if (g is not None and g[2]) else 1


_key('ctx', _CTX_PRELUDE, {}, [
    Probe('contextual.get_contextual_override', 'gx_()', lambda m: dict(m['ctx'])),
    Probe('contextual.contextual_value',
          "(pg.contextual_value('x', 'D'), pg.contextual_value('y', 'D'), ok_(pg.contextual_value, 'x'))",
          lambda m: (m['ctx']['x'][0] if 'x' in m['ctx'] else 'D',
                     m['ctx']['y'][0] if 'y' in m['ctx'] else 'D', 'x' in m['ctx'])),
    Probe('contextual.all_contextual_values', 'pg.utils.all_contextual_values()',
          lambda m: {k: v[0] for k, v in m['ctx'].items()}),
    Probe('contextual.object-attribute-inference', "(at_('x'), at_('y'))",
          lambda m: (_co_attr(m, 'x'), _co_attr(m, 'y')), True),
    Probe('contextual.with_contextual_override-in-new-thread',
          'th_(pg.with_contextual_override(gx_))', lambda m: dict(m['ctx']), True, expensive=True),
    Probe('contextual.not-inherited-by-new-thread', 'th_(gx_)', lambda m: {}, True, expensive=True),
])


def _cx(**kw):
  return kw


_mgr('contextual_override', 'ctx', [
    Arg('pg.contextual_override(x=1)', _cx(x=(1, False, False))),
    Arg('pg.contextual_override(x=2, cascade=True)', _cx(x=(2, True, False))),
    Arg('pg.contextual_override(y=3)', _cx(y=(3, False, False))),
    Arg('pg.contextual_override(x=0, y=5, override_attrs=True)',
        _cx(x=(0, False, True), y=(5, False, True))),
    Arg('pg.contextual_override(x=CX_(6, cascade=True), y=7)',
        _cx(x=(6, True, False), y=(7, False, False))),
    Arg('pg.contextual_override(y=None, cascade=True, override_attrs=True)',
        _cx(y=(None, True, True))),
    Arg('pg.contextual_override()', {}),
], _ctx_enter, yields=lambda b, a, s: SKIP)

_key('ctxtls', _CTX_PRELUDE, {}, [
    Probe('contextual_scope.get_scoped_value',
          "{k: ov_(pg.utils.contextual.get_scoped_value(TL_, k)) for k in 'xy' if pg.utils.contextual.get_scoped_value(TL_, k) is not None}",
          lambda m: dict(m['ctxtls'])),
])
_mgr('contextual_scope', 'ctxtls', [
    Arg('pg.utils.contextual.contextual_scope(TL_, x=CX_(1))', _cx(x=(1, False, False))),
    Arg('pg.utils.contextual.contextual_scope(TL_, x=CX_(2, cascade=True), y=CX_(3))',
        _cx(x=(2, True, False), y=(3, False, False))),
    Arg('pg.utils.contextual.contextual_scope(TL_, y=CX_(4, cascade=True))', _cx(y=(4, True, False))),
    Arg('pg.utils.contextual.contextual_scope(TL_)', {}),
], _ctx_enter)

_key('objoverride', _CTX_PRELUDE, {}, [])    # observed through contextual.object-attribute-inference
_mgr('contextual_object_override', 'objoverride', [
    Arg('co_.override(x=9)', _cx(x=(9, False, False))),
    Arg('co_.override(y=8)', _cx(y=(8, False, False))),
    Arg('co_.override(x=10, y=11)', _cx(x=(10, False, False), y=(11, False, False))),
], _ctx_enter)
KEYS['objoverride'].probes.append(KEYS['ctx'].probes[3])


# ---------------------------------------------------------------------------
# str_format / repr_format / raw arg scope: inner kwargs are merged over outer.
# ---------------------------------------------------------------------------

def _merge_enter(state, marg):
  new = dict(state)
  new.update(marg)
  return new


_FMT_PRELUDE = '''FO_ = pg.Dict(x=1, y=pg.Dict(z='a'))
'''
for _which in ('str', 'repr'):
  _key(_which + 'fmt', _FMT_PRELUDE, {}, [
      Probe(f'{_which}_format.kwargs', f'FO_.__{_which}_kwargs__()',
            (lambda w: lambda m: dict(getattr(pg.Dict, f'__{w}_format_kwargs__'), **m[w + 'fmt']))(_which)),
      Probe(f'{_which}_format.rendering',
            f'{_which}(FO_) == pg.format(FO_, **dict(pg.Dict.__{_which}_format_kwargs__, **%s))',
            lambda m: True, True, template=True),
  ])
  _mgr(_which + '_format', _which + 'fmt', [
      Arg(f'pg.{_which}_format(compact=True)', dict(compact=True)),
      Arg(f'pg.{_which}_format(compact=False, verbose=False)', dict(compact=False, verbose=False)),
      Arg(f'pg.{_which}_format(hide_default_values=True, python_format=True)',
          dict(hide_default_values=True, python_format=True)),
      Arg(f'pg.{_which}_format()', {}),
  ], _merge_enter, yields=lambda b, a, s: dict(s))

_key('argscope', '', {}, [
    Probe('arg_scope.kwargs', "pg.utils.thread_local.thread_local_kwargs('a17_')",
          lambda m: dict(m['argscope'])),
])
_mgr('thread_local_arg_scope', 'argscope', [
    Arg("pg.utils.thread_local.thread_local_arg_scope('a17_', x=1)", dict(x=1)),
    Arg("pg.utils.thread_local.thread_local_arg_scope('a17_', x=2, y=3)", dict(x=2, y=3)),
    Arg("pg.utils.thread_local.thread_local_arg_scope('a17_', y=None)", dict(y=None)),
    Arg("pg.utils.thread_local.thread_local_arg_scope('a17_')", {}),
], _merge_enter, yields=lambda b, a, s: dict(s))

# Raw value scope.  State: ('absent',) or ('set', value).
_key('valscope', '''@contextlib.contextmanager
def preset_(v):
  pg.utils.thread_local_set('k17_', v)
  try: yield
  finally: pg.utils.thread_local_del('k17_')
''', ('absent',), [
    Probe('value_scope.has-and-get',
          "(pg.utils.thread_local_has('k17_'), pg.utils.thread_local_get('k17_', 'D'))",
          lambda m: (False, 'D') if m['valscope'] == ('absent',) else (True, m['valscope'][1])),
])
_mgr('thread_local_value_scope', 'valscope', [
    Arg("pg.utils.thread_local_value_scope('k17_', 1, 0)", ('set', 1)),
    Arg("pg.utils.thread_local_value_scope('k17_', 2, 0)", ('set', 2)),
    Arg("pg.utils.thread_local_value_scope('k17_', None, 0)", ('set', None)),
    Arg("preset_('P')", ('set', 'P'), allowed=lambda s: s == ('absent',)),
], _innermost)


def _set_effect(key, value):
  def eff(model, depth):
    del depth
    model[key] = value
  return eff


_act('value_scope.set', ['thread_local_value_scope'], "pg.utils.thread_local_set('k17_', 'S')",
     'set-in-block', _set_effect('valscope', ('set', 'S')))
_act('value_scope.set-none', ['thread_local_value_scope'], "pg.utils.thread_local_set('k17_', None)",
     'set-in-block', _set_effect('valscope', ('set', None)))


# ---------------------------------------------------------------------------
# view options (deep merge, inner over outer) and view-method tracking.
# ---------------------------------------------------------------------------

def _deep_merge(a, b):
  out = dict(a)
  for k, v in b.items():
    if isinstance(v, dict) and isinstance(out.get(k), dict):
      out[k] = _deep_merge(out[k], v)
    else:
      out[k] = v
  return out


_VIEW_PRELUDE = '''class PV_(pg.views.View):
  VIEW_ID = 'c17probe_'
  def render(self, value, *, name=None, root_path=None, **kwargs):
    PV_.last[threading.get_ident()] = kwargs; return pg.Html('x')
PV_.last = {}
def pv_(**kw):
  pg.view(1, view_id='c17probe_', **kw); return PV_.last[threading.get_ident()]
V_ = pg.views.View.create('c17probe_')
'''
_key('viewopt', _VIEW_PRELUDE, {}, [
    Probe('view_options.options-seen-by-render', 'pv_()', lambda m: m['viewopt'], True),
    Probe('view_options.call-kwargs-merged-over-scope', 'pv_(b=dict(c=9))',
          lambda m: _deep_merge(m['viewopt'], dict(b=dict(c=9))), True),
])
_mgr('view_options', 'viewopt', [
    Arg('pg.view_options(a=1)', dict(a=1)),
    Arg('pg.view_options(b=dict(c=1, d=2))', dict(b=dict(c=1, d=2))),
    Arg('pg.view_options(b=dict(c=5))', dict(b=dict(c=5))),
    Arg('pg.view_options(a=2, b=dict(e=dict(f=3)))', dict(a=2, b=dict(e=dict(f=3)))),
    Arg('pg.view_options()', {}),
], _deep_merge, yields=lambda b, a, s: s)

_key('viewtrack', _VIEW_PRELUDE, {}, [
    Probe('view_tracking.operand-stack',
          "(pg.utils.thread_local_has('__view_operand_stack__'), dict(pg.utils.thread_local_get('__view_operand_stack__', {})))",
          lambda m: (bool(m['viewtrack']), dict(m['viewtrack']))),
])
_mgr('view_track_rendering', 'viewtrack', [
    Arg("V_._track_rendering('e1', 'm1')", ('m1', 'e1')),
    Arg("V_._track_rendering('e2', 'm1')", ('m1', 'e2')),
    Arg("V_._track_rendering('e1', 'm2')", ('m2', 'e1')),
], lambda s, a: dict(s, **{a[0]: a[1]}), yields=lambda b, a, s: b.get(a[0]))


# ---------------------------------------------------------------------------
# pg.coding.context (merge) and pg.coding.permission (outermost wins).
# ---------------------------------------------------------------------------

_CODING_PRELUDE = '''P_ = pg.coding.CodePermission
def ev_(c):
  try: return pg.coding.evaluate(c)
  except pg.coding.CodeError as e: return type(e.cause).__name__
def gc_():
  c = pg.coding.get_context(); c['q_'] = 1; return pg.coding.get_context()
'''
_key('codectx', _CODING_PRELUDE, {}, [
    Probe('coding.context.get_context', 'gc_()', lambda m: dict(m['codectx'])),
    Probe('coding.context.symbols-visible-to-evaluate', "(ev_('x'), ev_('y'))",
          lambda m: (m['codectx'].get('x', 'NameError'), m['codectx'].get('y', 'NameError')),
          True),
])
_mgr('coding.context', 'codectx', [
    Arg('pg.coding.context(x=1)', dict(x=1)),
    Arg('pg.coding.context(y=2)', dict(y=2)),
    Arg('pg.coding.context(x=3, y=None)', dict(x=3, y=None)),
    Arg('pg.coding.context()', {}),
], _merge_enter, yields=lambda b, a, s: dict(s))

_ASSIGN, _CALL, _ALL = 1, 8, 255
_key('codeperm', _CODING_PRELUDE, None, [
    Probe('coding.permission.get_permission',
          '(lambda p: None if p is None else p.value)(pg.coding.get_permission())',
          lambda m: m['codeperm']),
    Probe('coding.permission.enforced-by-evaluate', "(ev_('q_ = 1'), ev_('len([])'))",
          lambda m: (1 if (m['codeperm'] is None or m['codeperm'] & _ASSIGN) else 'SyntaxError',
                     0 if (m['codeperm'] is None or m['codeperm'] & _CALL) else 'SyntaxError'),
          True),
])
_mgr('coding.permission', 'codeperm', [
    Arg('pg.coding.permission(P_.ASSIGN)', 1),
    Arg('pg.coding.permission(P_.ALL)', 255),
    Arg('pg.coding.permission(P_.CALL | P_.LOOP)', 12),
    Arg('pg.coding.permission(P_(0))', 0),
], lambda s, a: a if s is None else s,
     yields=lambda b, a, s: SKIP)
MGRS['coding.permission'].yconv = 'lambda y: y.value'
MGRS['contextual_override'].yields = lambda b, a, s: dict(s)
MGRS['contextual_override'].yconv = 'lambda y: {k: ov_(v) for k, v in y.items()}'
MGRS['contextual_scope'].yields = lambda b, a, s: dict(s)
MGRS['contextual_scope'].yconv = 'lambda y: {k: ov_(v) for k, v in y.items()}'
MGRS['coding.permission'].yields = lambda b, a, s: s


# ---------------------------------------------------------------------------
# detour / apply_wrappers.  State {src class name: destination name}.
# Rules (docstring of pg.detour): the enclosing mapping of a source class wins;
# a new source whose destination is itself detoured by the enclosing scope is
# mapped to that final destination; otherwise the new mapping is added.
# ---------------------------------------------------------------------------

def _detour_enter(state, marg):
  new = dict(state)
  for s, d in marg:
    if s not in state:
      new[s] = state.get(d, d)
  return new


_DETOUR_PRELUDE = '''class DA_:
  def __init__(self, v=0): self.v = v
class DB_:
  def __init__(self, v=0): self.v = v
class DC_:
  def __init__(self, v=0): self.v = v
def dfn_(cls, v=0): return ('fn', cls.__name__, type(cls(v)).__name__, v)
def dr_(o): return o if isinstance(o, tuple) else (type(o).__name__, o.v)
class WX_:
  def __init__(self, v=0): self.v = v
class WY_:
  def __init__(self, v=0): self.v = v
WXW_ = pg.wrap(WX_); WYW_ = pg.wrap(WY_)
NM_ = {WXW_: 'WXW_', WYW_: 'WYW_'}
def dn_(y): return {k.__name__: NM_.get(v, v.__name__) for k, v in y.items()}
def dm_(): return dn_(pg.detouring.current_mappings())
def wr_(): return (isinstance(WX_(1), WXW_), isinstance(WY_(1), WYW_))
'''


def _detour_new(m, name):
  d = m['detour'].get(name, name)
  if d == 'dfn_':
    return ('fn', name, name, 4)
  return (d, 4)


_key('detour', _DETOUR_PRELUDE, {}, [
    Probe('detour.current_mappings', 'dm_()', lambda m: dict(m['detour'])),
    Probe('detour.instantiation', '(dr_(DA_(4)), dr_(DB_(4)), dr_(DC_(4)))',
          lambda m: tuple(_detour_new(m, n) for n in ('DA_', 'DB_', 'DC_')), True),
    Probe('apply_wrappers.instantiation', 'wr_()',
          lambda m: (m['detour'].get('WX_') == 'WXW_', m['detour'].get('WY_') == 'WYW_'), True),
])
_mgr('detour', 'detour', [
    Arg('pg.detour([(DA_, DB_)])', [('DA_', 'DB_')]),
    Arg('pg.detour([(DB_, DC_)])', [('DB_', 'DC_')]),
    Arg('pg.detour([(DA_, DC_)])', [('DA_', 'DC_')]),
    Arg('pg.detour([(DA_, DC_), (DC_, DA_)])', [('DA_', 'DC_'), ('DC_', 'DA_')]),
    Arg('pg.detour([(DC_, dfn_)])', [('DC_', 'dfn_')]),
    Arg('pg.detour([])', []),
    Arg('pg.detour([(DA_, DB_), (1, DA_)])', [], enter_raises='TypeError'),
    Arg('pg.detour([(DC_, 1)])', [], enter_raises='TypeError'),
], _detour_enter, yields=lambda b, a, s: dict(s))
MGRS['detour'].yconv = 'dn_'
# apply_wrappers is documented as NOT thread-safe -> treated as process-wide.
_mgr('apply_wrappers', 'detour', [
    Arg('pg.apply_wrappers([WXW_])', [('WX_', 'WXW_')]),
    Arg('pg.apply_wrappers([WYW_, WXW_])', [('WY_', 'WYW_'), ('WX_', 'WXW_')]),
    Arg('pg.apply_wrappers(where=lambda c: c is WYW_)', [('WY_', 'WYW_')]),
], _detour_enter, process_wide=True)


# ---------------------------------------------------------------------------
# dynamic evaluation: innermost evaluate_fn wins (None switches it off).
# ---------------------------------------------------------------------------

_DYN_PRELUDE = '''def f1_(hv): return ('f1', type(hv).__name__)
def f2_(hv): return ('f2', type(hv).__name__)
EX_ = {}
def ex_(): EX_[threading.get_ident()] = EX_.get(threading.get_ident(), 0) + 1
def exn_(): return EX_.get(threading.get_ident(), 0)
def exr_(): ex_(); raise E_()
def dy_():
  a = pg.oneof([1, 2]); b = pg.floatv(0.0, 1.0)
  return (a if isinstance(a, (tuple, int)) else type(a).__name__, b if isinstance(b, (tuple, float)) else type(b).__name__)
'''
_DYN_EXPECT = {
    None: ('OneOf', 'Float'), 'f1': (('f1', 'OneOf'), ('f1', 'Float')),
    'f2': (('f2', 'OneOf'), ('f2', 'Float')), 'collect': (1, 0.0)}
_key('dyneval', _DYN_PRELUDE, None, [
    Probe('dynamic_evaluate.hyper-primitive-creation', 'dy_()',
          lambda m: SKIP if (not m['typecheck'] or _blocked(m)) else _DYN_EXPECT[m['dyneval']], True),
])
_mgr('dynamic_evaluate', 'dyneval', [
    Arg('pg.hyper.dynamic_evaluate(f1_)', 'f1'),
    Arg('pg.hyper.dynamic_evaluate(f2_, yield_value=5, exit_fn=ex_)', 'f2',
        exit_probe=('exn_()', 1, 0)),
    Arg('pg.hyper.dynamic_evaluate(None, exit_fn=ex_)', None, exit_probe=('exn_()', 1, 0)),
    Arg('pg.hyper.DynamicEvaluationContext().collect()', 'collect'),
    Arg('pg.hyper.dynamic_evaluate(1)', None, enter_raises='ValueError'),
    Arg('pg.hyper.dynamic_evaluate(f1_, exit_fn=1)', None, enter_raises='ValueError'),
    # exit_fn raises (e.g. a finalizer complaining about unused decisions).
    Arg('pg.hyper.dynamic_evaluate(f1_, exit_fn=exr_)', 'f1',
        exit_probe=('exn_()', 1, 0), exit_raises=True),
    Arg('pg.hyper.dynamic_evaluate(None, yield_value=3, exit_fn=exr_)', None,
        exit_probe=('exn_()', 1, 0), exit_raises=True),
], _innermost, conflicts=('dynamic_evaluate_global',))
_mgr('dynamic_evaluate_global', 'dyneval', [
    Arg('pg.hyper.dynamic_evaluate(f1_, per_thread=False)', 'f1'),
    Arg('pg.hyper.dynamic_evaluate(f2_, exit_fn=ex_, per_thread=False)', 'f2',
        exit_probe=('exn_()', 1, 0)),
    Arg('pg.hyper.dynamic_evaluate(None, per_thread=False)', None),
    Arg('pg.hyper.DynamicEvaluationContext(per_thread=False).collect()', 'collect'),
    Arg('pg.hyper.dynamic_evaluate(f2_, exit_fn=exr_, per_thread=False)', 'f2',
        exit_probe=('exn_()', 1, 0), exit_raises=True),
], _innermost, process_wide=True, conflicts=('dynamic_evaluate',))


# ---------------------------------------------------------------------------
# on-demand deserialization types (process-wide): inner names merged over outer.
# ---------------------------------------------------------------------------

_LT_PRELUDE = '''class LT1_(pg.Object):
  auto_register = False
  x: int = 1
class LT2_(pg.Object):
  auto_register = False
LT1a_ = LT1_
class LT1_(pg.Object):
  auto_register = False
  z: int = 2
LT1b_ = LT1_
def lt_():
  r = {}
  for n in ('LT1_', 'LT2_'):
    c = pg.JSONConvertible.class_from_typename('nomod17_.' + n)
    if c is not None: r[n] = {LT1a_: 'a', LT1b_: 'b', LT2_: '2'}[c]
  return r
def ltj_():
  try: return type(pg.from_json({'_type': 'nomod17_.LT1_'})) is LT1a_
  except TypeError: return None
'''
_key('loadtypes', _LT_PRELUDE, {}, [
    Probe('load_types.class_from_typename', 'lt_()', lambda m: dict(m['loadtypes'])),
    Probe('load_types.from_json', 'ltj_()',
          lambda m: SKIP if (m['loadtypes'].get('LT1_') and (_blocked(m) or not m['typecheck']))
          else {None: None, 'a': True, 'b': False}[m['loadtypes'].get('LT1_')], True),
], process_wide=True)
_mgr('load_types_for_deserialization', 'loadtypes', [
    Arg('pg.JSONConvertible.load_types_for_deserialization(LT1a_)', dict(LT1_='a')),
    Arg('pg.JSONConvertible.load_types_for_deserialization(LT2_, LT1b_)', dict(LT2_='2', LT1_='b')),
    Arg('pg.JSONConvertible.load_types_for_deserialization(LT2_)', dict(LT2_='2')),
    Arg('pg.JSONConvertible.load_types_for_deserialization()', {}),
], _merge_enter, yields=lambda b, a, s: dict(s), process_wide=True)
MGRS['load_types_for_deserialization'].yconv = (
    "lambda y: {k: {LT1a_: 'a', LT1b_: 'b', LT2_: '2'}[v] for k, v in y.items()}")


# ---------------------------------------------------------------------------
# TimeIt scopes.  State: tuple of names of the open scopes (innermost last).
# ---------------------------------------------------------------------------

_key('timeit', '''def tn_():
  t = pg.utils.thread_local_get('__timing_context__', None)
  return None if t is None else (t.name, t.has_started, t.has_ended)
''', (), [
    Probe('timeit.current-scope', 'tn_()',
          lambda m: ((m['timeit'][-1], True, (len(m['timeit']) - 1) in m.get('_tended', ()))
                     if m['timeit'] else None)),
])
_mgr('timeit', 'timeit', [
    Arg("pg.timeit('a')", 'a'), Arg("pg.utils.TimeIt('b')", 'b'), Arg('pg.timeit()', ''),
], lambda s, a: s + (a,))


# The model entry '_tended' (one set shared by all block models of a program)
# holds the depths of the open timing scopes whose clock was stopped early.
def _tended(model, depth):
  model.setdefault('_tended', set()).add(depth)


_act('timeit.end', ['timeit'], '{y}.end()', 'ended-in-block', _tended)
_act('timeit.end-with-error', ['timeit'], '{y}.end(E_())', 'ended-in-block', _tended)
_act('timeit.end-twice', ['timeit'], '{y}.end(); {y}.end(E_())', 'ended-in-block', _tended)
_act('timeit.restart', ['timeit'], '{y}.start()', 'restarted-in-block')
_act('timeit.end-enclosing', ['timeit'], '{y}.end()', 'enclosing-ended-in-block', _tended, up=1)


# ---------------------------------------------------------------------------
# extras living on the same thread-local store.
# ---------------------------------------------------------------------------

_key('scripts', '''HC_ = pg.views.html.controls.HtmlControl
def ts_(): return [list(x) for x in pg.utils.thread_local_get('__tracked_scripts__', [])]
''', 0, [
    Probe('track_scripts.stack-depth',
          "(pg.utils.thread_local_has('__tracked_scripts__'), len(pg.utils.thread_local_get('__tracked_scripts__', [])))",
          lambda m: (m['scripts'] > 0, m['scripts'])),
])
_mgr('track_scripts', 'scripts', [Arg('HC_.track_scripts()', None)],
     lambda s, a: s + 1, yields=lambda b, a, s: [])

# preset args: state {preset name: kwargs}; inherit_preset=False replaces the
# preset of that name, True merges over the enclosing preset of the same name.
_key('preset', '''PAV_ = pg.typing.PresetArgValue
@pg.typing.enable_preset_args()
def pf_(a=PAV_(0), b=PAV_(1)): return (a, b)
@pg.typing.enable_preset_args(preset_name='other')
def pg_(a=PAV_(0)): return a
''', {}, [
    Probe('preset_args.values-seen-by-enabled-functions', '(pf_(), pg_())',
          lambda m: ((m['preset'].get('global', {}).get('a', 0),
                      m['preset'].get('global', {}).get('b', 1)),
                     m['preset'].get('other', {}).get('a', 0)), True),
])


def _preset_enter(state, marg):
  kwargs, name, inherit = marg
  new = dict(state)
  if inherit and name in state:
    new[name] = dict(state[name], **kwargs)
  else:
    new[name] = dict(kwargs)
  return new


_mgr('preset_args', 'preset', [
    Arg('pg.typing.preset_args(dict(a=5))', (dict(a=5), 'global', False)),
    Arg('pg.typing.preset_args(dict(b=6), inherit_preset=True)', (dict(b=6), 'global', True)),
    Arg("pg.typing.preset_args(dict(a=7), preset_name='other')", (dict(a=7), 'other', False)),
    Arg('pg.typing.preset_args(dict(b=8))', (dict(b=8), 'global', False)),
], _preset_enter)

# The block mutates the container it was handed by `with ... as y` (add/replace
# an entry the probes look at; remove everything).  Inside the block the state
# is then unspecified; after the block it must be the state before entering.
_YIELD_MUTATIONS = {
    'str_format': "{y}['zz_'] = 1",
    'repr_format': "{y}['zz_'] = 1",
    'thread_local_arg_scope': "{y}['zz_'] = 1",
    'view_options': "{y}['zz_'] = 1",
    'coding.context': "{y}['x'] = 'zz_'",
    'contextual_override': "{y}['x'] = CX_(99)",
    'contextual_scope': "{y}['x'] = CX_(99)",
    'detour': '{y}[DC_] = DA_',
    'load_types_for_deserialization': "{y}['LT1_'] = LT2_",
}
for _n, _src in _YIELD_MUTATIONS.items():
  _act(f'{_n}.yielded-value-modified', [_n], _src, 'yield-modified', dirty=True)
  _act(f'{_n}.yielded-value-cleared', [_n], '{y}.clear()', 'yield-cleared', dirty=True)
_act('track_scripts.yielded-list-appended', ['track_scripts'], "{y}.append('zz_')",
     'yield-appended')
# keys whose probes read the model of another key
_DIRTY_ALSO = {'ctx': ('objoverride',), 'objoverride': ('ctx',)}

for _m in MGRS.values():
  if not hasattr(_m, 'yconv'):
    _m.yconv = 'lambda y: y'

KEY_ORDER = list(KEYS)
INIT_MODEL = {k: KEYS[k].init for k in KEY_ORDER}


# ===========================================================================
# Consumer matrices: every place of the library that *reads* a scoped setting.
#
# The getters show that a scope installs and restores its setting; whether the
# setting is "effective inside the block" is a statement about every operation
# documented to obey it.  One table per setting lists those operations over
# the sibling container kinds (Object / Functor / typed Dict / typed List) and
# entry points (construction, late binding of a value spec, rebind, accessor
# writes, the list/dict mutators, from_json, clone/copy, str/repr), each tried
# for both values of the object-level flag the scope overrides.  Oracles:
#   partial    docstring of pg.allow_partial: True allows partial values, False refuses them
#              "even if individual objects allow so", None honours the object-level flag;
#   typecheck  docstring of pg.enable_type_check: a wrongly typed value is refused iff on;
#   notify     docstring of pg.notify_on_change: a change is announced iff on;
#   sealed     docstring of pg.as_sealed: True refuses every change, False allows it even on
#              sealed values, None honours the object-level state;
#   writable   docstring of pg.allow_writable_accessors: same for writes through accessors;
#   origin     docstrings of pg.track_origin / pg.symbolic.Origin: construction, cloning/copying
#              and functor returns record an origin (documented tag, source, stack) iff on;
#   str/repr   "setting the default format kwargs for __str__/__repr__": str(v) / repr(v) is
#              pg.format(v, <class defaults overlaid with the kwargs in scope>).
#   coding.permission  docstring: "the outermost permission will be used"; one snippet per
#              permission flag through evaluate / run / evaluate(permission=...);
#   coding.context     "inject symbols for code execution": visible to evaluate / run, and code
#              that assigns does not change the scope;
#   dynamic_evaluate   every hyper primitive factory is routed to the evaluate function in scope.
# "The <flag> state of individual objects will remain intact" (same docstrings): the
# `after-use` rows use values that existed before the scope and look at their own flag.
# ===========================================================================

CONSUMERS = '''import copy
MV_ = pg.MISSING_VALUE
def call_(f, fl): return f(fl)
def mx1_(table, name, ev, *flags):
  f = dict(table)[name]
  try: return tuple(ev(f, fl) for fl in flags)
  except Exception as e: return f'{type(e).__name__}: {e}'
def mx_(table, ev, *flags): return {n: mx1_(table, n, ev, *flags) for n, _ in table}
def is_(a, b):
  if a is not b: raise AssertionError(f'{a!r} is not {b!r}')
KD_ = pg.typing.Dict([('a', pg.typing.Int()), ('b', pg.typing.Int())])
KL_ = pg.typing.List(KD_)
KI_ = pg.typing.List(pg.typing.Int())
class KA_(pg.Object):
  x: int
  y: int
@pg.members([('d', pg.typing.Dict([('a', pg.typing.Int()), ('b', pg.typing.Int())]))])
class KND_(pg.Object): pass
@pg.members([('l', pg.typing.List(pg.typing.Dict([('a', pg.typing.Int()), ('b', pg.typing.Int())])))])
class KNL_(pg.Object): pass
class KS_(pg.Object):
  allow_symbolic_assignment = True
  x: int = 0
class KW_(pg.Object):
  x: int = 0
@pg.functor([('a', pg.typing.Int()), ('b', pg.typing.Int())])
def kf_(a=1, b=2): return 0
@pg.functor([('a', pg.typing.Int()), ('args', pg.typing.List(pg.typing.Int()))])
def kv_(a=1, *args): return 0
@pg.functor([('a', pg.typing.Int()), ('kw', pg.typing.Dict([(pg.typing.StrKey(), pg.typing.Int())]))])
def kk_(a=1, **kw): return 0
@pg.functor()
def ko_(): return pg.Dict(x=1)
with pg.auto_call_functors(False): kf0_ = kf_(); kv0_ = kv_(); kk0_ = kk_(); ko0_ = ko_()
def mk_(c, fl, *a, **k): return (c.partial if fl else c)(*a, **k)

# --- partial (flag: object-level allow_partial) -----------------------------
def pd_(fl=False): return mk_(pg.Dict, fl, a=1, b=2, value_spec=KD_)
def pl_(fl=False): return mk_(pg.List, fl, [{'a': 1, 'b': 2}], value_spec=KL_)
# values that exist before any scope is entered: used inside, their own flag stays what it was
KPX_ = {fl: (pd_(fl), pl_(fl), mk_(KA_, fl, x=1, y=2)) for fl in (False, True)}
def pfi_(fl):
  d, l, o = KPX_[fl]
  for v, u in ((d, {'a': 3}), (l, {'[0].a': 3}), (o, {'x': 3})):
    try: v.rebind(u, raise_on_no_change=False); v.rebind({k: MV_ for k in u}); v.rebind(u)
    except ValueError: pass
  for v in (d, l, l[0], o): is_(v.allow_partial, fl)
PARTIAL_ = [
  ('object.init:missing-field', lambda fl: mk_(KA_, fl, x=1)),
  ('object.init:typed-dict-field-missing-key', lambda fl: mk_(KND_, fl, d={'a': 1})),
  ('object.init:typed-list-field-partial-element', lambda fl: mk_(KNL_, fl, l=[{'a': 1}])),
  ('object.rebind:field-to-missing', lambda fl: mk_(KA_, fl, x=1, y=2).rebind(x=MV_)),
  ('object.rebind:dict-field-to-partial', lambda fl: mk_(KND_, fl, d={'a': 1, 'b': 2}).rebind(d={'a': 1})),
  ('object.rebind:nested-key-to-missing', lambda fl: mk_(KND_, fl, d={'a': 1, 'b': 2}).rebind({'d.a': MV_})),
  ('object.from_json:missing-field', lambda fl: pg.from_json({'_type': KA_.__type_name__, 'x': 1}, allow_partial=fl)),
  ('dict.init:missing-key', lambda fl: mk_(pg.Dict, fl, a=1, value_spec=KD_)),
  ('dict.use_value_spec:missing-key', lambda fl: mk_(pg.Dict, fl, a=1).use_value_spec(KD_, allow_partial=fl)),
  ('dict.rebind:key-to-missing', lambda fl: pd_(fl).rebind(a=MV_)),
  ('dict.setitem:key-to-missing', lambda fl: pd_(fl).__setitem__('a', MV_)),
  ('dict.setattr:key-to-missing', lambda fl: setattr(pd_(fl), 'a', MV_)),
  ('dict.delitem:required-key', lambda fl: pd_(fl).__delitem__('a')),
  ('dict.pop:required-key', lambda fl: pd_(fl).pop('a')),
  ('dict.clear:required-keys', lambda fl: pd_(fl).clear()),
  ('dict.update:key-to-missing', lambda fl: pd_(fl).update({'a': MV_})),
  ('list.init:partial-element', lambda fl: mk_(pg.List, fl, [{'a': 1}], value_spec=KL_)),
  ('list.use_value_spec:partial-element', lambda fl: mk_(pg.List, fl, [{'a': 1}]).use_value_spec(KL_, allow_partial=fl)),
  ('list.append:partial-element', lambda fl: pl_(fl).append({'a': 1})),
  ('list.insert:partial-element', lambda fl: pl_(fl).insert(0, {'a': 1})),
  ('list.extend:partial-element', lambda fl: pl_(fl).extend([{'a': 1}])),
  ('list.iadd:partial-element', lambda fl: pl_(fl).__iadd__([{'a': 1}])),
  ('list.setitem:partial-element', lambda fl: pl_(fl).__setitem__(0, {'a': 1})),
  ('list.setitem-slice:partial-element', lambda fl: pl_(fl).__setitem__(slice(0, 1), [{'a': 1}])),
  ('list.rebind:partial-element', lambda fl: pl_(fl).rebind({0: {'a': 1}})),
  ('list.rebind:element-key-to-missing', lambda fl: pl_(fl).rebind({'[0].a': MV_})),
  ('list.element-rebind:key-to-missing', lambda fl: pl_(fl)[0].rebind(a=MV_)),
]
PARTIAL_INTACT_ = [('object-level-flag-intact', pfi_)]

# --- typecheck (no object-level flag) ----------------------------------------
def il_(): return pg.List([1, 2], value_spec=KI_)
TYPECHECK_ = [
  ('object.init:wrong-type', lambda _: KA_(x='s', y=2)),
  ('object.init:wrong-type-in-dict-field', lambda _: KND_(d={'a': 's', 'b': 2})),
  ('object.init:wrong-type-in-list-field', lambda _: KNL_(l=[{'a': 's', 'b': 2}])),
  ('object.rebind:wrong-type', lambda _: KA_(x=1, y=2).rebind(x='s')),
  ('object.setattr:wrong-type', lambda _: setattr(KS_(x=0), 'x', 's')),
  ('object.from_json:wrong-type', lambda _: pg.from_json({'_type': KA_.__type_name__, 'x': 's', 'y': 2})),
  ('dict.init:wrong-type', lambda _: pg.Dict(a='s', b=2, value_spec=KD_)),
  ('dict.init:undeclared-key', lambda _: pg.Dict(a=1, b=2, c=3, value_spec=KD_)),
  ('dict.use_value_spec:wrong-type', lambda _: pg.Dict(a='s', b=2).use_value_spec(KD_)),
  ('dict.rebind:wrong-type', lambda _: pd_().rebind(a='s')),
  ('dict.setitem:wrong-type', lambda _: pd_().__setitem__('a', 's')),
  ('dict.setattr:wrong-type', lambda _: setattr(pd_(), 'a', 's')),
  ('dict.update:wrong-type', lambda _: pd_().update({'a': 's'})),
  ('list.init:wrong-type', lambda _: pg.List(['s'], value_spec=KI_)),
  ('list.use_value_spec:wrong-type', lambda _: pg.List(['s']).use_value_spec(KI_)),
  ('list.append:wrong-type', lambda _: il_().append('s')),
  ('list.insert:wrong-type', lambda _: il_().insert(0, 's')),
  ('list.extend:wrong-type', lambda _: il_().extend(['s'])),
  ('list.iadd:wrong-type', lambda _: il_().__iadd__(['s'])),
  ('list.setitem:wrong-type', lambda _: il_().__setitem__(0, 's')),
  ('list.setitem-slice:wrong-type', lambda _: il_().__setitem__(slice(0, 1), ['s'])),
  ('list.rebind:wrong-type', lambda _: il_().rebind({0: 's'})),
  ('functor.call:wrong-type-positional', lambda _: kf0_('s')),
  ('functor.call:wrong-type-keyword', lambda _: kf0_(b='s')),
  ('functor.call:wrong-type-varargs', lambda _: kv0_(1, 's')),
  ('functor.call:wrong-type-varkw', lambda _: kk0_(z='s')),
  ('functor.init:wrong-type', lambda _: kf_.partial('s')),
  ('functor.rebind:wrong-type', lambda _: kf_.partial().rebind(a='s')),
]

# --- notify: is the change announced? ----------------------------------------
def nd_(f):
  got = []; d = pg.Dict(a=1, b=2, onchange_callback=lambda u: got.append(1)); f(d); return len(got) > 0
def nl_(f):
  got = []; l = pg.List([3, 1, 2], onchange_callback=lambda u: got.append(1)); f(l); return len(got) > 0
class KN_(pg.Object):
  allow_symbolic_assignment = True
  x: int = 0
  z: pg.typing.Dict([('k', pg.typing.Int(default=0))]) = pg.Dict(k=0)
  w: pg.typing.List(pg.typing.Int()) = pg.List([1])
  def _on_change(self, u): KN_.c[threading.get_ident()] = KN_.c.get(threading.get_ident(), 0) + 1
KN_.c = {}
def no_(f):
  o = KN_(x=0, z=dict(k=0), w=[1]); i = threading.get_ident(); c = KN_.c.get(i, 0); f(o); return KN_.c.get(i, 0) > c
NOTIFY_ = [
  ('object.rebind', lambda _: no_(lambda o: o.rebind(x=1))),
  ('object.setattr', lambda _: no_(lambda o: setattr(o, 'x', 1))),
  ('object.nested-dict-setitem', lambda _: no_(lambda o: o.z.__setitem__('k', 1))),
  ('object.nested-dict-rebind', lambda _: no_(lambda o: o.z.rebind(k=1))),
  ('object.nested-list-append', lambda _: no_(lambda o: o.w.append(2))),
  ('dict.rebind', lambda _: nd_(lambda d: d.rebind(a=2))),
  ('dict.setitem', lambda _: nd_(lambda d: d.__setitem__('a', 2))),
  ('dict.setitem-new-key', lambda _: nd_(lambda d: d.__setitem__('c', 2))),
  ('dict.setattr', lambda _: nd_(lambda d: setattr(d, 'a', 2))),
  ('dict.delitem', lambda _: nd_(lambda d: d.__delitem__('a'))),
  ('dict.delattr', lambda _: nd_(lambda d: delattr(d, 'a'))),
  ('dict.pop', lambda _: nd_(lambda d: d.pop('a'))),
  ('dict.popitem', lambda _: nd_(lambda d: d.popitem())),
  ('dict.clear', lambda _: nd_(lambda d: d.clear())),
  ('dict.update', lambda _: nd_(lambda d: d.update({'a': 2}))),
  ('dict.setdefault', lambda _: nd_(lambda d: d.setdefault('c', 2))),
  ('list.rebind', lambda _: nl_(lambda l: l.rebind({0: 9}))),
  ('list.setitem', lambda _: nl_(lambda l: l.__setitem__(0, 9))),
  ('list.setitem-slice', lambda _: nl_(lambda l: l.__setitem__(slice(0, 1), [9]))),
  ('list.delitem', lambda _: nl_(lambda l: l.__delitem__(0))),
  ('list.delitem-slice', lambda _: nl_(lambda l: l.__delitem__(slice(0, 2)))),
  ('list.insert', lambda _: nl_(lambda l: l.insert(0, 9))),
  ('list.append', lambda _: nl_(lambda l: l.append(9))),
  ('list.extend', lambda _: nl_(lambda l: l.extend([9]))),
  ('list.iadd', lambda _: nl_(lambda l: l.__iadd__([9]))),
  ('list.imul', lambda _: nl_(lambda l: l.__imul__(2))),
  ('list.pop', lambda _: nl_(lambda l: l.pop())),
  ('list.remove', lambda _: nl_(lambda l: l.remove(1))),
  ('list.clear', lambda _: nl_(lambda l: l.clear())),
  ('list.sort', lambda _: nl_(lambda l: l.sort())),
  ('list.reverse', lambda _: nl_(lambda l: l.reverse())),
]

# --- sealed (flag: object-level sealed state) ---------------------------------
def sd_(s): d = pg.Dict(a=1, b=2); return d.seal() if s else d
def sl_(s): l = pg.List([3, 1, 2]); return l.seal() if s else l
def so_(s): o = KS_(x=0); return o.seal() if s else o
def sf_(s): f = kf_.partial(a=1, b=2); return f.seal() if s else f
KSX_ = {s: (sd_(s), sl_(s), so_(s), sf_(s)) for s in (False, True)}
def sfi_(s):
  for v in KSX_[s]:
    try: v.rebind({0: 9} if isinstance(v, list) else {'a': 9} if isinstance(v, (dict, kf_)) else {'x': 9}, raise_on_no_change=False)
    except pg.WritePermissionError: pass
    is_(v.is_sealed, s)
SEALED_ = [
  ('object.rebind', lambda s: so_(s).rebind(x=1)),
  ('object.setattr', lambda s: setattr(so_(s), 'x', 1)),
  ('functor.rebind', lambda s: sf_(s).rebind(a=2)),
  ('functor.setattr', lambda s: setattr(sf_(s), 'a', 2)),
  ('functor.delattr', lambda s: delattr(sf_(s), 'a')),
  ('dict.rebind', lambda s: sd_(s).rebind(a=2)),
  ('dict.setitem', lambda s: sd_(s).__setitem__('a', 2)),
  ('dict.setattr', lambda s: setattr(sd_(s), 'a', 2)),
  ('dict.delitem', lambda s: sd_(s).__delitem__('a')),
  ('dict.delattr', lambda s: delattr(sd_(s), 'a')),
  ('dict.pop', lambda s: sd_(s).pop('a')),
  ('dict.popitem', lambda s: sd_(s).popitem()),
  ('dict.clear', lambda s: sd_(s).clear()),
  ('dict.update', lambda s: sd_(s).update({'a': 2})),
  ('dict.setdefault', lambda s: sd_(s).setdefault('c', 2)),
  ('list.rebind', lambda s: sl_(s).rebind({0: 9})),
  ('list.setitem', lambda s: sl_(s).__setitem__(0, 9)),
  ('list.setitem-slice', lambda s: sl_(s).__setitem__(slice(0, 1), [9])),
  ('list.delitem', lambda s: sl_(s).__delitem__(0)),
  ('list.insert', lambda s: sl_(s).insert(0, 9)),
  ('list.append', lambda s: sl_(s).append(9)),
  ('list.extend', lambda s: sl_(s).extend([9])),
  ('list.iadd', lambda s: sl_(s).__iadd__([9])),
  ('list.imul', lambda s: sl_(s).__imul__(2)),
  ('list.pop', lambda s: sl_(s).pop()),
  ('list.remove', lambda s: sl_(s).remove(1)),
  ('list.clear', lambda s: sl_(s).clear()),
  ('list.sort', lambda s: sl_(s).sort()),
  ('list.reverse', lambda s: sl_(s).reverse()),
]
SEALED_INTACT_ = [('object-level-flag-intact', sfi_)]

# --- writable accessors (flag: object-level accessor_writable is False) -------
def wd_(nw): return pg.Dict(a=1, b=2, accessor_writable=not nw)
def wl_(nw): return pg.List([3, 1, 2], accessor_writable=not nw)
def wo_(nw): return KW_(x=0) if nw else KS_(x=0)
def wf_(nw): return kf_.partial(a=1, b=2).set_accessor_writable(not nw)
KWX_ = {nw: (wd_(nw), wl_(nw), wf_(nw)) for nw in (False, True)}
def wfi_(nw):
  for v in KWX_[nw]:
    try:
      if isinstance(v, list): v[0] = 9
      else: v.a = 9
    except pg.WritePermissionError: pass
    is_(v.accessor_writable, not nw)
WRITABLE_ = [
  ('object.setattr', lambda nw: setattr(wo_(nw), 'x', 1)),
  ('functor.setattr', lambda nw: setattr(wf_(nw), 'a', 2)),
  ('functor.delattr', lambda nw: delattr(wf_(nw), 'a')),
  ('dict.setitem', lambda nw: wd_(nw).__setitem__('a', 2)),
  ('dict.setattr', lambda nw: setattr(wd_(nw), 'a', 2)),
  ('dict.delitem', lambda nw: wd_(nw).__delitem__('a')),
  ('dict.delattr', lambda nw: delattr(wd_(nw), 'a')),
  ('list.setitem', lambda nw: wl_(nw).__setitem__(0, 9)),
  ('list.setitem-slice', lambda nw: wl_(nw).__setitem__(slice(0, 1), [9])),
  ('list.delitem', lambda nw: wl_(nw).__delitem__(0)),
]
WRITABLE_INTACT_ = [('object-level-flag-intact', wfi_)]

# --- origin ---------------------------------------------------------------------
OD_ = pg.Dict(x=1); OL_ = pg.List([1]); OO_ = KS_(x=0)
def og_(v, src=None):
  o = v.sym_origin
  return None if o is None else (o.tag, o.source is src, o.stack is not None)
ORIGIN_ = [
  ('dict.init', lambda _: og_(pg.Dict())),
  ('list.init', lambda _: og_(pg.List())),
  ('object.init', lambda _: og_(KS_(x=0))),
  ('dict.clone', lambda _: og_(OD_.clone(), OD_)),
  ('dict.clone-deep', lambda _: og_(OD_.clone(deep=True), OD_)),
  ('dict.copy', lambda _: og_(copy.copy(OD_), OD_)),
  ('dict.deepcopy', lambda _: og_(copy.deepcopy(OD_), OD_)),
  ('list.clone', lambda _: og_(OL_.clone(), OL_)),
  ('list.clone-deep', lambda _: og_(OL_.clone(deep=True), OL_)),
  ('object.clone', lambda _: og_(OO_.clone(), OO_)),
  ('object.clone-deep', lambda _: og_(OO_.clone(deep=True), OO_)),
  ('object.clone-override', lambda _: og_(OO_.clone(override={'x': 2}), OO_)),
  ('functor.return', lambda _: og_(ko0_(), ko0_)),
]

# --- str / repr format kwargs (flag: the kwargs in scope) ------------------------
class KFA_(pg.Object):
  x: int = 1
  y: pg.typing.Dict([('z', pg.typing.Str(default='a'))]) = pg.Dict(z='a')
  w: pg.typing.List(pg.typing.Int()) = pg.List([1, 2])
FV_ = [
  ('dict', pg.Dict(x=1, y=pg.Dict(z='a'))),
  ('list', pg.List([1, pg.Dict(z='a'), [2]])),
  ('object', KFA_(x=2)),
  ('functor', kf_.partial(b=3)),
  ('ref', pg.Ref(KFA_())),
  ('value-spec', pg.typing.Dict([('a', pg.typing.Int(default=1)), ('b', pg.typing.List(pg.typing.Str()))])),
  ('field', pg.typing.Field('a', pg.typing.Int(default=1), 'doc')),
  ('schema', KFA_.__schema__),
  ('dna', pg.DNA([1, (0, 2)])),
  ('dna-spec', pg.geno.space([pg.geno.oneof([pg.geno.constant(), pg.geno.constant()], location='x'), pg.geno.floatv(0., 1., location='y')])),
  ('diff', pg.diff(pg.Dict(x=1), pg.Dict(x=2))),
  ('key-path', pg.KeyPath.parse('a.b[0]')),
  ('html', pg.Html('<b>x</b>')),
]
def fm_(which, v):
  f = str if which == 'str' else repr
  return lambda kw: f(v) == pg.format(v, **dict(getattr(type(v), f'__{which}_format_kwargs__'), **kw))
STRFMT_ = [(n, fm_('str', v)) for n, v in FV_]
REPRFMT_ = [(n, fm_('repr', v)) for n, v in FV_]

# --- code permission: one snippet per permission flag x entry point ---------------
KP_ = pg.coding.CodePermission
SNIPPETS_ = [
  ('assign', KP_.ASSIGN, 'q_ = 1'), ('condition', KP_.CONDITION, 'if 1: 2'),
  ('loop', KP_.LOOP, 'for i_ in (1, 2): 3'), ('call', KP_.CALL, 'len([])'),
  ('exception', KP_.EXCEPTION, 'try:\\n  1\\nexcept Exception:\\n  2'),
  ('class-definition', KP_.CLASS_DEFINITION, 'class A_: pass'),
  ('function-definition', KP_.FUNCTION_DEFINITION, 'lambda: 1'), ('import', KP_.IMPORT, 'import os'),
]
def allowed_(f, *a, **k):
  try: f(*a, **k); return True
  except pg.coding.CodeError as e:
    if isinstance(e.cause, SyntaxError): return False
    raise
CODEPERM_ = []
for n_, fl_, c_ in SNIPPETS_:
  CODEPERM_ += [
    ('evaluate:' + n_, lambda _, c=c_: allowed_(pg.coding.evaluate, c)),
    ('run:' + n_, lambda _, c=c_: allowed_(pg.coding.run, c, sandbox=False)),
    ('evaluate-with-permission-ALL:' + n_, lambda _, c=c_: allowed_(pg.coding.evaluate, c, permission=KP_.ALL)),
    ('evaluate-with-own-permission:' + n_, lambda _, c=c_, p=fl_: allowed_(pg.coding.evaluate, c, permission=p)),
  ]

# --- code context -------------------------------------------------------------------
def sym_(f, name, **k):
  try: return f(name, **k)
  except pg.coding.CodeError as e: return type(e.cause).__name__
def keeps_(f, code, **k):
  before = pg.coding.get_context(); f(code, **k); return pg.coding.get_context() == before
CODECTX_ = [
  ('evaluate:x', lambda _: sym_(pg.coding.evaluate, 'x')),
  ('evaluate:y', lambda _: sym_(pg.coding.evaluate, 'y')),
  ('run:x', lambda _: sym_(pg.coding.run, 'x', sandbox=False)),
  ('run:y', lambda _: sym_(pg.coding.run, 'y', sandbox=False)),
  ('evaluate:assignment-stays-out-of-scope', lambda _: keeps_(pg.coding.evaluate, 'x = 99; z_ = 98')),
  ('run:assignment-stays-out-of-scope', lambda _: keeps_(pg.coding.run, 'x = 99; z_ = 98', sandbox=False)),
  ('evaluate:global_vars-stay-out-of-scope', lambda _: keeps_(pg.coding.evaluate, '1', global_vars={'x': 97, 'z_': 96})),
]

# --- dynamic evaluation: every way of creating a hyper primitive --------------------
def hv_(f):
  v = f()
  if isinstance(v, tuple) and v and v[0] in ('f1', 'f2'): return v
  return type(v).__name__ if isinstance(v, pg.hyper.HyperPrimitive) else 'value'
DYNEVAL_ = [
  ('oneof', lambda _: hv_(lambda: pg.oneof([1, 2]))),
  ('oneof-named', lambda _: hv_(lambda: pg.oneof([1, 2], name='n'))),
  ('manyof', lambda _: hv_(lambda: pg.manyof(2, [1, 2, 3]))),
  ('permutate', lambda _: hv_(lambda: pg.permutate([1, 2]))),
  ('floatv', lambda _: hv_(lambda: pg.floatv(0.0, 1.0))),
  ('oneof-as-dict-value', lambda _: hv_(lambda: pg.Dict(x=pg.oneof([1, 2])).x)),
  ('oneof-as-candidate', lambda _: hv_(lambda: pg.oneof([pg.oneof([1, 2]), 3]))),
]
'''


_ROWS = {}


def _rows(table):
  """Consumer names of a table of the consumers prelude."""
  if table not in _ROWS:
    _ROWS[table] = [n for n, _ in namespace()[table]]
  return _ROWS[table]


_FN_ROWS = ('functor.rebind', 'functor.setattr', 'functor.delattr', 'functor.init:wrong-type',
            'functor.rebind:wrong-type')   # built with F.partial(): not under auto_call_functors(True)


def _matrix_expect(table, value, skip=lambda m: False, per_row=False):
  """expect-function of a matrix: every consumer of `table` -> value(model[, consumer])."""
  def expect(m):
    if skip(m):
      return SKIP
    v = None if per_row else value(m)
    return {r: (value(m, r) if per_row else v) for r in _rows(table)
            if not (m['autocall'] and r in _FN_ROWS)}
  return expect


def _consumer_probe(key, table, value, skip=lambda m: False, flags='None', evaluator='ok_',
                    suffix='consumer', per_row=False):
  KEYS[key].probes.append(Probe(
      f'{MGRS_OF_KEY[key]}.{suffix}', None, _matrix_expect(table, value, skip, per_row),
      table=table, evaluator=evaluator, flags=flags))


MGRS_OF_KEY = {'partial': 'allow_partial', 'typecheck': 'enable_type_check',
               'notify': 'notify_on_change', 'sealed': 'as_sealed',
               'writable': 'allow_writable_accessors', 'origin': 'track_origin',
               'strfmt': 'str_format', 'reprfmt': 'repr_format',
               'codeperm': 'coding.permission', 'codectx': 'coding.context',
               'dyneval': 'dynamic_evaluate'}
_PERM_BIT = {'assign': 1, 'condition': 2, 'loop': 4, 'call': 8, 'exception': 16,
             'class-definition': 32, 'function-definition': 64, 'import': 128}


def _origin_row(m, row):
  # "Built-in tags are '__init__', 'clone', 'deepclone' and 'return'" (pg.symbolic.Origin); the
  # source is the value cloned / the functor called; "the stack information can be obtained"
  if not m['origin']:
    return (None,)
  op = row.split('.')[1]
  tag = {'init': '__init__', 'return': 'return', 'clone-deep': 'deepclone',
         'deepcopy': 'deepclone'}.get(op, 'clone')
  return ((tag, True, True),)


def _perm_allowed(m, row):
  # the permission in scope decides, also when the call asks for more ("the outermost
  # permission will be used ... allows users to control permission at the top level")
  return (m['codeperm'] is None or bool(m['codeperm'] & _PERM_BIT[row.split(':')[1]]),)


def _ctx_row(m, row):
  name = row.split(':')[1]
  return (m['codectx'].get(name, 'NameError') if name in 'xy' else True,)


def _dyn_row(m, row):
  kind = {'oneof': 'OneOf', 'manyof': 'ManyOf', 'permutate': 'ManyOf', 'floatv': 'Float'}[
      row.split('-')[0]]
  mode = m['dyneval']
  return (kind if mode is None else 'value' if mode == 'collect' else (mode, kind),)


_consumer_probe('partial', 'PARTIAL_',
                lambda m: _tri(m['partial'], (False, True), (True, True), (False, False)),
                lambda m: not m['typecheck'] or _blocked(m), flags='False, True')
_consumer_probe('partial', 'PARTIAL_INTACT_', lambda m: (True, True),
                lambda m: _blocked(m), flags='False, True', suffix='after-use')
_consumer_probe('typecheck', 'TYPECHECK_', lambda m: (not m['typecheck'],), _blocked)
_consumer_probe('notify', 'NOTIFY_', lambda m: (m['notify'],), _blocked, evaluator='call_')
_consumer_probe('sealed', 'SEALED_',
                lambda m: _tri(m['sealed'], (True, False), (False, False), (True, True)),
                lambda m: m['writable'] is False, flags='False, True')
_consumer_probe('sealed', 'SEALED_INTACT_', lambda m: (True, True),
                lambda m: m['writable'] is False, flags='False, True', suffix='after-use')
_consumer_probe('writable', 'WRITABLE_',
                lambda m: _tri(m['writable'], (True, False), (True, True), (False, False)),
                lambda m: m['sealed'] is True, flags='False, True')
_consumer_probe('writable', 'WRITABLE_INTACT_', lambda m: (True, True),
                lambda m: m['sealed'] is True, flags='False, True', suffix='after-use')
_consumer_probe('origin', 'ORIGIN_', _origin_row, _blocked, evaluator='call_', per_row=True)
# Only while format kwargs are in scope: how a value is rendered without any
# scope is not the business of this property.
_consumer_probe('strfmt', 'STRFMT_', lambda m: (True,), lambda m: not m['strfmt'],
                flags=lambda m: repr(m['strfmt']), evaluator='call_')
_consumer_probe('reprfmt', 'REPRFMT_', lambda m: (True,), lambda m: not m['reprfmt'],
                flags=lambda m: repr(m['reprfmt']), evaluator='call_')
_consumer_probe('codeperm', 'CODEPERM_', _perm_allowed, evaluator='call_', per_row=True)
_consumer_probe('codectx', 'CODECTX_', _ctx_row, evaluator='call_', per_row=True)
_consumer_probe('dyneval', 'DYNEVAL_', _dyn_row,
                lambda m: not m['typecheck'] or _blocked(m), evaluator='call_', per_row=True)
HEAVY_KEYS = [k for k in KEY_ORDER if any(p.heavy for p in KEYS[k].probes)]


# ===========================================================================
# Executor
# ===========================================================================

_NS = None
_NS_LOCK = threading.Lock()


def namespace():
  """The shared namespace with every prelude executed once."""
  global _NS
  with _NS_LOCK:
    if _NS is None:
      ns = {}
      exec(COMMON, ns)  # pylint: disable=exec-used
      seen = set()
      for k in KEY_ORDER:
        p = KEYS[k].prelude
        if p and p not in seen:
          seen.add(p)
          exec(p, ns)  # pylint: disable=exec-used
      exec(CONSUMERS, ns)  # pylint: disable=exec-used
      for m in MGRS.values():
        m.yconv_fn = eval(m.yconv, ns)  # pylint: disable=eval-used
      _NS = ns
  return _NS


def same(a, b):
  """Strict structural equality (True is not 1, None is not False)."""
  if type(a) is not type(b):
    return False
  if isinstance(a, dict):
    return a.keys() == b.keys() and all(same(a[k], b[k]) for k in a)
  if isinstance(a, (list, tuple)):
    return len(a) == len(b) and all(same(x, y) for x, y in zip(a, b))
  return a == b


def _assert_src(src, want):
  if want is None or want is True or want is False:
    return f'assert ({src}) is {want!r}'
  return f'assert ({src}) == {want!r}'


_CODE_CACHE = {}


def _probe_src(probe, model, key):
  t = getattr(probe, 'template', None)
  return (t % repr(model[key])) if t else probe.src


def _eval_probe(probe, src, ns):
  code = probe.code
  if code is None:
    code = _CODE_CACHE.get(src)
    if code is None:
      code = _CODE_CACHE[src] = compile(src, '<probe>', 'eval')
  return eval(code, ns)  # pylint: disable=eval-used


def _is_ours(e, ns):
  return isinstance(e, (ns['E_'], ns['BE_']))


class Failure:
  def __init__(self, case_id, loc, message, assert_src, keys, heavy=False):
    self.case_id, self.loc, self.message = case_id, loc, message
    self.assert_src, self.keys, self.heavy = assert_src, keys, heavy


class Ctx:
  """Execution context of one program."""

  def __init__(self, ns, involved, all_behavioural=False, heavy=False):
    self.ns = ns
    self.involved = involved          # key names whose behavioural probes run
    self.all_behavioural = all_behavioural
    # consumer matrices of the involved keys: False (never) | True (first slot of every block,
    # after every exceptional exit, at the end) | 'touched' (same, but not while the key has not
    # been entered yet, and not at the end) | 'leaf' (first slot of the blocks without inner scopes)
    self.heavy = heavy
    self.failures = []
    self.checks = 0
    self.captures = []                # (index, wrapper, captured ctx state)
    self.tstack = []
    self.event = {}                   # key -> (event, open count)
    self.exit_calls = (0, 0)
    self.exit_base = ns['exn_']()
    self.open = {}
    self.wstack = []                  # open scopes: dict(mgr, key, path, y, model, tags)

  def phase(self, key):
    ev = self.event.get(key)
    if ev is None:
      return 'untouched'
    what, n = ev
    if what.startswith('enter'):
      return f'after-{what}/' + ('outermost' if n <= 1 else 'nested')
    return f'after-{what}/' + ('outermost' if n == 0 else 'nested')

  def fail(self, case_id, loc, message, assert_src, keys, heavy=False):
    self.failures.append(Failure(case_id, loc, message, assert_src, keys, heavy))

  def _matrix(self, p, k, path, slot, model, want):
    """Evaluates the consumer matrix `p` and compares it consumer by consumer."""
    ns = self.ns
    self.checks += len(want)
    try:
      got = eval(p.matrix_src(model), ns)  # pylint: disable=eval-used
    except BaseException as e:  # pylint: disable=broad-except
      if _is_ours(e, ns):
        raise
      got = {}
      err = f'{type(e).__name__}: {e}'
    for name, w in want.items():
      g = got.get(name, '<not evaluated>' if got else err)
      if not same(g, w):
        self.fail(f'{p.name}[{name}]/{self.phase(k)}', (path, slot),
                  f'got {g!r}, want {w!r}', _assert_src(p.consumer_src(model, name), w), (k,),
                  heavy=True)

  def probe(self, path, slot, model, skip_keys=(), leaf=False):
    ns = self.ns
    everything = self.all_behavioural is True or (self.all_behavioural == 'leaf' and leaf)
    dirty = model.get('_dirty', ())
    if dirty:
      skip_keys = tuple(skip_keys) + tuple(dirty) + tuple(
          d for k in dirty for d in _DIRTY_ALSO.get(k, ()))
    for k in KEY_ORDER:
      if k in skip_keys:
        continue
      key = KEYS[k]
      for p in key.probes:
        if p.behavioural and not (everything or k in self.involved):
          continue
        if p.expensive and slot not in (0, 'x', 'final'):
          continue
        if p.heavy and not (
            self.heavy is True
            or (self.heavy == 'touched' and k in self.event and slot != 'final')
            or (self.heavy == 'leaf' and leaf)):
          continue
        want = p.expect(model)
        if want is SKIP:
          continue
        if p.heavy:
          self._matrix(p, k, path, slot, model, want)
          continue
        src = _probe_src(p, model, k)
        self.checks += 1
        try:
          got = _eval_probe(p, src, ns)
        except BaseException as e:  # pylint: disable=broad-except
          if _is_ours(e, ns):
            raise
          self.fail(f'{p.name}/{self.phase(k)}', (path, slot),
                    f'probe raised {type(e).__name__}: {e}; want {want!r}',
                    _assert_src(src, want), (k,))
          continue
        if not same(got, want):
          self.fail(f'{p.name}/{self.phase(k)}', (path, slot),
                    f'got {got!r}, want {want!r}', _assert_src(src, want), (k,))
    if 'ctx' in self.involved and 'ctx' not in skip_keys:
      for idx, w, captured in self.captures:
        want = _ctx_enter(model['ctx'], captured)
        self.checks += 1
        try:
          got = w()
        except Exception as e:  # pylint: disable=broad-except
          got = f'{type(e).__name__}: {e}'
        if not same(got, want):
          self.fail('contextual.with_contextual_override-called-later/same-thread',
                    (path, slot), f'got {got!r}, want {want!r}',
                    _assert_src(f'w{idx}_()', want), ('ctx',))
        want = dict(captured)
        got = ns['th_'](w)
        if not same(got, want):
          self.fail('contextual.with_contextual_override-called-later/new-thread',
                    (path, slot), f'got {got!r}, want {want!r}',
                    _assert_src(f'th_(w{idx}_)', want), ('ctx',))


def _capture_index(prog):
  out, n = {}, [0]

  def walk(children, path):
    for i, node in enumerate(children):
      p = path + (i,)
      if node[0] == 'C':
        out[p] = n[0]
        n[0] += 1
      elif node[0] == 'T':
        walk(node[1], p)
      elif node[0] == 'W':
        walk(node[3], p)
  walk(prog, ())
  return out


def involved_keys(prog):
  out = set()

  def walk(children):
    for node in children:
      if node[0] == 'W':
        out.add(MGRS[node[1]].key)
        walk(node[3])
      elif node[0] == 'T':
        walk(node[1])
      elif node[0] == 'C':
        out.add('ctx')
  walk(prog)
  if 'objoverride' in out:
    out.add('ctx')
  return out


def _exec_block(children, path, model, ctx, cidx):
  ctx.probe(path, 0, model, leaf=not any(c[0] in 'WT' for c in children))
  for i, node in enumerate(children):
    _exec_node(node, path + (i,), model, ctx, cidx)
    ctx.probe(path, i + 1, model)


def _yvar(path):
  return 'y_' + '_'.join(map(str, path))


def _target(stack, act):
  """Index (into `stack`, a list of manager names or scope entries) of the scope an action works on."""
  idxs = [i for i, e in enumerate(stack)
          if (e['mgr'] if isinstance(e, dict) else e[0]) in act.mgrs]
  if len(idxs) <= act.up:
    return None, None
  return idxs[-1 - act.up], len(idxs) - 1 - act.up


def _exec_action(node, path, model, ctx):
  ns = ctx.ns
  act = ACTS[node[1]]
  ti, depth = _target(ctx.wstack, act)
  ent = ctx.wstack[ti]
  try:
    exec(act.code, ns, {'Y_': ent['y']})  # pylint: disable=exec-used
  except Exception as e:  # pylint: disable=broad-except
    if _is_ours(e, ns):
      raise
    ctx.fail(f'{act.name}/unexpected-error', (path, 'a'), f'{type(e).__name__}: {e}',
             'pass', (ent['key'],))
  ent['tags'].append(act.tag)
  for e in ctx.wstack[ti:]:
    if act.effect:
      act.effect(e['model'], depth)
  if act.dirty:
    assert ti == len(ctx.wstack) - 1 and ent['model'] is model, 'dirty action outside its block'
    model['_dirty'] = frozenset(model.get('_dirty', ())) | {ent['key']}
  n = ctx.open.get(ent['key'], 0)
  ctx.event[ent['key']] = ('enter+' + act.tag, n)


def _exec_node(node, path, model, ctx, cidx):
  ns = ctx.ns
  kind = node[0]
  if kind == 'R':
    raise ns['E_' if node[1] == 'E' else 'BE_']()
  if kind == 'A':
    _exec_action(node, path, model, ctx)
    return
  if kind == 'T':
    try:
      _exec_block(node[1], path, model, ctx, cidx)
    except BaseException as e:  # pylint: disable=broad-except
      if not _is_ours(e, ns):
        raise
    return
  if kind == 'C':
    ctx.captures.append(
        (cidx[path], pg.with_contextual_override(ns['gx_']), dict(model['ctx'])))
    return
  mgr = MGRS[node[1]]
  arg = mgr.args[node[2]]
  k = mgr.key
  entered = False
  body_done = False
  body_exc = None
  y = None
  ent = None
  depth0 = len(ctx.wstack)

  def left(what):
    """Bookkeeping common to every way of leaving the scope."""
    del ctx.wstack[depth0:]
    ctx.open[k] -= 1
    tags = sorted(set(ent['tags']))
    ctx.event[k] = (what + ''.join('+' + t for t in tags), ctx.open[k])
    if mgr.name == 'timeit':
      model.get('_tended', set()).discard(len(model['timeit']))

  try:
    cm = eval(arg.code, ns)  # pylint: disable=eval-used
    with cm as y:
      entered = True
      if arg.enter_raises:
        ctx.fail(f'{mgr.name}.enter/invalid-argument-accepted', (path, 'y'),
                 f'{arg.src} entered; expected {arg.enter_raises}',
                 'raise AssertionError("entered")', (k,))
      inner = dict(model)
      inner.pop('_dirty', None)
      inner[k] = mgr.enter(model[k], arg.marg)
      n = ctx.open[k] = ctx.open.get(k, 0) + 1
      ctx.event[k] = ('enter', n)
      ent = dict(mgr=mgr.name, key=k, path=path, y=y, model=inner, tags=[])
      ctx.wstack.append(ent)
      if mgr.yields is not None:
        want = mgr.yields(model[k], arg.marg, inner[k])
        if want is not SKIP:
          ctx.checks += 1
          try:
            got = mgr.yconv_fn(y)
          except Exception as e:  # pylint: disable=broad-except
            got = f'{type(e).__name__}: {e}'
          if not same(got, want):
            ctx.fail(f'{mgr.name}.yielded-value/{ctx.phase(k)}', (path, 'y'),
                     f'got {got!r}, want {want!r}',
                     _assert_src(f'({mgr.yconv})({_yvar(path)})', want), (k,))
      if mgr.name == 'timeit':
        if ctx.tstack:
          ctx.tstack[-1].append(arg.marg)
        ctx.tstack.append([])
      try:
        _exec_block(node[3], path, inner, ctx, cidx)
      except BaseException as be:  # pylint: disable=broad-except
        body_exc = be
        raise
      body_done = True
  except BaseException as e:  # pylint: disable=broad-except
    if not entered:
      if arg.enter_raises and type(e).__name__ == arg.enter_raises:
        return
      raise
    if body_done and not (arg.exit_raises and isinstance(e, ns['E_'])):
      raise           # the manager itself failed while leaving: reported as program/unexpected-*
    left('exit-error' if body_done else 'exception-exit')
    _after_exit(mgr, arg, path, ctx, y, ent, True, isinstance(body_exc, Exception), body_done)
    ctx.probe(path, 'x', model)
    raise
  left('exit')
  if arg.exit_raises:
    ctx.fail(f'{mgr.name}.exit_fn-error/not-propagated', (path, 'e'),
             f'{arg.src}: the exception raised by exit_fn did not leave the with statement',
             'raise AssertionError("exit_fn error swallowed")', (k,))
  _after_exit(mgr, arg, path, ctx, y, ent, False, False, True)


def _after_exit(mgr, arg, path, ctx, y, ent, exceptional, is_exception, body_done):
  ns = ctx.ns
  k = mgr.key
  if arg.exit_probe:
    # exit_fn: exactly once when the body completed (normal exit), never when an
    # Exception leaves the block (the documented use is a completion check),
    # unspecified (0 or 1) for a BaseException.  Counted over the whole program so far.
    src, d_normal, d_exc = arg.exit_probe
    lo, hi = ctx.exit_calls
    if body_done:
      lo, hi = lo + d_normal, hi + d_normal
    elif is_exception:
      lo, hi = lo + d_exc, hi + d_exc
    else:
      hi += 1
    ctx.exit_calls = (lo, hi)
    got = eval(src, ns) - ctx.exit_base  # pylint: disable=eval-used
    ctx.checks += 1
    if not lo <= got <= hi:
      ctx.fail(f'{mgr.name}.exit_fn-calls/' + ('exception-exit' if not body_done else 'normal-exit'),
               (path, 'e'), f'exit_fn called {got} times so far, want {lo}..{hi}',
               f'assert {lo} <= ({src}) - e0_ <= {hi}', (k,))
  if mgr.name == 'timeit':
    kids = ctx.tstack.pop()
    yv = _yvar(path)
    ended_early = any(t in ('ended-in-block', 'enclosing-ended-in-block') for t in ent['tags'])
    checks = [
        ('timeit.children', [c.name for c in y.children], kids,
         f'[c.name for c in {yv}.children]'),
        ('timeit.has_ended', y.has_ended, True, f'{yv}.has_ended'),
    ]
    if not ended_early:   # which error an early-stopped clock reports is not specified
      checks.append(('timeit.has_error', y.has_error, exceptional, f'{yv}.has_error'))
    if y.name and not ended_early:    # ('' would share its status key with same-named children)
      checks.append((
          'timeit.status-root-entry',
          (y.status()[y.name].has_ended, y.status()[y.name].has_error), (True, exceptional),
          f'({yv}.status()[{yv}.name].has_ended, {yv}.status()[{yv}.name].has_error)'))
    for cid, got, want, src in checks:
      ctx.checks += 1
      if not same(got, want):
        ctx.fail(cid + ('/exception-exit' if exceptional else '/normal-exit'),
                 (path, 'e'), f'got {got!r}, want {want!r}', _assert_src(src, want), (k,))


def _reset_process_wide():
  """Harness hygiene after a failed program (never needed on a correct tree)."""
  try:
    from pyglove.core.hyper import base as hb
    hb._global_dynamic_evaluate_fn = None  # pylint: disable=protected-access
    from pyglove.core.hyper import dynamic_evaluation as de
    del de._dynamic_evaluation_stack._global_stack[:]  # pylint: disable=protected-access
    del pg.JSONConvertible._TYPE_REGISTRY._ondemand_registry_stack[:]  # pylint: disable=protected-access
  except Exception:  # pylint: disable=broad-except
    pass


def run_program(prog, all_behavioural=False, heavy=False):
  """Runs `prog` on the *current* thread.  Returns (checks, [Failure])."""
  ns = namespace()
  ctx = Ctx(ns, involved_keys(prog), all_behavioural, heavy)
  cidx = _capture_index(prog)
  model = dict(INIT_MODEL)
  model['_tended'] = set()
  try:
    _exec_node(('T', prog), (), model, ctx, cidx)
  except BaseException as e:  # pylint: disable=broad-except
    ctx.fail(f'program/unexpected-{type(e).__name__}', ((), 'final'),
             f'unexpected {type(e).__name__}: {e}', 'pass', tuple(ctx.involved))
  ctx.event = {k: ('exit', 0) for k in ctx.event}
  ctx.probe((), 'final', model)
  return ctx.checks, ctx.failures


def run_in_fresh_thread(fn, *a):
  out = []

  def target():
    try:
      out.append(('ok', fn(*a)))
    except BaseException as e:  # pylint: disable=broad-except
      out.append(('exc', e))
  t = threading.Thread(target=target)
  t.start()
  t.join()
  if out[0][0] == 'exc':
    raise out[0][1]
  return out[0][1]


# ===========================================================================
# Witness emission
# ===========================================================================

def emit(prog, failure):
  """Pure-pyglove source reproducing `failure` of `prog`."""
  loc = failure.loc
  cidx = _capture_index(prog)
  lines = []

  def slot(path, s, ind):
    if loc == (path, s):
      lines.append(ind + failure.assert_src)

  def block(children, path, ind, stack):
    lines.append(ind + 'pass')
    slot(path, 0, ind)
    for i, n in enumerate(children):
      node(n, path + (i,), ind, stack)
      slot(path, i + 1, ind)

  def node(n, path, ind, stack):
    if n[0] == 'R':
      lines.append(ind + ('raise E_()' if n[1] == 'E' else 'raise BE_()'))
    elif n[0] == 'A':
      act = ACTS[n[1]]
      ti, _ = _target(stack, act)
      lines.append(ind + act.src.format(y=_yvar(stack[ti][1])))
    elif n[0] == 'C':
      lines.append(ind + f'w{cidx[path]}_ = pg.with_contextual_override(gx_)')
    elif n[0] == 'T':
      lines.append(ind + 'try:')
      block(n[1], path, ind + ' ', stack)
      lines.append(ind + 'except (E_, BE_): pass')
    else:
      arg = MGRS[n[1]].args[n[2]]
      wrap = loc[0] == path and loc[1] in ('x', 'e')
      if wrap:
        lines.append(ind + 'try:')
        ind2 = ind + ' '
      else:
        ind2 = ind
      if arg.enter_raises:
        lines.append(ind2 + 'try:')
        lines.append(ind2 + f' with {arg.src}: raise AssertionError("entered")')
        lines.append(ind2 + f'except {arg.enter_raises}: pass')
        return
      lines.append(ind2 + f'with {arg.src} as {_yvar(path)}:')
      slot(path, 'y', ind2 + ' ')
      block(n[3], path, ind2 + ' ', stack + [(n[1], path)])
      if wrap:
        lines.append(ind + 'except (E_, BE_):')
        lines.append(ind + ' ' + failure.assert_src)
        lines.append(ind + ' raise')
        if loc[1] == 'e':
          lines.append(ind + failure.assert_src)

  lines.append('e0_ = exn_()' if 'dyneval' in involved_keys(prog) else 'pass')
  lines.append('try:')
  block(prog, (), ' ', [])
  lines.append('except (E_, BE_): pass')
  slot((), 'final', '')
  keys = set(involved_keys(prog)) | set(failure.keys)
  pre, seen = [COMMON], set()
  for k in KEY_ORDER:
    p = KEYS[k].prelude
    if k in keys and p and p not in seen:
      seen.add(p)
      pre.append(p)
  if failure.heavy:
    pre.append(CONSUMERS)
  return ''.join(pre) + '\n'.join(lines) + '\n'


def witness(prog, failure):
  w = emit(prog, failure)
  if len(w) <= 1190:
    return w
  return ('import bounded.c17_scopes as m\n'
          f'm.replay_program({prog!r}, {failure.case_id!r})\n')


def replay_program(prog, case_id, all_behavioural=True, heavy=True):
  _, fails = run_in_fresh_thread(run_program, prog, all_behavioural, heavy)
  _reset_process_wide()
  for f in fails:
    if f.case_id == case_id:
      raise AssertionError(f'{f.case_id} at {f.loc}: {f.message}\n' + emit(prog, f))


def replay(rec):
  """Re-executes rec['witness']; returns (ok, message)."""
  try:
    exec(rec['witness'], {})  # pylint: disable=exec-used
    return True, 'witness passes'
  except BaseException as e:  # pylint: disable=broad-except
    return False, f'{type(e).__name__}: {e}'[:500]


# ===========================================================================
# Program generators
# ===========================================================================

def _choices(key_names):
  """All (manager name, arg index) pairs of the given keys."""
  return [(m.name, i) for m in MGRS.values() if m.key in key_names
          for i in range(len(m.args))]


def _chain(seq, leaf=()):
  """[(mgr, ai), ...] -> nested program, innermost block = leaf."""
  node = list(leaf)
  for name, ai in reversed(seq):
    node = [('W', name, ai, node)]
  return node


def _chain_variants(seq):
  """Exit variants of a chain: normal, Exception, BaseException, caught at each level."""
  d = len(seq)
  yield 'normal', _chain(seq)
  yield 'exc-to-top', _chain(seq, [('R', 'E')])
  yield 'baseexc-to-top', _chain(seq, [('R', 'B')])
  for lvl in range(1, d):          # try/except placed inside level `lvl`
    inner = [('T', _chain(seq[lvl:], [('R', 'E')]))]
    yield f'caught-inside-level-{lvl}', _chain(seq[:lvl], inner)
  if d >= 1:                       # raise after an inner scope has been left
    yield 'exc-after-inner-exit', _chain(seq[:-1], [('W',) + tuple(seq[-1]) + ([],), ('R', 'E')])


def valid_program(prog):
  """Checks `allowed` predicates, manager conflicts and action targets against the model."""
  def walk(children, model, stack, direct):
    # `direct`: the children are the statements of the block of stack[-1] (possibly via try blocks)
    dirty = False
    for n in children:
      if dirty and n[0] != 'R':
        return False               # nothing is modelled after the yielded value was modified
      if n[0] == 'T':
        if not walk(n[1], model, stack, direct):
          return False
        if any(c[0] == 'A' and ACTS[c[1]].dirty for c in n[1]):
          dirty = True
      elif n[0] == 'A':
        act = ACTS[n[1]]
        ti, _ = _target(stack, act)
        if ti is None:
          return False
        if act.dirty:
          if ti != len(stack) - 1 or not direct:
            return False
          dirty = True
        elif act.effect is not None and act.effect is not _tended:
          # state-setting actions: modelled on a copy (the effect mutates the model)
          model = dict(model)
          act.effect(model, 0)
      elif n[0] == 'W':
        mgr = MGRS[n[1]]
        arg = mgr.args[n[2]]
        if arg.allowed and not arg.allowed(model[mgr.key]):
          return False
        if any(c in [e[0] for e in stack] for c in mgr.conflicts):
          return False
        if arg.enter_raises:
          continue
        inner = dict(model)
        inner[mgr.key] = mgr.enter(model[mgr.key], arg.marg)
        if not walk(n[3], inner, stack + [(mgr.name, None)], True):
          return False
    return True
  names = _mgr_names(prog)
  if 'dynamic_evaluate' in names and 'dynamic_evaluate_global' in names:
    return False     # see drv_specials: dynamic_evaluate/process-wide-after-per-thread
  return walk(prog, dict(INIT_MODEL), [], False)


def _mgr_names(prog):
  out = set()

  def walk(children):
    for n in children:
      if n[0] == 'W':
        out.add(n[1])
        walk(n[3])
      elif n[0] == 'T':
        walk(n[1])
  walk(prog)
  return out


def _run_batch(rec, progs, all_behavioural=False, label=lambda tag: '', heavy=False):
  """Runs (tag, prog) pairs on worker threads; a thread is abandoned after a failure."""
  progs = list(progs)
  i = 0
  while i < len(progs):
    results = []

    def work(start=i):
      for j in range(start, len(progs)):
        solo = 'dynamic_evaluate_global' in _mgr_names(progs[j][1])
        if solo and j > start:
          return       # process-wide dynamic evaluation gets a thread of its own
        c, f = run_program(progs[j][1], all_behavioural, heavy)
        results.append((j, c, f))
        if f or solo:
          return
    run_in_fresh_thread(work)
    for j, c, fails in results:
      tag, prog = progs[j]
      rec.cases += max(c - 1, 0)
      ids = {}
      for f in fails:
        ids.setdefault(f.case_id, f)
      rec.case(f'program-without-findings{label(tag)}', (tag, prog), ok=not fails, nontrivial=True,
               message='; '.join(sorted(ids))[:300],
               witness=witness(prog, fails[0]) if fails else '')
      for cid, f in ids.items():
        rec.case(cid, (tag, prog), ok=False, message=f'{f.message} [{tag}; at {f.loc}]',
                 witness=witness(prog, f))
      if fails:
        _reset_process_wide()
    i = results[-1][0] + 1


def _finish(rec):
  """Drops the umbrella entries: every failure is already listed under its own id."""
  for k in [k for k in rec.fail if k.startswith('program-without-findings')]:
    del rec.fail[k]
  return rec.result()


def drv_nesting_same_key(tier, seed):
  """Chains of scopes over one piece of state, every exit variant."""
  full3 = tier != 'quick'
  rec = Recorder(
      'C17', 'same-state nesting of every scoped manager vs documented nesting rule',
      scope=('per state key: all chains of its managers/args of depth 1..2 (quick: <=81 seeded '
             'pairs per key) (and depth 3: '
             + ('all' if full3 else '40 seeded samples per key')
             + '), each with exit variants normal / Exception / BaseException / caught inside '
             'each level / raised after inner exit; all getters probed at every block slot and '
             'after every exceptional exit; behavioural probes of the involved state'))
  r = rng(seed, 'c17-same')
  progs = []
  for k in KEY_ORDER:
    ch = _choices({k})
    if not ch:
      continue
    pairs = list(itertools.product(ch, ch))
    if not full3 and len(pairs) > 81:
      pairs = r.sample(pairs, 81)
    seqs = [(a,) for a in ch] + pairs
    triples = list(itertools.product(ch, ch, ch))
    if not full3 and len(triples) > 40:
      triples = r.sample(triples, 40)
    elif full3 and len(triples) > 400:
      triples = r.sample(triples, 400)
    for seq in seqs + triples:
      for vname, prog in _chain_variants(list(seq)):
        if valid_program(prog):
          progs.append((f'{k}/depth{len(seq)}/{vname}', prog))
  _run_batch(rec, progs)
  return _finish(rec)


def drv_in_block_actions(tier, seed):
  """What the block does with the scope object it was handed must not matter for the restore."""
  quick = tier == 'quick'
  rec = Recorder(
      'C17', 'operations on the scope object / yielded value / scoped state inside the block',
      scope=('every in-block action (TimeIt.end/end(error)/end twice/start on the current and the '
             'enclosing timing scope; thread_local_set inside a value scope; adding an entry to / '
             'clearing the dict yielded by str_format, repr_format, thread_local_arg_scope, '
             'view_options, coding.context, contextual_override, contextual_scope, detour, '
             'load_types_for_deserialization; appending to the list of track_scripts) x chains of '
             'the manager\'s args of depth (1+up)..(2+up) (' + ('<=12 seeded chains per depth'
                                                                if quick else 'all')
             + ') x shapes: action last / action then raise E / BaseException / caught inside the '
             'outer scope / sibling scope after the block / scope entered after the action / action '
             'below a scope of a different manager / action repeated; getters probed at every slot'))
  r = rng(seed, 'c17-actions')
  allc = [c for c in _choices(set(KEY_ORDER)) if not MGRS[c[0]].args[c[1]].enter_raises]
  progs = []
  for act in ACTS.values():
    ch = [(m, i) for m in act.mgrs for i, a in enumerate(MGRS[m].args)
          if not a.enter_raises and a.src != "preset_('P')"]
    for depth in (act.up + 1, act.up + 2):
      seqs = list(itertools.product(ch, repeat=depth))
      if quick and len(seqs) > 12:
        seqs = r.sample(seqs, 12)
      for seq in seqs:
        seq = list(seq)
        a = ('A', act.name)
        last = ('W',) + tuple(seq[-1])
        sib = ('W',) + tuple(r.choice(ch)) + ([],)
        other = r.choice([c for c in allc if c[0] not in act.mgrs
                          and MGRS[c[0]].key != MGRS[act.mgrs[0]].key])
        shapes = [
            ('last', _chain(seq, [a])),
            ('then-raise', _chain(seq, [a, ('R', 'E')])),
            ('then-raise-base', _chain(seq, [a, ('R', 'B')])),
            ('sibling-after', _chain(seq[:-1], [last + ([a],), sib])),
            ('caught-then-sibling',
             _chain(seq[:-1], [('T', [last + ([a, ('R', 'E')],)]), sib])),
        ]
        if not act.dirty:
          shapes += [
              ('then-nested-scope', _chain(seq, [a, sib])),
              ('repeated', _chain(seq, [a, a, sib, a])),
              ('below-other-manager', _chain(seq + [other], [a])),
              ('below-other-manager-raise', _chain(seq + [other], [a, ('R', 'E')])),
              ('in-try', _chain(seq, [('T', [a, ('R', 'E')]), sib])),
          ]
        for sname, prog in shapes:
          if valid_program(prog):
            progs.append((f'{act.name}/depth{depth}/{sname}', prog))
  _run_batch(rec, progs)
  return _finish(rec)


def drv_nesting_cross_key(tier, seed):
  """A scope of one manager inside a scope of a different one (both orders)."""
  rec = Recorder(
      'C17', 'cross-manager nesting: scopes never disturb each other',
      scope=('ordered pairs (outer manager/arg, inner manager/arg) over different state keys: '
             + ('every manager pair once with seeded args + 300 seeded arg pairs'
                if tier == 'quick' else 'all arg pairs')
             + '; variants normal and Exception raised in the inner block; every getter at every '
             'slot, every behavioural probe in the innermost block'))
  r = rng(seed, 'c17-cross')
  allc = _choices(set(KEY_ORDER))
  pairs = []
  if tier == 'quick':
    for m1 in MGRS.values():
      for m2 in MGRS.values():
        if m1.key != m2.key:
          pairs.append(((m1.name, r.randrange(len(m1.args))),
                        (m2.name, r.randrange(len(m2.args)))))
    while len(pairs) < 950:
      a, b = r.choice(allc), r.choice(allc)
      if MGRS[a[0]].key != MGRS[b[0]].key:
        pairs.append((a, b))
  else:
    pairs = [(a, b) for a in allc for b in allc if MGRS[a[0]].key != MGRS[b[0]].key]
  progs = []
  for n, (a, b) in enumerate(pairs):
    leaf = [('R', 'E')] if n % 2 else []
    prog = _chain([a, b], leaf)
    if valid_program(prog):
      progs.append((f'{a[0]}>{b[0]}/' + ('exc' if leaf else 'normal'), prog))
  _run_batch(rec, progs, all_behavioural='leaf')
  return _finish(rec)


def random_tree(r, depth, keys=None, p_raise=0.25):
  allc = _choices(keys or set(KEY_ORDER))
  plain = [a for a in ACTS.values() if not a.dirty]

  def block(d, stack):
    out = []
    for _ in range(r.choice((0, 1, 1, 2, 2, 3)) if d else r.choice((1, 2, 3))):
      x = r.random()
      acts = [a.name for a in plain if _target(stack, a)[0] is not None]
      if acts and r.random() < 0.3:
        out.append(('A', r.choice(acts)))
      if x < 0.62 and d < depth:
        name, ai = r.choice(allc)
        out.append(('W', name, ai, block(d + 1, stack + [(name, None)])))
      elif x < 0.74 and d < depth:
        out.append(('T', block(d + 1, stack)))
      elif x < 0.74 + p_raise * 0.6:
        out.append(('R', r.choice('EEB')))
        break
      elif x < 0.95:
        out.append(('C',))
    return out
  return block(0, [])


def drv_random_trees(tier, seed):
  rec = Recorder(
      'C17', 'random well-nested programs with siblings, try blocks, raises and captured wrappers',
      scope=('seeded random trees, nesting depth<=3 (with/try), <=3 statements per block, '
             'Exception/BaseException raised at arbitrary statements, in-block actions (TimeIt '
             'end/start, thread_local_set, track_scripts append) before arbitrary statements, '
             'pg.with_contextual_override wrappers captured at arbitrary points and called '
             'later on the same and on a new thread; '
             + ('500' if tier == 'quick' else '6000') + ' programs over all managers, plus '
             + ('400' if tier == 'quick' else '4000') + ' over 2 random state keys'))
  r = rng(seed, 'c17-trees')
  progs = []
  n_all, n_two = (500, 400) if tier == 'quick' else (6000, 4000)
  while len(progs) < n_all:
    p = random_tree(r, 3)
    if valid_program(p):
      progs.append(('all-managers', p))
  while len(progs) < n_all + n_two:
    keys = set(r.sample(KEY_ORDER, 2))
    if not _choices(keys):
      continue
    p = random_tree(r, 3, keys)
    if valid_program(p):
      progs.append(('two-keys', p))
  _run_batch(rec, progs)
  return _finish(rec)


def drv_setting_consumers(tier, seed):
  """The operations documented to obey a scoped setting, tried under the scope."""
  quick = tier == 'quick'
  rec = Recorder(
      'C17', 'every consumer of a scoped flag / format setting obeys the setting in scope',
      scope=('consumer matrices (see the tables of the consumers prelude: Object / Functor / typed '
             'Dict / typed List x construction, late value-spec binding, rebind, accessor writes, '
             'list and dict mutators, from_json, clone/copy, str/repr; both object-level flag '
             'values) of notify_on_change, enable_type_check, track_origin, '
             'allow_writable_accessors, as_sealed, allow_partial, str_format, repr_format; code '
             'kinds x evaluate / run / evaluate(permission=) of coding.permission, symbols and '
             'assignments of evaluate / run under coding.context, the hyper primitive factories '
             'under dynamic_evaluate; '
             'evaluated in the innermost block of every scope of depth 1 and '
             + ('9 seeded chains' if quick else 'every chain') + ' of depth 2, '
             'and in the first slot of every block and after every exceptional exit of: '
             + ('2 seeded scopes' if quick else 'every scope') + ' of depth 1 left by an Exception, '
             + ('3 seeded chains of depth 2 with an Exception caught inside level 1 / raised after '
                'the inner exit' if quick else 'all chains of depth 2 with all exit variants')
             + ('' if quick else ', every chain of depth 3 (<=64 seeded per setting)')
             + '; ordered pairs of different flag managers ('
             + ('one seeded order and arg pair per manager pair' if quick else 'all arg pairs')
             + ') with the matrices of both in the innermost block; 2 threads holding different '
             'values of the same setting (every thread and a new thread after every enter event)'))
  r = rng(seed, 'c17-consumers')
  first, leafs, progs = [], [], []
  def choices(k):
    return [c for c in _choices({k}) if not MGRS[c[0]].args[c[1]].enter_raises
            and not MGRS[c[0]].args[c[1]].exit_raises]
  for k in HEAVY_KEYS:
    ch = choices(k)
    first.append((f'{k}/depth1/normal', _chain([ch[0]])))
    for a in ch[1:]:
      leafs.append((f'{k}/depth1/normal', _chain([a])))
    for a in (ch if not quick else r.sample(ch, min(2, len(ch)))):
      progs.append((f'{k}/depth1/exc-to-top', _chain([a], [('R', 'E')])))
    pairs = list(itertools.product(ch, ch))
    if quick and len(pairs) > 9:
      pairs = r.sample(pairs, 9)
    varied = pairs if not quick else r.sample(pairs, min(3, len(pairs)))
    for seq in pairs:
      for vname, prog in _chain_variants(list(seq)):
        if vname == 'normal':
          (leafs if quick else progs).append((f'{k}/depth2/{vname}', prog))
        elif seq in varied and (not quick or vname in (
            'caught-inside-level-1', 'exc-after-inner-exit')):
          progs.append((f'{k}/depth2/{vname}', prog))
    if not quick:
      triples = list(itertools.product(ch, ch, ch))
      for seq in (triples if len(triples) <= 64 else r.sample(triples, 64)):
        for vname, prog in _chain_variants(list(seq)):
          progs.append((f'{k}/depth3/{vname}', prog))
  # (with the state before any scope and after the last one / in the innermost block / in
  # every block and after every exceptional exit)
  for batch, mode in ((first, True), (leafs, 'leaf'), (progs, 'touched')):
    _run_batch(rec, [(t, p) for t, p in batch if valid_program(p)], heavy=mode)
  # a scope of another flag manager around / inside: the consumers are not disturbed
  flag_keys = ['notify', 'typecheck', 'origin', 'writable', 'sealed', 'partial', 'autocall']
  cross = []
  n = 0
  flip = {frozenset(pr): r.randrange(2) for pr in itertools.combinations(flag_keys, 2)}
  for k1 in flag_keys:
    for k2 in flag_keys:
      if k1 == k2 or (quick and (k1 < k2) == bool(flip[frozenset((k1, k2))])):
        continue     # (quick: one seeded order per pair of managers)
      c1, c2 = _choices({k1}), _choices({k2})
      for a, b in ([(r.choice(c1), r.choice(c2))] if quick else itertools.product(c1, c2)):
        n += 1
        prog = _chain([a, b], [('R', 'E')] if n % 3 == 0 else [])
        if valid_program(prog):
          cross.append((f'{a[0]}>{b[0]}', prog))
  _run_batch(rec, cross, heavy='leaf')
  # threads
  for k in HEAVY_KEYS:
    ch = [c for c in choices(k) if not MGRS[c[0]].process_wide]
    a, b = ch[0], ch[1]
    for order in ([[0, 1, 1, 0]] if quick else list(_interleavings([2, 2]))):
      tprogs = [[('W',) + a + ([],)], [('W',) + b + ([],)]]
      assert _schedule_ok(tprogs), tprogs
      try:
        checks, fails = run_schedule(tprogs, order, heavy=True)
      except BaseException as e:  # pylint: disable=broad-except
        checks, fails = 0, [(f'schedule/harness-{type(e).__name__}', str(e))]
      rec.cases += max(checks - 1, 0)
      ids = {}
      for cid, msg in fails:
        ids.setdefault(cid, msg)
      rec.case('schedule-without-findings', (k, tprogs, order), ok=not fails)
      for cid, msg in ids.items():
        rec.case(cid, (k, tprogs, order), ok=False, message=f'{msg} [consumers/{k}]',
                 witness=('import bounded.c17_scopes as m\n'
                          f'm.replay_schedule({tprogs!r}, {order!r}, {cid!r}, heavy=True)\n'))
      if fails:
        _reset_process_wide()
  rec.fail.pop('schedule-without-findings', None)
  return _finish(rec)


# ===========================================================================
# Threads: deterministic schedules of well-nested per-thread programs
# ===========================================================================

class _Worker:
  """A thread executing enter/exit/probe commands one at a time."""

  def __init__(self, ns):
    self.ns = ns
    self.q = queue.Queue()
    self.out = queue.Queue()
    self.thread = threading.Thread(target=self._loop, daemon=True)
    self.thread.start()

  def call(self, *cmd):
    self.q.put(cmd)
    kind, val = self.out.get(timeout=60)
    if kind == 'exc':
      raise val
    return val

  def stop(self):
    self.q.put(('stop',))
    self.thread.join(timeout=10)

  def _loop(self):
    ns = self.ns
    stack = []
    while True:
      cmd = self.q.get()
      try:
        if cmd[0] == 'stop':
          return
        if cmd[0] == 'enter':
          arg = MGRS[cmd[1]].args[cmd[2]]
          cm = eval(arg.code, ns)  # pylint: disable=eval-used
          cm.__enter__()
          stack.append(cm)
          self.out.put(('ok', None))
        elif cmd[0] == 'exit':
          cm = stack.pop()
          if cmd[1] == 'N':
            cm.__exit__(None, None, None)
            self.out.put(('ok', None))
          elif cmd[1] == 'X':
            try:
              cm.__exit__(None, None, None)
              self.out.put(('ok', 'exit_fn error did not propagate'))
            except ns['E_']:
              self.out.put(('ok', None))
          else:
            exc = ns['E_' if cmd[1] == 'E' else 'BE_']()
            swallowed = None
            try:
              raise exc
            except BaseException as e:  # pylint: disable=broad-except
              try:
                swallowed = cm.__exit__(type(e), e, e.__traceback__)
              except BaseException as e2:  # pylint: disable=broad-except
                if e2 is not e and not isinstance(e2, ns['E_']):   # (a raising exit_fn may replace it)
                  raise
            self.out.put(('ok', bool(swallowed)))
        elif cmd[0] == 'probe':
          _, model, involved, skip, heavy = cmd
          ctx = Ctx(ns, involved, heavy=heavy)
          ctx.probe((), 0, model, skip_keys=skip)
          self.out.put(('ok', (ctx.checks, ctx.failures)))
      except BaseException as e:  # pylint: disable=broad-except
        self.out.put(('exc', e))


def linearize(prog):
  """Program without T/C nodes -> [('enter', mgr, ai) | ('exit', kind)].

  An ('R', k) node ends its block: every enclosing scope is left with that
  exception (nothing catches it)."""
  ev = []

  def walk(children, depth):
    for n in children:
      if n[0] == 'W':
        if MGRS[n[1]].args[n[2]].enter_raises:
          continue
        ev.append(('enter', n[1], n[2]))
        r = walk(n[3], depth + 1)
        if r is None and MGRS[n[1]].args[n[2]].exit_raises:
          ev.append(('exit', 'X'))      # normal exit; the user's exit_fn raises E_
          return 'E'
        ev.append(('exit', r or 'N'))
        if r:
          return r
      elif n[0] == 'R':
        return n[1]
    return None
  walk(prog, 0)
  return ev


def run_schedule(progs, order, heavy=False):
  """progs: one program per thread; order: thread index per event.

  heavy: also evaluate the consumer matrices of the involved keys (in every
  thread and in a new thread) after every event that enters a scope.

  Returns (checks, [(case_id, message)])."""
  ns = namespace()
  events = [linearize(p) for p in progs]
  assert sorted(order) == sorted(t for t, e in enumerate(events) for _ in e), (order, events)
  pw_keys = {}      # process-wide key -> owning thread
  for t, p in enumerate(progs):
    for name in _mgr_names(p):
      if MGRS[name].process_wide or KEYS[MGRS[name].key].process_wide:
        pw_keys[MGRS[name].key] = t
  involved = set()
  for p in progs:
    involved |= involved_keys(p)
  workers = [_Worker(ns) for _ in progs]
  models = [[dict(INIT_MODEL)] for _ in progs]
  pos = [0] * len(progs)
  fails, checks = [], 0

  wrong = {}        # thread -> probes that disagreed with its model after the previous event

  def probe_all(actor, what):
    nonlocal checks
    for t, w in enumerate(workers):
      skip = tuple(k for k, owner in pw_keys.items() if owner != t)
      c, fs = w.call('probe', models[t][-1], involved, skip, heavy and what.startswith('entered'))
      checks += c
      was = wrong.get(t, ())
      wrong[t] = {f.case_id.split('/')[0] for f in fs}
      for f in fs:
        base = f.case_id.split('/')[0]
        # (a thread that was already wrong before the other thread's event is not a leak)
        tag = 'own-event' if (t == actor or base in was) else 'leak-from-other-thread'
        fails.append((f'{base}/threads/{tag}',
                      f'thread {t} after thread {actor} {what}: {f.message}'))
    fresh = _Worker(ns)
    try:
      c, fs = fresh.call('probe', dict(INIT_MODEL), involved, tuple(pw_keys),
                         heavy and what.startswith('entered'))
    finally:
      fresh.stop()
    checks += c
    for f in fs:
      fails.append((f'{f.case_id.split("/")[0]}/threads/leak-into-new-thread',
                    f'new thread after thread {actor} {what}: {f.message}'))

  try:
    probe_all(-1, 'start')
    for t in order:
      e = events[t][pos[t]]
      pos[t] += 1
      try:
        if e[0] == 'enter':
          mgr = MGRS[e[1]]
          arg = mgr.args[e[2]]
          workers[t].call(*e)
          top = dict(models[t][-1])
          top[mgr.key] = mgr.enter(top[mgr.key], arg.marg)
          models[t].append(top)
          what = f'entered {arg.src}'
        else:
          swallowed = workers[t].call(*e)
          models[t].pop()
          what = f'left its innermost scope ({e[1]})'
          if swallowed:
            fails.append(('exit/exception-swallowed', f'thread {t}: __exit__ returned true'))
      except BaseException as x:  # pylint: disable=broad-except
        fails.append((f'schedule/unexpected-{type(x).__name__}',
                      f'thread {t} {e}: {type(x).__name__}: {x}'))
        break
      probe_all(t, what)
  finally:
    for w in workers:
      w.stop()
  return checks, fails


def replay_schedule(progs, order, case_id, heavy=False):
  _, fails = run_schedule(progs, order, heavy)
  _reset_process_wide()
  for cid, msg in fails:
    if cid == case_id:
      raise AssertionError(f'{cid}: {msg}\nthreads={progs!r}\norder={order!r}')


def _interleavings(counts):
  """All merges of sequences with the given lengths (as thread-index lists)."""
  if not any(counts):
    yield []
    return
  for t, c in enumerate(counts):
    if c:
      rest = list(counts)
      rest[t] -= 1
      for tail in _interleavings(rest):
        yield [t] + tail


def _schedule_ok(progs):
  """At most one thread may touch a process-wide key; nobody else uses that key."""
  owners = {}
  for t, p in enumerate(progs):
    if not valid_program(p):
      return False
    for name in _mgr_names(p):
      k = MGRS[name].key
      owners.setdefault(k, set()).add((t, MGRS[name].process_wide or KEYS[k].process_wide))
  for k, us in owners.items():
    if any(pw for _, pw in us) and len({t for t, _ in us}) > 1:
      return False
  names = set().union(*[_mgr_names(p) for p in progs])
  if 'dynamic_evaluate' in names and 'dynamic_evaluate_global' in names:
    return False
  return True


def drv_threads(tier, seed):
  quick = tier == 'quick'
  rec = Recorder(
      'C17', 'thread isolation of scoped settings under deterministic interleavings',
      scope=('2 threads, one scope each over the same state key: all arg pairs (<=4x4 quick, all '
             'thorough) x all 6 interleavings x exit kinds; 2 threads over different keys '
             '(seeded); seeded random schedules of 2..' + ('3' if quick else '4') +
             ' threads running well-nested programs of depth<=2 with exceptional exits ('
             + ('120' if quick else '2500') + ' schedules); after every event every thread and '
             'a newly started thread probe all getters and the behavioural probes of all '
             'involved state; process-wide managers exempt in other threads'))
  r = rng(seed, 'c17-threads')
  scheds = []
  for k in KEY_ORDER:
    ch = _choices({k})
    ch = [c for c in ch if not MGRS[c[0]].args[c[1]].enter_raises]
    if quick and len(ch) > 4:
      ch = r.sample(ch, 4)
    n = 0
    for a in ch:
      for b in ch:
        for order in _interleavings([2, 2]):
          n += 1
          if quick and n % 3 != seed % 3:
            continue
          kinds = ('N', 'E', 'B')
          ka, kb = kinds[n % 3], kinds[(n // 3) % 3]
          progs = [[('W',) + a + ([('R', ka)] if ka != 'N' else [],)],
                   [('W',) + b + ([('R', kb)] if kb != 'N' else [],)]]
          if _schedule_ok(progs):
            scheds.append((f'same-key/{k}', progs, order))
  allc = [c for c in _choices(set(KEY_ORDER)) if not MGRS[c[0]].args[c[1]].enter_raises]
  for _ in range(150 if quick else 1500):
    a, b = r.choice(allc), r.choice(allc)
    progs = [[('W',) + a + ([],)], [('W',) + b + ([],)]]
    if _schedule_ok(progs):
      scheds.append(('two-keys', progs, r.choice(list(_interleavings([2, 2])))))
  want = 120 if quick else 2500
  tries = 0
  while want and tries < 100000:
    tries += 1
    nt = r.choice((2, 2, 3) if quick else (2, 3, 3, 4))
    keys = set(r.sample(KEY_ORDER, r.choice((1, 1, 2, 3))))
    if not _choices(keys):
      continue
    progs = []
    for _ in range(nt):
      p = random_tree(r, 2, keys)
      p = _strip(p)
      progs.append(p)
    if not _schedule_ok(progs) or sum(len(linearize(p)) for p in progs) > 14:
      continue
    counts = [len(linearize(p)) for p in progs]
    if sum(1 for c in counts if c) < 2:
      continue
    order = [t for t, c in enumerate(counts) for _ in range(c)]
    r.shuffle(order)
    scheds.append((f'random/{nt}-threads', progs, order))
    want -= 1
  for tag, progs, order in scheds:
    try:
      checks, fails = run_schedule(progs, order)
    except BaseException as e:  # pylint: disable=broad-except
      checks, fails = 0, [(f'schedule/harness-{type(e).__name__}', str(e))]
    rec.cases += max(checks - 1, 0)
    ids = {}
    for cid, msg in fails:
      ids.setdefault(cid, msg)
    wit = lambda cid: ('import bounded.c17_scopes as m\n'
                       f'm.replay_schedule({progs!r}, {order!r}, {cid!r})\n')
    rec.case('schedule-without-findings', (tag, progs, order), ok=not fails)
    for cid, msg in ids.items():
      rec.case(cid, (tag, progs, order), ok=False, message=f'{msg} [{tag}]', witness=wit(cid))
    if fails:
      _reset_process_wide()
  rec.fail.pop('schedule-without-findings', None)
  return rec.result()


def _strip(prog):
  """Removes T and C nodes (threads driver uses linear enter/exit events)."""
  out = []
  for n in prog:
    if n[0] == 'W':
      out.append(('W', n[1], n[2], _strip(n[3])))
    elif n[0] == 'T':
      out.extend(_strip(n[1]))
    elif n[0] == 'R':
      out.append(n)
      break
  return out


# ===========================================================================
# Hand-written special situations (each is its own self-contained witness)
# ===========================================================================

SPECIALS = [
    ('detour/leaving-scope-restores-instantiation/subclass-detoured-after-its-base', '''
import pyglove as pg
class A:
  def __init__(self, v=0): self.v = v
class B(A): pass
class C:
  def __init__(self, v=0): self.v = v
with pg.detour([(A, C)]):
  assert type(A()) is C
with pg.detour([(B, C)]):
  assert type(B()) is C
assert pg.detouring.current_mappings() == {}
try:
  ok = type(B(1)) is B and type(A(1)) is A
except RecursionError:
  ok = False
assert ok, 'B() no longer constructs a B after both detour scopes were left'
'''),
    ('detour/leaving-scope-restores-instantiation/base-detoured-after-its-subclass', '''
import pyglove as pg
class A:
  def __init__(self, v=0): self.v = v
class B(A): pass
class C:
  def __init__(self, v=0): self.v = v
with pg.detour([(B, C)]):
  assert type(B()) is C and type(A()) is A
  with pg.detour([(A, C)]):
    assert type(B()) is C and type(A()) is C
  assert type(B()) is C and type(A()) is A
assert type(B(1)) is B and type(A(1)) is A and pg.detouring.current_mappings() == {}
'''),
    ('detour/custom-__new__/restored-after-exception', '''
import pyglove as pg
class A:
  def __new__(cls, *a, **k):
    o = super().__new__(cls); o.made_by = 'A.__new__'; return o
  def __init__(self, v=0): self.v = v
class C:
  def __init__(self, v=0): self.v = v
try:
  with pg.detour([(A, C)]):
    assert type(A(2)) is C
    with pg.detour([(C, A)]):
      assert type(A(2)) is C and type(C(2)) is C
      raise KeyError()
except KeyError: pass
a = A(3)
assert type(a) is A and a.made_by == 'A.__new__' and a.v == 3
assert pg.detouring.current_mappings() == {}
'''),
    ('dynamic_evaluate/process-wide-after-per-thread-scope-on-same-thread', '''
import pyglove as pg, threading
out = []
def run():
  with pg.hyper.dynamic_evaluate(lambda hv: 'per-thread'):
    assert pg.oneof([1, 2]) == 'per-thread'
  assert isinstance(pg.oneof([1, 2]), pg.hyper.OneOf)
  with pg.hyper.dynamic_evaluate(lambda hv: 'global', per_thread=False):
    out.append(pg.oneof([1, 2]))
  out.append(type(pg.oneof([1, 2])).__name__)
t = threading.Thread(target=run); t.start(); t.join()
assert out == ['global', 'OneOf'], out
'''),
    ('dynamic_evaluate/per-thread-after-process-wide-scope', '''
import pyglove as pg, threading
out = []
def run():
  with pg.hyper.dynamic_evaluate(lambda hv: 'global', per_thread=False):
    out.append(pg.oneof([1, 2]))
  with pg.hyper.dynamic_evaluate(lambda hv: 'per-thread'):
    out.append(pg.oneof([1, 2]))
  out.append(type(pg.oneof([1, 2])).__name__)
t = threading.Thread(target=run); t.start(); t.join()
assert out == ['global', 'per-thread', 'OneOf'], out
'''),
    ('dynamic_evaluate/process-wide-visible-in-other-thread-and-restored', '''
import pyglove as pg, threading
out = []
def probe(): out.append(pg.oneof([1, 2]) if not isinstance(pg.oneof([1, 2]), pg.hyper.OneOf) else 'OneOf')
def run():
  try:
    with pg.hyper.dynamic_evaluate(lambda hv: 'g1', per_thread=False):
      with pg.hyper.dynamic_evaluate(lambda hv: 'g2', per_thread=False):
        t = threading.Thread(target=probe); t.start(); t.join()
        raise KeyError()
  except KeyError: pass
  t = threading.Thread(target=probe); t.start(); t.join()
t = threading.Thread(target=run); t.start(); t.join()
assert out == ['g2', 'OneOf'], out
'''),
    ('dynamic_evaluation_context/collect-apply-nesting-restores', '''
import pyglove as pg, threading
def run():
  def fn(): return pg.oneof([1, 2, 3]) + pg.oneof([10, 20])
  ctx = pg.hyper.DynamicEvaluationContext()
  with ctx.collect(): assert fn() == 11
  assert isinstance(pg.oneof([1]), pg.hyper.OneOf)
  with ctx.apply([2, 1]):
    assert fn() == 23
    inner = pg.hyper.DynamicEvaluationContext()
    try:
      with inner.collect():
        assert pg.oneof([7, 8]) == 7
        raise KeyError()
    except KeyError: pass
  assert isinstance(pg.oneof([1]), pg.hyper.OneOf)
  try:
    with ctx.apply([0, 0]):
      assert pg.oneof([1, 2, 3]) == 1
      raise KeyError()
  except KeyError: pass
  assert isinstance(pg.oneof([1]), pg.hyper.OneOf)
  out.append('done')
out = []
t = threading.Thread(target=run); t.start(); t.join()
assert out == ['done']
'''),
    ('with_contextual_override/forwards-arguments-and-result', '''
import pyglove as pg, threading
def f(a, b=2): return (a, b, pg.contextual_value('x', None), pg.contextual_value('y', None))
with pg.contextual_override(x=1, y=pg.utils.contextual.ContextualOverride(5, cascade=True)):
  w = pg.with_contextual_override(f)
out = []
with pg.contextual_override(x=7, y=8):
  assert w(1, b=3) == (1, 3, 1, 5)
  t = threading.Thread(target=lambda: out.append(w(4))); t.start(); t.join()
  assert f(0) == (0, 2, 7, 8)
assert out == [(4, 2, 1, 5)], out
assert w(9) == (9, 2, 1, 5) and pg.utils.all_contextual_values() == {}
'''),
    ('coding.permission/scope-inside-evaluated-code-cannot-widen', '''
import pyglove as pg
P = pg.coding.CodePermission
with pg.coding.permission(P.CALL):
  with pg.coding.permission(P.ALL) as p:
    assert p == P.CALL and pg.coding.get_permission() == P.CALL
    try:
      pg.coding.evaluate('x = 1'); raise AssertionError('assignment ran')
    except pg.coding.CodeError: pass
  assert pg.coding.get_permission() == P.CALL
assert pg.coding.get_permission() is None
'''),
    ('flags/scope-objects-are-lazy-until-entered', '''
import pyglove as pg
cms = [pg.as_sealed(True), pg.notify_on_change(False), pg.enable_type_check(False),
       pg.allow_partial(True), pg.track_origin(True), pg.auto_call_functors(True),
       pg.allow_writable_accessors(False), pg.contextual_override(x=1), pg.str_format(compact=True),
       pg.coding.context(x=1), pg.coding.permission(pg.coding.CodePermission.CALL), pg.view_options(a=1)]
assert pg.symbolic.is_under_sealed_scope() is None and pg.symbolic.is_change_notification_enabled()
assert pg.symbolic.is_type_check_enabled() and pg.symbolic.is_under_partial_scope() is None
assert not pg.symbolic.is_tracking_origin() and not pg.symbolic.should_call_functors_during_init()
assert pg.symbolic.is_under_accessor_writable_scope() is None and pg.utils.all_contextual_values() == {}
assert pg.coding.get_context() == {} and pg.coding.get_permission() is None
'''),
    ('timeit/status-tree-and-errors-after-nested-exception', '''
import pyglove as pg
try:
  with pg.timeit('a') as a:
    with pg.timeit('b') as b:
      pass
    with pg.timeit('c') as c:
      with pg.timeit('d') as d:
        raise KeyError('x')
except KeyError: pass
assert pg.utils.thread_local_get('__timing_context__', None) is None
s = a.status()
assert list(s) == ['a', 'a.b', 'a.c', 'a.c.d'], list(s)
assert [s[k].has_error for k in s] == [True, False, True, True]
assert all(s[k].has_ended for k in s) and [x.name for x in a.children] == ['b', 'c']
with pg.timeit('e') as e: pass
assert list(e.status()) == ['e'] and not e.has_error
'''),
    ('thread_local_value_scope/nested-none-and-falsy-values', '''
import pyglove as pg
U = pg.utils
assert not U.thread_local_has('k17s_')
with U.thread_local_value_scope('k17s_', 0, 'init'):
  assert U.thread_local_get('k17s_') == 0
  try:
    with U.thread_local_value_scope('k17s_', None, 'init'):
      assert U.thread_local_get('k17s_') is None
      with U.thread_local_value_scope('k17s_', False, 'init'):
        assert U.thread_local_get('k17s_') is False
        raise KeyError()
  except KeyError: pass
  assert U.thread_local_get('k17s_') == 0 and U.thread_local_has('k17s_')
assert not U.thread_local_has('k17s_')
'''),
]


# --- errors raised while a scope is being left / by user callbacks run under a scope -------------

_APPLY_EXIT_ERROR = """
import pyglove as pg, threading
out = []
def plain(): return isinstance(pg.oneof([1, 2]), pg.hyper.OneOf)
def other(): r = []; t = threading.Thread(target=lambda: r.append(plain())); t.start(); t.join(); return r[0]
def body():
  ctx = pg.hyper.DynamicEvaluationContext(per_thread=%(pt)s)
  with ctx.collect(): pg.oneof([1, 2, 3])
  assert plain()
%(outer)s
    try:
      with ctx.apply([1, 0]):      # one decision too many: complained about when the block is left
        assert pg.oneof([1, 2, 3]) == 2
%(body)s
    except (ValueError, KeyError): pass
    out.append(%(inside)s)
  out.append((plain(), other()))
  with ctx.apply([2]): out.append(pg.oneof([1, 2, 3]))
  out.append((plain(), other()))
  # nothing of the left scopes lingers: fresh contexts of both kinds work on their own
  for pt in (%(pt)s, not %(pt)s):
    c2 = pg.hyper.DynamicEvaluationContext(per_thread=pt)
    with c2.collect(): pg.oneof([4, 5])
    out.append(len(c2.hyper_dict))
  out.append((plain(), other()))
def run():
  try: body()
  except Exception as e: out.append('%%s: %%s' %% (type(e).__name__, e))
t = threading.Thread(target=run); t.start(); t.join()
assert out == [%(want)s, (True, True), 3, (True, True), 1, 1, (True, True)], out
"""
for _pt in (True, False):
  for _outer in (('top-level', '  if True:', 'plain()', 'True'),
                 ('inside-dynamic_evaluate-scope',
                  "  with pg.hyper.dynamic_evaluate(lambda hv: 'outer', per_thread=%s):" % _pt,
                  'pg.oneof([1, 2])', "'outer'")):
    for _body in (('unused-decision-error-at-exit', '        pass'),
                  ('exception-in-block', '        raise KeyError()')):
      SPECIALS.append((
          f'dynamic_evaluation_context.apply/{_body[0]}/'
          f'{"per-thread" if _pt else "process-wide"}/{_outer[0]}',
          _APPLY_EXIT_ERROR % dict(pt=_pt, outer=_outer[1], inside=_outer[2], want=_outer[3],
                                   body=_body[1])))

SPECIALS += [
    ('dynamic_evaluate/exit_fn-raises/process-wide-setting-cleared-for-other-threads', """
import pyglove as pg, threading
out = []
def plain(): return isinstance(pg.oneof([1, 2]), pg.hyper.OneOf)
def other(): r = []; t = threading.Thread(target=lambda: r.append(plain())); t.start(); t.join(); return r[0]
def boom(): raise KeyError('unused decisions')
def run():
  try:
    with pg.hyper.dynamic_evaluate(lambda hv: 'g', per_thread=False, exit_fn=boom):
      out.append(other())
  except KeyError: pass
  out.append((plain(), other()))
t = threading.Thread(target=run); t.start(); t.join()
assert out == [False, (True, True)], out
"""),
    ('dynamic_evaluate/evaluate_fn-raises/scope-stays-and-is-restored', """
import pyglove as pg
def bad(hv): raise KeyError('no decision')
with pg.hyper.dynamic_evaluate(lambda hv: 'outer'):
  try:
    with pg.hyper.dynamic_evaluate(bad):
      try: pg.oneof([1, 2]); raise AssertionError('not evaluated')
      except KeyError: pass
      try: pg.oneof([1, 2]); raise AssertionError('scope lost after the error')
      except KeyError: pass
      pg.oneof([1, 2])
  except KeyError: pass
  assert pg.oneof([1, 2]) == 'outer'
assert isinstance(pg.oneof([1, 2]), pg.hyper.OneOf)
"""),
    ('with_contextual_override/wrapped-function-raises/caller-state-restored', """
import pyglove as pg, threading
def boom(): raise KeyError(pg.contextual_value('x'))
with pg.contextual_override(x=1, y=pg.utils.contextual.ContextualOverride(5, cascade=True)):
  w = pg.with_contextual_override(boom)
def call():
  try: w(); return 'no error'
  except KeyError as e: return e.args[0]
out = []
def thread():
  out.append(call()); out.append(pg.utils.all_contextual_values())
  with pg.contextual_override(x=3):
    out.append(call()); out.append(pg.utils.all_contextual_values())
with pg.contextual_override(x=7, y=8):
  assert call() == 1
  assert pg.utils.all_contextual_values() == {'x': 7, 'y': 8}
  t = threading.Thread(target=thread); t.start(); t.join()
  assert pg.utils.all_contextual_values() == {'x': 7, 'y': 8}
assert call() == 1 and pg.utils.all_contextual_values() == {}
assert out == [1, {}, 1, {'x': 3}], out
"""),
    ('view/render-raises/view-options-restored', """
import pyglove as pg
class V17x_(pg.views.View):
  VIEW_ID = 'c17boom_'
  def render(self, value, *, name=None, root_path=None, **kwargs):
    V17x_.seen = kwargs
    if value == 'boom': raise KeyError('render failed')
    return pg.Html('x')
def opts(): pg.view(1, view_id='c17boom_'); return V17x_.seen
with pg.view_options(a=1):
  try: pg.view('boom', view_id='c17boom_', a=2, b=3); raise AssertionError('no error')
  except KeyError: pass
  assert V17x_.seen == {'a': 2, 'b': 3} and opts() == {'a': 1}, (V17x_.seen, opts())
  try:
    with pg.view_options(c=4):
      pg.view('boom', view_id='c17boom_')
  except KeyError: pass
  assert opts() == {'a': 1}, opts()
assert opts() == {} and not pg.utils.thread_local_has('__view_options__') or pg.utils.thread_local_get('__view_options__') == []
"""),
    ('view/extension-method-raises/operand-tracking-restored', """
import pyglove as pg
class V17e_(pg.views.View):
  VIEW_ID = 'c17ext_'
  class Extension(pg.views.View.Extension):
    def _c17_render(self, *, view, **kwargs):
      if self.boom: raise KeyError('extension failed')
      return pg.Html('ext')
  @pg.views.View.extension_method('_c17_render')
  def render(self, value, *, name=None, root_path=None, **kwargs):
    return pg.Html('default')
class X17e_(V17e_.Extension):
  def __init__(self, boom): self.boom = boom
def tracked(): return pg.utils.thread_local_get('__view_operand_stack__', None)
assert tracked() is None
assert pg.view(X17e_(False), view_id='c17ext_').content == 'ext'
assert tracked() is None
try: pg.view(X17e_(True), view_id='c17ext_'); raise AssertionError('no error')
except KeyError: pass
assert tracked() is None, tracked()
assert pg.view(X17e_(False), view_id='c17ext_').content == 'ext'
"""),
    ('coding.evaluate/code-raises/permission-and-context-restored', """
import pyglove as pg
P = pg.coding.CodePermission
def state(): return (pg.coding.get_permission(), pg.coding.get_context())
assert state() == (None, {})
for code, perm in [('1/0', P.ALL), ('x = 1', P.BASIC), ('len([])', P.ASSIGN), ('1/0', None)]:
  try: pg.coding.evaluate(code, permission=perm)
  except (pg.coding.CodeError, SyntaxError): pass
  assert state() == (None, {}), state()
  with pg.coding.permission(P.ALL):
    with pg.coding.context(z=0):
      try: pg.coding.evaluate(code, permission=perm)
      except (pg.coding.CodeError, SyntaxError): pass
      assert state() == (P.ALL, {'z': 0}), state()
      try: pg.coding.run(code, permission=perm, sandbox=False)
      except (pg.coding.CodeError, SyntaxError): pass
      assert state() == (P.ALL, {'z': 0}), state()
assert state() == (None, {})
"""),
    ('detour/destination-function-raises/mappings-kept-and-restored', """
import pyglove as pg
class A:
  def __init__(self, v=0): self.v = v
class B:
  def __init__(self, v=0): self.v = v
def boom(cls, v=0):
  if v < 0: raise KeyError('refused')
  return B(v)
with pg.detour([(A, boom)]):
  try: A(-1); raise AssertionError('no error')
  except KeyError: pass
  assert type(A(1)) is B and pg.detouring.current_mappings() == {A: boom}
  try:
    with pg.detour([(B, boom)]):
      B(-1)
  except KeyError: pass
  assert type(A(1)) is B and type(B(1)) is B and pg.detouring.current_mappings() == {A: boom}
assert type(A(-1)) is A and pg.detouring.current_mappings() == {}
"""),
    ('apply_wrappers/where-raises/nothing-applied', """
import pyglove as pg
class A:
  def __init__(self, v=0): self.v = v
AW = pg.wrap(A)
def where(c): raise KeyError('bad filter')
try:
  with pg.apply_wrappers(where=where): raise AssertionError('entered')
except KeyError: pass
assert type(A(1)) is A and pg.detouring.current_mappings() == {}
with pg.apply_wrappers([AW]):
  assert isinstance(A(1), AW)
assert type(A(1)) is A
"""),
    # A TimeIt is a reusable (class based) context manager object.
    ('timeit/scope-object-entered-again/at-the-same-position', """
import pyglove as pg
cur = lambda: pg.utils.thread_local_get('__timing_context__', None)
t = pg.utils.TimeIt('r')
with t: assert cur() is t
assert cur() is None
with t: assert cur() is t
assert cur() is None
with pg.timeit('p') as p:
  with t: assert cur() is t
  assert cur() is p
  try:
    with t: raise KeyError()
  except KeyError: pass
  assert cur() is p
assert cur() is None
"""),
    ('timeit/scope-object-entered-again/nested-after-top-level', """
import pyglove as pg
cur = lambda: pg.utils.thread_local_get('__timing_context__', None)
t = pg.utils.TimeIt('r')
with t: pass
with pg.timeit('p') as p:
  with t: assert cur() is t
  assert cur() is p
assert cur() is None
"""),
    ('timeit/scope-object-entered-again/top-level-after-nested', """
import pyglove as pg
cur = lambda: pg.utils.thread_local_get('__timing_context__', None)
t = pg.utils.TimeIt('r')
with pg.timeit('p') as p:
  with t: pass
assert cur() is None
try:
  with t: assert cur() is t
  assert cur() is None, 'left top-level scope r, yet the current timing scope is %r' % cur().name
finally:
  if cur() is not None: pg.utils.thread_local_del('__timing_context__')
"""),
]


def drv_specials(tier, seed):
  del tier, seed
  rec = Recorder('C17', 'hand-written special situations',
                 scope=f'{len(SPECIALS)} fixed scenarios (class inheritance under detour, custom '
                       '__new__, per-thread vs process-wide dynamic evaluation in sequence, '
                       'DynamicEvaluationContext collect/apply, wrapper argument forwarding, '
                       'lazy scope objects, TimeIt status tree, falsy values in value scopes; '
                       'errors while leaving / under a scope: DynamicEvaluationContext.apply with an '
                       'unused decision or a failing block x per-thread/process-wide x top-level/'
                       'nested, raising exit_fn of a process-wide dynamic_evaluate seen from another '
                       'thread, raising evaluate_fn, raising function behind with_contextual_override, '
                       'raising View.render / extension method under pg.view, failing code under '
                       'coding.evaluate/run with permission=, raising detour destination, raising '
                       'apply_wrappers filter; a TimeIt object entered again at the same / a deeper / '
                       'a shallower position)')
  for cid, src in SPECIALS:
    def run(src=src):
      try:
        exec(src, {})  # pylint: disable=exec-used
        return None
      except BaseException as e:  # pylint: disable=broad-except
        return f'{type(e).__name__}: {e}'[:400]
    err = run_in_fresh_thread(run)
    _reset_process_wide()
    rec.case(cid, cid, ok=err is None, message=err or '', witness=src.lstrip())
  return rec.result()


DRIVERS = [drv_nesting_same_key, drv_in_block_actions, drv_nesting_cross_key, drv_random_trees,
           drv_threads, drv_setting_consumers, drv_specials]
