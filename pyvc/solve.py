"""Solver portfolio: z3 (python API, in-process) first; cvc5 takes z3's
`unknown`s through an SMT-LIB export."""
import os
import subprocess
import tempfile
import z3

CVC5 = '/usr/bin/cvc5'
STATS = {'z3': 0, 'cvc5': 0, 'cvc5_calls': 0}


def second_opinion(solver, timeout_ms):
  """Asks cvc5 about the current assertions of `solver`.

  Returns (z3.unsat | z3.sat | None, 'cvc5').  `sat` from cvc5 is *not* used
  (no model transfer); only `unsat` upgrades an unknown to proved.
  """
  if not os.path.exists(CVC5):
    return None, None
  STATS['cvc5_calls'] += 1
  smt = solver.to_smt2()
  logic = '(set-logic ALL)\n'
  with tempfile.NamedTemporaryFile('w', suffix='.smt2', delete=False,
                                   dir=os.environ.get('VERIF_SCRATCH', None)) as f:
    f.write(logic + smt)
    name = f.name
  try:
    out = subprocess.run(
        [CVC5, '--strings-exp', f'--tlimit={int(timeout_ms)}', name],
        capture_output=True, text=True, timeout=timeout_ms / 1000.0 + 5)
    ans = out.stdout.strip().splitlines()
    if ans and ans[0] == 'unsat':
      STATS['cvc5'] += 1
      return z3.unsat, 'cvc5'
  except Exception:  # pylint: disable=broad-except
    pass
  finally:
    try:
      os.unlink(name)
    except OSError:
      pass
  return None, None


def _has_quantifier(e, _seen=None):
  todo, seen = [e], set()
  while todo:
    x = todo.pop()
    if x.get_id() in seen:
      continue
    seen.add(x.get_id())
    if z3.is_quantifier(x):
      return True
    todo.extend(x.children())
  return False


def retry(solver, timeout_ms):
  """Portfolio for a query z3 left `unknown`: fresh z3 solvers on the same
  assertions with other seeds / quantifier strategies, then cvc5.

  Returns (z3.unsat | z3.sat | None, backend, model | None).  `sat` is only
  accepted from z3 (with a model)."""
  assertions = solver.assertions()
  # Quantifier-free subset first: dropping assumptions is sound for `unsat`
  # (never used for `sat`), and many goals do not need the quantified facts
  # that make the full query hard.
  qf = [a for a in assertions if not _has_quantifier(a)]
  if len(qf) < len(assertions):
    s0 = z3.Solver()
    s0.set('timeout', int(min(timeout_ms, 4000)))
    s0.add(qf)
    if s0.check() == z3.unsat:
      STATS['z3'] += 1
      return z3.unsat, 'z3/qf-subset', None
  variants = [
      {'smt.random_seed': 1},
      {'smt.random_seed': 7, 'smt.mbqi': False},
      {'smt.random_seed': 3, 'smt.ematching': True, 'smt.mbqi': True, 'smt.qi.eager_threshold': 100.0},
      {'smt.random_seed': 11, 'smt.arith.solver': 2},
  ]
  for k, opts in enumerate(variants):
    s2 = z3.Solver()
    s2.set('timeout', int(timeout_ms))
    for key, val in opts.items():
      try:
        s2.set(key, val)
      except z3.Z3Exception:
        pass
    try:
      s2.add(assertions)
      r = s2.check()
    except z3.Z3Exception:
      continue
    if r == z3.unsat:
      STATS['z3'] += 1
      return z3.unsat, f'z3/v{k + 1}', None
    if r == z3.sat:
      try:
        return z3.sat, f'z3/v{k + 1}', s2.model()
      except z3.Z3Exception:
        pass
  r, b = second_opinion(solver, timeout_ms)
  return r, b, None
