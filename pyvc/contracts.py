"""Contracts and the obligation runner.

A contract is a class deriving from `Contract`, kept in /verif/contracts (the
repository is not edited).  Its clauses are ordinary Python functions that are
(a) interpreted symbolically by the same interpreter that executes the real
function body, and (b) executable natively on real objects, so the very same
text is used by the prover, by replay and by the run-time monitors.

  target      'package.module:Qual.name' of the real function under contract
  inputs(b)   builds symbolic arguments with the Builder `b`; returns
              (args: dict by parameter name, ghost: dict of extra symbols that
              the clauses may mention -- universally quantified)
  requires    optional clause over (args..., **ghost)
  old         optional function returning a dict snapshot taken before the call
  ensures_X   clauses over (args..., result, old, **ghost) for normal return
  raises      dict ExcClass -> tuple of clause names checked on that exit;
              an exception of a class not listed fails `EXC/unexpected`
  exc_iff_X   clauses  (args..., **ghost) -> bool, paired with `exc_class_X`:
              the function raises that class  <=>  the clause holds
  inline      keys of callees whose real bodies are executed in place
  uses        contracts applied modularly at call sites
  native(m)   builds (callable, args, kwargs) on real objects from a model `m`
"""
import ast
import inspect
import time
import traceback
import types
import z3

from . import frontend
from . import interp as I
from . import axioms
from .values import (SOptInt, SV, SInt, SReal, SBool, SStr, SBits, SAny, SChoice, SSeq,
                     SObj, SDict, Closure, ExcVal, fresh_name, lift,
                     simplify_concrete, reset_names)

REGISTRY = []


def register(cls):
  REGISTRY.append(cls)
  return cls


def spec(fn):
  """Marks a pure spec function (interpreted in merge mode, callable natively)."""
  fn._pyvc_spec = True
  return fn


class Builder:
  """Creates symbolic inputs on a path and remembers them for models."""

  def __init__(self, path, interp):
    self.path = path
    self.interp = interp

  def _reg(self, name, z):
    self.path.symbols[name] = z
    return z

  def int(self, name, lo=None, hi=None):
    z = self._reg(name, z3.Int(name))
    if lo is not None:
      self.path.assume(z >= lo, check=False)
    if hi is not None:
      self.path.assume(z <= hi, check=False)
    return SInt(z)

  def real(self, name):
    return SReal(self._reg(name, z3.Real(name)))

  def num(self, name, sort):
    return self.int(name) if sort == 'int' else self.real(name)

  def bool(self, name):
    return SBool(self._reg(name, z3.Bool(name)))

  def str(self, name):
    return SStr(self._reg(name, z3.String(name)))

  def bits(self, name, width, cls=None):
    return SBits(self._reg(name, z3.BitVec(name, width)), cls)

  def choice(self, name, alts):
    return SChoice(name, alts)

  def opt(self, name, mk):
    """Optional value: None or mk(name)."""
    return SChoice(name, [None, _thunk(lambda: mk(name))])

  def opt_int(self, name):
    return self.opt(name, self.int)

  def optint(self, name):
    """Optional int without forking (SOptInt)."""
    z = self._reg(name, z3.Int(name))
    p = self._reg(name + '?', z3.Bool(name + '?'))
    return SOptInt(z, p)

  def opt_num(self, name, sort):
    return self.opt(name, lambda n: self.num(n, sort))

  def any(self, name, label=None):
    return SAny(name, label)

  def obj(self, cls, name=None, lazy=None, **fields):
    return SObj(cls, fields, lazy=lazy, name=name)

  def seq(self, name, sort=None, kind='list', wrap=None, unwrap=None,
          max_len=None):
    sort = z3.IntSort() if sort is None else sort
    arr = self._reg(name + '.arr', z3.Array(name + '.arr', z3.IntSort(), sort))
    n = self._reg(name + '.len', z3.Int(name + '.len'))
    self.path.assume(n >= 0, check=False)
    if max_len is not None:
      self.path.assume(n <= max_len, check=False)
    return SSeq(arr, n, wrap or lift, unwrap or self.interp.to_z3, kind, sort)


def _thunk(f):
  f._pyvc_thunk = True
  return f


class Model:
  """Python-level view of a z3 model restricted to the Builder's symbols."""

  def __init__(self, values, choices):
    self.values = values
    self.choices = choices
    self.z3model = None

  def __getitem__(self, name):
    return self.values.get(name)

  def get(self, name, default=None):
    return self.values.get(name, default)

  def opt(self, name):
    """Value of an optional built with Builder.opt: None or the value."""
    if self.choices.get(name, 0) == 0:
      return None
    return self.values.get(name)

  def seq(self, name):
    n = self.values.get(name + '.len') or 0
    arr = self.values.get(name + '.arr')
    if isinstance(arr, list):
      return list(arr[:n]) + [0] * max(0, n - len(arr))
    return [arr(i) for i in range(min(n, 64))] if callable(arr) else [0] * min(n, 64)

  def to_json(self):
    out = {}
    for k, v in self.values.items():
      if callable(v):
        if k.endswith('.arr'):
          n = self.values.get(k[:-4] + '.len') or 0
          try:
            out[k] = [v(i) for i in range(min(int(n), 64))]
          except Exception:  # pylint: disable=broad-except
            pass
        continue
      out[k] = v
    return {'values': out, 'choices': self.choices}


def model_from_z3(path, m):
  vals = {}
  for name, z in path.symbols.items():
    try:
      v = m.eval(z, model_completion=True)
    except z3.Z3Exception:
      continue
    vals[name] = _pyval(v, m)
  mm = Model(vals, dict(path.notes.get('choices', {})))
  mm.z3model = m
  return mm


def _pyval(v, m):
  if z3.is_int_value(v):
    return v.as_long()
  if z3.is_true(v):
    return True
  if z3.is_false(v):
    return False
  if z3.is_rational_value(v):
    return float(v.numerator_as_long()) / float(v.denominator_as_long())
  if z3.is_string_value(v):
    return v.as_string()
  if z3.is_bv_value(v):
    return v.as_long()
  if isinstance(v.sort(), z3.ArraySortRef):
    def look(i, arr=v):
      return _pyval(m.eval(z3.Select(arr, i), model_completion=True), m)
    return look
  return str(v)


class Contract:
  prop = None
  target = None
  name = None
  inline = ()
  inline_modules = ()
  uses = ()
  pure = ()
  raises = {}
  variants = (None,)
  max_paths = 4000
  branch_timeout_ms = 4000   # feasibility checks at forks; `unknown` = explore
  branch_mbqi = True         # False: fork feasibility checks run without model-based quantifier instantiation
  unknown_call_is_error = False
  expect_unreachable_return = False
  bounded = False        # True: a stated bound makes this a bounded stand-in
  bound_note = ''
  assumptions = ()

  def __init__(self, variant=None):
    self.variant = variant

  # -- to be overridden -------------------------------------------------------
  def inputs(self, b):
    raise NotImplementedError

  def native(self, m):
    return None

  def setup_policy(self, policy):
    pass

  def result(self, b, args):
    """Fresh result value when the contract is used at a call site."""
    return SAny('result')

  def havoc(self, b, args):
    """Applies the frame when the contract is used at a call site."""

  def drive(self, interp, pyf, args, env, check):
    """Runs the function under contract; overridden for context managers."""
    return interp.call_function(pyf, [], dict(args))

  # -- derived -----------------------------------------------------------------
  @classmethod
  def short(cls):
    return cls.name or cls.target.split(':')[-1]

  def label(self):
    s = self.short()
    if self.variant is not None:
      s += f'[{self.variant}]'
    return s

  def oblig(self, kind, clause=None):
    s = f'{self.prop}/{self.label()}/{kind}'
    if clause:
      s += f'/{clause}'
    return s

  def clauses(self, prefix):
    out = []
    for n in dir(self):
      if n.startswith(prefix) and callable(getattr(self, n)):
        out.append((n[len(prefix):], getattr(self, n)))
    return out

  def pyfunc(self):
    mod, qn = self.target.split(':')
    obj, owner = frontend.resolve(mod, qn)
    return frontend.unwrap(obj)


def clause_closure(fn):
  """A contract clause (bound method or function) as interpreter Closure."""
  f = fn.__func__ if isinstance(fn, types.MethodType) else fn
  return f, (fn.__self__ if isinstance(fn, types.MethodType) else None)


def direct(fn):
  """Marks a clause that builds its SMT term itself: fn(self, interp, env)."""
  fn._pyvc_direct = True
  return fn


def _guarded_clause(fn, *args):
  """Runs a natively executed clause (@direct / trace_).  A clause that cannot
  be evaluated because the code under check no longer has the shape the clause
  was written for (missing field, different kind of value) is *undecided* for
  this tree -- neither an engine crash nor a verdict."""
  try:
    return fn(*args)
  except (AttributeError, KeyError, TypeError, IndexError, z3.Z3Exception) as e:
    raise I.Unsupported(f'contract clause {getattr(fn, "__name__", fn)} not evaluable on this code shape: {e!r}')


def call_clause(interp, fn, kwargs):
  """Interprets a clause symbolically (spec mode) with keyword arguments
  restricted to the clause's own parameters."""
  f, self_ = clause_closure(fn)
  if getattr(f, '_pyvc_direct', False):
    r = _guarded_clause(fn, interp, _rename_self(kwargs))
    if isinstance(r, (z3.BoolRef,)):
      return SBool(r)
    return r
  sig = inspect.signature(f)
  params = list(sig.parameters)
  call_kw = {}
  args = []
  if self_ is not None:
    args.append(self_)
    params = params[1:]
  has_var_kw = any(p.kind == p.VAR_KEYWORD for p in sig.parameters.values())
  kwargs = _rename_self(kwargs)
  for p in params:
    if p in kwargs:
      call_kw[p] = kwargs[p]
  if has_var_kw:
    for k, v in kwargs.items():
      call_kw.setdefault(k, v)
  try:
    return interp.call_function(f, args, call_kw, spec_mode=True)
  except I.PyRaise as e:
    # same rule as _guarded_clause: the clause does not fit the shape of the
    # values this tree produces -> undecided for this tree, not an engine crash
    if issubclass(e.exc.cls, (AttributeError, KeyError, TypeError, IndexError)):
      raise I.Unsupported(f'clause {getattr(f, "__name__", "?")} cannot be evaluated on this tree: '
                          f'{e.exc.cls.__name__}{e.exc.args!r}')
    raise


def _rename_self(kwargs):
  if 'self' in kwargs:
    kwargs = dict(kwargs)
    kwargs['self_'] = kwargs.pop('self')
  return kwargs


def call_clause_native(fn, kwargs):
  f, self_ = clause_closure(fn)
  sig = inspect.signature(f)
  params = list(sig.parameters)
  if self_ is not None:
    params = params[1:]
  has_var_kw = any(p.kind == p.VAR_KEYWORD for p in sig.parameters.values())
  kwargs = _rename_self(kwargs)
  kw = {p: kwargs[p] for p in params if p in kwargs}
  if has_var_kw:
    for k, v in kwargs.items():
      kw.setdefault(k, v)
  return fn(**kw)


class Report:
  """Outcome of verifying one contract (one variant)."""

  def __init__(self, contract):
    self.contract = contract.label()
    self.prop = contract.prop
    self.target = contract.target
    self.obligations = {}    # name -> dict(status, vcs, time, backends, model)
    self.paths = 0
    self.completed = 0
    self.returns = 0
    self.raises_ = {}
    self.covered = 0
    self.unsupported = []
    self.inlined = set()
    self.called = set()
    self.unknown_calls = set()
    self.solver_s = 0.0
    self.wall_s = 0.0
    self.error = None
    self.xcheck = 0
    self.xcheck_skipped = 0
    self.xcheck_mismatch = []
    self.truncated = False
    self.bounded = contract.bounded
    self.bound_note = contract.bound_note
    self.assumptions = list(contract.assumptions)
    self.axioms = set()

  def add(self, rec):
    o = self.obligations.setdefault(rec['name'], dict(
        status='proved', vcs=0, time=0.0, backends=set(), model=None,
        info=None))
    o['vcs'] += 1
    o['time'] += rec.get('time', 0.0)
    o['backends'].add(rec.get('backend'))
    rank = {'proved': 0, 'unknown': 1, 'failed': 2}
    if rank[rec['status']] > rank[o['status']]:
      o['status'] = rec['status']
    if rec['status'] == 'failed' and o['model'] is None:
      o['model'] = rec.get('pymodel')
      o['info'] = rec.get('info')
      o['trail'] = rec.get('trail')

  def to_json(self):
    d = dict(self.__dict__)
    d['inlined'] = sorted(self.inlined)
    d['called'] = sorted(self.called)
    d['unknown_calls'] = sorted(self.unknown_calls)
    d['axioms'] = sorted(self.axioms)
    obs = {}
    for k, o in self.obligations.items():
      o = dict(o)
      o['backends'] = sorted(x for x in o['backends'] if x)
      m = o.get('model')
      if isinstance(m, Model):
        o['model'] = m.to_json()
      obs[k] = o
    d['obligations'] = obs
    return d


def make_policy(contract, all_contracts):
  p = I.Policy()
  p.inline = set(contract.inline) | DEFAULT_INLINE | {contract.target}
  p.inline_modules = set(contract.inline_modules)
  p.pure = set(contract.pure) | DEFAULT_PURE
  p.unknown_call_is_error = contract.unknown_call_is_error
  for c in contract.uses:
    inst = c() if isinstance(c, type) else c
    p.contracts[inst.target.replace(':', ':', 1)] = as_callee(inst)
  contract.setup_policy(p)
  return p


DEFAULT_INLINE = {
    'pyglove.core.utils.missing:MissingValue.__eq__',
    'pyglove.core.utils.missing:MissingValue.__ne__',
    'pyglove.core.typing.typed_missing:MissingValue.__eq__',
}

DEFAULT_PURE = {
    'pyglove.core.utils.value_location:message_on_path',
    'pyglove.core.utils.formatting:quote_if_str',
    'pyglove.core.utils.formatting:format',
    'pyglove.core.utils.formatting:kvlist_str',
}


def as_callee(c):
  """The modular rule: assert pre, havoc frame, assume post."""

  def handler(interp, frame, args, kwargs):
    path = interp.path
    pyf = c.pyfunc()
    info = frontend.get_funcinfo(pyf)
    bound = interp.bind_args(info.node.args, args, kwargs,
                             pyf.__defaults__ or (), pyf.__kwdefaults__ or {},
                             info.qualname)
    b = Builder(path, interp)
    ghost = c.callee_ghost(b, bound) if hasattr(c, 'callee_ghost') else {}
    env = dict(bound)
    env.update(ghost)
    if getattr(c, 'requires', None) is not None:
      r = call_clause(interp, c.requires, env)
      z = interp.truth_z(r)
      name = f'PRE@{frame.name if frame else "?"}->{c.short()}'
      cur = path.notes.get('current_contract')
      full = f'{cur.prop}/{cur.label()}/{name}' if cur else name
      ok = path.explorer.check_goal(path, full, z)
      if not ok:
        raise I.PathEnd()
    old = call_clause(interp, c.old, env) if getattr(c, 'old', None) is not None else None
    # exceptional behaviours
    for cname, fn in c.clauses('exc_iff_'):
      cond = interp.truth_z(call_clause(interp, fn, env))
      interp.path.raise_if(cond, ExcVal(getattr(c, 'exc_class_' + cname), ()))
    for ecls in getattr(c, 'may_raise', ()):
      if interp.path.decide(2, 'mayraise') == 1:
        raise I.PyRaise(ExcVal(ecls, ()))
    c.havoc(b, bound)
    result = c.result(b, bound)
    env['result'] = result
    env['old'] = old
    for cname, fn in c.clauses('ensures_'):
      r = call_clause(interp, fn, env)
      if not interp.truth(r):
        raise I.Infeasible()
    return result
  return handler


def run_contract(contract, xcheck=True, goal_timeout_ms=8000):
  """Verifies one contract instance; returns a Report."""
  rep = Report(contract)
  t0 = time.time()
  try:
    pyf = contract.pyfunc()
    frontend.get_funcinfo(pyf)   # correspondence check up front
  except frontend.CorrespondenceError as e:
    rep.error = f'correspondence: {e}'
    return rep
  except Exception as e:  # pylint: disable=broad-except
    rep.error = f'resolve: {e!r}'
    return rep
  ex = I.Explorer(max_paths=contract.max_paths, goal_timeout_ms=goal_timeout_ms,
                  branch_timeout_ms=contract.branch_timeout_ms,
                  branch_mbqi=contract.branch_mbqi)
  ex.model_hook = model_from_z3
  if getattr(contract, 'native_refuter', False):
    ex.refuter = _make_refuter(contract)
  policy = make_policy(contract, REGISTRY)
  ensures = contract.clauses('ensures_')
  exc_iff = contract.clauses('exc_iff_')
  axioms.USED.clear()

  def body(path):
    reset_names()
    reset_mark = len(ex.results)
    interp = I.Interp(path, policy)
    path.notes['current_contract'] = contract
    orig_resolve = interp.resolve

    def resolve(v):
      if isinstance(v, SChoice) and v.resolved is None:
        r = orig_resolve(v)
        path.notes.setdefault('choices', {})[v.name] = path.trail[-1][0]
        return r
      return orig_resolve(v)
    interp.resolve = resolve
    b = Builder(path, interp)
    args, ghost = contract.inputs(b)
    env = dict(args)
    env.update(ghost)
    if getattr(contract, 'requires', None) is not None:
      r = call_clause(interp, contract.requires, env)
      if not interp.truth(r):
        raise I.Infeasible()
    old = call_clause(interp, contract.old, env) if getattr(contract, 'old', None) is not None else None
    env['old'] = old
    # exceptional conditions are predicates of the pre-state
    exc_conds = {cname: interp.truth_z(call_clause(interp, fn, env)) for cname, fn in exc_iff}
    outcome = None

    def check(kind, cname, fn, env_=None):
      if not callable(fn):
        z = fn.z if isinstance(fn, SBool) else fn
        return ex.check_goal(path, contract.oblig(kind, cname), z)
      r = call_clause(interp, fn, env_)
      return ex.check_goal(path, contract.oblig(kind, cname), interp.truth_z(r))
    try:
      result = contract.drive(interp, pyf, args, env, check)
      outcome = ('return', result)
    except I.PyRaise as pr:
      outcome = ('raise', pr.exc)
    except I.PathEnd:
      rep.covered += 1
      raise
    # coverage: is the path condition satisfiable?
    sat = path.solver.check()
    if sat == z3.unsat:
      raise I.Infeasible()
    rep.covered += 1
    for e in path.events:
      if e.kind == 'inline':
        rep.inlined.add(e.what)
      elif e.kind == 'call':
        if e.what.startswith('unknown:') or e.what.startswith('opaque:') or e.what.startswith('new:'):
          rep.unknown_calls.add(e.what)
        else:
          rep.called.add(e.what)
    zm = I.safe_model(path.solver) if sat == z3.sat else None
    model0 = model_from_z3(path, zm) if zm is not None else None
    if outcome[0] == 'return':
      rep.returns += 1
      env['result'] = outcome[1]
      # exc_iff: on normal return every exceptional condition is false
      for cname, fn in exc_iff:
        cond = exc_conds[cname]
        z = (not cond) if isinstance(cond, bool) else z3.Not(cond)
        ex.check_goal(path, contract.oblig('EXC', cname + '/returns-only-if-not'), z)
      for cname, fn in ensures:
        r = call_clause(interp, fn, env)
        z = interp.truth_z(r)
        ex.check_goal(path, contract.oblig('POST', cname), z)
      for cname, fn in contract.clauses('trace_'):
        ok = _guarded_clause(fn, path.events, outcome, interp, env)
        ex.check_goal(path, contract.oblig('TRACE', cname), _zb(ok),
                      info=_events_info(path.events))
    else:
      exc = outcome[1]
      rep.raises_[exc.cls.__name__] = rep.raises_.get(exc.cls.__name__, 0) + 1
      env['exc'] = exc.cls
      matched = False
      for cname, fn in exc_iff:
        ecls = getattr(contract, 'exc_class_' + cname)
        if issubclass(exc.cls, ecls):
          matched = True
          cond = exc_conds[cname]
          ex.check_goal(path, contract.oblig('EXC', cname + '/raises-only-if'), cond)
      for ecls, names in contract.raises.items():
        if issubclass(exc.cls, ecls):
          matched = True
          for cname in names:
            fn = getattr(contract, 'raises_' + cname)
            r = call_clause(interp, fn, env)
            ex.check_goal(path, contract.oblig('EXC', cname), interp.truth_z(r))
      for cname, fn in contract.clauses('trace_'):
        ok = _guarded_clause(fn, path.events, outcome, interp, env)
        ex.check_goal(path, contract.oblig('TRACE', cname), _zb(ok),
                      info=_events_info(path.events))
      if not matched:
        ex.check_goal(path, contract.oblig('EXC', 'unexpected'), False,
                      info=f'raises {exc.cls.__name__} {exc.args!r}')
    # cross-check this path against CPython
    if xcheck and model0 is not None:
      if path.notes.get('opaque_decision'):
        rep.xcheck_skipped += 1      # the path depends on an opaque comparison
      else:
        _xcheck(contract, rep, model0, outcome, path)

  try:
    ex.explore(body)
  except Exception as e:  # pylint: disable=broad-except
    rep.error = 'engine: ' + ''.join(traceback.format_exception_only(type(e), e)).strip() \
        + ' @ ' + traceback.format_exc().splitlines()[-3].strip()
    import os
    if os.environ.get('PYVC_DEBUG'):
      traceback.print_exc()
  for rec in ex.results:
    rep.add(rec)
  if hasattr(contract, 'static_obligations') and rep.error is None:
    try:
      for cname, ok, info in contract.static_obligations():
        rep.add(dict(name=contract.oblig('SURFACE', cname),
                     status='proved' if ok else 'failed', backend='static',
                     time=0.0, info=info, pymodel=Model({'static': info}, {})))
    except Exception as e:  # pylint: disable=broad-except
      rep.error = f'static obligations: {e!r}'
  _native_search_for_undecided(contract, rep)
  rep.paths = ex.paths
  rep.completed = ex.completed
  rep.unsupported = sorted(set(ex.unsupported))
  rep.solver_s = ex.solver_s
  rep.truncated = ex.truncated
  rep.axioms = set(axioms.USED)
  rep.wall_s = time.time() - t0
  return rep


def _make_refuter(contract, budget_s=10.0):
  """Per-obligation bounded native search (see _native_search_for_undecided),
  asked as soon as the solver answers `unknown` on that obligation -- before
  the retry portfolio, which is costly on goals that have a counterexample
  under quantified hypotheses.  Only for contracts whose `replay` decides the
  named obligation itself (`native_refuter = True`)."""
  cache = {}

  def refute(name):
    if name in cache:
      return cache[name]
    cache[name] = None
    t0 = time.time()
    for m in contract.small_models():
      if time.time() - t0 > budget_s:
        break
      try:
        r = contract.replay(name, m)
      except Exception:  # pylint: disable=broad-except
        continue
      if r and r.get('outcome') == 'reproduced':
        cache[name] = (m, r.get('detail', ''))
        break
    return cache[name]
  return refute


def _native_search_for_undecided(contract, rep, budget_s=25.0):
  """An obligation the solvers left open (typically: a counterexample exists
  but quantified hypotheses keep z3 from completing a model) is handed to the
  contract's own bounded native search: `small_models()` enumerates concrete
  models of the contract's inputs in a small stated scope and `replay` runs the
  real function on each.  A reproduced failure turns the obligation into a
  refutation with a concrete failing input; otherwise it stays undecided.
  This is a bounded search and can only refute, never discharge."""
  open_ = [n for n, o in rep.obligations.items() if o['status'] == 'unknown']
  if not open_ or not hasattr(contract, 'small_models') or not hasattr(contract, 'replay'):
    return
  t0 = time.time()
  tried = 0
  for m in contract.small_models():
    if time.time() - t0 > budget_s:
      break
    tried += 1
    try:
      r = contract.replay(open_[0], m)
    except Exception:  # pylint: disable=broad-except
      continue
    if r and r.get('outcome') == 'reproduced':
      for n in open_:
        o = rep.obligations[n]
        o['status'] = 'failed'
        o['model'] = m
        o['info'] = (f'solver: unknown; refuted by bounded native search over small models '
                     f'({tried} tried): {r.get("detail", "")}')
        o['backends'].add('native-search')
      return


def _zb(v):
  if isinstance(v, SBool):
    return v.z
  if isinstance(v, z3.BoolRef):
    return v
  return bool(v)


def _events_info(events):
  return [repr(e) for e in events][-12:]


def _parse_model_value(s):
  if s == 'True':
    return True
  if s == 'False':
    return False
  try:
    return int(s)
  except ValueError:
    pass
  try:
    if '/' in s:
      a, b = s.split('/')
      return float(int(a)) / float(int(b))
    return float(s)
  except ValueError:
    pass
  if len(s) >= 2 and s[0] == '"' and s[-1] == '"':
    return s[1:-1]
  return s


def _xcheck(contract, rep, model, outcome, path):
  try:
    nat = contract.native(model)
  except Exception as e:  # pylint: disable=broad-except
    rep.xcheck_skipped += 1
    return
  if nat is None:
    rep.xcheck_skipped += 1
    return
  fn, args, kwargs = nat
  try:
    r = fn(*args, **kwargs)
    got = ('return', r)
  except Exception as e:  # pylint: disable=broad-except
    got = ('raise', type(e))
  rep.xcheck += 1
  if outcome[0] != got[0]:
    rep.xcheck_mismatch.append(
        f'symbolic {outcome[0]} ({_short(outcome[1])}) vs native {got[0]} ({_short(got[1])}); model={model.to_json()}')
    return
  if outcome[0] == 'raise':
    if not issubclass(got[1], outcome[1].cls) and not issubclass(outcome[1].cls, got[1]):
      rep.xcheck_mismatch.append(
          f'symbolic raises {outcome[1].cls.__name__} vs native {got[1].__name__}; model={model.to_json()}')
    return
  sym = outcome[1]
  if isinstance(sym, (bool, int, str, type(None))) and isinstance(got[1], (bool, int, str, type(None))):
    if sym != got[1] or type(sym) != type(got[1]):
      rep.xcheck_mismatch.append(
          f'symbolic result {sym!r} vs native {got[1]!r}; model={model.to_json()}')
  elif isinstance(sym, (SBool, SInt)) and isinstance(got[1], (bool, int)):
    m = getattr(model, 'z3model', None)
    if m is None:
      return
    v = m.eval(sym.z, model_completion=True)
    pv = _pyval(v, m)
    if pv != got[1]:
      rep.xcheck_mismatch.append(
          f'symbolic result {pv!r} vs native {got[1]!r}; model={model.to_json()}')


def _short(v):
  if isinstance(v, ExcVal):
    return v.cls.__name__
  if isinstance(v, type):
    return v.__name__
  return repr(v)[:60]


class CMContract(Contract):
  """Contract of a @contextlib.contextmanager function (or of a function that
  returns one).  The real generator body is executed up to its yield (enter),
  `inside_*` clauses are checked, the block is abstracted by the induction
  hypothesis (it leaves the manager's own state as it found it and either
  returns or raises), then the body is resumed (exit) and `exit_*` clauses are
  checked on both the normal and the exceptional exit."""

  block_exception = RuntimeError

  def block(self, interp, env):
    """Hook: effects of the block permitted by the induction hypothesis."""

  def make_cm(self, interp, pyf, args):
    if I._is_generator_cm(self.raw_target()):
      return I.CMInstance(interp, pyf, [], dict(args))
    r = interp.call_function(pyf, [], dict(args))
    return r

  def raw_target(self):
    mod, qn = self.target.split(':')
    obj, _ = frontend.resolve(mod, qn)
    return obj

  def between_creation_and_entry(self, interp, env):
    """Hook: a manager object may be created now and entered later, after
    other (well-nested) scopes have come and gone.  Contracts whose state
    model supports it havoc that state here; "the state before entering" (the
    `old` snapshot and the model's own initial snapshot) is then re-taken."""
    return False

  def drive(self, interp, pyf, args, env, check):
    cm = self.make_cm(interp, pyf, args)
    if self.between_creation_and_entry(interp, env):
      # the (type) invariants of the inputs hold for the state at entry too
      if getattr(self, 'requires', None) is not None:
        if not interp.truth(call_clause(interp, self.requires, env)):
          raise I.Infeasible()
      if getattr(self, 'old', None) is not None:
        env['old'] = call_clause(interp, self.old, env)
    entered, exit_fn = interp.enter_cm(cm, None)
    env['entered'] = entered
    for cname, fn in self.clauses('inside_'):
      check('INSIDE', cname, fn, env)
    self.block(interp, env)
    raises = interp.path.decide(2, 'block-raises') == 1
    if raises:
      exc = ExcVal(self.block_exception, ('block',))
      suppressed = exit_fn(exc)
      env['exit_kind'] = 'exception'
      for cname, fn in self.clauses('exit_'):
        check('EXIT', cname + '/exception', fn, env)
      if suppressed:
        check('EXIT', 'does-not-swallow-exception', False)
      return None
    exit_fn(None)
    env['exit_kind'] = 'normal'
    for cname, fn in self.clauses('exit_'):
      check('EXIT', cname + '/normal', fn, env)
    return None
