"""Abstract heap objects identified by an integer id (a z3 Int term).

Used for references whose number is unbounded (elements of a symbolic-length
sequence) and for induction hypotheses: the object's behaviour is given by
uninterpreted functions over its id.
"""
import z3
from .values import SObj, SSeq, SBool, SInt, simplify_concrete


def ref(cls, idz, lazy=None, name=None):
  o = SObj(cls, {}, lazy=lazy, name=name)
  o.ghost['id'] = idz
  return o


def ref_id(v):
  if isinstance(v, SObj):
    return v.ghost.get('id')
  return None


def ref_seq(b, name, cls, lazy=None, kind='list'):
  """Symbolic-length sequence of abstract references of class `cls`."""
  wrap = lambda z: ref(cls, z, lazy)
  unwrap = lambda v: ref_id(v)
  return b.seq(name, z3.IntSort(), kind, wrap, unwrap)


def identical_handler(interp, a, b):
  ia, ib = ref_id(a), ref_id(b)
  if ia is not None and ib is not None:
    return simplify_concrete(SBool(ia == ib))
  return False
