import argparse
import os
import sys

from pyvc import runner


def main():
  ap = argparse.ArgumentParser()
  ap.add_argument('prop')
  ap.add_argument('--tier', default=os.environ.get('VERIF_TIER', 'quick'))
  ap.add_argument('--replay')
  ap.add_argument('--only')
  ap.add_argument('--jobs', type=int)
  a = ap.parse_args()
  seed = int(os.environ.get('VERIF_SEED', '0') or 0)
  if a.replay:
    sys.exit(runner.replay_file(a.prop, a.replay))
  sys.exit(runner.run_property(a.prop, a.tier, seed, a.jobs, a.only))


if __name__ == '__main__':
  main()
