"""Loop contracts: the cut-point rule for `for` / `while` loops.

    loops.install(policy, func='Qual.name', ordinal=0, inv=clause,
                  havoc={'local': make(b, name) -> value, ...},
                  havoc_fields=[(get_obj(frame), 'field', make), ...])

`inv(i, **locals)` is a contract clause (interpreted in spec mode); `i` is the
number of completed iterations.  Obligations generated:

    INV-init   inv(0) holds on entry
    INV-step   from an arbitrary state satisfying inv(i) (and 0 <= i < n, resp.
               the loop condition), one execution of the real body
               re-establishes inv(i + 1)
and after the loop only inv(n) (resp. inv /\\ not cond) is known about the
variables and fields listed in `havoc` / `havoc_fields`.  Everything the body
assigns must be listed; the handler checks this syntactically (a missing name
is an engine error, not a verdict).
"""
import ast
import z3

from . import interp as I
from .values import SInt, SSeq, simplify_concrete
from .contracts import Builder, call_clause


def _assigned_locals(stmts):
  out = set()
  for s in stmts:
    for n in ast.walk(s):
      if isinstance(n, ast.Name) and isinstance(n.ctx, (ast.Store, ast.Del)):
        out.add(n.id)
  return out


def _heap_stores(stmts):
  """(kind, name) of every attribute / subscript store in the statements."""
  out = []
  for s in stmts:
    for n in ast.walk(s):
      if isinstance(n, ast.Attribute) and isinstance(n.ctx, (ast.Store, ast.Del)):
        out.append(('attr', n.attr))
      elif isinstance(n, ast.Subscript) and isinstance(n.ctx, (ast.Store, ast.Del)):
        base = n.value
        out.append(('item', base.id if isinstance(base, ast.Name) else ast.dump(base)[:40]))
  return out


def install(policy, func, ordinal, inv, havoc=None, havoc_fields=(), name=None, body_check=None):
  """`body_check(interp, frame, events_of_this_iteration) -> bool | z3 Bool`
  is an extra obligation (LOOP-BODY) on the arbitrary iteration."""
  havoc = havoc or {}
  label = name or f'loop{ordinal}'

  def handler(interp, s, frame):
    path = interp.path
    contract = path.notes.get('current_contract')
    ex = path.explorer

    def ob(kind):
      base = f'{contract.prop}/{contract.label()}' if contract else '?'
      return f'{base}/{kind}/{func}.{label}'

    is_for = isinstance(s, ast.For)
    if is_for:
      it = interp.resolve(interp.eval(s.iter, frame))
      items = interp.iterate(it, frame)
      if items is not None and not isinstance(it, I.SymIter):
        # concrete trip count: plain execution is exact
        return _plain_for(interp, s, items, frame)
      seq = it if isinstance(it, I.SymIter) else I.SymIter.of(it)
      n = seq.length(interp)
      target_names = {x.id for x in ast.walk(s.target) if isinstance(x, ast.Name)}
    else:
      n = None
      target_names = set()
    assigned = _assigned_locals(s.body) - target_names
    missing = assigned - set(havoc)
    live = {m for m in missing if m in frame.locals}
    if live:
      raise I.Unsupported(f'loop contract of {func}.{label} does not list assigned locals {sorted(live)}')
    declared_fields = {f for _, f, _ in havoc_fields}
    for kind, nm in _heap_stores(s.body):
      if kind == 'attr' and nm not in declared_fields:
        raise I.Unsupported(f'loop contract of {func}.{label} does not list the field write .{nm}')
      if kind == 'item' and nm not in havoc:
        raise I.Unsupported(f'loop contract of {func}.{label} does not list the container write {nm}[...]')

    def inv_at(iz):
      env = dict(frame.locals)
      env['i'] = iz if isinstance(iz, int) else simplify_concrete(SInt(iz))
      return interp.truth_z(call_clause(interp, inv, env))

    def do_havoc(tag):
      b = Builder(path, interp)
      for nm, mk in havoc.items():
        frame.locals[nm] = mk(b, f'{nm}@{tag}')
      for getobj, field, mk in havoc_fields:
        obj = interp.resolve(getobj(frame))
        obj.fields[field] = mk(b, f'{field}@{tag}')

    if not ex.check_goal(path, ob('INV-init'), inv_at(0)):
      raise I.PathEnd()
    c = path.decide(2, 'loop-cut')
    if c == 0:
      do_havoc('k')
      i = path.fresh_int('iter')
      path.symbols[str(i)] = i
      if is_for:
        path.assume(z3.And(i >= 0, i < n))
      else:
        path.assume(i >= 0)
      g = inv_at(i)
      path.assume(g if not isinstance(g, bool) else g)
      if is_for:
        item = seq.item(interp, i)
        frame.locals['__pyvc_item__'] = item
        interp.assign(s.target, item, frame)
      else:
        if not interp.truth(interp.eval(s.test, frame)):
          raise I.Infeasible()
      mark = len(path.events)
      try:
        interp.exec_block(s.body, frame)
      except I._Continue:
        pass
      except I._Break:
        return
      if body_check is not None:
        try:
          r = body_check(interp, frame, path.events[mark:])
        except (AttributeError, KeyError, TypeError, IndexError, z3.Z3Exception) as e:
          # the loop no longer has the shape the contract was written for
          raise I.Unsupported(f'loop contract {label} of {func} not evaluable on this code shape: {e!r}')
        ex.check_goal(path, ob('LOOP-BODY'), r.z if hasattr(r, 'z') else r)
      ex.check_goal(path, ob('INV-step'), inv_at(i + 1))
      raise I.PathEnd()
    do_havoc('end')
    # the path continues after the loop: record that the loop was passed
    path.event('loop', f'{func}.{label}')
    if is_for:
      g = inv_at(n)
      path.assume(g if not isinstance(g, bool) else g)
    else:
      i = path.fresh_int('iters')
      path.assume(i >= 0)
      g = inv_at(i)
      path.assume(g if not isinstance(g, bool) else g)
      if interp.truth(interp.eval(s.test, frame)):
        raise I.Infeasible()
    interp.exec_block(s.orelse, frame)

  policy.handlers[('loop', func, ordinal)] = handler


def _plain_for(interp, s, items, frame):
  broke = False
  for x in items:
    interp.assign(s.target, x, frame)
    try:
      interp.exec_block(s.body, frame)
    except I._Break:
      broke = True
      break
    except I._Continue:
      continue
  if not broke:
    interp.exec_block(s.orelse, frame)
