"""pyvc symbolic interpreter: executes real function bodies (Python AST) over
symbolic values, path by path, against contracts.

Path exploration is depth-first by re-execution with a decision prefix.  Each
path has its own z3 solver holding the path condition.  Obligations are checked
where they arise (pc /\\ not goal must be unsat) and reported to the Explorer.
"""
import ast
import contextlib
import functools
import builtins
import inspect
import operator
import types
import time
import z3

from . import frontend
from . import spec as specmod
from .values import (PList, SOptInt, SV, SInt, SReal, SBool, SStr, SBits, SAny, SChoice, SSeq,
                     SObj, SDict, Closure, BoundMethod, SuperProxy, ExcVal,
                     fresh_name, lift, simplify_concrete)


class Infeasible(Exception):
  pass


class PathEnd(Exception):
  """The path was closed deliberately (e.g. after a loop-invariant check)."""


class Unsupported(Exception):
  """The code left the supported subset; the obligation is undecided."""


PY_TRUTH = z3.Function('py_truth', z3.IntSort(), z3.BoolSort())


class PyRaise(Exception):
  def __init__(self, exc):
    super().__init__(repr(exc))
    self.exc = exc


class _Return(Exception):
  def __init__(self, value):
    self.value = value


class _MapComp(Exception):
  def __init__(self, it, gen):
    self.it = it
    self.gen = gen


class _Break(Exception):
  pass


class _Continue(Exception):
  pass


class _Yield(Exception):
  """Raised at the single `yield` of a context-manager generator when the
  interpreter runs it in 'enter' mode."""

  def __init__(self, value, frame):
    self.value = value
    self.frame = frame


# ---------------------------------------------------------------------------
# Policy: what to do at a call of a real (repository or library) function.

class Policy:
  """Decides how calls are treated.

  inline:    set of function keys 'module:qualname' whose *real body* is
             executed symbolically at the call site.
  contracts: key -> contract handler  f(interp, frame, args, kwargs) -> value
  pure:      keys of functions treated as effect-free with an opaque result.
  natives:   python callables executed natively when all args are concrete.
  """

  def __init__(self):
    self.inline = set()
    self.inline_modules = set()
    self.contracts = {}
    self.pure = set()
    self.handlers = {}     # id(callable) -> handler(interp, args, kwargs)
    self.unknown_call_is_error = False

  def copy(self):
    p = Policy()
    p.inline = set(self.inline)
    p.inline_modules = set(self.inline_modules)
    p.contracts = dict(self.contracts)
    p.pure = set(self.pure)
    p.handlers = dict(self.handlers)
    p.unknown_call_is_error = self.unknown_call_is_error
    return p


def func_key(f):
  f = frontend.unwrap(f)
  mod = getattr(f, '__module__', None)
  qn = getattr(f, '__qualname__', getattr(f, '__name__', repr(f)))
  return f'{mod}:{qn}'


# ---------------------------------------------------------------------------

class Frame:
  __slots__ = ('locals', 'globals', 'info', 'spec_mode', 'closure', 'parent',
               'cls', 'cm_mode', 'name')

  def __init__(self, locals_, globals_, info=None, spec_mode=False,
               closure=None, parent=None, cls=None, name='?'):
    self.locals = locals_
    self.globals = globals_
    self.info = info
    self.spec_mode = spec_mode
    self.closure = closure or {}
    self.parent = parent
    self.cls = cls
    self.cm_mode = None
    self.name = name


class Event:
  __slots__ = ('kind', 'what', 'data')

  def __init__(self, kind, what, data=None):
    self.kind = kind
    self.what = what
    self.data = data

  def __repr__(self):
    return f'{self.kind}:{self.what}'


class Path:
  """State of one execution path."""

  def __init__(self, explorer, prefix):
    self.explorer = explorer
    self.prefix = prefix
    self.trail = []          # (chosen, n_options)
    self.solver = z3.Solver()
    self.solver.set('timeout', explorer.branch_timeout_ms)
    if not explorer.branch_mbqi:
      # feasibility checks at forks only need "maybe feasible": without
      # model-based quantifier instantiation z3 answers `unknown` quickly
      # (= explore the branch); goals are checked with mbqi on (check_goal)
      self.solver.set('smt.mbqi', False)
    self.pc = []
    self.events = []
    self.held = []           # lock stack for GUARDED obligations
    self.notes = {}
    self.ghost = {}
    self.no_fork = 0
    self.scope_depth = 0
    self.deferred = []
    self.nf_exits_stack = []
    self.symbols = {}        # name -> z3 const, for models

  # -- decisions ------------------------------------------------------------
  def decide(self, n, hint=None):
    if self.no_fork:
      raise Unsupported('fork inside a quantifier/spec expression')
    i = len(self.trail)
    if i < len(self.prefix):
      c = self.prefix[i]
    else:
      c = 0
    self.trail.append((c, n, hint))
    if len(self.trail) > self.explorer.max_depth:
      raise Unsupported(f'path depth > {self.explorer.max_depth}')
    return c

  def push(self):
    self.solver.push()
    self.scope_depth += 1

  def pop(self):
    """Pops a temporary scope; facts assumed inside it (axioms of helper
    operations, callee postconditions) are path facts and are re-asserted."""
    self.solver.pop()
    self.scope_depth -= 1
    for z in self.deferred:
      self.solver.add(z)
    if self.scope_depth == 0:
      self.deferred = []

  def assume(self, z, check=True):
    if isinstance(z, bool):
      if not z:
        raise Infeasible()
      return
    z = z3.simplify(z)
    if z3.is_true(z):
      return
    if z3.is_false(z):
      raise Infeasible()
    self.pc.append(z)
    self.solver.add(z)
    if self.scope_depth > 0:
      self.deferred.append(z)
    if check:
      r = self.solver.check()
      if r == z3.unsat:
        raise Infeasible()

  def branch(self, z):
    """Fork on a boolean term; returns the Python bool taken on this path."""
    if isinstance(z, bool):
      return z
    z = z3.simplify(z)
    if z3.is_true(z):
      return True
    if z3.is_false(z):
      return False
    if self.no_fork:
      # inside a quantifier body no fork is possible: the condition must be
      # decided by the path condition (plus the bound variable's range).
      self.solver.push()
      self.solver.add(z3.Not(z))
      r = self.solver.check()
      self.solver.pop()
      if r == z3.unsat:
        return True
      self.solver.push()
      self.solver.add(z)
      r = self.solver.check()
      self.solver.pop()
      if r == z3.unsat:
        return False
      raise Unsupported('undetermined branch inside a quantifier/spec expression')
    known = len(self.trail) < len(self.prefix) - 1
    c = self.decide(2, 'br')
    taken = (c == 0)
    self.assume(z if taken else z3.Not(z), check=not known)
    return taken

  def scoped(self, z):
    """Context manager: temporarily adds z to the solver (not to pc)."""
    path = self

    class _S:
      def __enter__(self_):
        path.push()
        path.solver.add(z)

      def __exit__(self_, *a):
        path.pop()
        return False
    return _S()

  def raise_if(self, cond, exc):
    """The callee raises `exc` iff `cond`.  Forks normally; inside a no-fork
    loop-body summary the condition is recorded as an abnormal exit of the
    body and evaluation continues under its negation."""
    if isinstance(cond, bool):
      if cond:
        raise PyRaise(exc)
      return
    cond = z3.simplify(cond)
    if z3.is_false(cond):
      return
    if z3.is_true(cond):
      raise PyRaise(exc)
    if self.no_fork:
      if not self.nf_exits_stack:
        # not inside a loop-body summary: the condition must be decided
        # (the non-raising answer first: under a vacuous scope both hold)
        if not self.branch(z3.Not(cond)):
          raise PyRaise(exc)
        return
      self.nf_exits_stack[-1].append(cond)
      self.solver.add(z3.Not(cond))     # scoped: removed by the enclosing pop
      return
    if self.branch(cond):
      raise PyRaise(exc)

  def fresh_int(self, name='i'):
    z = z3.Int(fresh_name(name))
    return z

  def fresh_bool(self, name='b'):
    return z3.Bool(fresh_name(name))

  def event(self, kind, what, data=None):
    self.events.append(Event(kind, what, data))


def safe_model(solver):
  try:
    return solver.model()
  except z3.Z3Exception:
    return None


class Explorer:
  """Enumerates all paths of `body(path)` and collects obligation results."""

  def __init__(self, max_paths=4000, max_depth=400, branch_timeout_ms=4000,
               goal_timeout_ms=8000, branch_mbqi=True):
    self.branch_mbqi = branch_mbqi
    self.max_paths = max_paths
    self.max_depth = max_depth
    self.branch_timeout_ms = branch_timeout_ms
    self.goal_timeout_ms = goal_timeout_ms
    self.results = []     # dicts: name, status, model, detail, time
    self.paths = 0
    self.completed = 0
    self.infeasible = 0
    self.unsupported = []
    self.solver_s = 0.0
    self.truncated = False
    self.model_hook = None
    self.refuter = None   # name -> (model, detail) | None: bounded native search of the contract

  def explore(self, body):
    prefix = []
    while True:
      self.paths += 1
      p = Path(self, prefix)
      try:
        body(p)
        self.completed += 1
      except Infeasible:
        self.infeasible += 1
      except PathEnd:
        self.completed += 1
      except Unsupported as e:
        self.unsupported.append(str(e))
      # backtrack
      trail = p.trail
      while trail and trail[-1][0] + 1 >= trail[-1][1]:
        trail.pop()
      if not trail:
        break
      prefix = [c for c, _, _ in trail[:-1]] + [trail[-1][0] + 1]
      if self.paths >= self.max_paths:
        self.truncated = True
        break

  # -- obligations ------------------------------------------------------------
  def check_goal(self, path, name, goal, info=None):
    """pc => goal ?  Records the verdict; afterwards the goal is assumed."""
    t0 = time.time()
    if isinstance(goal, bool):
      if goal:
        self.results.append(dict(name=name, status='proved', backend='const',
                                 time=0.0, info=info))
        return True
      # pc => False: holds iff pc is unsat.
      r = path.solver.check()
      status = 'proved' if r == z3.unsat else ('failed' if r == z3.sat
                                               else 'unknown')
      model = safe_model(path.solver) if r == z3.sat else None
      self._record(path, name, status, model, info, time.time() - t0, 'z3')
      if status != 'proved':
        raise PathEnd()
      raise Infeasible()
    goal = z3.simplify(goal)
    if z3.is_true(goal):
      self.results.append(dict(name=name, status='proved', backend='simp',
                               time=0.0, info=info))
      return True
    s = path.solver
    s.push()
    s.set('timeout', self.goal_timeout_ms)
    if not self.branch_mbqi:
      s.set('smt.mbqi', True)
    s.add(z3.Not(goal))
    r = s.check()
    model = safe_model(s) if r == z3.sat else None
    backend = 'z3'
    if r == z3.unknown and self.refuter is not None:
      # cheap first: the contract's own bounded native search on the real code
      hit = self.refuter(name)
      if hit is not None:
        s.pop()
        s.set('timeout', self.branch_timeout_ms)
        if not self.branch_mbqi:
          s.set('smt.mbqi', False)
        dt = time.time() - t0
        self.solver_s += dt
        self.results.append(dict(name=name, status='failed', backend='native-search', time=dt,
                                 pymodel=hit[0], trail=[c for c, _, _ in path.trail],
                                 info=f'solver: unknown; refuted by bounded native search over small models: {hit[1]}'))
        return False
    if r == z3.unknown:
      from . import solve
      r2, backend2, model2 = solve.retry(s, self.goal_timeout_ms)
      if r2 is not None:
        r, backend = r2, backend2
        if model2 is not None:
          model = model2
    s.pop()
    s.set('timeout', self.branch_timeout_ms)
    if not self.branch_mbqi:
      s.set('smt.mbqi', False)
    dt = time.time() - t0
    self.solver_s += dt
    status = 'proved' if r == z3.unsat else ('failed' if r == z3.sat else 'unknown')
    self._record(path, name, status, model, info, dt, backend)
    if status == 'proved':
      path.assume(goal, check=False)
      return True
    return False

  def _record(self, path, name, status, model, info, dt, backend):
    rec = dict(name=name, status=status, backend=backend, time=dt, info=info)
    if model is not None:
      rec['model'] = {k: str(model.eval(v, model_completion=True))
                      for k, v in path.symbols.items()}
      rec['trail'] = [c for c, _, _ in path.trail]
      if self.model_hook is not None:
        rec['pymodel'] = self.model_hook(path, model)
    self.results.append(rec)


# ---------------------------------------------------------------------------

_CMP = {ast.Lt: operator.lt, ast.LtE: operator.le, ast.Gt: operator.gt,
        ast.GtE: operator.ge, ast.Eq: operator.eq, ast.NotEq: operator.ne}
_BIN = {ast.Add: operator.add, ast.Sub: operator.sub, ast.Mult: operator.mul,
        ast.FloorDiv: operator.floordiv, ast.Mod: operator.mod,
        ast.Div: operator.truediv, ast.Pow: operator.pow,
        ast.BitAnd: operator.and_, ast.BitOr: operator.or_,
        ast.BitXor: operator.xor, ast.LShift: operator.lshift,
        ast.RShift: operator.rshift}


def is_concrete(v):
  return not isinstance(v, (SV, Closure, BoundMethod, SuperProxy, ExcVal))


class Interp:
  """Interprets function ASTs over symbolic values on one Path."""

  def __init__(self, path, policy):
    self.path = path
    self.policy = policy
    self.depth = 0
    self.max_call_depth = 40

  # -- helpers ----------------------------------------------------------------
  def resolve(self, v):
    """Resolves lazy choices and promoted lists."""
    if isinstance(v, PList):
      return v.sym if v.sym is not None else v
    while isinstance(v, SChoice):
      if v.resolved is None:
        c = self.path.decide(len(v.alts), 'choice:' + v.name)
        alt = v.alts[c]
        v.resolved = (alt() if callable(alt) and not isinstance(alt, type)
                      and getattr(alt, '_pyvc_thunk', False) else alt,)
      v = v.resolved[0]
    return v

  def truth_z(self, v):
    """Truthiness of v as a z3 Bool or a Python bool (no forking)."""
    v = self.resolve(v)
    if isinstance(v, SBool):
      return v.z
    if isinstance(v, SOptInt):
      return z3.And(v.present, v.z != 0)
    if isinstance(v, SInt):
      return v.z != 0
    if isinstance(v, SReal):
      return v.z != 0
    if isinstance(v, SBits):
      return v.z != 0
    if isinstance(v, SStr):
      return z3.Length(v.z) > 0
    if isinstance(v, SSeq):
      return v.len > 0
    if isinstance(v, SDict):
      if v.open_:
        if len(v.items) > 0:
          return True
        if v.nonempty is None:
          v.nonempty = z3.Bool(fresh_name('dict_nonempty'))
        return v.nonempty
      return len(v.items) > 0
    if isinstance(v, SAny):
      b = v.memo.get('truth')
      if b is None:
        b = z3.Bool(fresh_name(f'truth_{v.tag}'))
        v.memo['truth'] = b
      return b
    if isinstance(v, SObj):
      h = self.policy.handlers.get(('truth', v.cls))
      if h is not None:
        return h(self, v)
      if v.cls is object and v.ghost.get('id') is not None:
        # an abstract reference of class `object` stands for an arbitrary Python
        # value (0, '', an empty Flag, ... are falsy): its truth value is an
        # unknown function of the value
        return PY_TRUTH(v.ghost['id'])
      for klass in v.cls.__mro__:
        if '__bool__' in klass.__dict__ or '__len__' in klass.__dict__:
          if klass in (object,):
            break
          items = v.ghost.get('items')
          if isinstance(items, SSeq):
            return items.len > 0
          fn = klass.__dict__.get('__bool__') or klass.__dict__.get('__len__')
          if isinstance(fn, types.FunctionType) and (
              func_key(fn) in self.policy.inline or fn.__module__ in self.policy.inline_modules):
            r = self.call_function(fn, [v])
            if '__bool__' in klass.__dict__:
              return self.truth_z(r)
            zr = self.to_z3(r)
            return zr != 0 if zr is not None else self.truth_z(r)
          b = v.ghost.get('truth')
          if b is None:
            b = z3.Bool(fresh_name('truth_obj'))
            v.ghost['truth'] = b
          return b
      return True
    if isinstance(v, (Closure, BoundMethod, ExcVal, SuperProxy)):
      return True
    return bool(v)

  def truth(self, v):
    return self.path.branch(self.truth_z(v))

  def not_(self, v):
    z = self.truth_z(v)
    if isinstance(z, bool):
      return not z
    return simplify_concrete(SBool(z3.Not(z)))

  # -- function entry ---------------------------------------------------------
  def call_function(self, pyfunc, args, kwargs=None, spec_mode=False,
                    cm_mode=None):
    """Symbolically executes the real body of `pyfunc`."""
    info = frontend.get_funcinfo(pyfunc, check=not spec_mode)
    node = info.node
    kwargs = kwargs or {}
    f = info.pyfunc
    locals_ = self.bind_args(node.args, args, kwargs, f.__defaults__ or (),
                             f.__kwdefaults__ or {}, info.qualname)
    closure = {}
    if f.__closure__:
      for name, cell in zip(f.__code__.co_freevars, f.__closure__):
        try:
          closure[name] = cell.cell_contents
        except ValueError:
          pass
    frame = Frame(locals_, f.__globals__, info, spec_mode, closure,
                  cls=info.cls, name=info.qualname)
    frame.cm_mode = cm_mode
    return self.run_body(node, frame)

  def call_closure(self, clo, args, kwargs=None):
    kwargs = kwargs or {}
    node = clo.node
    locals_ = self.bind_args(node.args, args, kwargs, clo.defaults,
                             clo.kwdefaults, clo.name)
    parent = clo.frame
    frame = Frame(locals_, parent.globals if parent else {}, parent.info if parent else None,
                  clo.spec_mode or (parent.spec_mode if parent else False),
                  parent=parent, cls=parent.cls if parent else None, name=clo.name)
    if isinstance(node, ast.Lambda):
      self.depth += 1
      try:
        if self.depth > self.max_call_depth:
          raise Unsupported('call depth')
        return self.eval(node.body, frame)
      finally:
        self.depth -= 1
    return self.run_body(node, frame)

  def run_body(self, node, frame):
    self.depth += 1
    try:
      if self.depth > self.max_call_depth:
        raise Unsupported('call depth exceeded (recursion?)')
      try:
        self.exec_block(node.body, frame)
      except _Return as r:
        return r.value
      return None
    finally:
      self.depth -= 1

  def bind_args(self, a, args, kwargs, defaults, kwdefaults, fname):
    locals_ = {}
    pos = [x.arg for x in a.posonlyargs] + [x.arg for x in a.args]
    args = list(args)
    kwargs = dict(kwargs)
    if len(args) > len(pos) and a.vararg is None:
      raise PyRaise(ExcVal(TypeError, ('too many positional args',)))
    for name, v in zip(pos, args):
      locals_[name] = v
    if a.vararg is not None:
      locals_[a.vararg.arg] = tuple(args[len(pos):])
    ndef = len(defaults)
    for i, name in enumerate(pos):
      if name in locals_:
        if name in kwargs:
          raise PyRaise(ExcVal(TypeError, ('multiple values',)))
        continue
      if name in kwargs:
        locals_[name] = kwargs.pop(name)
      else:
        j = i - (len(pos) - ndef)
        if j >= 0:
          locals_[name] = defaults[j]
        else:
          raise PyRaise(ExcVal(TypeError, (f'{fname}: missing argument {name}',)))
    for x in a.kwonlyargs:
      if x.arg in kwargs:
        locals_[x.arg] = kwargs.pop(x.arg)
      elif x.arg in kwdefaults:
        locals_[x.arg] = kwdefaults[x.arg]
      else:
        raise PyRaise(ExcVal(TypeError, (f'{fname}: missing kw-only {x.arg}',)))
    if a.kwarg is not None:
      locals_[a.kwarg.arg] = SDict(kwargs) if any(
          isinstance(v, SV) for v in kwargs.values()) else dict(kwargs)
    elif kwargs:
      raise PyRaise(ExcVal(TypeError, (f'{fname}: unexpected keyword {list(kwargs)}',)))
    return locals_

  # -- statements -------------------------------------------------------------
  def exec_block(self, stmts, frame):
    for s in stmts:
      self.exec_stmt(s, frame)

  def exec_stmt(self, s, frame):
    m = getattr(self, 'st_' + type(s).__name__, None)
    if m is None:
      raise Unsupported(f'statement {type(s).__name__} in {frame.name}')
    return m(s, frame)

  def st_Expr(self, s, frame):
    if isinstance(s.value, ast.Constant):
      return   # docstring
    if isinstance(s.value, (ast.Yield,)):
      return self.do_yield(s.value, frame)
    self.eval(s.value, frame)

  def st_Pass(self, s, frame):
    pass

  def st_Global(self, s, frame):
    frame.locals.setdefault('__globals_decl__', set()).update(s.names)

  def st_Nonlocal(self, s, frame):
    frame.locals.setdefault('__nonlocal_decl__', set()).update(s.names)

  def st_Import(self, s, frame):
    import importlib
    for alias in s.names:
      mod = importlib.import_module(alias.name)
      if alias.asname:
        frame.locals[alias.asname] = mod
      else:
        frame.locals[alias.name.split('.')[0]] = importlib.import_module(
            alias.name.split('.')[0])

  def st_ImportFrom(self, s, frame):
    import importlib
    modname = s.module
    if s.level:
      pkg = frame.globals.get('__package__') or ''
      base = pkg.rsplit('.', s.level - 1)[0] if s.level > 1 else pkg
      modname = base + ('.' + s.module if s.module else '')
    mod = importlib.import_module(modname)
    for alias in s.names:
      try:
        v = getattr(mod, alias.name)
      except AttributeError:
        v = importlib.import_module(modname + '.' + alias.name)
      frame.locals[alias.asname or alias.name] = v

  def st_Return(self, s, frame):
    v = self.eval(s.value, frame) if s.value is not None else None
    raise _Return(v)

  def st_Assign(self, s, frame):
    if isinstance(s.value, ast.Yield):
      v = self.do_yield(s.value, frame)
    else:
      v = self.eval(s.value, frame)
    for t in s.targets:
      self.assign(t, v, frame)

  def st_AnnAssign(self, s, frame):
    if s.value is not None:
      self.assign(s.target, self.eval(s.value, frame), frame)

  def st_AugAssign(self, s, frame):
    t = s.target
    if isinstance(t, ast.Name):
      cur = self.load_name(t.id, frame)
    elif isinstance(t, ast.Attribute):
      obj = self.eval(t.value, frame)
      cur = self.getattr_(obj, t.attr, frame)
    elif isinstance(t, ast.Subscript):
      obj = self.eval(t.value, frame)
      idx = self.eval(t.slice, frame)
      cur = self.getitem(obj, idx, frame)
    else:
      raise Unsupported('augassign target')
    rhs = self.eval(s.value, frame)
    cur_r = self.resolve(cur)
    if isinstance(s.op, ast.Add) and isinstance(cur_r, (SSeq, list)) \
        and not isinstance(cur_r, tuple):
      # list += iterable  (in place)
      self.call_method_builtin(cur_r, 'extend', [rhs], {}, frame)
      v = cur_r
    else:
      v = self.binop(type(s.op), cur, rhs, frame)
    if isinstance(t, ast.Name):
      self.store_name(t.id, v, frame)
    elif isinstance(t, ast.Attribute):
      self.setattr_(obj, t.attr, v, frame)
    else:
      self.setitem(obj, idx, v, frame)

  def st_Delete(self, s, frame):
    for t in s.targets:
      if isinstance(t, ast.Name):
        frame.locals.pop(t.id, None)
      elif isinstance(t, ast.Subscript):
        obj = self.eval(t.value, frame)
        idx = self.eval(t.slice, frame)
        self.delitem(obj, idx, frame)
      elif isinstance(t, ast.Attribute):
        obj = self.eval(t.value, frame)
        self.delattr_(obj, t.attr, frame)
      else:
        raise Unsupported('del target')

  def st_If(self, s, frame):
    if self.truth(self.eval(s.test, frame)):
      self.exec_block(s.body, frame)
    else:
      self.exec_block(s.orelse, frame)

  def st_Assert(self, s, frame):
    if not self.truth(self.eval(s.test, frame)):
      raise PyRaise(ExcVal(AssertionError, ()))

  def st_Raise(self, s, frame):
    if s.exc is None:
      cur = frame.locals.get('__active_exc__')
      if cur is None:
        raise Unsupported('bare raise outside handler')
      raise PyRaise(cur)
    e = self.eval(s.exc, frame)
    e = self.resolve(e)
    if isinstance(e, type) and issubclass(e, BaseException):
      e = ExcVal(e, ())
    if isinstance(e, BaseException):
      e = ExcVal(type(e), e.args)
    if isinstance(e, SObj) and isinstance(e.cls, type) and issubclass(e.cls, BaseException):
      e = ExcVal(e.cls, ())
    if not isinstance(e, ExcVal):
      if isinstance(e, SAny):
        e = ExcVal(Exception, ('opaque',))
      else:
        raise Unsupported(f'raise of {e!r}')
    if s.cause is not None:
      e.cause = self.eval(s.cause, frame)
    raise PyRaise(e)

  def st_FunctionDef(self, s, frame):
    defaults = tuple(self.eval(d, frame) for d in s.args.defaults)
    kwdefaults = {a.arg: self.eval(d, frame)
                  for a, d in zip(s.args.kwonlyargs, s.args.kw_defaults)
                  if d is not None}
    clo = Closure(s, frame, s.name, defaults=defaults, kwdefaults=kwdefaults)
    for d in s.decorator_list:
      dv = self.eval(d, frame)
      if dv is contextlib.contextmanager:
        # a nested generator context manager: calling it yields a CMInstance
        clo = NativeFn(lambda ip, a, k, c=clo: CMInstance(ip, c, list(a), dict(k)))
      else:
        raise Unsupported(f'decorator {ast.unparse(d)} on nested function {s.name}')
    frame.locals[s.name] = clo

  def st_Try(self, s, frame):
    try:
      try:
        self.exec_block(s.body, frame)
      except PyRaise as pr:
        handled = False
        for h in s.handlers:
          if self.exc_matches(pr.exc, h.type, frame):
            handled = True
            if h.name:
              frame.locals[h.name] = pr.exc
            saved = frame.locals.get('__active_exc__')
            frame.locals['__active_exc__'] = pr.exc
            try:
              self.exec_block(h.body, frame)
            finally:
              frame.locals['__active_exc__'] = saved
            break
        if not handled:
          raise
      else:
        self.exec_block(s.orelse, frame)
    except (PyRaise, _Return, _Break, _Continue, _Yield) as ctl:
      if isinstance(ctl, _Yield):
        raise
      if s.finalbody:
        self.exec_block(s.finalbody, frame)
      raise
    else:
      if s.finalbody:
        self.exec_block(s.finalbody, frame)

  def exc_matches(self, exc, type_node, frame):
    if type_node is None:
      return True
    t = self.eval(type_node, frame)
    if isinstance(t, tuple):
      return any(self._exc_is(exc, x) for x in t)
    return self._exc_is(exc, t)

  def _exc_is(self, exc, t):
    if isinstance(t, type):
      return issubclass(exc.cls, t)
    raise Unsupported(f'except clause type {t!r}')

  def st_With(self, s, frame):
    self.exec_with(s.items, 0, s.body, frame)

  def exec_with(self, items, i, body, frame):
    if i == len(items):
      return self.exec_block(body, frame)
    item = items[i]
    mgr = self.eval(item.context_expr, frame)
    enter_val, exit_fn = self.enter_cm(mgr, frame)
    if item.optional_vars is not None:
      self.assign(item.optional_vars, enter_val, frame)
    try:
      self.exec_with(items, i + 1, body, frame)
    except PyRaise as pr:
      suppressed = exit_fn(pr.exc)
      if not suppressed:
        raise
    except (_Return, _Break, _Continue):
      exit_fn(None)
      raise
    else:
      exit_fn(None)

  def enter_cm(self, mgr, frame):
    """Returns (value bound by `as`, exit_fn(exc_or_None) -> suppressed?)."""
    mgr = self.resolve(mgr)
    h = self.policy.handlers.get(('with', type(mgr)))
    if h is not None:
      return h(self, mgr, frame)
    if isinstance(mgr, CMInstance):
      return mgr.enter(self), lambda exc: mgr.exit(self, exc)
    if isinstance(mgr, SObj):
      h = self.policy.handlers.get(('with', mgr.cls))
      if h is not None:
        return h(self, mgr, frame)
      enter = self.getattr_(mgr, '__enter__', frame)
      exit_ = self.getattr_(mgr, '__exit__', frame)
      v = self.call(enter, [], {}, frame)

      def exit_fn(exc):
        if exc is None:
          r = self.call(exit_, [None, None, None], {}, frame)
        else:
          r = self.call(exit_, [exc.cls, exc, None], {}, frame)
        return self.truth(r)
      return v, exit_fn
    if isinstance(mgr, SAny):
      self.path.event('with', f'opaque:{mgr.tag}')
      return SAny('with_value'), lambda exc: False
    raise Unsupported(f'with on {mgr!r}')

  def do_yield(self, node, frame):
    v = self.eval(node.value, frame) if node.value is not None else None
    if frame.cm_mode is None:
      raise Unsupported('yield outside a contract-driven context manager')
    return frame.cm_mode(self, v, frame)

  # -- loops ----------------------------------------------------------------
  def st_While(self, s, frame):
    h = self.policy.handlers.get(('loop', frame.name, self._loop_ordinal(s, frame)))
    if h is not None:
      return h(self, s, frame)
    n = 0
    while True:
      if not self.truth(self.eval(s.test, frame)):
        self.exec_block(s.orelse, frame)
        return
      try:
        self.exec_block(s.body, frame)
      except _Break:
        return
      except _Continue:
        pass
      n += 1
      if n > self.path.explorer.max_depth:
        raise Unsupported('while without invariant did not terminate')

  def _loop_ordinal(self, s, frame):
    node = frame.info.node if frame.info else None
    if node is None:
      return -1
    k = 0
    for n in ast.walk(node):
      if isinstance(n, (ast.For, ast.While)):
        if n is s:
          return k
        k += 1
    return -1

  def st_For(self, s, frame):
    h = self.policy.handlers.get(('loop', frame.name, self._loop_ordinal(s, frame)))
    if h is not None:
      return h(self, s, frame)
    it = self.resolve(self.eval(s.iter, frame))
    items = self.iterate(it, frame)
    if items is None:
      return self.for_symbolic(s, it, frame)
    broke = False
    for x in items:
      self.assign(s.target, x, frame)
      try:
        self.exec_block(s.body, frame)
      except _Break:
        broke = True
        break
      except _Continue:
        continue
    if not broke:
      self.exec_block(s.orelse, frame)

  def iterate(self, it, frame):
    """Concrete list of items if `it` has a concrete length, else None."""
    it = self.resolve(it)
    if isinstance(it, (list, tuple, range, str, set, frozenset)):
      return list(it)
    if isinstance(it, dict):
      return list(it.keys())
    if isinstance(it, (types.GeneratorType, enumerate, zip, map, filter, reversed)) or type(it).__name__ in (
        'dict_keys', 'dict_values', 'dict_items', 'list_iterator',
        'list_reverseiterator', 'tuple_iterator', 'range_iterator'):
      return list(it)
    if isinstance(it, SDict):
      if it.open_:
        raise Unsupported('iteration over open dict')
      return list(it.items.keys())
    if isinstance(it, SSeq):
      n = simplify_concrete(SInt(it.len))
      if isinstance(n, int):
        return [it.wrap(z3.simplify(z3.Select(it.arr, k))) for k in range(n)]
      return None
    if isinstance(it, SymIter):
      return it.concrete_items(self)
    if isinstance(it, SObj):
      items = it.ghost.get('items')
      if items is not None:
        return self.iterate(items, frame)
      if not it.ghost.get('iterating'):
        it.ghost['iterating'] = True
        try:
          m = self.getattr_(it, '__iter__', frame)
          r = self.resolve(self.call(m, [], {}, frame))
        finally:
          it.ghost['iterating'] = False
        if r is not it:
          if isinstance(r, SSeq):
            it.ghost['iter_seq'] = r
          return self.iterate(r, frame)
    if isinstance(it, SAny):
      # opaque iterable: abstracted by 0, 1 or 2 opaque items (recorded as an
      # assumption; only used by trace/dominance obligations)
      k = self.path.decide(3, 'opaque-iter')
      self.path.event('assumption', 'opaque-iteration-unrolled<=2')
      return [SAny(f'{it.tag}[{i}]', label=it.label) for i in range(k)]
    raise Unsupported(f'iteration over {it!r}')

  def for_symbolic(self, s, it, frame):
    """`for x in seq` over a sequence of symbolic length, with no invariant:
    sound only for bodies that assign no variable that is live afterwards and
    write no heap -- checked syntactically; the loop is then summarised as
    "either some iteration i (all earlier ones completed normally) leaves the
    function/loop, or all iterations complete normally".
    """
    if isinstance(it, SymIter):
      seq = it
    else:
      seq = SymIter.of(it)
    assigned = _assigned_names(s.body) | _target_names(s.target)
    temps = _assigned_names(s.body) - _target_names(s.target)
    if temps and not _loop_local_temporaries(s, temps, frame):
      raise Unsupported(f'symbolic-length loop assigns live locals {sorted(temps)} without an invariant ({frame.name})')
    if _has_heap_write(s.body):
      raise Unsupported(f'symbolic-length loop writes the heap without an invariant ({frame.name})')
    live_after = getattr(s, '_pyvc_live_after', None)
    # Path A: an iteration i exits abnormally (return / raise / break)
    c = self.path.decide(2, 'forsym')
    n = seq.length(self)
    if c == 0:
      i = self.path.fresh_int('it')
      self.path.symbols[str(i)] = i
      self.path.assume(z3.And(i >= 0, i < n))
      # all earlier iterations completed normally: captured by running the
      # body under a universally quantified index -> requires body purity; we
      # encode it by the summary predicate computed below.
      pred = self._loop_body_completes(s, seq, frame, assigned)
      j = z3.Int(fresh_name('j'))
      self.path.assume(z3.ForAll([j], z3.Implies(z3.And(j >= 0, j < i), pred(j))), check=False)
      self.assign(s.target, seq.item(self, i), frame)
      try:
        self.exec_block(s.body, frame)
      except _Break:
        return
      except _Continue:
        raise Infeasible()
      # completed normally: not an exiting iteration
      raise Infeasible()
    else:
      pred = self._loop_body_completes(s, seq, frame, assigned)
      j = z3.Int(fresh_name('j'))
      self.path.assume(z3.ForAll([j], z3.Implies(z3.And(j >= 0, j < n), pred(j))), check=False)
      for name in assigned:
        frame.locals[name] = SAny(f'after_loop_{name}')
      self.exec_block(s.orelse, frame)

  def _loop_body_completes(self, s, seq, frame, assigned):
    """Returns pred(j): z3 Bool 'iteration j completes normally', computed by
    executing the body once in no-fork mode on a bound index.  Bodies that
    cannot be expressed without forking make the loop Unsupported."""
    interp = self

    def pred(j):
      saved = dict(frame.locals)
      interp.path.no_fork += 1
      try:
        with interp.path.scoped(z3.And(j >= 0, j < seq.length(interp))):
          interp.assign(s.target, seq.item(interp, j), frame)
          return interp._completes_expr(s.body, frame)
      finally:
        interp.path.no_fork -= 1
        frame.locals.clear()
        frame.locals.update(saved)
    return pred

  def _completes_expr(self, stmts, frame):
    """z3 Bool: the statement list completes normally (no return/raise/break).
    Supports the shapes `if c: <exit>`, `if c: ... else: ...`, try/except
    around a contracted call is not supported here."""
    res = z3.BoolVal(True)
    for k, st in enumerate(stmts):
      if isinstance(st, ast.If):
        c = self.truth_z(self.eval(st.test, frame))
        if isinstance(c, bool):
          c = z3.BoolVal(c)
        with self.path.scoped(c):
          a = self._completes_expr(st.body, frame)
        with self.path.scoped(z3.Not(c)):
          b = self._completes_expr(st.orelse, frame)
        here = z3.If(c, a, b)
        # the remaining statements run only if this one completed
        with self.path.scoped(here):
          rest = self._completes_expr(stmts[k + 1:], frame)
        return z3.And(res, here, rest)
      elif isinstance(st, (ast.Return, ast.Raise, ast.Break)):
        return z3.And(res, z3.BoolVal(False))
      elif isinstance(st, ast.Assign) and all(
          isinstance(t, ast.Name) or (isinstance(t, ast.Tuple) and all(isinstance(e, ast.Name) for e in t.elts))
          for t in st.targets):
        exits = []
        self.path.nf_exits_stack.append(exits)
        try:
          self.exec_stmt(st, frame)
        finally:
          self.path.nf_exits_stack.pop()
        for c in exits:
          res = z3.And(res, z3.Not(c))
      elif isinstance(st, ast.Expr) and isinstance(st.value, ast.Call):
        exits = []
        self.path.nf_exits_stack.append(exits)
        try:
          self.eval(st.value, frame)
        finally:
          self.path.nf_exits_stack.pop()
        for c in exits:
          res = z3.And(res, z3.Not(c))
      elif isinstance(st, (ast.Pass, ast.Continue)):
        if isinstance(st, ast.Continue):
          return res
      elif isinstance(st, ast.Expr) and isinstance(st.value, ast.Constant):
        pass
      else:
        raise Unsupported(f'loop body statement {type(st).__name__} needs an invariant ({frame.name})')
    return res

  def st_Break(self, s, frame):
    raise _Break()

  def st_Continue(self, s, frame):
    raise _Continue()

  # -- assignment ---------------------------------------------------------------
  def assign(self, target, v, frame):
    if isinstance(target, ast.Name):
      self.store_name(target.id, v, frame)
    elif isinstance(target, (ast.Tuple, ast.List)):
      v = self.resolve(v)
      items = self.iterate(v, frame)
      if items is None:
        raise Unsupported('unpacking a symbolic-length sequence')
      if any(isinstance(e, ast.Starred) for e in target.elts):
        raise Unsupported('starred unpack')
      if len(items) != len(target.elts):
        raise PyRaise(ExcVal(ValueError, ('unpack',)))
      for t, x in zip(target.elts, items):
        self.assign(t, x, frame)
    elif isinstance(target, ast.Attribute):
      obj = self.eval(target.value, frame)
      self.setattr_(obj, target.attr, v, frame)
    elif isinstance(target, ast.Subscript):
      obj = self.eval(target.value, frame)
      idx = self.eval(target.slice, frame)
      self.setitem(obj, idx, v, frame)
    else:
      raise Unsupported(f'assignment target {type(target).__name__}')

  def store_name(self, name, v, frame):
    nl = frame.locals.get('__nonlocal_decl__')
    if nl and name in nl:
      f = frame.parent
      while f is not None:
        if name in f.locals:
          f.locals[name] = v
          return
        f = f.parent
      raise Unsupported(f'nonlocal {name} not found')
    gl = frame.locals.get('__globals_decl__')
    if gl and name in gl:
      h = self.policy.handlers.get(('global_store', name))
      if h is None:
        raise Unsupported(f'store to global {name}')
      return h(self, v, frame)
    frame.locals[name] = v

  def load_name(self, name, frame):
    f = frame
    while f is not None:
      if name in f.locals:
        return f.locals[name]
      if name in f.closure:
        return f.closure[name]
      f = f.parent
    h = self.policy.handlers.get(('global_load', name))
    if h is not None:
      return h(self, frame)
    if name in frame.globals:
      return frame.globals[name]
    if hasattr(builtins, name):
      return getattr(builtins, name)
    if name == '__class__' and frame.cls is not None:
      return frame.cls
    raise PyRaise(ExcVal(NameError, (name,)))

  # -- expressions ----------------------------------------------------------------
  def eval(self, e, frame):
    m = getattr(self, 'ex_' + type(e).__name__, None)
    if m is None:
      raise Unsupported(f'expression {type(e).__name__} in {frame.name}')
    return m(e, frame)

  def ex_Constant(self, e, frame):
    return e.value

  def ex_Name(self, e, frame):
    return self.load_name(e.id, frame)

  def ex_NamedExpr(self, e, frame):
    v = self.eval(e.value, frame)
    self.store_name(e.target.id, v, frame)
    return v

  def ex_JoinedStr(self, e, frame):
    # The text of messages is dropped by extraction; evaluate the parts for
    # their effects/exceptions only when they are calls.
    labels = []
    parts = []
    concrete = True
    for v in e.values:
      if isinstance(v, ast.Constant):
        parts.append(v.value)
        continue
      val = self.eval(v.value, frame) if isinstance(v, ast.FormattedValue) else None
      val = self.resolve(val)
      if is_concrete(val) and isinstance(val, (str, int, bool, type(None))) and v.format_spec is None and v.conversion == -1:
        parts.append(str(val))
      else:
        concrete = False
        labels.append(getattr(val, 'label', None) if isinstance(val, SAny) else ('num' if isinstance(val, (SInt, SReal, SBool, int, float)) else None))
    if concrete:
      return ''.join(parts)
    h = self.policy.handlers.get(('fstring',))
    if h is not None:
      return h(self, e, frame, labels)
    return SAny('fstr')

  def ex_Tuple(self, e, frame):
    out = []
    for x in e.elts:
      if isinstance(x, ast.Starred):
        items = self.iterate(self.eval(x.value, frame), frame)
        if items is None:
          raise Unsupported('starred symbolic sequence')
        out.extend(items)
      else:
        out.append(self.eval(x, frame))
    return tuple(out)

  def ex_List(self, e, frame):
    return PList(self.ex_Tuple(e, frame))

  def ex_Set(self, e, frame):
    vals = [self.eval(x, frame) for x in e.elts]
    if all(is_concrete(v) for v in vals):
      return set(vals)
    raise Unsupported('set literal with symbolic members')

  def ex_Dict(self, e, frame):
    d = {}
    sym = False
    for k, v in zip(e.keys, e.values):
      if k is None:
        other = self.resolve(self.eval(v, frame))
        if isinstance(other, dict):
          d.update(other)
        elif isinstance(other, SDict) and not other.open_:
          d.update(other.items)
          sym = True
        else:
          raise Unsupported('dict ** of symbolic')
        continue
      kk = self.resolve(self.eval(k, frame))
      if not is_concrete(kk):
        raise Unsupported('dict literal with symbolic key')
      vv = self.eval(v, frame)
      d[kk] = vv
    return d

  def ex_Lambda(self, e, frame):
    defaults = tuple(self.eval(d, frame) for d in e.args.defaults)
    return Closure(e, frame, '<lambda>', defaults=defaults)

  def ex_IfExp(self, e, frame):
    c = self.eval(e.test, frame)
    if frame.spec_mode or self.path.no_fork:
      cz = self.truth_z(c)
      if isinstance(cz, bool):
        return self.eval(e.body if cz else e.orelse, frame)
      a = self.eval(e.body, frame)
      b = self.eval(e.orelse, frame)
      return self.merge(cz, a, b)
    if self.truth(c):
      return self.eval(e.body, frame)
    return self.eval(e.orelse, frame)

  def merge(self, cz, a, b):
    a = self.resolve(a)
    b = self.resolve(b)
    if a is b:
      return a
    za, zb = self.to_z3(a), self.to_z3(b)
    if za is None or zb is None:
      raise Unsupported(f'cannot merge {a!r} / {b!r} without forking')
    if za.sort() != zb.sort():
      if za.sort() == z3.IntSort() and zb.sort() == z3.RealSort():
        za = z3.ToReal(za)
      elif zb.sort() == z3.IntSort() and za.sort() == z3.RealSort():
        zb = z3.ToReal(zb)
      else:
        raise Unsupported('merge of different sorts')
    return lift(z3.If(cz, za, zb))

  def to_z3(self, v):
    v = self.resolve(v)
    if isinstance(v, SOptInt):
      # using the integer requires it to be present (else Python raises)
      if not self.path.branch(v.present):
        raise PyRaise(ExcVal(TypeError, ('NoneType used as int',)))
      return v.z
    if isinstance(v, (SInt, SReal, SBool, SStr, SBits)):
      return v.z
    if isinstance(v, bool):
      return z3.BoolVal(v)
    if isinstance(v, int):
      return z3.IntVal(v)
    if isinstance(v, float):
      return z3.RealVal(v)
    if isinstance(v, str):
      return z3.StringVal(v)
    return None

  def ex_BoolOp(self, e, frame):
    is_and = isinstance(e.op, ast.And)
    if frame.spec_mode or self.path.no_fork:
      # merged evaluation: every operand must be boolean-like
      zs = []
      pushed = 0
      try:
        for x in e.values:
          v = self.eval(x, frame)
          z = self.truth_z(v)
          if isinstance(z, bool):
            if is_and and not z:
              return self._bool_result(zs + [False], is_and)
            if (not is_and) and z:
              return self._bool_result(zs + [True], is_and)
            continue
          zs.append(z)
          # later operands are evaluated under the short-circuit assumption
          self.path.push()
          self.path.solver.add(z if is_and else z3.Not(z))
          pushed += 1
        return self._bool_result(zs, is_and)
      finally:
        for _ in range(pushed):
          self.path.pop()
    v = None
    for i, x in enumerate(e.values):
      v = self.eval(x, frame)
      if i == len(e.values) - 1:
        return v
      t = self.truth(v)
      if is_and and not t:
        return v
      if (not is_and) and t:
        return v
    return v

  def _bool_result(self, zs, is_and):
    if not zs:
      return True if is_and else False
    if any(z is False for z in zs):
      return False
    if any(z is True for z in zs):
      return True
    zs = [z for z in zs if not isinstance(z, bool)]
    return simplify_concrete(SBool(z3.And(*zs) if is_and else z3.Or(*zs)))

  def ex_UnaryOp(self, e, frame):
    v = self.resolve(self.eval(e.operand, frame))
    if isinstance(e.op, ast.Not):
      return self.not_(v)
    if isinstance(e.op, ast.USub):
      if isinstance(v, SInt):
        return SInt(-v.z)
      if isinstance(v, SReal):
        return SReal(-v.z)
      if is_concrete(v):
        return -v
    if isinstance(e.op, ast.UAdd) and is_concrete(v):
      return +v
    if isinstance(e.op, ast.Invert):
      if isinstance(v, SBits):
        return SBits(~v.z, v.cls)
      if is_concrete(v):
        return ~v
    if isinstance(v, SAny):
      return SAny('unary')
    raise Unsupported(f'unary {type(e.op).__name__} on {v!r}')

  def ex_BinOp(self, e, frame):
    a = self.eval(e.left, frame)
    b = self.eval(e.right, frame)
    return self.binop(type(e.op), a, b, frame)

  def binop(self, op, a, b, frame=None):
    a = self.resolve(a)
    b = self.resolve(b)
    if isinstance(a, SOptInt):
      a = SInt(self.to_z3(a))
    if isinstance(b, SOptInt):
      b = SInt(self.to_z3(b))
    if is_concrete(a) and is_concrete(b):
      try:
        return _BIN[op](a, b)
      except Exception as ex:  # pylint: disable=broad-except
        raise PyRaise(ExcVal(type(ex), ex.args))
    h = self.policy.handlers.get(('binop', type(a), type(b)))
    if h is not None:
      r = h(self, op, a, b)
      if r is not NotImplemented:
        return r
    if isinstance(a, SAny) or isinstance(b, SAny):
      self.path.event('opaque-op', op.__name__)
      return SAny('binop', label=_join_label(a, b))
    if op is ast.Mult and isinstance(a, (list, tuple)) and isinstance(b, SInt):
      return SAny('seq*n')
    if isinstance(a, SBits) or isinstance(b, SBits):
      return self._bits_op(op, a, b)
    num = (SInt, SReal, int, float)
    if isinstance(a, num) and isinstance(b, num) and not isinstance(a, bool) and not isinstance(b, bool):
      return self._num_op(op, a, b)
    if isinstance(a, (SSeq, list, tuple)) and isinstance(b, (SSeq, list, tuple)) and op is ast.Add:
      from . import axioms
      return axioms.seq_concat(self, a, b)
    if isinstance(a, (SStr, str)) and isinstance(b, (SStr, str)) and op is ast.Add:
      return SStr(z3.Concat(self.to_z3(a), self.to_z3(b)))
    if isinstance(a, SObj) or isinstance(b, SObj):
      # dunder dispatch on repository classes
      name = {ast.Add: '__add__', ast.Sub: '__sub__', ast.Mult: '__mul__',
              ast.BitOr: '__or__', ast.BitAnd: '__and__', ast.RShift: '__rshift__'}.get(op)
      if name and isinstance(a, SObj):
        m = self.getattr_(a, name, frame)
        return self.call(m, [b], {}, frame)
    raise Unsupported(f'binop {op.__name__} on {a!r}, {b!r}')

  def _bits_op(self, op, a, b):
    def bv(x, w):
      if isinstance(x, SBits):
        return x.z
      if hasattr(x, 'value') and isinstance(x.value, int):
        return z3.BitVecVal(x.value, w)
      if isinstance(x, int):
        return z3.BitVecVal(x, w)
      raise Unsupported(f'bit operand {x!r}')
    w = (a.z.size() if isinstance(a, SBits) else b.z.size())
    cls = a.cls if isinstance(a, SBits) else b.cls
    za, zb = bv(a, w), bv(b, w)
    if op is ast.BitAnd:
      return SBits(za & zb, cls)
    if op is ast.BitOr:
      return SBits(za | zb, cls)
    if op is ast.BitXor:
      return SBits(za ^ zb, cls)
    raise Unsupported(f'bit op {op.__name__}')

  def _num_op(self, op, a, b):
    real = isinstance(a, (SReal, float)) or isinstance(b, (SReal, float))
    za, zb = self.to_z3(a), self.to_z3(b)
    if real:
      if za.sort() == z3.IntSort():
        za = z3.ToReal(za)
      if zb.sort() == z3.IntSort():
        zb = z3.ToReal(zb)
    W = SReal if real else SInt
    if op is ast.Add:
      return W(za + zb)
    if op is ast.Sub:
      return W(za - zb)
    if op is ast.Mult:
      return W(za * zb)
    if op in (ast.FloorDiv, ast.Mod):
      if real:
        raise Unsupported('float // or %')
      zero = self.path.branch(zb == 0)
      if zero:
        raise PyRaise(ExcVal(ZeroDivisionError, ()))
      # Python floor semantics from z3's Euclidean div/mod
      q = z3.If(zb > 0, za / zb, -((-za) / (-zb))) if False else None
      # z3: a = b*(a div b) + (a mod b), 0 <= mod < |b|.
      # floor division: if b>0: a div b ; if b<0: -( (-a) div (-b) ) adjusted:
      # floor(a/b) for b<0 equals floor((-a)/(-b)).
      fd = z3.If(zb > 0, za / zb, (-za) / (-zb))
      # z3 `/` on ints is Euclidean div: for positive divisor it is floor.
      if op is ast.FloorDiv:
        return SInt(fd)
      return SInt(za - zb * fd)
    if op is ast.Div:
      zero = self.path.branch(zb == 0)
      if zero:
        raise PyRaise(ExcVal(ZeroDivisionError, ()))
      if za.sort() == z3.IntSort():
        za = z3.ToReal(za)
      if zb.sort() == z3.IntSort():
        zb = z3.ToReal(zb)
      return SReal(za / zb)
    raise Unsupported(f'numeric op {op.__name__}')

  def ex_Compare(self, e, frame):
    left = self.eval(e.left, frame)
    result = None
    for op, rn in zip(e.ops, e.comparators):
      right = self.eval(rn, frame)
      r = self.compare(type(op), left, right, frame)
      if result is None:
        result = r
      else:
        # chained: a < b < c  ==  (a<b) and (b<c)
        za, zb = self.truth_z(result), self.truth_z(r)
        if isinstance(za, bool):
          result = r if za else False
        elif isinstance(zb, bool):
          result = result if zb else False
        else:
          result = SBool(z3.And(za, zb))
      if result is False:
        return False
      left = right
    return result

  def compare(self, op, a, b, frame=None):
    a = self.resolve(a)
    b = self.resolve(b)
    if op not in (ast.Is, ast.IsNot):
      if isinstance(a, SOptInt):
        if op in (ast.Eq, ast.NotEq) and b is None:
          r = SBool(z3.Not(a.present))
          return simplify_concrete(r if op is ast.Eq else SBool(a.present))
        a = SInt(self.to_z3(a))
      if isinstance(b, SOptInt):
        if op in (ast.Eq, ast.NotEq) and a is None:
          return simplify_concrete(SBool(z3.Not(b.present)) if op is ast.Eq else SBool(b.present))
        b = SInt(self.to_z3(b))
    if op is ast.Is:
      return self.identical(a, b)
    if op is ast.IsNot:
      return self.not_(self.identical(a, b))
    if op is ast.In:
      return self.contains(b, a, frame)
    if op is ast.NotIn:
      return self.not_(self.contains(b, a, frame))
    if is_concrete(a) and is_concrete(b) and _deep_concrete(a) and _deep_concrete(b):
      try:
        return _CMP[op](a, b)
      except Exception as ex:  # pylint: disable=broad-except
        raise PyRaise(ExcVal(type(ex), ex.args))
    h = self.policy.handlers.get(('compare', type(a), type(b)))
    if h is not None:
      r = h(self, op, a, b)
      if r is not NotImplemented:
        return r
    h = self.policy.handlers.get(('compare_any',))
    if h is not None:
      r = h(self, op, a, b, frame)
      if r is not NotImplemented:
        return r
    if op in (ast.Eq, ast.NotEq):
      r = self._concrete_dunder_eq(op, a, b, frame)
      if r is not NotImplemented:
        return r
    if isinstance(a, SAny) or isinstance(b, SAny):
      return self.opaque_compare(op, a, b)
    num = (SInt, SReal, int, float)
    if isinstance(a, num) and isinstance(b, num):
      za, zb = self.to_z3(a), self.to_z3(b)
      if isinstance(a, bool):
        za = z3.IntVal(int(a))
      if isinstance(b, bool):
        zb = z3.IntVal(int(b))
      if za.sort() != zb.sort():
        if za.sort() == z3.IntSort():
          za = z3.ToReal(za)
        if zb.sort() == z3.IntSort():
          zb = z3.ToReal(zb)
      return simplify_concrete(SBool(_CMP[op](za, zb)))
    if isinstance(a, (SBool, bool)) and isinstance(b, (SBool, bool)) and op in (ast.Eq, ast.NotEq):
      z = self.to_z3(a) == self.to_z3(b)
      return simplify_concrete(SBool(z if op is ast.Eq else z3.Not(z)))
    if isinstance(a, (SStr, str)) and isinstance(b, (SStr, str)):
      za, zb = self.to_z3(a), self.to_z3(b)
      if op is ast.Eq:
        return simplify_concrete(SBool(za == zb))
      if op is ast.NotEq:
        return simplify_concrete(SBool(za != zb))
      if op is ast.Lt:
        return SBool(z3.StrLT(za, zb)) if hasattr(z3, 'StrLT') else SBool(za < zb)
      if op is ast.LtE:
        return SBool(za <= zb)
      if op is ast.Gt:
        return SBool(zb < za)
      if op is ast.GtE:
        return SBool(zb <= za)
    if isinstance(a, (SBits,)) or isinstance(b, SBits):
      if op in (ast.Eq, ast.NotEq):
        w = a.z.size() if isinstance(a, SBits) else b.z.size()
        za = a.z if isinstance(a, SBits) else z3.BitVecVal(getattr(a, 'value', a), w)
        zb = b.z if isinstance(b, SBits) else z3.BitVecVal(getattr(b, 'value', b), w)
        z = za == zb
        return simplify_concrete(SBool(z if op is ast.Eq else z3.Not(z)))
    if op in (ast.Eq, ast.NotEq):
      # None / singletons vs numbers etc.
      if a is None or b is None:
        other = b if a is None else a
        if isinstance(other, (SInt, SReal, SBool, SStr, SBits, SSeq, SDict)):
          return op is ast.NotEq
      if isinstance(a, SObj) or isinstance(b, SObj):
        return self.obj_eq(op, a, b, frame)
      if isinstance(a, (SSeq, list, tuple)) and isinstance(b, (SSeq, list, tuple)):
        from . import axioms
        z = axioms.seq_eq(self, a, b)
        if isinstance(z, bool):
          return z if op is ast.Eq else not z
        return SBool(z if op is ast.Eq else z3.Not(z))
      # values of different kinds are unequal
      ka, kb = _kind(a), _kind(b)
      if ka and kb and ka != kb:
        return op is ast.NotEq
    raise Unsupported(f'compare {op.__name__} on {a!r}, {b!r}')

  def _concrete_dunder_eq(self, op, a, b, frame):
    """`==` where one side is a concrete instance of a class with a
    Python-level __eq__ that the policy inlines (e.g. MISSING_VALUE)."""
    for x, y in ((a, b), (b, a)):
      if is_concrete(x) and not isinstance(x, (int, float, str, bool, type(None), tuple, list, dict, type)):
        fn = getattr(type(x), '__eq__', None)
        if isinstance(fn, types.FunctionType) and func_key(fn) in self.policy.inline:
          r = self.call_function(fn, [x, y])
          return r if op is ast.Eq else self.not_(r)
    return NotImplemented

  def obj_eq(self, op, a, b, frame):
    obj, other = (a, b) if isinstance(a, SObj) else (b, a)
    name = '__eq__' if op is ast.Eq else '__ne__'
    for klass in obj.cls.__mro__:
      if name in klass.__dict__ and klass is not object:
        m = self.getattr_(obj, name, frame)
        r = self.call(m, [other], {}, frame)
        return r
      if op is ast.NotEq and '__eq__' in klass.__dict__ and klass is not object:
        m = self.getattr_(obj, '__eq__', frame)
        return self.not_(self.call(m, [other], {}, frame))
    r = self.identical(a, b)
    return r if op is ast.Eq else self.not_(r)

  def opaque_compare(self, op, a, b):
    key = (op.__name__, id(a) if isinstance(a, SV) else repr(a),
           id(b) if isinstance(b, SV) else repr(b))
    holder = a if isinstance(a, SAny) else b
    z = holder.memo.get(key)
    if z is None:
      # x == y and x != y are complementary
      if op is ast.NotEq:
        k2 = ('Eq',) + key[1:]
        e = holder.memo.get(k2)
        if e is None:
          e = z3.Bool(fresh_name('opq_eq'))
          holder.memo[k2] = e
        z = z3.Not(e)
      else:
        z = z3.Bool(fresh_name('opq_' + op.__name__))
      holder.memo[key] = z
    # the outcome of this comparison is not determined by the contract's inputs:
    # such a path cannot be cross-checked against CPython on a concrete model
    self.path.notes['opaque_decision'] = True
    return SBool(z)

  def identical(self, a, b):
    a = self.resolve(a)
    b = self.resolve(b)
    if isinstance(a, SOptInt) or isinstance(b, SOptInt):
      o, other = (a, b) if isinstance(a, SOptInt) else (b, a)
      if other is None:
        return simplify_concrete(SBool(z3.Not(o.present)))
      if isinstance(other, SOptInt):
        raise Unsupported('identity of two optional ints')
      return False
    if isinstance(a, SAny) or isinstance(b, SAny):
      if a is b:
        return True
      holder, other = (a, b) if isinstance(a, SAny) else (b, a)
      key = ('is', id(other) if isinstance(other, SV) else repr(other))
      z = holder.memo.get(key)
      if z is None:
        z = z3.Bool(fresh_name('is'))
        holder.memo[key] = z
      return SBool(z)
    if isinstance(a, SObj) and isinstance(b, SObj):
      if a is b:
        return True
      h = self.policy.handlers.get(('identical',))
      if h is not None:
        return h(self, a, b)
      return False
    if (isinstance(a, SObj) and 'id' in a.ghost and (not isinstance(b, SV) or isinstance(b, SBool))) or \
        (isinstance(b, SObj) and 'id' in b.ghost and (not isinstance(a, SV) or isinstance(a, SBool))):
      h = self.policy.handlers.get(('identical_mixed',))
      if h is not None:
        return h(self, a, b)
    if isinstance(a, SV) or isinstance(b, SV):
      if isinstance(a, SBool) and isinstance(b, (bool, SBool)):
        return simplify_concrete(SBool(a.z == self.to_z3(b)))
      if isinstance(b, SBool) and isinstance(a, bool):
        return simplify_concrete(SBool(b.z == self.to_z3(a)))
      return a is b
    return a is b

  def contains(self, container, item, frame):
    container = self.resolve(container)
    item = self.resolve(item)
    if is_concrete(container) and is_concrete(item) and _deep_concrete(container):
      try:
        return item in container
      except Exception as ex:  # pylint: disable=broad-except
        raise PyRaise(ExcVal(type(ex), ex.args))
    if isinstance(container, (list, tuple)):
      zs = []
      for x in container:
        r = self.compare(ast.Eq, x, item, frame)
        z = self.truth_z(r)
        if z is True:
          return True
        if z is False:
          continue
        zs.append(z)
      if not zs:
        return False
      return SBool(z3.Or(*zs))
    if isinstance(container, (dict,)):
      if is_concrete(item) and all(is_concrete(k) or isinstance(k, SObj) for k in container):
        return item in container
      zs = [self.truth_z(self.compare(ast.Eq, k, item, frame)) for k in container]
      zs = [z for z in zs if z is not False]
      if any(z is True for z in zs):
        return True
      return SBool(z3.Or(*zs)) if zs else False
    if isinstance(container, SDict):
      if is_concrete(item):
        if item in container.items:
          return True
        if not container.open_:
          return False
        # open remainder: membership is an unknown, stable per (dict, key)
        return SBool(self.opendict_has(container, item))
      raise Unsupported('membership in symbolic dict')
    if isinstance(container, SSeq):
      zi = container.unwrap(item)
      if zi is None:
        return False
      j = z3.Int(fresh_name('k'))
      return SBool(z3.Exists([j], z3.And(j >= 0, j < container.len,
                                         z3.Select(container.arr, j) == zi)))
    if isinstance(container, SObj):
      m = self.getattr_(container, '__contains__', frame)
      return self.call(m, [item], {}, frame)
    if isinstance(container, SBits) or (isinstance(item, SBits) and hasattr(container, 'value')):
      # enum.Flag containment: `a in b`  <=>  a & b == a
      w = container.z.size() if isinstance(container, SBits) else item.z.size()
      zc = container.z if isinstance(container, SBits) else z3.BitVecVal(container.value, w)
      if isinstance(item, SBits):
        zi = item.z
      elif hasattr(item, 'value') and isinstance(item.value, int):
        zi = z3.BitVecVal(item.value, w)
      else:
        raise PyRaise(ExcVal(TypeError, ('unsupported operand type(s) for `in` on a Flag',)))
      return simplify_concrete(SBool((zi & zc) == zi))
    if isinstance(container, SAny) or isinstance(item, SAny):
      return self.opaque_compare(ast.In, item, container)
    raise Unsupported(f'`in` on {container!r}')

  def opendict_has(self, d, key):
    z = d.memo.get(key)
    if z is None:
      z = z3.Bool(fresh_name('in_opendict'))
      d.memo[key] = z
      t = self.truth_z(d)
      self.path.assume(z3.Implies(z, t if not isinstance(t, bool) else z3.BoolVal(t)), check=False)
    return z

  # -- attribute access -------------------------------------------------------------
  def ex_Attribute(self, e, frame):
    obj = self.eval(e.value, frame)
    return self.getattr_(obj, e.attr, frame)

  def getattr_(self, obj, name, frame=None, default=NotImplemented):
    obj = self.resolve(obj)
    h = self.policy.handlers.get(('getattr', type(obj)))
    if h is not None:
      r = h(self, obj, name, frame)
      if r is not NotImplemented:
        return r
    if isinstance(obj, SObj):
      return self.obj_getattr(obj, name, frame, default)
    if isinstance(obj, SuperProxy):
      mro = obj.obj.cls.__mro__ if isinstance(obj.obj, SObj) else type(obj.obj).__mro__
      idx = mro.index(obj.after)
      for klass in mro[idx + 1:]:
        if name in klass.__dict__:
          return self.bind_member(obj.obj, klass.__dict__[name], klass, name, frame)
      raise PyRaise(ExcVal(AttributeError, (name,)))
    if isinstance(obj, ExcVal):
      if name in obj.attrs:
        return obj.attrs[name]
      if name == 'args':
        return obj.args
      if name == '__class__':
        return obj.cls
      if name == 'with_traceback':
        return NativeFn(lambda interp, a, k: obj)
      return SAny(f'exc.{name}')
    if isinstance(obj, SAny):
      v = obj.memo.get(('attr', name))
      if v is None:
        v = SAny(f'{obj.tag}.{name}', label=obj.label)
        obj.memo[('attr', name)] = v
      return v
    if isinstance(obj, SSlice):
      if name in ('start', 'stop', 'step'):
        return getattr(obj, name)
      return BuiltinMethod(obj, name)
    if isinstance(obj, (SSeq, SDict, SStr, SInt, SReal, SBool, SBits)):
      return BuiltinMethod(obj, name)
    if isinstance(obj, Closure):
      if name == '__name__':
        return obj.name
      raise Unsupported(f'attribute {name} of closure')
    if isinstance(obj, BoundMethod):
      if name == '__func__':
        return obj.func
      if name == '__self__':
        return obj.self_
      return getattr(obj.func, name)
    # concrete object
    if isinstance(obj, (list, dict, set)) and name in _MUTATING_BUILTIN_METHODS:
      return BuiltinMethod(obj, name)
    try:
      v = getattr(obj, name)
    except AttributeError:
      if default is not NotImplemented:
        return default
      raise PyRaise(ExcVal(AttributeError, (name,)))
    except Exception as ex:  # pylint: disable=broad-except
      raise PyRaise(ExcVal(type(ex), ex.args))
    return v

  def obj_getattr(self, obj, name, frame, default=NotImplemented):
    if name in obj.fields:
      fa = self.policy.handlers.get(('field_access',))
      if fa is not None and frame is not None and not frame.spec_mode:
        fa(self, obj, name, 'read')
      return obj.fields[name]
    if name == '__class__':
      return obj.cls
    try:
      member = inspect.getattr_static(obj.cls, name)
    except AttributeError:
      member = NotImplemented
    if member is not NotImplemented:
      klass = next((k for k in obj.cls.__mro__ if name in k.__dict__), obj.cls)
      is_data_desc = isinstance(member, property)
      if is_data_desc or not self._lazy_has(obj, name):
        return self.bind_member(obj, member, klass, name, frame)
    if obj.lazy is not None:
      v = obj.lazy(obj, name)
      if v is not NotImplemented:
        obj.fields[name] = v
        return v
    # __getattr__ fallback
    ga = None
    for klass in obj.cls.__mro__:
      if '__getattr__' in klass.__dict__:
        ga = klass.__dict__['__getattr__']
        break
    if ga is not None:
      return self.call(BoundMethod(obj, ga, None), [name], {}, frame)
    if default is not NotImplemented:
      return default
    raise PyRaise(ExcVal(AttributeError, (name,)))

  def _lazy_has(self, obj, name):
    return False

  def bind_member(self, obj, member, klass, name, frame):
    if isinstance(member, property):
      return self.call_real(member.fget, [obj], {}, frame)
    import functools
    if isinstance(member, functools.cached_property):
      v = self.call_real(member.func, [obj], {}, frame)
      if isinstance(obj, SObj):
        obj.fields[name] = v
      return v
    if isinstance(member, staticmethod):
      return member.__func__
    if isinstance(member, classmethod):
      return BoundMethod(obj.cls if isinstance(obj, SObj) else type(obj), member.__func__, klass)
    if isinstance(member, types.FunctionType):
      return BoundMethod(obj, member, klass)
    if isinstance(member, (types.BuiltinFunctionType, types.WrapperDescriptorType,
                           types.MethodDescriptorType)):
      return BoundMethod(obj, member, klass)
    if hasattr(member, '__get__') and not isinstance(member, type) and type(member).__module__ != 'builtins':
      # other descriptor (e.g. slot/member descriptor): opaque
      if type(member).__name__ in ('member_descriptor', 'getset_descriptor'):
        return SAny(f'{name}')
    return member

  def setattr_(self, obj, name, v, frame=None):
    obj = self.resolve(obj)
    if isinstance(obj, SObj):
      h = self.policy.handlers.get(('setattr', obj.cls))
      if h is not None:
        r = h(self, obj, name, v, frame)
        if r is not NotImplemented:
          return
      # class-defined __setattr__ ?
      for klass in obj.cls.__mro__:
        if klass is object:
          break
        if '__setattr__' in klass.__dict__ and not obj.ghost.get('raw_setattr'):
          fn = klass.__dict__['__setattr__']
          if isinstance(fn, types.FunctionType) and (
              func_key(fn) in self.policy.inline or fn.__module__ in self.policy.inline_modules):
            return self.call(BoundMethod(obj, fn, klass), [name, v], {}, frame)
          break
      self.path.event('write', f'{obj.cls.__name__}.{name}', (obj, name, v))
      fa = self.policy.handlers.get(('field_access',))
      if fa is not None and frame is not None and not frame.spec_mode:
        fa(self, obj, name, 'write')
      obj.fields[name] = v
      return
    if isinstance(obj, ExcVal):
      obj.attrs[name] = v
      return
    if isinstance(obj, SAny):
      self.path.event('write', f'opaque.{name}', (obj, name, v))
      obj.memo[('attr', name)] = v
      return
    h = self.policy.handlers.get(('setattr_concrete', id(obj)))
    if h is not None:
      return h(self, obj, name, v, frame)
    raise Unsupported(f'attribute store on concrete {type(obj).__name__}.{name}')

  def delattr_(self, obj, name, frame=None):
    obj = self.resolve(obj)
    if isinstance(obj, SObj):
      self.path.event('write', f'{obj.cls.__name__}.{name}', (obj, name, None))
      obj.fields.pop(name, None)
      return
    raise Unsupported('delattr on concrete')

  # -- subscripts ---------------------------------------------------------------------
  def ex_Slice(self, e, frame):
    lo = self.eval(e.lower, frame) if e.lower is not None else None
    hi = self.eval(e.upper, frame) if e.upper is not None else None
    st = self.eval(e.step, frame) if e.step is not None else None
    if all(is_concrete(x) for x in (lo, hi, st)):
      return slice(lo, hi, st)
    return SSlice(lo, hi, st)

  def ex_Subscript(self, e, frame):
    obj = self.eval(e.value, frame)
    idx = self.eval(e.slice, frame)
    return self.getitem(obj, idx, frame)

  def getitem(self, obj, idx, frame=None):
    from . import axioms
    return axioms.getitem(self, self.resolve(obj), self.resolve(idx), frame)

  def setitem(self, obj, idx, v, frame=None):
    from . import axioms
    return axioms.setitem(self, self.resolve(obj), self.resolve(idx), v, frame)

  def delitem(self, obj, idx, frame=None):
    from . import axioms
    return axioms.delitem(self, self.resolve(obj), self.resolve(idx), frame)

  # -- comprehensions ---------------------------------------------------------------
  def ex_ListComp(self, e, frame):
    try:
      return PList(self._comp(e, frame, lambda f: self.eval(e.elt, f)))
    except _MapComp as mc:
      return self._map_comp(e, mc.it, mc.gen, frame)

  def _map_comp(self, e, it, g, frame):
    """[f(x) for x in xs] over a symbolic-length iterable: a fresh sequence
    `out` with len(out) == len(xs) and out[j] == f(xs[j]) for all j, where the
    element expression is evaluated once on a bound index without forking."""
    from . import axioms
    seq = it if isinstance(it, SymIter) else SymIter.of(it)
    n = seq.length(self)
    j = z3.Int(fresh_name('m'))
    sub = Frame({}, frame.globals, frame.info, frame.spec_mode, parent=frame,
                cls=frame.cls, name=frame.name)
    self.path.no_fork += 1
    try:
      with self.path.scoped(z3.And(j >= 0, j < n)):
        self.assign(g.target, seq.item(self, j), sub)
        v = self.eval(e.elt, sub)
        zv = self.to_z3(v)
    finally:
      self.path.no_fork -= 1
    wrap, unwrap = lift, self.to_z3
    if zv is None:
      rv = self.resolve(v)
      if isinstance(rv, SObj) and rv.ghost.get('id') is not None:
        # abstract references (pyvc/absobj.py): the sequence holds their ids
        from . import absobj
        zv, cls, lazy = rv.ghost['id'], rv.cls, rv.lazy
        wrap, unwrap = (lambda z: absobj.ref(cls, z, lazy)), absobj.ref_id
      else:
        raise Unsupported('map comprehension element is not a scalar')
    arr = z3.Array(fresh_name('map'), z3.IntSort(), zv.sort())
    self.path.assume(z3.ForAll([j], z3.Implies(z3.And(j >= 0, j < n),
                                               z3.Select(arr, j) == zv)), check=False)
    return SSeq(arr, z3.simplify(n), wrap, unwrap, 'list', zv.sort())

  def ex_GeneratorExp(self, e, frame):
    return self._comp(e, frame, lambda f: self.eval(e.elt, f))

  def ex_SetComp(self, e, frame):
    vals = self._comp(e, frame, lambda f: self.eval(e.elt, f))
    if all(is_concrete(v) for v in vals):
      return set(vals)
    raise Unsupported('set comprehension over symbolic values')

  def ex_DictComp(self, e, frame):
    pairs = self._comp(e, frame, lambda f: (self.eval(e.key, f), self.eval(e.value, f)))
    d = {}
    for k, v in pairs:
      k = self.resolve(k)
      if not is_concrete(k):
        raise Unsupported('dict comprehension with symbolic key')
      d[k] = v
    return d

  def _comp(self, e, frame, make):
    out = []
    sub = Frame({}, frame.globals, frame.info, frame.spec_mode, parent=frame,
                cls=frame.cls, name=frame.name)

    def rec(i):
      if i == len(e.generators):
        out.append(make(sub))
        return
      g = e.generators[i]
      it = self.resolve(self.eval(g.iter, sub))
      items = self.iterate(it, sub)
      if items is None:
        if len(e.generators) == 1 and not g.ifs and isinstance(e, ast.ListComp):
          raise _MapComp(it, g)
        raise Unsupported(f'comprehension over symbolic-length sequence ({frame.name})')
      for x in items:
        self.assign(g.target, x, sub)
        ok = True
        for c in g.ifs:
          if not self.truth(self.eval(c, sub)):
            ok = False
            break
        if ok:
          rec(i + 1)
    rec(0)
    return out

  def ex_Starred(self, e, frame):
    raise Unsupported('starred expression')

  def ex_Yield(self, e, frame):
    return self.do_yield(e, frame)

  def ex_Await(self, e, frame):
    raise Unsupported('await')

  # -- calls ---------------------------------------------------------------------------
  def ex_Call(self, e, frame):
    fn = self.eval(e.func, frame)
    args = []
    for a in e.args:
      if isinstance(a, ast.Starred):
        items = self.iterate(self.eval(a.value, frame), frame)
        if items is None:
          raise Unsupported('*args of symbolic length')
        args.extend(items)
      else:
        args.append(self.eval(a, frame))
    kwargs = {}
    for k in e.keywords:
      v = self.eval(k.value, frame)
      if k.arg is None:
        v = self.resolve(v)
        if isinstance(v, dict):
          kwargs.update(v)
        elif isinstance(v, SDict) and not v.open_:
          kwargs.update(v.items)
        elif isinstance(v, SDict) or isinstance(v, SAny):
          kwargs['**'] = v
        else:
          raise Unsupported('** of non-dict')
      else:
        kwargs[k.arg] = v
    # zero-arg super()
    if fn is builtins.super and not args:
      self_ = frame.locals.get(next(iter([x.arg for x in frame.info.node.args.args]), 'self')) if frame.info else None
      f = frame
      while self_ is None and f is not None:
        self_ = f.locals.get('self')
        f = f.parent
      return SuperProxy(self_, frame.cls)
    return self.call(fn, args, kwargs, frame, node=e)

  def call(self, fn, args, kwargs=None, frame=None, node=None):
    kwargs = kwargs or {}
    fn = self.resolve(fn)
    if isinstance(fn, Closure):
      if fn.pyfunc is not None and fn.node is None:
        return self.call_real(fn.pyfunc, args, kwargs, frame)
      return self.call_closure(fn, args, kwargs)
    if isinstance(fn, NativeFn):
      return fn.fn(self, args, kwargs)
    if isinstance(fn, BuiltinMethod):
      return self.call_method_builtin(fn.obj, fn.name, args, kwargs, frame)
    if isinstance(fn, BoundMethod):
      return self.call_real(fn.func, [fn.self_] + list(args), kwargs, frame,
                            bound=fn)
    if isinstance(fn, SAny):
      h = self.policy.handlers.get(('call_opaque',))
      if h is not None:
        r = h(self, fn, args, kwargs, frame)
        if r is not NotImplemented:
          return r
      self.path.event('call', f'opaque:{fn.tag}', (fn, args, kwargs))
      return SAny(f'{fn.tag}()')
    if isinstance(fn, SObj):
      m = self.getattr_(fn, '__call__', frame)
      return self.call(m, args, kwargs, frame)
    if isinstance(fn, types.MethodType):
      return self.call_real(fn.__func__, [fn.__self__] + list(args), kwargs, frame)
    return self.call_real(fn, args, kwargs, frame)

  def call_real(self, fn, args, kwargs, frame, bound=None):
    """Call of a live Python callable (function, builtin or class)."""
    from . import axioms
    hid = self.policy.handlers.get(id(fn))
    if hid is not None:
      return hid(self, args, kwargs, frame)
    if isinstance(fn, z3.FuncDeclRef):
      # an uninterpreted function used in a specification clause
      zs = [self.to_z3(a) for a in args]
      if any(z is None for z in zs):
        raise Unsupported(f'uninterpreted function {fn.name()} applied to a non-scalar')
      r = fn(*zs)
      return SBool(r) if z3.is_bool(r) else (SInt(r) if z3.is_int(r) else SReal(r))
    if fn in specmod.SPEC_HELPERS:
      return axioms.spec_helper(self, fn, args, kwargs, frame)
    ufn = frontend.unwrap(fn) if not isinstance(fn, type) else fn
    hid = self.policy.handlers.get(id(ufn))
    if hid is not None:
      return hid(self, args, kwargs, frame)
    if isinstance(ufn, types.FunctionType):
      lib = axioms._LIB.get(f'{ufn.__module__}.{ufn.__name__}')
      if lib is not None:
        axioms._used(f'{ufn.__module__}.{ufn.__name__}')
        return lib(self, args, kwargs, frame)
      key = func_key(ufn)
      c = self.policy.contracts.get(key)
      if c is not None:
        self.path.event('call', key, (args, kwargs))
        return c(self, frame, args, kwargs)
      if getattr(ufn, '_pyvc_spec', False) or (ufn.__module__ or '').startswith('contracts.'):
        # helpers of the contract files are specification code
        return self.call_function(ufn, args, kwargs, spec_mode=True)
      if key in self.policy.inline or ufn.__module__ in self.policy.inline_modules:
        if _is_generator_cm(fn):
          return CMInstance(self, ufn, args, kwargs)
        self.path.event('inline', key)
        return self.call_function(ufn, args, kwargs)
      if all(_deep_concrete(a) for a in args) and all(_deep_concrete(v) for v in kwargs.values()) \
          and key in self.policy.handlers.get('native_ok', ()):
        try:
          return fn(*args, **kwargs)
        except Exception as ex:  # pylint: disable=broad-except
          raise PyRaise(ExcVal(type(ex), ex.args))
      if key in self.policy.pure:
        return SAny(key.split(':')[-1] + '()')
      self.path.event('call', 'unknown:' + key, (args, kwargs))
      if self.policy.unknown_call_is_error:
        raise Unsupported(f'call of uncontracted function {key}')
      return SAny(key.split(':')[-1] + '()')
    return axioms.call_builtin(self, fn, args, kwargs, frame)

  def call_method_builtin(self, obj, name, args, kwargs, frame):
    from . import axioms
    return axioms.method(self, obj, name, args, kwargs, frame)


class NativeFn:
  """An interpreter-level function value: fn(interp, args, kwargs)."""
  __slots__ = ('fn',)

  def __init__(self, fn):
    self.fn = fn


class BuiltinMethod:
  __slots__ = ('obj', 'name')

  def __init__(self, obj, name):
    self.obj = obj
    self.name = name


class SSlice(SV):
  __slots__ = ('start', 'stop', 'step')

  def __init__(self, start, stop, step):
    self.start = start
    self.stop = stop
    self.step = step


class SymIter(SV):
  """An iterable of symbolic length: item(i) and length()."""

  def __init__(self, length_fn, item_fn):
    self._len = length_fn
    self._item = item_fn

  def length(self, interp):
    return self._len(interp)

  def item(self, interp, i):
    return self._item(interp, i)

  def concrete_items(self, interp):
    n = self._len(interp)
    n = simplify_concrete(SInt(n)) if not isinstance(n, int) else n
    if isinstance(n, int):
      return [self._item(interp, z3.IntVal(k)) for k in range(n)]
    return None

  @staticmethod
  def of(it):
    if isinstance(it, SObj) and isinstance(it.ghost.get('iter_seq'), SSeq):
      it = it.ghost['iter_seq']
    if isinstance(it, SSeq):
      return SymIter(lambda interp: it.len,
                     lambda interp, i: it.wrap(z3.Select(it.arr, i)))
    if isinstance(it, SObj) and isinstance(it.ghost.get('items'), SSeq):
      return SymIter.of(it.ghost['items'])
    raise Unsupported(f'symbolic iteration over {it!r}')


class CMInstance:
  """An inlined @contextlib.contextmanager generator function: the real body
  is executed up to its single `yield` on enter and resumed on exit."""

  def __init__(self, interp, pyfunc, args, kwargs):
    self.pyfunc = pyfunc
    self.args = args
    self.kwargs = kwargs
    self.resume = None

  def enter(self, interp):
    # Run the generator body in a Python thread-free coroutine style: we use a
    # real Python generator that drives the interpreter.
    self.gen = _cm_driver(interp, self.pyfunc, self.args, self.kwargs)
    try:
      return next(self.gen)
    except StopIteration:
      raise Unsupported('context manager generator did not yield')

  def exit(self, interp, exc):
    try:
      if exc is None:
        next(self.gen)
      else:
        self.gen.throw(PyRaise(exc))
    except StopIteration:
      return exc is not None and getattr(self, '_suppressed', True)
    except PyRaise as pr:
      if exc is not None and pr.exc is exc:
        return False
      raise
    raise Unsupported('context manager generator yielded twice')


def _cm_driver(interp, pyfunc, args, kwargs):
  """Drives interpretation of a generator function body, suspending at
  `yield` by running the interpreter in a nested greenlet-less way: the body is
  split at the yield statement syntactically."""
  if isinstance(pyfunc, Closure):
    clo = pyfunc
    node = clo.node
    locals_ = interp.bind_args(node.args, args, kwargs, clo.defaults, clo.kwdefaults, clo.name)
    parent = clo.frame
    frame = Frame(locals_, parent.globals if parent else {}, parent.info if parent else None,
                  False, parent=parent, cls=parent.cls if parent else None, name=clo.name)
    try:
      yield from _run_gen_block(interp, node.body, frame)
    except _Return:
      pass
    return
  info = frontend.get_funcinfo(pyfunc)
  node = info.node
  f = info.pyfunc
  locals_ = interp.bind_args(node.args, args, kwargs, f.__defaults__ or (),
                             f.__kwdefaults__ or {}, info.qualname)
  frame = Frame(locals_, f.__globals__, info, False, {}, cls=info.cls,
                name=info.qualname)
  try:
    yield from _run_gen_block(interp, node.body, frame)
  except _Return:
    # `return` in a generator body ends the generator
    pass


def _contains_yield(stmts):
  for s in stmts:
    for n in ast.walk(s):
      if isinstance(n, (ast.Yield, ast.YieldFrom)):
        return True
  return False


def _run_gen_block(interp, stmts, frame):
  """Generator-style execution of a statement list containing `yield`."""
  for s in stmts:
    if not _contains_yield([s]):
      interp.exec_stmt(s, frame)
      continue
    if isinstance(s, ast.Expr) and isinstance(s.value, ast.Yield):
      v = interp.eval(s.value.value, frame) if s.value.value is not None else None
      yield v
    elif isinstance(s, ast.Assign) and isinstance(s.value, ast.Yield):
      v = interp.eval(s.value.value, frame) if s.value.value is not None else None
      sent = yield v
      for t in s.targets:
        interp.assign(t, sent, frame)
    elif isinstance(s, ast.Try):
      try:
        try:
          yield from _run_gen_block(interp, s.body, frame)
        except PyRaise as pr:
          handled = False
          for h in s.handlers:
            if interp.exc_matches(pr.exc, h.type, frame):
              handled = True
              if h.name:
                frame.locals[h.name] = pr.exc
              frame.locals['__active_exc__'] = pr.exc
              yield from _run_gen_block(interp, h.body, frame)
              break
          if not handled:
            raise
        else:
          yield from _run_gen_block(interp, s.orelse, frame)
      except (PyRaise, _Return):
        yield from _run_gen_block(interp, s.finalbody, frame)
        raise
      else:
        yield from _run_gen_block(interp, s.finalbody, frame)
    elif isinstance(s, ast.With):
      yield from _run_gen_with(interp, s.items, 0, s.body, frame)
    elif isinstance(s, ast.If):
      if interp.truth(interp.eval(s.test, frame)):
        yield from _run_gen_block(interp, s.body, frame)
      else:
        yield from _run_gen_block(interp, s.orelse, frame)
    else:
      raise Unsupported(f'yield inside {type(s).__name__}')


def _run_gen_with(interp, items, i, body, frame):
  if i == len(items):
    yield from _run_gen_block(interp, body, frame)
    return
  item = items[i]
  mgr = interp.eval(item.context_expr, frame)
  enter_val, exit_fn = interp.enter_cm(mgr, frame)
  if item.optional_vars is not None:
    interp.assign(item.optional_vars, enter_val, frame)
  try:
    yield from _run_gen_with(interp, items, i + 1, body, frame)
  except PyRaise as pr:
    if not exit_fn(pr.exc):
      raise
  except _Return:
    exit_fn(None)
    raise
  else:
    exit_fn(None)


def _is_generator_cm(fn):
  w = getattr(fn, '__wrapped__', None)
  return w is not None and inspect.isgeneratorfunction(w)


def _deep_concrete(v):
  if isinstance(v, (SV, Closure, BoundMethod, SuperProxy, ExcVal, NativeFn, BuiltinMethod)):
    return False
  if isinstance(v, (list, tuple, set)):
    return all(_deep_concrete(x) for x in v)
  if isinstance(v, dict):
    return all(_deep_concrete(x) for x in v.values())
  return True


def _kind(v):
  if isinstance(v, (SInt, SReal, int, float)) and not isinstance(v, bool):
    return 'num'
  if isinstance(v, (SBool, bool)):
    return 'num'
  if isinstance(v, (SStr, str)):
    return 'str'
  if v is None:
    return 'none'
  if isinstance(v, (SSeq, list)):
    return 'list' if not isinstance(v, SSeq) or v.kind == 'list' else 'tuple'
  if isinstance(v, tuple):
    return 'tuple'
  return None


def _join_label(a, b):
  la = getattr(a, 'label', None) if isinstance(a, SAny) else 'safe'
  lb = getattr(b, 'label', None) if isinstance(b, SAny) else 'safe'
  if la == 'safe' and lb == 'safe':
    return 'safe'
  return None


def _assigned_names(stmts):
  out = set()
  for s in stmts:
    for n in ast.walk(s):
      if isinstance(n, ast.Name) and isinstance(n.ctx, (ast.Store, ast.Del)):
        out.add(n.id)
  return out


def _target_names(t):
  return {n.id for n in ast.walk(t) if isinstance(n, ast.Name)}


def _loop_local_temporaries(loop, names, frame):
  """True if every name is assigned before any use in each iteration and is
  not read anywhere outside the loop body in the enclosing function."""
  fn = frame.info.node if frame.info else None
  if fn is None:
    return False
  inside = set()
  for st in loop.body:
    for n in ast.walk(st):
      inside.add(id(n))
  for n in ast.walk(fn):
    if isinstance(n, ast.Name) and n.id in names and isinstance(n.ctx, ast.Load) and id(n) not in inside:
      return False
  # first occurrence in the body (source order) must be a store
  first = {}
  for st in loop.body:
    occ = sorted((x for x in ast.walk(st) if isinstance(x, ast.Name) and x.id in names),
                 key=lambda x: (x.lineno, x.col_offset))
    # within one statement the right-hand side is evaluated first
    for x in occ:
      if x.id not in first:
        first[x.id] = x
  for nm in names:
    x = first.get(nm)
    if x is None or not isinstance(x.ctx, ast.Store):
      return False
    # a store whose own statement also loads the name (x = f(x)) is a use
    for st in loop.body:
      if any(y is x for y in ast.walk(st)):
        if any(isinstance(y, ast.Name) and y.id == nm and isinstance(y.ctx, ast.Load) for y in ast.walk(st)):
          return False
        break
  return True


def _has_heap_write(stmts):
  for s in stmts:
    for n in ast.walk(s):
      if isinstance(n, (ast.Attribute, ast.Subscript)) and isinstance(n.ctx, (ast.Store, ast.Del)):
        return True
  return False


_MUTATING_BUILTIN_METHODS = {
    'append', 'extend', 'insert', 'pop', 'remove', 'clear', 'sort', 'reverse',
    'update', 'setdefault', 'popitem', 'add', 'discard', 'copy', 'get', 'keys',
    'values', 'items', 'index', 'count'}
