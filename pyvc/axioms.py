"""Axioms: the interpreter's model of builtins and C-level container methods.

Everything here is part of the trusted base (A-AXIOMS).  Each axiom used on a
run is recorded (USED) and listed in the evidence.
"""
import ast
import builtins
import types
import z3

from . import spec as specmod
from .values import (PList, SOptInt, SV, SInt, SReal, SBool, SStr, SBits, SAny, SChoice, SSeq,
                     SObj, SDict, Closure, BoundMethod, SuperProxy, ExcVal,
                     fresh_name, lift, simplify_concrete)

USED = set()


def _used(name):
  USED.add(name)


def _I():
  from . import interp
  return interp


def pyraise(cls, *args):
  return _I().PyRaise(ExcVal(cls, args))


def unsupported(msg):
  return _I().Unsupported(msg)


def is_concrete(v):
  return _I().is_concrete(v)


# ---------------------------------------------------------------------------
# sequences

def seq_from_list(interp, items, kind='list'):
  """SSeq with concrete length from interpreter values (all liftable to one
  sort), or None."""
  zs = [interp.to_z3(x) for x in items]
  if any(z is None for z in zs) or not zs:
    return None
  sort = zs[0].sort()
  if any(z.sort() != sort for z in zs):
    return None
  arr = z3.K(z3.IntSort(), zs[0])
  for i, z in enumerate(zs):
    arr = z3.Store(arr, i, z)
  return SSeq(arr, z3.IntVal(len(zs)), lift, interp.to_z3, kind, sort)


def promote(interp, lst, like=None):
  """Turns a concrete interpreter list into a symbolic sequence in place."""
  if not isinstance(lst, PList):
    raise unsupported('a list not created by interpreted code absorbs a symbolic-length sequence')
  if lst.sym is not None:
    return lst.sym
  s = seq_from_list(interp, list(lst)) if len(lst) else None
  if s is None:
    if len(lst):
      raise unsupported('promotion of a heterogeneous list')
    proto = like if isinstance(like, SSeq) else None
    if isinstance(like, SObj) and isinstance(like.ghost.get('items'), SSeq):
      proto = like.ghost['items']
    if proto is None:
      sort, wrap, unwrap = z3.IntSort(), lift, interp.to_z3
    else:
      sort, wrap, unwrap = proto.sort, proto.wrap, proto.unwrap
    s = SSeq(z3.K(z3.IntSort(), _default_of(sort)), z3.IntVal(0), wrap, unwrap, 'list', sort)
  elif isinstance(like, SSeq):
    s.wrap, s.unwrap = like.wrap, like.unwrap
  lst.sym = s
  return s


def _default_of(sort):
  if sort == z3.IntSort():
    return z3.IntVal(0)
  if sort == z3.BoolSort():
    return z3.BoolVal(False)
  if sort == z3.RealSort():
    return z3.RealVal(0)
  if sort == z3.StringSort():
    return z3.StringVal('')
  return z3.FreshConst(sort)


def seq_len(v):
  if isinstance(v, SSeq):
    return v.len
  return z3.IntVal(len(v))


def seq_concat(interp, a, b):
  _used('seq.__add__')
  if isinstance(a, (list, tuple)) and isinstance(b, (list, tuple)):
    return a + b
  proto = a if isinstance(a, SSeq) else b
  if not isinstance(a, SSeq):
    a2 = seq_from_list(interp, a, proto.kind)
    if a2 is None:
      if len(a) == 0:
        return b.copy()
      raise unsupported('concat of heterogeneous list')
    a = a2
  if not isinstance(b, SSeq):
    b2 = seq_from_list(interp, b, proto.kind)
    if b2 is None:
      if len(b) == 0:
        return a.copy()
      raise unsupported('concat of heterogeneous list')
    b = b2
  arr = z3.Array(fresh_name('cat'), z3.IntSort(), proto.sort)
  j = z3.Int(fresh_name('j'))
  interp.path.assume(z3.ForAll([j], z3.And(
      z3.Implies(z3.And(j >= 0, j < a.len), z3.Select(arr, j) == z3.Select(a.arr, j)),
      z3.Implies(z3.And(j >= a.len, j < a.len + b.len),
                 z3.Select(arr, j) == z3.Select(b.arr, j - a.len)))), check=False)
  return SSeq(arr, a.len + b.len, proto.wrap, proto.unwrap, proto.kind, proto.sort)


def seq_eq(interp, a, b):
  """z3 Bool / bool: element-wise equality of two sequences."""
  if isinstance(a, (list, tuple)) and isinstance(b, (list, tuple)):
    if len(a) != len(b):
      return False
    zs = []
    for x, y in zip(a, b):
      z = interp.truth_z(interp.compare(ast.Eq, x, y))
      if z is False:
        return False
      if z is not True:
        zs.append(z)
    return z3.And(*zs) if zs else True
  ka = a.kind if isinstance(a, SSeq) else ('tuple' if isinstance(a, tuple) else 'list')
  kb = b.kind if isinstance(b, SSeq) else ('tuple' if isinstance(b, tuple) else 'list')
  if ka != kb:
    return False
  if not isinstance(a, SSeq):
    if len(a) == 0:
      return b.len == 0
    a = seq_from_list(interp, a, kb)
  if not isinstance(b, SSeq):
    if len(b) == 0:
      return a.len == 0
    b = seq_from_list(interp, b, ka)
  if a is None or b is None:
    raise unsupported('sequence equality over heterogeneous items')
  j = z3.Int(fresh_name('j'))
  return z3.And(a.len == b.len, z3.ForAll([j], z3.Implies(
      z3.And(j >= 0, j < a.len), z3.Select(a.arr, j) == z3.Select(b.arr, j))))


def norm_index(interp, idx, n, exc=IndexError):
  """Python index normalisation with bounds check; forks; returns z3 Int."""
  zi = interp.to_z3(idx)
  if zi is None or zi.sort() != z3.IntSort():
    raise pyraise(TypeError, 'index')
  interp.path.raise_if(z3.Not(z3.And(zi >= -n, zi < n)), ExcVal(exc, ('index out of range',)))
  return z3.simplify(z3.If(zi < 0, zi + n, zi))


def getitem(interp, obj, idx, frame):
  I = _I()
  if isinstance(obj, SSeq):
    _used('seq.__getitem__')
    if isinstance(idx, (slice, I.SSlice)):
      return seq_slice(interp, obj, idx)
    k = norm_index(interp, idx, obj.len)
    return obj.wrap(z3.simplify(z3.Select(obj.arr, k)))
  if isinstance(obj, (list, tuple)):
    if is_concrete(idx):
      try:
        return obj[idx]
      except Exception as ex:  # pylint: disable=broad-except
        raise pyraise(type(ex), *ex.args)
    if isinstance(idx, SInt):
      # fork over the concrete positions
      n = len(obj)
      k = norm_index(interp, idx, z3.IntVal(n))
      c = interp.path.decide(n, 'idx')
      interp.path.assume(k == c)
      return obj[c]
    raise unsupported(f'list index {idx!r}')
  if isinstance(obj, dict):
    if is_concrete(idx) and idx not in obj:
      opaque = [k for k in obj if isinstance(k, SAny)]
      if opaque:
        # the key may be one of the opaque keys: fork over them (+ "none")
        c = interp.path.decide(len(opaque) + 1, 'opaque-key')
        if c < len(opaque):
          k = opaque[c]
          r = interp.compare(ast.Eq, k, idx, frame)
          interp.path.assume(interp.truth_z(r))
          return obj[k]
        for k in opaque:
          interp.path.assume(z3.Not(interp.truth_z(interp.compare(ast.Eq, k, idx, frame))), check=False)
        raise pyraise(KeyError, idx)
    if is_concrete(idx) or isinstance(idx, SObj):
      try:
        return obj[idx]
      except KeyError:
        raise pyraise(KeyError, idx)
      except TypeError as ex:
        raise pyraise(TypeError, *ex.args)
    raise unsupported('dict lookup with symbolic key')
  if isinstance(obj, SDict):
    if is_concrete(idx):
      if idx in obj.items:
        return obj.items[idx]
      if not obj.open_:
        raise pyraise(KeyError, idx)
      # open remainder: present (opaque value) or KeyError
      if interp.path.branch(interp.opendict_has(obj, idx)):
        return SAny(f'opendict[{idx!r}]')
      raise pyraise(KeyError, idx)
    raise unsupported('symbolic dict lookup')
  if isinstance(obj, SObj):
    m = interp.getattr_(obj, '__getitem__', frame)
    return interp.call(m, [idx], {}, frame)
  if isinstance(obj, SAny):
    v = obj.memo.get(('item', repr(idx)))
    if v is None:
      v = SAny(f'{obj.tag}[]', label=obj.label)
      obj.memo[('item', repr(idx))] = v
    return v
  if isinstance(obj, SStr):
    _used('str.__getitem__')
    n = z3.Length(obj.z)
    if isinstance(idx, (slice, I.SSlice)):
      lo, hi, st = idx.start, idx.stop, idx.step
      if st is not None:
        raise unsupported('string slice with step')
      zlo = z3.IntVal(0) if lo is None else _clamp(interp.to_z3(lo), n)
      zhi = n if hi is None else _clamp(interp.to_z3(hi), n)
      return SStr(z3.SubString(obj.z, zlo, z3.If(zhi > zlo, zhi - zlo, 0)))
    k = norm_index(interp, idx, n)
    return SStr(z3.SubString(obj.z, k, 1))
  if isinstance(obj, str) and isinstance(idx, (SInt, I.SSlice)):
    return getitem(interp, SStr(z3.StringVal(obj)), idx, frame)
  if is_concrete(obj) and is_concrete(idx):
    try:
      return obj[idx]
    except Exception as ex:  # pylint: disable=broad-except
      raise pyraise(type(ex), *ex.args)
  raise unsupported(f'subscript on {obj!r}')


def _clamp(z, n):
  return z3.If(z < 0, z3.If(z + n < 0, 0, z + n), z3.If(z > n, n, z))


def seq_slice(interp, s, idx):
  _used('seq.slice')
  lo, hi, st = idx.start, idx.stop, idx.step
  if st is not None and not (is_concrete(st) and st == 1):
    raise unsupported('sequence slice with step')
  n = s.len
  zlo = z3.IntVal(0) if lo is None else _clamp(interp.to_z3(lo), n)
  zhi = n if hi is None else _clamp(interp.to_z3(hi), n)
  ln = z3.If(zhi > zlo, zhi - zlo, 0)
  arr = z3.Array(fresh_name('slc'), z3.IntSort(), s.sort)
  j = z3.Int(fresh_name('j'))
  interp.path.assume(z3.ForAll([j], z3.Implies(
      z3.And(j >= 0, j < ln), z3.Select(arr, j) == z3.Select(s.arr, j + zlo))), check=False)
  return SSeq(arr, ln, s.wrap, s.unwrap, s.kind, s.sort)


def setitem(interp, obj, idx, v, frame):
  if isinstance(obj, SSeq):
    _used('list.__setitem__')
    if obj.kind == 'tuple':
      raise pyraise(TypeError, 'tuple assignment')
    k = norm_index(interp, idx, obj.len)
    zv = obj.unwrap(v)
    if zv is None:
      raise unsupported('storing a foreign value into a typed sequence')
    obj.arr = z3.Store(obj.arr, k, zv)
    interp.path.event('write', 'seq[]', (obj, k, v))
    return
  if isinstance(obj, list):
    if is_concrete(idx):
      try:
        obj[idx] = v
      except Exception as ex:  # pylint: disable=broad-except
        raise pyraise(type(ex), *ex.args)
      return
    raise unsupported('list store with symbolic index')
  if isinstance(obj, dict):
    if is_concrete(idx) or isinstance(idx, SObj):
      # SObj keys: identity (heap objects are distinct unless the same object)
      obj[idx] = v
      return
    if isinstance(idx, SAny):
      # an opaque key: kept under its own identity (distinct opaque keys are
      # assumed distinct; membership tests against it stay opaque)
      interp.path.event('assumption', 'dict-store-with-opaque-key: distinct from other keys')
      obj[idx] = v
      return
    raise unsupported('dict store with symbolic key')
  if isinstance(obj, SDict):
    if is_concrete(idx):
      obj.items[idx] = v
      return
    if isinstance(idx, SAny) and obj.open_:
      obj.nonempty = True
      interp.path.event('write', 'opendict[]', (obj, idx, v))
      return
    raise unsupported('dict store with symbolic key')
  if isinstance(obj, SObj):
    m = interp.getattr_(obj, '__setitem__', frame)
    return interp.call(m, [idx, v], {}, frame)
  if isinstance(obj, SAny):
    interp.path.event('write', 'opaque[]', (obj, idx, v))
    return
  raise unsupported(f'item store on {obj!r}')


def delitem(interp, obj, idx, frame):
  if isinstance(obj, (list, dict)) and is_concrete(idx):
    try:
      del obj[idx]
    except Exception as ex:  # pylint: disable=broad-except
      raise pyraise(type(ex), *ex.args)
    return
  if isinstance(obj, SDict) and is_concrete(idx):
    if idx in obj.items:
      del obj.items[idx]
      return
    if not obj.open_:
      raise pyraise(KeyError, idx)
  if isinstance(obj, SSeq):
    _used('list.__delitem__')
    k = norm_index(interp, idx, obj.len)
    seq_remove_at(interp, obj, k)
    return
  if isinstance(obj, SObj):
    m = interp.getattr_(obj, '__delitem__', frame)
    return interp.call(m, [idx], {}, frame)
  if isinstance(obj, SAny):
    interp.path.event('write', 'opaque.del[]', (obj, idx))
    return
  raise unsupported(f'del item on {obj!r}')


def seq_remove_at(interp, s, k):
  arr = z3.Array(fresh_name('del'), z3.IntSort(), s.sort)
  j = z3.Int(fresh_name('j'))
  interp.path.assume(z3.ForAll([j], z3.And(
      z3.Implies(z3.And(j >= 0, j < k), z3.Select(arr, j) == z3.Select(s.arr, j)),
      z3.Implies(z3.And(j >= k, j < s.len - 1), z3.Select(arr, j) == z3.Select(s.arr, j + 1)))),
      check=False)
  s.arr = arr
  s.len = z3.simplify(s.len - 1)


def seq_insert_at(interp, s, k, zv):
  arr = z3.Array(fresh_name('ins'), z3.IntSort(), s.sort)
  j = z3.Int(fresh_name('j'))
  interp.path.assume(z3.ForAll([j], z3.And(
      z3.Implies(z3.And(j >= 0, j < k), z3.Select(arr, j) == z3.Select(s.arr, j)),
      z3.Implies(z3.And(j > k, j <= s.len), z3.Select(arr, j) == z3.Select(s.arr, j - 1)))),
      check=False)
  interp.path.assume(z3.Select(arr, k) == zv, check=False)
  s.arr = arr
  s.len = z3.simplify(s.len + 1)


# ---------------------------------------------------------------------------
# methods of builtin containers / strings

def method(interp, obj, name, args, kwargs, frame):
  I = _I()
  obj = interp.resolve(obj)
  args = [interp.resolve(a) for a in args]
  if isinstance(obj, SSeq):
    return seq_method(interp, obj, name, args, kwargs, frame)
  if isinstance(obj, (SStr,)) or (isinstance(obj, str) and any(isinstance(a, SV) for a in args)):
    return str_method(interp, obj, name, args, kwargs, frame)
  if isinstance(obj, SDict):
    return sdict_method(interp, obj, name, args, kwargs, frame)
  if isinstance(obj, list):
    _used(f'list.{name}')
    if name == 'append':
      obj.append(args[0])
      return None
    if name == 'extend':
      items = interp.iterate(args[0], frame)
      if items is None:
        promote(interp, obj, like=args[0])
        return seq_method(interp, obj.sym, 'extend', args, kwargs, frame)
      obj.extend(items)
      return None
    if name == 'insert' and is_concrete(args[0]):
      obj.insert(args[0], args[1])
      return None
    if name == 'pop':
      if not args:
        if not obj:
          raise pyraise(IndexError, 'pop from empty list')
        return obj.pop()
      if is_concrete(args[0]):
        try:
          return obj.pop(args[0])
        except IndexError:
          raise pyraise(IndexError, 'pop index')
    if name == 'copy':
      return list(obj)
    if name == 'clear':
      obj.clear()
      return None
    if name == 'reverse':
      obj.reverse()
      return None
    if name in ('index', 'count', 'remove', 'sort') and all(I._deep_concrete(x) for x in obj) and all(I._deep_concrete(a) for a in args) and not kwargs:
      try:
        return getattr(obj, name)(*args)
      except Exception as ex:  # pylint: disable=broad-except
        raise pyraise(type(ex), *ex.args)
    raise unsupported(f'list.{name} on symbolic content')
  if isinstance(obj, dict):
    _used(f'dict.{name}')
    if name == 'get':
      k = args[0]
      if is_concrete(k):
        return obj.get(k, args[1] if len(args) > 1 else kwargs.get('default'))
    if name == 'copy':
      return dict(obj)
    if name == 'update':
      for a in args:
        a = interp.resolve(a)
        if isinstance(a, dict):
          obj.update(a)
        elif isinstance(a, SDict) and not a.open_:
          obj.update(a.items)
        else:
          raise unsupported('dict.update with symbolic mapping')
      obj.update(kwargs)
      return None
    if name in ('keys', 'values', 'items'):
      return list(getattr(obj, name)())
    if name == 'pop' and is_concrete(args[0]):
      if args[0] in obj:
        return obj.pop(args[0])
      if len(args) > 1:
        return args[1]
      raise pyraise(KeyError, args[0])
    if name == 'setdefault' and is_concrete(args[0]):
      return obj.setdefault(args[0], args[1] if len(args) > 1 else None)
    if name == 'clear':
      obj.clear()
      return None
    raise unsupported(f'dict.{name}')
  if isinstance(obj, set):
    if name == 'add' and is_concrete(args[0]):
      obj.add(args[0])
      return None
    raise unsupported(f'set.{name}')
  if isinstance(obj, SBits) and name == 'value':
    return obj
  if isinstance(obj, (I.SSlice, slice)) and name == 'indices':
    return slice_indices(interp, obj, args[0])
  raise unsupported(f'method {name} on {obj!r}')


def seq_method(interp, s, name, args, kwargs, frame):
  _used(f'list.{name}')
  if name == 'append':
    zv = s.unwrap(args[0])
    if zv is None:
      raise unsupported('append of a foreign value')
    s.arr = z3.Store(s.arr, s.len, zv)
    s.len = z3.simplify(s.len + 1)
    return None
  if name == 'insert':
    zi = interp.to_z3(args[0])
    n = s.len
    k = z3.If(zi < 0, z3.If(zi + n < 0, 0, zi + n), z3.If(zi > n, n, zi))
    seq_insert_at(interp, s, z3.simplify(k), s.unwrap(args[1]))
    return None
  if name == 'pop':
    if not args:
      if interp.path.branch(s.len == 0):
        raise pyraise(IndexError, 'pop from empty list')
      v = s.wrap(z3.simplify(z3.Select(s.arr, s.len - 1)))
      s.len = z3.simplify(s.len - 1)
      return v
    if interp.path.branch(s.len == 0):
      raise pyraise(IndexError, 'pop from empty list')
    k = norm_index(interp, args[0], s.len)
    v = s.wrap(z3.simplify(z3.Select(s.arr, k)))
    seq_remove_at(interp, s, k)
    return v
  if name == 'copy':
    return s.copy()
  if name == 'clear':
    s.len = z3.IntVal(0)
    return None
  if name == 'extend':
    other = args[0]
    cat = seq_concat(interp, s, other)
    s.arr, s.len = cat.arr, cat.len
    return None
  if name == 'index':
    zv = s.unwrap(args[0])
    j = z3.Int(fresh_name('j'))
    found = z3.Exists([j], z3.And(j >= 0, j < s.len, z3.Select(s.arr, j) == zv))
    if not interp.path.branch(found):
      raise pyraise(ValueError, 'not in list')
    k = interp.path.fresh_int('idx')
    interp.path.assume(z3.And(k >= 0, k < s.len, z3.Select(s.arr, k) == zv,
                              z3.ForAll([j], z3.Implies(z3.And(j >= 0, j < k),
                                                        z3.Select(s.arr, j) != zv))), check=False)
    return SInt(k)
  raise unsupported(f'sequence method {name}')


def sdict_method(interp, d, name, args, kwargs, frame):
  _used(f'dict.{name}')
  if name == 'get' and is_concrete(args[0]):
    if args[0] in d.items:
      return d.items[args[0]]
    if not d.open_:
      return args[1] if len(args) > 1 else None
  if name == 'copy':
    return SDict(d.items, d.open_)
  if name == 'update':
    for a in args:
      a = interp.resolve(a)
      if isinstance(a, dict):
        d.items.update(a)
      elif isinstance(a, SDict) and not a.open_:
        d.items.update(a.items)
      else:
        raise unsupported('dict.update with open mapping')
    d.items.update(kwargs)
    return None
  if name in ('keys',) and not d.open_:
    return list(d.items.keys())
  if name in ('values',) and not d.open_:
    return list(d.items.values())
  if name in ('items',) and not d.open_:
    return list(d.items.items())
  if name == 'pop' and is_concrete(args[0]):
    if args[0] in d.items:
      return d.items.pop(args[0])
    if not d.open_:
      if len(args) > 1:
        return args[1]
      raise pyraise(KeyError, args[0])
  raise unsupported(f'symbolic dict method {name}')


def str_method(interp, s, name, args, kwargs, frame):
  _used(f'str.{name}')
  zs = interp.to_z3(s)
  if name == 'startswith':
    return SBool(z3.PrefixOf(interp.to_z3(args[0]), zs))
  if name == 'endswith':
    return SBool(z3.SuffixOf(interp.to_z3(args[0]), zs))
  if name == 'lstrip' and args and is_concrete(args[0]):
    # maximal prefix whose characters are all in the set args[0]
    chars = args[0]
    r = z3.String(fresh_name('lstrip'))
    pre = z3.String(fresh_name('pre'))
    j = z3.Int(fresh_name('j'))
    inset = lambda c: z3.Or(*[c == z3.StringVal(ch) for ch in chars]) if chars else z3.BoolVal(False)
    interp.path.assume(z3.And(
        zs == z3.Concat(pre, r),
        z3.ForAll([j], z3.Implies(z3.And(j >= 0, j < z3.Length(pre)), inset(z3.SubString(pre, j, 1)))),
        z3.Or(z3.Length(r) == 0, z3.Not(inset(z3.SubString(r, 0, 1))))), check=False)
    return SStr(r)
  if name == 'isdigit':
    raise unsupported('str.isdigit')
  if name in ('format', 'join', 'lower', 'upper', 'strip', 'replace', 'split'):
    return SAny(f'str.{name}')
  if name == 'find' or name == 'index':
    r = z3.IndexOf(zs, interp.to_z3(args[0]), z3.IntVal(0))
    return SInt(r)
  raise unsupported(f'str.{name}')


# ---------------------------------------------------------------------------
# builtin functions

def call_builtin(interp, fn, args, kwargs, frame):
  I = _I()
  args = [interp.resolve(a) for a in args]
  # exception and other classes
  if isinstance(fn, type):
    if issubclass(fn, BaseException):
      return ExcVal(fn, tuple(args))
    h = interp.policy.handlers.get(('new', fn))
    if h is not None:
      return h(interp, args, kwargs, frame)
    if fn in (int, float, str, bool, list, tuple, dict, set, frozenset, type, range, slice, enumerate, zip, reversed, object):
      return call_builtin_type(interp, fn, args, kwargs, frame)
    if all(I._deep_concrete(a) for a in args) and all(I._deep_concrete(v) for v in kwargs.values()) \
        and interp.policy.handlers.get(('native_class', fn)):
      try:
        return fn(*args, **kwargs)
      except Exception as ex:  # pylint: disable=broad-except
        raise pyraise(type(ex), *ex.args)
    # instantiate a repository class whose __init__ the policy inlines
    init = fn.__dict__.get('__init__') or next(
        (k.__dict__['__init__'] for k in fn.__mro__ if '__init__' in k.__dict__ and k is not object), None)
    if isinstance(init, types.FunctionType):
      key = f'{init.__module__}:{init.__qualname__}'
      if key in interp.policy.inline or init.__module__ in interp.policy.inline_modules:
        obj = SObj(fn, {})
        obj.ghost['raw_setattr'] = False
        interp.path.event('inline', key)
        interp.call_function(init, [obj] + list(args), kwargs)
        return obj
    h = interp.policy.handlers.get(('construct',))
    if h is not None:
      r = h(interp, fn, args, kwargs, frame)
      if r is not NotImplemented:
        return r
    interp.path.event('call', f'new:{fn.__module__}:{fn.__qualname__}', (args, kwargs))
    if interp.policy.unknown_call_is_error:
      raise unsupported(f'construction of {fn.__qualname__} without a contract')
    return SAny(f'new {fn.__name__}')
  name = getattr(fn, '__name__', None)
  b = getattr(builtins, name, None) if name else None
  if b is fn:
    h = _BUILTINS.get(name)
    if h is not None:
      _used(f'builtin.{name}')
      return h(interp, args, kwargs, frame)
  mod = getattr(fn, '__module__', None)
  full = f'{mod}.{name}'
  h = _LIB.get(full)
  if h is not None:
    _used(full)
    return h(interp, args, kwargs, frame)
  if isinstance(fn, (types.BuiltinFunctionType, types.BuiltinMethodType, types.MethodDescriptorType, types.WrapperDescriptorType, types.MethodWrapperType)):
    # C-level method reached through a class (e.g. list.__setitem__(self,...))
    owner = getattr(fn, '__objclass__', None) or type(getattr(fn, '__self__', None))
    h = interp.policy.handlers.get(('cmethod', owner, name))
    if h is not None:
      return h(interp, args, kwargs, frame)
    if all(I._deep_concrete(a) for a in args) and all(I._deep_concrete(v) for v in kwargs.values()):
      if full in _PURE_NATIVE or (owner in (str, int, float, tuple, frozenset, bytes) ):
        try:
          return fn(*args, **kwargs)
        except Exception as ex:  # pylint: disable=broad-except
          raise pyraise(type(ex), *ex.args)
    if owner in (list, dict) and args and isinstance(args[0], (SSeq, SDict, list, dict)):
      return method(interp, args[0], name, args[1:], kwargs, frame)
  if callable(fn) and all(I._deep_concrete(a) for a in args) and all(I._deep_concrete(v) for v in kwargs.values()) and full in _PURE_NATIVE:
    try:
      return fn(*args, **kwargs)
    except Exception as ex:  # pylint: disable=broad-except
      raise pyraise(type(ex), *ex.args)
  interp.path.event('call', f'unknown:{full}', (args, kwargs))
  if interp.policy.unknown_call_is_error:
    raise unsupported(f'call of unmodelled callable {full}')
  return SAny(f'{name}()')


_PURE_NATIVE = {
    'builtins.len', 'builtins.abs', 'builtins.min', 'builtins.max', 'builtins.sorted',
    'builtins.repr', 'builtins.str', 'builtins.hash', 'builtins.ord', 'builtins.chr',
    'math.ceil', 'math.floor', 'math.log', 'operator.itemgetter', 'builtins.sum',
    'builtins.any', 'builtins.all', 'builtins.callable', 'builtins.issubclass',
    'builtins.divmod', 'builtins.round', 'builtins.format', 'builtins.iter', 'builtins.next',
    'inspect.isclass', 'inspect.isfunction', 'inspect.ismethod',
}


def call_builtin_type(interp, fn, args, kwargs, frame):
  I = _I()
  _used(f'builtin.{fn.__name__}')
  if fn is type and len(args) == 1:
    v = args[0]
    if isinstance(v, SObj):
      return v.cls
    if isinstance(v, SInt):
      return int
    if isinstance(v, SBool):
      return bool
    if isinstance(v, SStr):
      return str
    if isinstance(v, SReal):
      return float
    if isinstance(v, SSeq):
      return list if v.kind == 'list' else tuple
    if isinstance(v, ExcVal):
      return v.cls
    if isinstance(v, SAny):
      return SAny('type()')
    return type(v)
  if fn in (list, tuple):
    if not args:
      return PList() if fn is list else ()
    v = args[0]
    if isinstance(v, SObj) and isinstance(v.ghost.get('items'), SSeq):
      v = v.ghost['items']
    if isinstance(v, SSeq):
      c = v.copy()
      c.kind = 'list' if fn is list else 'tuple'
      return c
    items = interp.iterate(v, frame)
    if items is None:
      raise unsupported(f'{fn.__name__}() of symbolic iterable')
    return PList(items) if fn is list else tuple(items)
  if fn is dict:
    d = {}
    for a in args:
      if isinstance(a, dict):
        d.update(a)
      elif isinstance(a, SDict) and not a.open_:
        d.update(a.items)
      else:
        items = interp.iterate(a, frame)
        if items is None:
          raise unsupported('dict() of symbolic iterable')
        for kv in items:
          k, v = interp.iterate(kv, frame)
          d[k] = v
    d.update(kwargs)
    return d
  if fn is bool:
    if not args:
      return False
    z = interp.truth_z(args[0])
    return z if isinstance(z, bool) else simplify_concrete(SBool(z))
  if fn is int and len(args) == 1:
    v = args[0]
    if isinstance(v, SInt):
      return v
    if isinstance(v, SBool):
      return SInt(z3.If(v.z, 1, 0))
    if isinstance(v, SStr):
      return SInt(z3.StrToInt(v.z))
  if fn is str and len(args) == 1:
    v = args[0]
    if isinstance(v, SStr):
      return v
    if isinstance(v, SInt):
      return SStr(z3.If(v.z >= 0, z3.IntToStr(v.z), z3.Concat(z3.StringVal('-'), z3.IntToStr(-v.z))))
    if isinstance(v, SAny):
      return SAny('str()', label=('safe' if v.label == 'safe' else None))
    if isinstance(v, (SV, ExcVal)):
      return SAny('str()')
  if fn is range:
    if all(is_concrete(a) for a in args):
      return range(*args)
    if any(interp.to_z3(a) is None for a in args):
      raise unsupported('range over a value that is not an integer')
    if len(args) == 1:
      n = interp.to_z3(args[0])
      return I.SymIter(lambda it: z3.If(n > 0, n, 0), lambda it, i: SInt(i))
    if len(args) == 2:
      lo, hi = interp.to_z3(args[0]), interp.to_z3(args[1])
      return I.SymIter(lambda it: z3.If(hi > lo, hi - lo, 0), lambda it, i: SInt(lo + i))
    if len(args) == 3 and is_concrete(args[2]) and args[2] != 0:
      lo, hi, st = interp.to_z3(args[0]), interp.to_z3(args[1]), args[2]
      if st > 0:
        n = z3.If(hi > lo, (hi - lo + (st - 1)) / st, 0)
      else:
        n = z3.If(lo > hi, (lo - hi + (-st - 1)) / (-st), 0)
      return I.SymIter(lambda it: n, lambda it, i: SInt(lo + i * st))
    raise unsupported('range with symbolic step')
  if fn is enumerate:
    it = args[0]
    items = interp.iterate(it, frame)
    start = args[1] if len(args) > 1 else kwargs.get('start', 0)
    if items is not None and is_concrete(start):
      return [(start + i, x) for i, x in enumerate(items)]
    if items is None and is_concrete(start):
      base = I.SymIter.of(it) if not isinstance(it, I.SymIter) else it
      return I.SymIter(base.length, lambda ip, i: (SInt(i + start) if start else SInt(i), base.item(ip, i)))
    raise unsupported('enumerate')
  if fn is zip:
    lists = [interp.iterate(a, frame) for a in args]
    if any(l is None for l in lists):
      bases = [I.SymIter.of(a) if not isinstance(a, I.SymIter) else a for a in args]
      if len(bases) == 2:
        a, b = bases
        return I.SymIter(lambda ip: _zmin(a.length(ip), b.length(ip)),
                         lambda ip, i: (a.item(ip, i), b.item(ip, i)))
      raise unsupported('zip of symbolic sequences')
    return list(zip(*lists))
  if fn is reversed:
    items = interp.iterate(args[0], frame)
    if items is None:
      raise unsupported('reversed of symbolic sequence')
    return list(reversed(items))
  if fn is slice:
    if all(is_concrete(a) for a in args):
      return slice(*args)
    a = list(args) + [None] * (3 - len(args))
    if len(args) == 1:
      a = [None, args[0], None]
    return I.SSlice(*a)
  if (fn is set or fn is frozenset) and args and isinstance(args[0], SSeq):
    s_ = args[0]
    n = z3.Int(fresh_name('setlen'))
    a, b_ = z3.Ints(f'{fresh_name("a")} {fresh_name("b")}')
    distinct = z3.ForAll([a, b_], z3.Implies(z3.And(a >= 0, a < b_, b_ < s_.len),
                                            z3.Select(s_.arr, a) != z3.Select(s_.arr, b_)))
    interp.path.assume(z3.And(n >= 0, n <= s_.len, z3.Implies(s_.len > 0, n >= 1),
                              (n == s_.len) == distinct), check=False)
    r = SAny('set()')
    r.memo['len'] = SInt(n)
    return r
  if fn is set or fn is frozenset:
    if not args:
      return fn()
    items = interp.iterate(args[0], frame)
    if items is not None and all(I._deep_concrete(x) for x in items):
      return fn(items)
    raise unsupported('set() of symbolic items')
  if fn is object and not args:
    return object()
  if all(I._deep_concrete(a) for a in args) and all(I._deep_concrete(v) for v in kwargs.values()):
    try:
      return fn(*args, **kwargs)
    except Exception as ex:  # pylint: disable=broad-except
      raise pyraise(type(ex), *ex.args)
  if any(isinstance(a, SAny) for a in args):
    return SAny(f'{fn.__name__}()')
  raise unsupported(f'{fn.__name__}() on {args!r}')


def _zmin(a, b):
  return z3.If(a <= b, a, b)


def _b_len(interp, args, kwargs, frame):
  v = args[0]
  if isinstance(v, SSeq):
    return simplify_concrete(SInt(v.len))
  if isinstance(v, SStr):
    return SInt(z3.Length(v.z))
  if isinstance(v, SDict):
    if v.open_:
      n = z3.Int(fresh_name('dictlen'))
      t = interp.truth_z(v)
      t = z3.BoolVal(t) if isinstance(t, bool) else t
      interp.path.assume(z3.And(n >= len(v.items), (n > 0) == t), check=False)
      return SInt(n)
    return len(v.items)
  if isinstance(v, SObj):
    h = interp.policy.handlers.get(('len', v.cls))
    if h is not None:
      return h(interp, v)
    items = v.ghost.get('items')
    if isinstance(items, SSeq):
      return simplify_concrete(SInt(items.len))
    m = interp.getattr_(v, '__len__', frame)
    return interp.call(m, [], {}, frame)
  if isinstance(v, SAny):
    n = v.memo.get('len')
    if n is None:
      z = z3.Int(fresh_name('len'))
      interp.path.assume(z >= 0, check=False)
      n = SInt(z)
      v.memo['len'] = n
    return n
  if isinstance(v, _I().SymIter):
    return SInt(v.length(interp))
  try:
    return len(v)
  except TypeError as ex:
    raise pyraise(TypeError, *ex.args)


def class_of(interp, v):
  """Concrete class of a value if known, else None."""
  if isinstance(v, SObj):
    return v.cls
  if isinstance(v, SInt):
    return int
  if isinstance(v, SBool):
    return bool
  if isinstance(v, SReal):
    return float
  if isinstance(v, SStr):
    return str
  if isinstance(v, SSeq):
    return list if v.kind == 'list' else tuple
  if isinstance(v, SDict):
    return dict
  if isinstance(v, SBits):
    return v.cls or int
  if isinstance(v, ExcVal):
    return v.cls
  if isinstance(v, (Closure, BoundMethod)):
    return types.FunctionType
  if isinstance(v, _I().SSlice):
    return slice
  if isinstance(v, SV):
    return None
  return type(v)


def _b_isinstance(interp, args, kwargs, frame):
  v, t = args
  t = interp.resolve(t)
  v = interp.resolve(v)
  if isinstance(t, SAny) or isinstance(v, SAny):
    if isinstance(v, SAny):
      key = ('isinstance', repr(t))
      z = v.memo.get(key)
      if z is None:
        z = z3.Bool(fresh_name('isinst'))
        v.memo[key] = z
      return SBool(z)
    raise unsupported('isinstance with opaque type')
  if isinstance(v, SOptInt):
    ts_ = t if isinstance(t, tuple) else (t,)
    if all(x in (int, float, bool) or (isinstance(x, type) and issubclass(int, x)) for x in ts_) and \
        any(issubclass(int, x) for x in ts_ if isinstance(x, type)):
      return simplify_concrete(SBool(v.present))
    if all(isinstance(x, type) and not issubclass(int, x) and x is not type(None) for x in ts_):
      raise unsupported('isinstance of optional int against non-int types')
  c = class_of(interp, v)
  if c is None:
    raise unsupported(f'isinstance of {v!r}')
  ts = t if isinstance(t, tuple) else (t,)
  flat = []
  for x in ts:
    if isinstance(x, tuple):
      flat.extend(x)
    else:
      flat.append(x)
  try:
    return issubclass(c, tuple(flat))
  except TypeError as ex:
    raise pyraise(TypeError, *ex.args)


def _b_getattr(interp, args, kwargs, frame):
  obj, name = args[0], args[1]
  if not isinstance(name, str):
    raise unsupported('getattr with symbolic name')
  if len(args) > 2:
    I = _I()
    try:
      return interp.getattr_(obj, name, frame)
    except I.PyRaise as pr:
      if issubclass(pr.exc.cls, AttributeError):
        return args[2]
      raise
  return interp.getattr_(obj, name, frame)


def _b_hasattr(interp, args, kwargs, frame):
  I = _I()
  obj, name = args
  obj = interp.resolve(obj)
  if isinstance(obj, SAny):
    key = ('hasattr', name)
    z = obj.memo.get(key)
    if z is None:
      z = z3.Bool(fresh_name('hasattr'))
      obj.memo[key] = z
    return SBool(z)
  try:
    interp.getattr_(obj, name, frame)
    return True
  except I.PyRaise as pr:
    if issubclass(pr.exc.cls, AttributeError):
      return False
    raise


def _b_setattr(interp, args, kwargs, frame):
  interp.setattr_(args[0], args[1], args[2], frame)
  return None


def _b_minmax(is_min):
  def h(interp, args, kwargs, frame):
    if len(args) == 1:
      items = interp.iterate(args[0], frame)
      if items is None:
        raise unsupported('min/max of symbolic sequence')
    else:
      items = args
    if kwargs:
      raise unsupported('min/max with key')
    if all(is_concrete(x) for x in items):
      return (min if is_min else max)(items)
    acc = items[0]
    for x in items[1:]:
      za, zx = interp.to_z3(acc), interp.to_z3(x)
      if za is None or zx is None:
        raise unsupported('min/max of non-numeric')
      if za.sort() != zx.sort():
        za = z3.ToReal(za) if za.sort() == z3.IntSort() else za
        zx = z3.ToReal(zx) if zx.sort() == z3.IntSort() else zx
      acc = lift(z3.If(zx < za, zx, za) if is_min else z3.If(zx > za, zx, za))
    return acc
  return h


def _b_abs(interp, args, kwargs, frame):
  v = args[0]
  if isinstance(v, SInt):
    return SInt(z3.If(v.z < 0, -v.z, v.z))
  if isinstance(v, SReal):
    return SReal(z3.If(v.z < 0, -v.z, v.z))
  return abs(v)


def _b_id(interp, args, kwargs, frame):
  v = args[0]
  if isinstance(v, SObj):
    return ('id', v.uid)
  if isinstance(v, SAny):
    return ('id', v.uid)
  return id(v)


def _b_repr(interp, args, kwargs, frame):
  v = args[0]
  if is_concrete(v):
    return repr(v)
  return SAny('repr()')


def _b_callable(interp, args, kwargs, frame):
  v = args[0]
  if isinstance(v, (Closure, BoundMethod, _I().NativeFn)):
    return True
  if isinstance(v, SAny):
    return SBool(z3.Bool(fresh_name('callable')))
  if isinstance(v, SObj):
    return any('__call__' in k.__dict__ for k in v.cls.__mro__)
  if isinstance(v, SV):
    return False
  return callable(v)


def _b_sorted(interp, args, kwargs, frame):
  I = _I()
  items = interp.iterate(args[0], frame)
  if items is not None and all(I._deep_concrete(x) for x in items) and not kwargs:
    return sorted(items)
  h = interp.policy.handlers.get(('sorted',))
  if h is not None:
    return h(interp, args, kwargs, frame)
  src = interp.resolve(args[0])
  if isinstance(src, SSeq) and not kwargs and src.sort == z3.IntSort():
    # sorted(S): a nondecreasing sequence of the same length which equals S
    # element-wise iff S is itself nondecreasing (the permutation property is
    # not modelled beyond that).
    t = z3.Array(fresh_name('sorted'), z3.IntSort(), z3.IntSort())
    j = z3.Int(fresh_name('j'))
    nondecr = lambda arr: z3.ForAll([j], z3.Implies(z3.And(j >= 0, j + 1 < src.len),
                                                    z3.Select(arr, j) <= z3.Select(arr, j + 1)))
    same = z3.ForAll([j], z3.Implies(z3.And(j >= 0, j < src.len),
                                     z3.Select(t, j) == z3.Select(src.arr, j)))
    interp.path.assume(z3.And(nondecr(t), same == nondecr(src.arr)), check=False)
    _assume_members(interp, t, src.len, src)
    return SSeq(t, src.len, src.wrap, src.unwrap, 'list', src.sort)
  if isinstance(src, SSeq) and set(kwargs) <= {'key', 'reverse'}:
    # sorted(S, key=..., reverse=...): a rearrangement of S (same length, every
    # element of the result is an element of S); the order itself is not
    # modelled for opaque keys.
    t = z3.Array(fresh_name('sorted'), z3.IntSort(), src.sort)
    _assume_members(interp, t, src.len, src)
    interp.path.event('assumption', 'sorted(key=...): order not modelled, membership and length only')
    return SSeq(t, src.len, src.wrap, src.unwrap, 'list', src.sort)
  if items is not None:
    keyf = kwargs.get('key')
    rev = kwargs.get('reverse', False)
    keys = [interp.call(keyf, [x], {}, frame) if keyf is not None else x for x in items]
    if all(I._deep_concrete(k) for k in keys) and is_concrete(rev):
      try:
        order = sorted(range(len(items)), key=lambda i: keys[i], reverse=bool(rev))
      except Exception as ex:  # pylint: disable=broad-except
        raise pyraise(type(ex), *ex.args)
      return [items[i] for i in order]
  raise unsupported('sorted of symbolic items')


def _assume_members(interp, t, n, src):
  j, i = z3.Int(fresh_name('j')), z3.Int(fresh_name('i'))
  interp.path.assume(z3.ForAll([j], z3.Implies(z3.And(j >= 0, j < n), z3.Exists(
      [i], z3.And(i >= 0, i < src.len, z3.Select(t, j) == z3.Select(src.arr, i))))), check=False)


def _b_any_all(is_any):
  def h(interp, args, kwargs, frame):
    items = interp.iterate(args[0], frame)
    if items is None:
      raise unsupported('any/all of symbolic sequence')
    zs = []
    for x in items:
      z = interp.truth_z(x)
      if isinstance(z, bool):
        if is_any and z:
          return True
        if not is_any and not z:
          return False
        continue
      zs.append(z)
    if not zs:
      return not is_any
    return SBool(z3.Or(*zs) if is_any else z3.And(*zs))
  return h


def _b_sum(interp, args, kwargs, frame):
  items = interp.iterate(args[0], frame)
  if items is None:
    raise unsupported('sum of symbolic sequence')
  acc = args[1] if len(args) > 1 else 0
  for x in items:
    acc = interp.binop(ast.Add, acc, x, frame)
  return acc


def _b_print(interp, args, kwargs, frame):
  interp.path.event('call', 'print')
  return None


def _b_issubclass(interp, args, kwargs, frame):
  a, b = args
  if isinstance(a, SAny) or isinstance(b, SAny):
    return SBool(z3.Bool(fresh_name('issub')))
  try:
    return issubclass(a, b)
  except TypeError as ex:
    raise pyraise(TypeError, *ex.args)


_BUILTINS = {
    'len': _b_len, 'isinstance': _b_isinstance, 'getattr': _b_getattr,
    'hasattr': _b_hasattr, 'setattr': _b_setattr, 'min': _b_minmax(True),
    'max': _b_minmax(False), 'abs': _b_abs, 'id': _b_id, 'repr': _b_repr,
    'callable': _b_callable, 'sorted': _b_sorted, 'any': _b_any_all(True),
    'all': _b_any_all(False), 'sum': _b_sum, 'print': _b_print,
    'issubclass': _b_issubclass,
}

_LIB = {}


def lib(fullname):
  def deco(f):
    _LIB[fullname] = f
    return f
  return deco


# ---------------------------------------------------------------------------
# spec helpers (pyvc.spec) on symbolic values

def spec_helper(interp, fn, args, kwargs, frame):
  I = _I()
  if fn is specmod.implies:
    a = interp.truth_z(args[0])
    if a is False:
      return True
    b = interp.truth_z(args[1])
    if a is True:
      return b if isinstance(b, bool) else simplify_concrete(SBool(b))
    if isinstance(b, bool):
      return True if b else simplify_concrete(SBool(z3.Not(a)))
    return simplify_concrete(SBool(z3.Implies(a, b)))
  if fn is specmod.iff:
    a, b = interp.truth_z(args[0]), interp.truth_z(args[1])
    if isinstance(a, bool) and isinstance(b, bool):
      return a == b
    a = z3.BoolVal(a) if isinstance(a, bool) else a
    b = z3.BoolVal(b) if isinstance(b, bool) else b
    return simplify_concrete(SBool(a == b))
  if fn is specmod.ite:
    c = interp.truth_z(args[0])
    if isinstance(c, bool):
      return args[1] if c else args[2]
    return interp.merge(c, args[1], args[2])
  if fn is specmod.is_none:
    return interp.identical(args[0], None)
  if fn in (specmod.forall_range, specmod.exists_range):
    lo, hi, f = args
    zlo, zhi = interp.to_z3(lo), interp.to_z3(hi)
    j = z3.Int(fresh_name('q'))
    rng = z3.And(j >= zlo, j < zhi)
    interp.path.no_fork += 1
    try:
      with interp.path.scoped(rng):
        body = interp.truth_z(interp.call(f, [SInt(j)], {}, frame))
    finally:
      interp.path.no_fork -= 1
    if isinstance(body, bool):
      body = z3.BoolVal(body)
    if fn is specmod.forall_range:
      return SBool(z3.ForAll([j], z3.Implies(rng, body)))
    return SBool(z3.Exists([j], z3.And(rng, body)))
  if fn is specmod.forall_int:
    f = args[0]
    j = z3.Int(fresh_name('q'))
    interp.path.no_fork += 1
    try:
      body = interp.truth_z(interp.call(f, [SInt(j)], {}, frame))
    finally:
      interp.path.no_fork -= 1
    if isinstance(body, bool):
      return body
    return SBool(z3.ForAll([j], body))
  raise unsupported(f'spec helper {fn.__name__}')


def slice_indices(interp, sl, n):
  """slice.indices(n) per the language reference (PySlice_AdjustIndices);
  the step must be concrete (or None)."""
  _used('slice.indices')
  step = interp.resolve(sl.step)
  if step is None:
    step = 1
  if not is_concrete(step):
    raise unsupported('slice.indices with symbolic step')
  if step == 0:
    raise pyraise(ValueError, 'slice step cannot be zero')
  zn = interp.to_z3(n)

  def adj(v, lo, hi, dflt):
    v = interp.resolve(v)
    if v is None:
      return dflt
    z = interp.to_z3(v)
    return z3.If(z < 0, z3.If(z + zn < lo, lo, z + zn), z3.If(z > hi, hi, z))
  if step > 0:
    start = adj(sl.start, z3.IntVal(0), zn, z3.IntVal(0))
    stop = adj(sl.stop, z3.IntVal(0), zn, zn)
  else:
    start = adj(sl.start, z3.IntVal(-1), zn - 1, zn - 1)
    stop = adj(sl.stop, z3.IntVal(-1), zn - 1, z3.IntVal(-1))
  return (simplify_concrete(SInt(z3.simplify(start))), simplify_concrete(SInt(z3.simplify(stop))), step)


@lib('typing.cast')
def _typing_cast(interp, args, kwargs, frame):
  """typing.cast is the identity at run time."""
  return args[1] if len(args) > 1 else kwargs.get('val')
