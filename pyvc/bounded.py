"""Helpers for the bounded stand-in tier (never counted as proved).

A driver is a function  drv(tier: 'quick'|'thorough', seed: int) -> dict  built
with `Recorder`.  It enumerates a *stated finite scope* of cases against the
real code (imported from /repo's working tree), evaluates an oracle taken from
the property statement, and records every failing case under a stable
`case_id` that names the operation and the input class (not the raw input), so
that known findings can be listed precisely and any other failure is reported.

    def drv_slices(tier, seed):
      rec = Recorder('C02', 'list slices vs python list', scope='len<=4, start/stop/step in [-6,6]+None')
      for ...:
        rec.case(case_id='list.getitem-slice/step<0' , key=(n, s, e, st),
                 ok=(got == want), message=f'{got!r} != {want!r}',
                 witness=f'pg.List({data!r})[{s}:{e}:{st}]', nontrivial=True)
      return rec.result()

    DRIVERS = [drv_slices]

`witness` must be a runnable Python expression/snippet (with `import pyglove as
pg`) that shows the failure on the real code.  Only the first failing witness of
each case_id is kept (count is kept for all).
"""
import json
import random
import time
import traceback


class Recorder:
  def __init__(self, prop, title, scope):
    self.prop = prop
    self.title = title
    self.scope = scope
    self.cases = 0
    self.keys = set()
    self.fail = {}
    self.samples = []
    self.t0 = time.time()

  def case(self, case_id, key, ok, message='', witness='', nontrivial=True):
    self.cases += 1
    if nontrivial:
      try:
        self.keys.add((case_id, repr(key)))
      except Exception:  # pylint: disable=broad-except
        self.keys.add((case_id, self.cases))
    if len(self.samples) < 4 and nontrivial and ok:
      self.samples.append(dict(bounded_case=case_id, input=repr(key)[:200], verdict='held'))
    if not ok:
      f = self.fail.get(case_id)
      if f is None:
        self.fail[case_id] = dict(case_id=case_id, message=str(message)[:600],
                                  witness=str(witness)[:1200], count=1,
                                  input=repr(key)[:400])
      else:
        f['count'] += 1
    return ok

  def guard(self, case_id, key, fn, witness=''):
    """Runs fn(); an unexpected exception is a failure of the case."""
    try:
      r = fn()
    except Exception as e:  # pylint: disable=broad-except
      return self.case(case_id, key, False,
                       f'unexpected {type(e).__name__}: {e}', witness)
    return r

  def result(self):
    return dict(title=self.title, scope=self.scope, cases=self.cases,
                distinct_nontrivial=len(self.keys),
                failures=list(self.fail.values()), samples=self.samples)


def rng(seed, salt=''):
  return random.Random(f'{seed}/{salt}')


def outcome(fn, *a, **k):
  """('ok', value) or ('exc', ExceptionClass) -- for differential oracles."""
  try:
    return ('ok', fn(*a, **k))
  except Exception as e:  # pylint: disable=broad-except
    return ('exc', type(e))
