"""Helpers usable inside spec functions and contract clauses.

Each helper has a native definition (used by replay / run-time monitors) and is
intercepted by the symbolic interpreter (by identity) to build SMT terms.
"""


def implies(a, b):
  return (not a) or b


def iff(a, b):
  return bool(a) == bool(b)


def ite(c, a, b):
  return a if c else b


def forall_range(lo, hi, f):
  """forall j. lo <= j < hi  =>  f(j)."""
  return all(f(j) for j in range(lo, hi))


def exists_range(lo, hi, f):
  return any(f(j) for j in range(lo, hi))


def forall_int(f, witnesses=range(-8, 9)):
  """forall j:int. f(j) -- natively only sampled over `witnesses`."""
  return all(f(j) for j in witnesses)


def is_none(x):
  return x is None


SPEC_HELPERS = (implies, iff, ite, forall_range, exists_range, forall_int,
                is_none)
