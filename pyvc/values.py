"""Symbolic values of the pyvc interpreter.

Every value the interpreter manipulates is either a plain (concrete) Python
object or one of the wrappers below.  Wrappers carry z3 terms; the interpreter
never lets Python's own truthiness/`and`/`or` see them.
"""
import itertools
import z3

_counter = itertools.count()


def fresh_name(prefix):
  return f'{prefix}!{next(_counter)}'


def reset_names():
  global _counter
  _counter = itertools.count()


class SV:
  """Base of all symbolic wrappers."""
  __slots__ = ()


class SInt(SV):
  __slots__ = ('z',)

  def __init__(self, z):
    self.z = z

  def __repr__(self):
    return f'SInt({self.z})'


class SOptInt(SV):
  """An `Optional[int]`-like value without forking: the integer `z` is
  meaningful iff `present`; otherwise the value is None (or, for `kind` =
  'non-int', some non-integer object)."""
  __slots__ = ('z', 'present')

  def __init__(self, z, present):
    self.z = z
    self.present = present

  def __repr__(self):
    return f'SOptInt({self.z} if {self.present})'


class SReal(SV):
  """A float treated as a real (A-FLOAT: no NaN, no rounding)."""
  __slots__ = ('z',)

  def __init__(self, z):
    self.z = z

  def __repr__(self):
    return f'SReal({self.z})'


class SBool(SV):
  __slots__ = ('z',)

  def __init__(self, z):
    self.z = z

  def __repr__(self):
    return f'SBool({self.z})'


class SStr(SV):
  __slots__ = ('z',)

  def __init__(self, z):
    self.z = z

  def __repr__(self):
    return f'SStr({self.z})'


class SBits(SV):
  """A flag set (enum.Flag-like) of fixed width, as a bit-vector."""
  __slots__ = ('z', 'cls')

  def __init__(self, z, cls=None):
    self.z = z
    self.cls = cls

  def __repr__(self):
    return f'SBits({self.z})'


class SAny(SV):
  """An opaque value: nothing is known about it.

  `tag` is only a debugging label.  `label` is a taint/flow label used by the
  flow obligations (C20); `uid` gives consistent answers for repeated identity
  and truthiness questions on the same opaque value within one path.
  """
  __slots__ = ('tag', 'label', 'uid', 'memo')

  def __init__(self, tag='?', label=None):
    self.tag = tag
    self.label = label
    self.uid = next(_counter)
    self.memo = {}

  def __repr__(self):
    return f'SAny({self.tag}#{self.uid})'


class SChoice(SV):
  """A value that is one of several alternatives; resolved lazily by forking."""
  __slots__ = ('alts', 'name', 'resolved')

  def __init__(self, name, alts):
    self.name = name
    self.alts = list(alts)
    self.resolved = None


class SSeq(SV):
  """A symbolic sequence: (Array Int -> elem sort, length).

  `wrap(z)` lifts an element term to an interpreter value, `unwrap(v)` lowers an
  interpreter value to a term of the element sort (or raises Unsupported).
  `kind` is 'list' or 'tuple'.
  """
  __slots__ = ('arr', 'len', 'wrap', 'unwrap', 'kind', 'sort', 'frozen')

  def __init__(self, arr, length, wrap, unwrap, kind='list', sort=None):
    self.arr = arr
    self.len = length
    self.wrap = wrap
    self.unwrap = unwrap
    self.kind = kind
    self.sort = sort if sort is not None else arr.sort().range()
    self.frozen = False

  def copy(self):
    s = SSeq(self.arr, self.len, self.wrap, self.unwrap, self.kind, self.sort)
    return s

  def __repr__(self):
    return f'SSeq(len={self.len})'


class PList(list):
  """A Python list created by interpreted code.  It starts concrete; when it
  has to absorb a symbolic-length sequence it is *promoted*: `sym` then holds
  the SSeq that carries its content from then on (identity and aliasing are
  preserved because every reader resolves the PList to that one SSeq)."""
  __slots__ = ('sym',)

  def __init__(self, *a):
    super().__init__(*a)
    self.sym = None


class SObj(SV):
  """A heap object of a real class with symbolic fields.

  `cls` is the live class from the repository (attribute lookup for methods,
  properties and class constants goes through it); `fields` holds instance
  attributes.  `lazy(name)` may create a field on first read.
  """
  __slots__ = ('cls', 'fields', 'lazy', 'name', 'uid', 'ghost')

  def __init__(self, cls, fields=None, lazy=None, name=None):
    self.cls = cls
    self.fields = dict(fields or {})
    self.lazy = lazy
    self.name = name or fresh_name(cls.__name__ if cls else 'obj')
    self.uid = next(_counter)
    self.ghost = {}

  def __repr__(self):
    return f'SObj({self.cls.__name__ if self.cls else None}:{self.name})'


class SDict(SV):
  """A dict with concrete string/int keys and symbolic values, plus an
  optional opaque remainder (`open_`)."""
  __slots__ = ('items', 'open_', 'nonempty', 'memo')

  def __init__(self, items=None, open_=False, nonempty=None):
    self.items = dict(items or {})
    self.open_ = open_
    self.memo = {}               # key -> z3 Bool: key is in the unknown remainder
    self.nonempty = nonempty     # z3 Bool / bool: the unknown remainder is non-empty


class Closure:
  """A function defined in interpreted code (nested def / lambda) or a spec
  function handed to the interpreter."""
  __slots__ = ('node', 'frame', 'name', 'pyfunc', 'defaults', 'kwdefaults',
               'spec_mode')

  def __init__(self, node, frame, name, pyfunc=None, defaults=(),
               kwdefaults=None, spec_mode=False):
    self.node = node
    self.frame = frame
    self.name = name
    self.pyfunc = pyfunc
    self.defaults = defaults
    self.kwdefaults = kwdefaults or {}
    self.spec_mode = spec_mode


class BoundMethod:
  __slots__ = ('self_', 'func', 'cls')

  def __init__(self, self_, func, cls=None):
    self.self_ = self_
    self.func = func
    self.cls = cls   # class in whose dict func was found

  def __repr__(self):
    return f'BoundMethod({self.self_!r}, {getattr(self.func, "__qualname__", self.func)})'


class SuperProxy:
  __slots__ = ('obj', 'after')

  def __init__(self, obj, after):
    self.obj = obj
    self.after = after


class ExcVal:
  """An exception instance created by interpreted code."""
  __slots__ = ('cls', 'args', 'attrs', 'cause')

  def __init__(self, cls, args=(), cause=None):
    self.cls = cls
    self.args = args
    self.attrs = {}
    self.cause = cause

  def __repr__(self):
    return f'ExcVal({self.cls.__name__})'


def is_symbolic(v):
  return isinstance(v, SV)


def to_z3_bool(v):
  if isinstance(v, SBool):
    return v.z
  if isinstance(v, bool):
    return z3.BoolVal(v)
  raise TypeError(f'not a boolean value: {v!r}')


def lift(z):
  """Wraps a z3 term by its sort."""
  s = z.sort()
  if s == z3.IntSort():
    return SInt(z)
  if s == z3.BoolSort():
    return SBool(z)
  if s == z3.RealSort():
    return SReal(z)
  if s == z3.StringSort():
    return SStr(z)
  if isinstance(s, z3.BitVecSortRef):
    return SBits(z)
  raise TypeError(f'cannot lift sort {s}')


def simplify_concrete(v):
  """If a wrapper holds a literal, return the plain Python value."""
  if isinstance(v, SInt):
    z = z3.simplify(v.z)
    if z3.is_int_value(z):
      return z.as_long()
    return SInt(z)
  if isinstance(v, SBool):
    z = z3.simplify(v.z)
    if z3.is_true(z):
      return True
    if z3.is_false(z):
      return False
    return SBool(z)
  return v
