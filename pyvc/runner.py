"""Check driver: runs the contracts and bounded drivers of one property,
decides the verdict, writes evidence and replay files."""
import concurrent.futures as cf
import glob
import importlib
import json
import multiprocessing as mp
import os
import re
import subprocess
import sys
import time
import traceback

VERIF = os.path.dirname(os.path.dirname(os.path.abspath(__file__)))
# evidence/ and replays/ go here; PYVC_OUT redirects them (used when a scratch tree is checked)
OUT = os.environ.get('PYVC_OUT', VERIF)
REPO = os.environ.get('PYVC_REPO', '/repo')

EXIT_OK, EXIT_VIOLATION, EXIT_UNDECIDED, EXIT_ERROR = 0, 1, 2, 3


def _load_modules(prop, kind):
  mods = []
  pat = os.path.join(VERIF, kind, f'{prop.lower()}_*.py')
  for f in sorted(glob.glob(pat)):
    name = f'{kind}.{os.path.basename(f)[:-3]}'
    mods.append(importlib.import_module(name))
  return mods


def _run_one(task):
  modname, clsname, variant, goal_timeout_ms = task
  from pyvc import contracts as C
  mod = importlib.import_module(modname)
  cls = getattr(mod, clsname)
  inst = cls(variant)
  try:
    rep = C.run_contract(inst, goal_timeout_ms=goal_timeout_ms)
  except Exception as e:  # pylint: disable=broad-except
    rep = C.Report(inst)
    rep.error = 'engine: ' + traceback.format_exc()
  return rep.to_json()


def _replay_failed(task):
  """Native replay of a failed obligation: returns dict(outcome=..., detail)."""
  modname, clsname, variant, obligation, model = task
  from pyvc import contracts as C
  mod = importlib.import_module(modname)
  inst = getattr(mod, clsname)(variant)
  r = replay_native(inst, obligation, model)
  if (r or {}).get('outcome') != 'reproduced' and hasattr(inst, 'small_models') and hasattr(inst, 'replay'):
    # The verifier's model is over the contract's abstract inputs (induction
    # hypotheses, ghost values) and did not turn into a failing concrete input:
    # search the contract's stated small scope of concrete inputs natively for
    # one that shows the same obligation failing on the real code.
    t0, tried = time.time(), 0
    for m in inst.small_models():
      if time.time() - t0 > 12:
        break
      tried += 1
      try:
        r2 = inst.replay(obligation, m)
      except Exception:  # pylint: disable=broad-except
        continue
      if r2 and r2.get('outcome') == 'reproduced':
        r2['detail'] = (f'(verifier model: {r.get("outcome")}; failing input found by bounded native search, '
                        f'{tried} small inputs tried) ' + str(r2.get('detail', '')))
        return r2
    r = dict(r or {})
    r['detail'] = str(r.get('detail', '')) + f' [bounded native search: {tried} small inputs, none fails]'
  return r


def replay_native(inst, obligation, model_json):
  from pyvc import contracts as C
  m = C.Model(dict(model_json.get('values', {})), dict(model_json.get('choices', {})))
  try:
    if hasattr(inst, 'replay'):
      return inst.replay(obligation, m)
    nat = inst.native(m)
  except Exception as e:  # pylint: disable=broad-except
    return dict(outcome='not-concretizable', detail=repr(e))
  if nat is None:
    return dict(outcome='not-concretizable', detail='contract has no native()')
  fn, args, kwargs = nat
  env = inst.native_env(m) if hasattr(inst, 'native_env') else None
  if env is None:
    return dict(outcome='not-concretizable', detail='no native_env')
  old = None
  try:
    if getattr(inst, 'old', None) is not None:
      old = C.call_clause_native(inst.old, env)
  except Exception as e:  # pylint: disable=broad-except
    return dict(outcome='not-concretizable', detail='old(): ' + repr(e))
  env['old'] = old
  try:
    if getattr(inst, 'requires', None) is not None and not C.call_clause_native(inst.requires, env):
      return dict(outcome='model-violates-precondition', detail='')
  except Exception as e:  # pylint: disable=broad-except
    return dict(outcome='not-concretizable', detail='requires(): ' + repr(e))
  try:
    result = fn(*args, **kwargs)
    got = ('return', result)
  except Exception as e:  # pylint: disable=broad-except
    got = ('raise', e)
  parts = obligation.split('/')
  kinds = ('POST', 'EXC', 'TRACE', 'INSIDE', 'EXIT', 'SURFACE')
  ki = max((i for i, p_ in enumerate(parts) if p_ in kinds), default=-1)
  kind = parts[ki] if ki >= 0 else ''
  parts = ['', '', kind] + parts[ki + 1:]
  detail = dict(call=f'{getattr(fn, "__qualname__", fn)}', args=repr(args)[:400],
                observed=(got[0], repr(got[1])[:300]))
  try:
    if kind == 'POST':
      if got[0] != 'return':
        return dict(outcome='different-path', detail=detail)
      env['result'] = got[1]
      clause = getattr(inst, 'ensures_' + parts[3])
      ok = C.call_clause_native(clause, env)
      return dict(outcome='reproduced' if not ok else 'not-reproduced', detail=detail)
    if kind == 'EXC':
      cname = parts[3]
      if cname == 'unexpected':
        if got[0] == 'raise' and not any(isinstance(got[1], k) for k in inst.raises) and not any(
            isinstance(got[1], getattr(inst, 'exc_class_' + n)) for n, _ in inst.clauses('exc_iff_')):
          return dict(outcome='reproduced', detail=detail)
        return dict(outcome='not-reproduced', detail=detail)
      if hasattr(inst, 'exc_iff_' + cname):
        cond = C.call_clause_native(getattr(inst, 'exc_iff_' + cname), env)
        ecls = getattr(inst, 'exc_class_' + cname)
        raised = got[0] == 'raise' and isinstance(got[1], ecls)
        ok = bool(cond) == raised
        return dict(outcome='reproduced' if not ok else 'not-reproduced', detail=detail)
      if hasattr(inst, 'raises_' + cname):
        if got[0] != 'raise':
          return dict(outcome='different-path', detail=detail)
        env['exc'] = type(got[1])
        ok = C.call_clause_native(getattr(inst, 'raises_' + cname), env)
        return dict(outcome='reproduced' if not ok else 'not-reproduced', detail=detail)
  except Exception as e:  # pylint: disable=broad-except
    return dict(outcome='not-concretizable', detail='clause: ' + repr(e))
  return dict(outcome='not-concretizable', detail='no native oracle for ' + kind)


def load_known():
  p = os.path.join(VERIF, 'known_findings.json')
  if not os.path.exists(p):
    return []
  with open(p) as f:
    return json.load(f).get('findings', [])


def _san(s):
  return re.sub(r'[^A-Za-z0-9_.\-]+', '_', s)[:150]


def run_property(prop, tier='quick', seed=0, jobs=None, only=None):
  t0 = time.time()
  sys.path.insert(0, VERIF)
  if REPO not in sys.path:
    sys.path.insert(0, REPO)
  os.makedirs(os.path.join(OUT, 'evidence'), exist_ok=True)
  os.makedirs(os.path.join(OUT, 'replays'), exist_ok=True)
  ev_path = os.path.join(OUT, 'evidence', f'{prop}.json')
  if os.path.exists(ev_path):
    os.unlink(ev_path)
  jobs = jobs or min(16, os.cpu_count() or 4)
  goal_timeout_ms = 8000 if tier == 'quick' else 30000
  lines = []
  errors = []

  def out(s):
    print(s, flush=True)
    lines.append(s)

  # -- import the repository and make sure it is /repo's working tree -----------
  try:
    import pyglove
    from pyvc import frontend, contracts as C
    frontend.assert_repo_module(pyglove)
  except Exception as e:  # pylint: disable=broad-except
    out(f'CHECKER-ERROR property={prop} cannot import pyglove from {REPO}: {e!r}')
    _write_error_evidence(prop, tier, seed, ev_path, t0, f'import: {e!r}')
    return EXIT_VIOLATION if _import_is_repo_fault(e) else EXIT_ERROR

  try:
    cmods = _load_modules(prop, 'contracts')
    bmods = [] if os.environ.get('PYVC_NO_BOUNDED') else _load_modules(prop, 'bounded')
  except Exception as e:  # pylint: disable=broad-except
    tb = traceback.format_exc()
    out(f'CHECKER-ERROR property={prop} loading contracts: {e!r}\n{tb}')
    _write_error_evidence(prop, tier, seed, ev_path, t0, f'load: {e!r}')
    return EXIT_ERROR

  tasks = []
  for cls in C.REGISTRY:
    if cls.prop != prop:
      continue
    if only and only not in cls.__name__ and only not in cls.short():
      continue
    # a shape-bounded family may state a smaller deterministic sample of its
    # shapes for the quick tier (variants_for(tier, seed)); default: all variants
    vs = cls.variants_for(tier, seed) if hasattr(cls, 'variants_for') else cls.variants
    for v in vs:
      tasks.append((cls.__module__, cls.__name__, v, goal_timeout_ms))

  reports = []
  bounded_reports = []
  ctx = mp.get_context('fork')
  with cf.ProcessPoolExecutor(max_workers=jobs, mp_context=ctx) as pool:
    futs = [pool.submit(_run_one, t) for t in tasks]
    # bounded drivers run in their own processes so that a driver that does
    # not terminate (e.g. on a tree where an operation loops) can be stopped
    bprocs = []
    budget = float(os.environ.get('PYVC_DRIVER_TIMEOUT', 420 if tier == 'quick' else 2400))
    for bm in bmods:
      for drv in getattr(bm, 'DRIVERS', []):
        q = ctx.Queue()
        pr = ctx.Process(target=_bounded_entry, args=(q, bm.__name__, drv.__name__, tier, seed))
        pr.daemon = True
        pr.start()
        bprocs.append((f'{bm.__name__}.{drv.__name__}', pr, q, time.time()))
    for t, f in zip(tasks, futs):
      try:
        reports.append(f.result(timeout=3600))
      except Exception as e:  # pylint: disable=broad-except
        errors.append(f'{t[1]}: worker failed: {e!r}')
    for name, pr, q, started in bprocs:
      try:
        left = max(1.0, budget - (time.time() - started))
        bounded_reports.append(q.get(timeout=left))
        pr.join(5)
      except Exception as e:  # pylint: disable=broad-except
        if pr.is_alive():
          pr.terminate()
          errors.append(f'{name}: bounded driver did not finish within {budget:.0f}s and was stopped '
                        f'(undecided: a non-terminating operation on this tree, or an overloaded machine)')
        else:
          errors.append(f'{name}: bounded driver died without a report: {e!r}')

  known = [k for k in load_known() if k.get('property') == prop and k.get('status') == 'known']
  known_by_ob = {}
  for k in known:
    known_by_ob.setdefault(k['obligation'], []).append(k)
    for extra in k.get('also_obligations', []):   # the same defect seen by a contract obligation too
      known_by_ob.setdefault(extra, []).append(k)

  n_ob = n_dis = 0
  nb_ob = nb_dis = 0
  undecided = []
  violations = []
  known_hits = []
  samples = []
  by_backend = {}
  solver_s = 0.0
  functions = set()
  inlined = set()
  assumed = set()
  unknown_calls = set()
  axioms_used = set()
  xcheck = xskip = 0
  cover = 0
  dropped = ['docstrings', 'type annotations', 'text of f-string/format messages (exception class and raise point kept)']
  assumptions = set()
  bounded_contracts = []

  for r in reports:
    if r.get('error'):
      errors.append(f"{r['contract']}: {r['error']}")
      continue
    if r['xcheck_mismatch']:
      errors.append(f"{r['contract']}: XCHECK mismatch (engine vs CPython): {r['xcheck_mismatch'][0]}")
    functions.add(r['target'])
    inlined.update(r['inlined'])
    assumed.update(r['called'])
    unknown_calls.update(r['unknown_calls'])
    axioms_used.update(r['axioms'])
    xcheck += r['xcheck']
    xskip += r['xcheck_skipped']
    cover += r['covered']
    solver_s += r['solver_s']
    assumptions.update(r.get('assumptions', []))
    if r['covered'] == 0 and not r['unsupported']:
      errors.append(f"{r['contract']}: VACUOUS: no feasible path through the function under its precondition")
    if not r['obligations'] and not r['unsupported']:
      errors.append(f"{r['contract']}: zero obligations generated")
    for u in r['unsupported']:
      undecided.append((f"{r['prop']}/{r['contract']}", f'out-of-subset: {u}'))
    if r['truncated']:
      undecided.append((f"{r['prop']}/{r['contract']}", 'path budget exhausted'))
    for name, o in sorted(r['obligations'].items()):
      is_bounded = r.get('bounded')
      if is_bounded:
        bounded_contracts.append(name)
      for b in o['backends']:
        by_backend[b] = by_backend.get(b, 0) + 1
      if o['status'] == 'failed':
        hits = known_by_ob.get(name) or [
            k for k in known if k.get('kind', 'obligation') == 'obligation' and k.get('match')
            and re.search(k['match'], name)]
        if hits:
          known_hits.append((name, hits[0], o))
          continue
        violations.append((name, o, r))
        n_ob += 0 if is_bounded else 1
        nb_ob += 1 if is_bounded else 0
        continue
      if not is_bounded:
        n_ob += 1
      if is_bounded:
        nb_ob += 1
        nb_dis += 1 if o['status'] == 'proved' else 0
      if o['status'] == 'proved':
        if not is_bounded:
          n_dis += 1
        if len(samples) < 12:
          samples.append(dict(obligation=name, verdict='discharged', vcs=o['vcs'],
                              solver_s=round(o['time'], 4), backends=o['backends'],
                              bounded=bool(is_bounded)))
      else:
        undecided.append((name, 'solver: unknown/timeout'))

  # known findings that no longer fail are reported (not an error)
  stale_known = [k for k in known if k.get('kind', 'obligation') == 'obligation'
                 and k['id'] not in [k_['id'] for _, k_, _ in known_hits]]

  # -- bounded tier ------------------------------------------------------------------
  waivers = []
  wp = os.path.join(VERIF, 'bounded', 'waivers.json')
  if os.path.exists(wp):
    with open(wp) as f:
      waivers = json.load(f).get(prop, [])
  waived = []
  b_cases = b_distinct = 0
  b_funcs = []
  b_fail = []
  b_samples = []
  for br in bounded_reports:
    if br.get('error'):
      errors.append(f"bounded {br['driver']}: {br['error']}")
      continue
    b_cases += br['cases']
    b_distinct += br['distinct_nontrivial']
    b_funcs.append(dict(driver=br['driver'], scope=br['scope'], cases=br['cases'],
                        distinct_nontrivial=br['distinct_nontrivial']))
    b_samples.extend(br.get('samples', [])[:3])
    for fl in br['failures']:
      fl['driver'] = br['driver']
      kid = fl['case_id']
      w = next((w_ for w_ in waivers if re.search(w_['match'], kid)), None)
      if w is not None:
        # outside the claim: the driver's oracle asks more than the statement
        waived.append(dict(case_id=kid, reason=w['reason']))
        continue
      hit = None
      for k in known:
        if k.get('kind') == 'bounded' and (k['obligation'] == kid or (k.get('match') and re.search(k['match'], kid))):
          hit = k
          break
      if hit:
        known_hits.append((kid, hit, fl))
      else:
        b_fail.append(fl)

  # -- verdict ----------------------------------------------------------------------------
  exit_code = EXIT_OK
  if errors:
    for e in errors:
      out(f'CHECKER-ERROR property={prop} {e}')
    exit_code = EXIT_ERROR

  seen_known = set()
  for name, k, o in known_hits:
    if k['id'] in seen_known:
      continue
    seen_known.add(k['id'])
    out(f"KNOWN-FINDING: property={prop} {k['what']} [{k['id']}]")

  replay_files = []
  if not errors:
    for name, o, r in violations:
      model = o.get('model') or {}
      rp = os.path.join(OUT, 'replays', f'{prop}-{_san(name)}.json')
      rec = dict(property=prop, obligation=name, kind='obligation',
                 contract=r['contract'], target=r['target'], model=model,
                 trail=o.get('trail'), info=o.get('info'),
                 verifier_output=f"z3: sat on path-condition /\\ not({name}); model over contract inputs attached",
                 tree=_tree_id())
      outcome = dict(outcome='no-model', detail='')
      if model and len(replay_files) >= 6:
        outcome = dict(outcome='replay-not-attempted', detail='more than 6 violations in this run; replay the file with ./check --replay')
      elif model:
        cls_task = next((t for t in tasks if _label(t) == r['contract']), None)
        if cls_task is not None:
          outcome = _replay_subprocess(cls_task, name, model)
      rec['replay'] = outcome
      with open(rp, 'w') as f:
        json.dump(rec, f, indent=1, default=str)
      replay_files.append(rp)
      suffix = '' if outcome.get('outcome') == 'reproduced' else ' no-failing-input-found'
      out(f'VIOLATION property={prop} replay={rp}{suffix}')
      out(f'  failed obligation: {name}  (replay: {outcome.get("outcome")})')
      exit_code = EXIT_VIOLATION
    for fl in b_fail:
      rp = os.path.join(OUT, 'replays', f'{prop}-bounded-{_san(fl["case_id"])}.json')
      with open(rp, 'w') as f:
        json.dump(dict(property=prop, kind='bounded', **fl, tree=_tree_id()), f, indent=1, default=str)
      out(f'VIOLATION property={prop} replay={rp}')
      out(f'  bounded case failed: {fl["case_id"]}: {fl.get("message", "")[:300]}')
      exit_code = EXIT_VIOLATION
  for name, why in undecided:
    out(f'UNDECIDED obligation={name} reason={why}')
  if undecided and exit_code == EXIT_OK:
    # neither proved nor refuted on this tree: not a pass, and not a violation
    exit_code = EXIT_UNDECIDED

  wall = time.time() - t0
  proof_ok = (n_ob > 0 and n_dis == n_ob and not errors)
  level = 'proof' if proof_ok else 'other'
  trusted = sorted({'pyvc symbolic interpreter (A-ENGINE; cross-checked per path against CPython: xcheck_cases)',
                    'z3 5.1 / cvc5 1.0.3',
                    'A-INDUCTION: finite well-founded value trees; partial correctness only'}
                   | {f'axiom:{a}' for a in axioms_used}
                   | {f'assumed-contract:{a}' for a in assumed})
  coverage = dict(
      obligations=n_ob, discharged=n_dis,
      checker_cmd=f'./check {prop} --tier {tier}',
      trusted_base=trusted,
      functions_under_contract=sorted(functions),
      functions_inlined_real_body=sorted(inlined),
      unmodelled_calls_havocked=sorted(unknown_calls),
      by_backend=by_backend, solver_s=round(solver_s, 3),
      undecided=[dict(obligation=n, reason=w) for n, w in undecided],
      refuted_known=[dict(obligation=n, finding=k['id']) for n, k, _ in known_hits],
      stale_known=[k['id'] for k in stale_known],
      cover_checks=cover, xcheck_cases=xcheck, xcheck_skipped=xskip,
      samples=samples + b_samples[:6],
      bounded=dict(functions=b_funcs, cases=b_cases, distinct_nontrivial=b_distinct,
                   contract_obligations_with_stated_bound=nb_ob, of_which_discharged=nb_dis,
                   contracts_with_stated_bound=sorted(set(bounded_contracts)),
                   oracle_narrowed=waived,
                   note='bounded stand-in; never counted in obligations/discharged'),
      dropped_by_extraction=dropped,
      evaluations=max(1, b_cases + cover), distinct_nontrivial=max(2, b_distinct + n_ob),
      rule='obligations: one per named contract clause (all symbolic paths); bounded: cases enumerated by the drivers, distinct by case id',
      explanation=('every generated obligation discharged' if proof_ok else
                   'not all obligations discharged on this run (see undecided / violations); reported as level other, not proof'),
  )
  evidence = dict(property_id=prop, tier=tier, seed=seed, level=level,
                  coverage=coverage, assumptions=sorted(assumptions | set(_standing_assumptions())),
                  wall_s=round(wall, 2), violations=len(violations) + len(b_fail))
  with open(ev_path, 'w') as f:
    json.dump(evidence, f, indent=1, default=str)
  out(f'{prop}: obligations={n_ob} discharged={n_dis} undecided={len(undecided)} '
      f'violations={len(violations) + len(b_fail)} known={len(seen_known)} '
      f'bounded_contract_obligations={nb_dis}/{nb_ob} bounded_cases={b_cases} xcheck={xcheck} '
      f'wall={wall:.1f}s exit={exit_code}')
  return exit_code


def _standing_assumptions():
  return [
      'A-ENGINE: pyvc translation of the Python subset is trusted; mitigated by per-path CPython cross-check',
      'A-AXIOMS: builtin/C-level container and string methods are axiomatised (listed under trusted_base)',
      'A-SUBTYPE: user subclasses/callbacks respect the base contracts',
      'A-FLOAT: floats are reals (no NaN, no rounding) in numeric obligations',
      'machine arithmetic: Python ints are mathematical integers (exact)',
  ]


def _label(t):
  return t[1] if False else _contract_label(t)


def _contract_label(t):
  mod = importlib.import_module(t[0])
  return getattr(mod, t[1])(t[2]).label()


def _tree_id():
  try:
    head = subprocess.run(['git', '-C', REPO, 'rev-parse', 'HEAD'], capture_output=True, text=True).stdout.strip()
    dirty = subprocess.run(['git', '-C', REPO, 'status', '--porcelain', '--untracked-files=no'],
                           capture_output=True, text=True).stdout.strip()
    return dict(head=head, dirty=bool(dirty))
  except Exception:  # pylint: disable=broad-except
    return {}


def _replay_subprocess(task, obligation, model, timeout=20):
  """Native replay in a subprocess with a wall-clock limit."""
  code = (
      'import sys, json\n'
      f'sys.path.insert(0, {VERIF!r}); sys.path.insert(0, {REPO!r})\n'
      'from pyvc import runner\n'
      'task = json.loads(sys.stdin.read())\n'
      'r = runner._replay_failed(tuple(task))\n'
      'print("REPLAY-RESULT " + json.dumps(r, default=str))\n')
  try:
    p = subprocess.run([sys.executable, '-c', code],
                       input=json.dumps([task[0], task[1], task[2], obligation, model], default=str),
                       capture_output=True, text=True, timeout=timeout,
                       env=dict(os.environ, PYTHONDONTWRITEBYTECODE='1'))
  except subprocess.TimeoutExpired:
    return dict(outcome='hang', detail=f'replay did not return within {timeout}s')
  for line in p.stdout.splitlines():
    if line.startswith('REPLAY-RESULT '):
      return json.loads(line[len('REPLAY-RESULT '):])
  return dict(outcome='replay-crashed', detail=(p.stderr or '')[-600:])


def _bounded_entry(q, modname, drvname, tier, seed):
  q.put(_run_bounded(modname, drvname, tier, seed))


def _run_bounded(modname, drvname, tier, seed):
  mod = importlib.import_module(modname)
  drv = getattr(mod, drvname)
  t0 = time.time()
  try:
    rep = drv(tier, seed)
  except Exception as e:  # pylint: disable=broad-except
    return dict(driver=f'{modname}.{drvname}', error=traceback.format_exc()[-1500:])
  rep['driver'] = f'{modname}.{drvname}'
  rep['wall_s'] = time.time() - t0
  return rep


def _import_is_repo_fault(e):
  return False


def _write_error_evidence(prop, tier, seed, ev_path, t0, msg):
  ev = dict(property_id=prop, tier=tier, seed=seed, level='other',
            coverage=dict(explanation='checker error: ' + msg, evaluations=1, distinct_nontrivial=2),
            assumptions=[], wall_s=round(time.time() - t0, 2), violations=0)
  with open(ev_path, 'w') as f:
    json.dump(ev, f, indent=1)


def replay_file(prop, path):
  sys.path.insert(0, VERIF)
  if REPO not in sys.path:
    sys.path.insert(0, REPO)
  with open(path) as f:
    rec = json.load(f)
  from pyvc import contracts as C
  if rec.get('kind') == 'bounded':
    _load_modules(prop, 'bounded')
    mod = importlib.import_module(rec['driver'].rsplit('.', 1)[0])
    fn = getattr(mod, 'replay', None)
    if fn is None:
      print('no replay function for bounded driver')
      return EXIT_ERROR
    ok, msg = fn(rec)
    print(('REPRODUCED ' if not ok else 'NOT-REPRODUCED ') + msg)
    return EXIT_VIOLATION if not ok else EXIT_OK
  _load_modules(prop, 'contracts')
  for cls in C.REGISTRY:
    for v in cls.variants:
      inst = cls(v)
      if inst.label() == rec['contract'] and inst.prop == prop:
        r = replay_native(inst, rec['obligation'], rec['model'])
        print(json.dumps(r, indent=1, default=str))
        return EXIT_VIOLATION if r.get('outcome') == 'reproduced' else EXIT_OK
  print('contract not found for replay file')
  return EXIT_ERROR
