"""Front end: from a live function object of the repository to the AST of its
body as it stands in /repo's working tree, with a code-correspondence check.

The check recompiles the module source read from disk and compares the code
object of the function (bytecode, constants, names) with `func.__code__` of the
imported function, so the verified text is demonstrably the code that runs.
"""
import ast
import functools
import importlib
import inspect
import os
import sys
import types

REPO = os.environ.get('PYVC_REPO', '/repo')


class CorrespondenceError(Exception):
  pass


class FuncInfo:
  __slots__ = ('pyfunc', 'node', 'module', 'qualname', 'cls', 'filename',
               'source_lines', 'decorators')

  def __init__(self, pyfunc, node, module, qualname, cls, filename):
    self.pyfunc = pyfunc
    self.node = node
    self.module = module
    self.qualname = qualname
    self.cls = cls
    self.filename = filename

  @property
  def key(self):
    return f'{self.module}:{self.qualname}'

  def __repr__(self):
    return f'FuncInfo({self.key})'


@functools.lru_cache(maxsize=None)
def _module_source(filename):
  with open(filename, 'r', encoding='utf-8') as f:
    src = f.read()
  tree = ast.parse(src, filename)
  code = compile(src, filename, 'exec', dont_inherit=True)
  return src, tree, code


def _find_node(tree, qualname):
  parts = qualname.split('.')
  scope = tree.body
  node = None
  for part in parts:
    if part == '<locals>':
      continue
    found = None
    for n in _iter_defs(scope):
      if isinstance(n, (ast.FunctionDef, ast.AsyncFunctionDef, ast.ClassDef)) \
          and n.name == part:
        found = n   # last definition wins (as at run time)
    if found is None:
      return None
    node = found
    scope = found.body
  return node


def _iter_defs(stmts):
  """Definitions reachable at this scope level (through if/try at top)."""
  for n in stmts:
    if isinstance(n, (ast.FunctionDef, ast.AsyncFunctionDef, ast.ClassDef)):
      yield n
    elif isinstance(n, (ast.If,)):
      yield from _iter_defs(n.body)
      yield from _iter_defs(n.orelse)
    elif isinstance(n, ast.Try):
      yield from _iter_defs(n.body)
      for h in n.handlers:
        yield from _iter_defs(h.body)
      yield from _iter_defs(n.orelse)
      yield from _iter_defs(n.finalbody)
    elif isinstance(n, ast.With):
      yield from _iter_defs(n.body)


def _find_code(code, qualname, firstlineno):
  stack = [code]
  while stack:
    c = stack.pop()
    for k in c.co_consts:
      if isinstance(k, types.CodeType):
        if k.co_qualname == qualname and k.co_firstlineno == firstlineno:
          return k
        stack.append(k)
  return None


def _code_sig(c):
  consts = []
  for k in c.co_consts:
    if isinstance(k, types.CodeType):
      consts.append(('code', k.co_qualname, _code_sig(k)))
    else:
      consts.append(repr(k))
  return (c.co_code, tuple(consts), c.co_names, c.co_varnames, c.co_freevars,
          c.co_cellvars, c.co_argcount, c.co_kwonlyargcount, c.co_flags)


def unwrap(obj):
  """Strips property / classmethod / staticmethod / functools.wraps layers."""
  seen = 0
  while seen < 10:
    seen += 1
    if isinstance(obj, property):
      obj = obj.fget
    elif isinstance(obj, (classmethod, staticmethod)):
      obj = obj.__func__
    elif isinstance(obj, functools.cached_property):
      obj = obj.func
    elif isinstance(obj, types.MethodType):
      obj = obj.__func__
    elif hasattr(obj, '__wrapped__') and isinstance(
        getattr(obj, '__wrapped__'), types.FunctionType):
      obj = obj.__wrapped__
    else:
      break
  return obj


_info_cache = {}


def get_funcinfo(pyfunc, check=True):
  """FuncInfo for a live function (after unwrapping decorators)."""
  pyfunc = unwrap(pyfunc)
  if not isinstance(pyfunc, types.FunctionType):
    raise CorrespondenceError(f'not a Python function: {pyfunc!r}')
  hit = _info_cache.get(pyfunc)
  if hit is not None:
    return hit
  code = pyfunc.__code__
  filename = code.co_filename
  if not os.path.isabs(filename):
    filename = os.path.abspath(filename)
  src, tree, modcode = _module_source(filename)
  qualname = code.co_qualname
  node = _find_node(tree, qualname)
  if node is None or not isinstance(
      node, (ast.FunctionDef, ast.AsyncFunctionDef)):
    if code.co_name == '<lambda>':
      node = _find_lambda(tree, code.co_firstlineno)
    if node is None:
      raise CorrespondenceError(f'cannot locate {qualname} in {filename}')
  in_repo = os.path.realpath(filename).startswith(os.path.realpath(REPO) + os.sep)
  if check and in_repo and code.co_name != '<lambda>':
    disk = _find_code(modcode, qualname, code.co_firstlineno)
    if disk is None:
      raise CorrespondenceError(
          f'{qualname}: no code object at line {code.co_firstlineno} in the '
          f'source on disk ({filename}); the imported function is stale')
    if _code_sig(disk) != _code_sig(code):
      raise CorrespondenceError(
          f'{qualname}: bytecode of the imported function differs from the '
          f'source on disk ({filename})')
  cls = None
  if '.' in qualname and '<locals>' not in qualname:
    mod = sys.modules.get(pyfunc.__module__)
    obj = mod
    try:
      for part in qualname.split('.')[:-1]:
        obj = getattr(obj, part)
      cls = obj if isinstance(obj, type) else None
    except AttributeError:
      cls = None
  info = FuncInfo(pyfunc, node, pyfunc.__module__, qualname, cls, filename)
  _info_cache[pyfunc] = info
  return info


def _find_lambda(tree, lineno):
  for n in ast.walk(tree):
    if isinstance(n, ast.Lambda) and n.lineno == lineno:
      return n
  return None


def resolve(module, qualname):
  """Live object for 'pkg.mod', 'Class.method'."""
  mod = importlib.import_module(module)
  obj = mod
  owner = None
  for part in qualname.split('.'):
    owner = obj
    if isinstance(obj, type):
      obj = inspect.getattr_static(obj, part)
    else:
      obj = getattr(obj, part)
  return obj, owner


def assert_repo_module(mod):
  f = getattr(mod, '__file__', '') or ''
  if not os.path.realpath(f).startswith(os.path.realpath(REPO) + os.sep):
    raise CorrespondenceError(
        f'module {mod.__name__} was imported from {f}, not from {REPO}')
