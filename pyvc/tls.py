"""Model of a `threading.local` store (thread confinement axiom).

The store of the *current* thread is a pair of SMT arrays over attribute names:
  has : String -> Bool        val : String -> Int   (value ids)
Values are abstract ids.  Concrete Python objects get fixed ids from an intern
table (distinct objects, distinct ids); abstract values (`absobj.ref`) carry
their own id, constrained >= BASE so they never collide with interned
sentinels unless the contract says so.  Writes by the code under verification
can only reach the current thread's arrays -- that *is* the threading.local
axiom; the frame obligation "no other store is written" is discharged by
checking that every write event of the run targets this model.
"""
import builtins
import z3
from .values import SV, SBool, SInt, SStr, SObj, SAny, SChoice, simplify_concrete, fresh_name
from . import absobj

BASE = 1000


class Store:
  def __init__(self, name='tls', share=None, sentinels=()):
    self.has = z3.Array(name + '.has', z3.StringSort(), z3.BoolSort())
    self.val = z3.Array(name + '.val', z3.StringSort(), z3.IntSort())
    self.has0, self.val0 = self.has, self.val
    if share is not None:
      self.intern, self.by_id = share.intern, share.by_id
    else:
      self.intern = {}       # key -> (int id, obj)
      self.by_id = {}        # int id -> obj
    self.writes = 0
    for s_ in sentinels:     # private sentinels get the smallest ids
      self.vid(None, s_)
    self.n_sentinels = len(self.by_id)

  def initial_values_are_not_sentinels(self):
    """z3: no private sentinel object is stored initially."""
    k = z3.String(fresh_name('k'))
    return z3.ForAll([k], z3.Select(self.val0, k) > self.n_sentinels)

  def snapshot(self):
    return (self.has, self.val)

  def havoc(self, interp):
    """The store becomes arbitrary (any well-nested activity may have happened
    since it was last looked at); the new state is the reference state for
    "restored exactly"."""
    n = fresh_name('tlsh')
    self.has = z3.Array(n + '.has', z3.StringSort(), z3.BoolSort())
    self.val = z3.Array(n + '.val', z3.StringSort(), z3.IntSort())
    self.has0, self.val0 = self.has, self.val
    interp.path.assume(self.initial_values_are_not_sentinels(), check=False)

  # -- value ids ---------------------------------------------------------------
  def vid(self, interp, v):
    v = interp.resolve(v) if interp is not None else v
    if isinstance(v, SObj) and 'id' in v.ghost:
      return v.ghost['id']
    if isinstance(v, SBool):
      return z3.If(v.z, self.vid(interp, True), self.vid(interp, False))
    if isinstance(v, SV):
      k = id(v)
      if k not in self.intern:
        z = z3.Int(fresh_name('vid'))
        interp.path.assume(z >= BASE, check=False)
        self.intern[k] = (z, v)
      return self.intern[k][0]
    k = ('c', id(v)) if not isinstance(v, (bool, int, str, type(None))) else ('v', type(v).__name__, v)
    if k not in self.intern:
      n = len(self.by_id) + 1
      self.intern[k] = (z3.IntVal(n), v)
      self.by_id[n] = v
    return self.intern[k][0]

  def from_id(self, interp, z):
    """Interpreter value for a value id: a concrete object if the id is a
    literal of an interned object, else an abstract reference."""
    z = z3.simplify(z)
    if z3.is_int_value(z) and z.as_long() in self.by_id:
      return self.by_id[z.as_long()]
    for k, (zz, v) in self.intern.items():
      if zz is z or (hasattr(zz, 'eq') and zz.eq(z)):
        return v
    return absobj.ref(object, z)


def is_store(policy_store_objs, obj):
  return any(obj is o for o in policy_store_objs)


def install(policy, store_objs, get_store):
  """Installs handlers so that hasattr/getattr/setattr/delattr on any of the
  concrete `threading.local` objects in `store_objs` go to the model returned
  by get_store(interp, obj)."""
  from . import axioms
  from .interp import PyRaise
  from .values import ExcVal

  def key_z(interp, k):
    z = interp.to_z3(interp.resolve(k))
    if z is None or z.sort() != z3.StringSort():
      raise axioms.unsupported('thread-local key is not a string')
    return z

  def h_hasattr(interp, args, kwargs, frame):
    obj = interp.resolve(args[0])
    if not is_store(store_objs, obj):
      return axioms._b_hasattr(interp, args, kwargs, frame)
    st = get_store(interp, obj)
    return simplify_concrete(SBool(z3.Select(st.has, key_z(interp, args[1]))))

  def h_getattr(interp, args, kwargs, frame):
    obj = interp.resolve(args[0])
    if not is_store(store_objs, obj):
      return axioms._b_getattr(interp, args, kwargs, frame)
    st = get_store(interp, obj)
    k = key_z(interp, args[1])
    present = interp.path.branch(z3.Select(st.has, k))
    if present:
      return st.from_id(interp, z3.Select(st.val, k))
    if len(args) > 2:
      return args[2]
    raise PyRaise(ExcVal(AttributeError, ('tls',)))

  def h_setattr(interp, args, kwargs, frame):
    obj = interp.resolve(args[0])
    if not is_store(store_objs, obj):
      return axioms._b_setattr(interp, args, kwargs, frame)
    st = get_store(interp, obj)
    k = key_z(interp, args[1])
    st.has = z3.Store(st.has, k, True)
    st.val = z3.Store(st.val, k, st.vid(interp, args[2]))
    st.writes += 1
    interp.path.event('tls-write', 'set')
    return None

  def h_delattr(interp, args, kwargs, frame):
    obj = interp.resolve(args[0])
    if not is_store(store_objs, obj):
      raise axioms.unsupported('delattr on non-TLS object')
    st = get_store(interp, obj)
    k = key_z(interp, args[1])
    present = interp.path.branch(z3.Select(st.has, k))
    if not present:
      raise PyRaise(ExcVal(AttributeError, ('tls',)))
    st.has = z3.Store(st.has, k, False)
    st.writes += 1
    interp.path.event('tls-write', 'del')
    return None

  policy.handlers[id(builtins.hasattr)] = h_hasattr
  policy.handlers[id(builtins.getattr)] = h_getattr
  policy.handlers[id(builtins.setattr)] = h_setattr
  policy.handlers[id(builtins.delattr)] = h_delattr

  def identical(interp, a, b):
    ia, ib = absobj.ref_id(a), absobj.ref_id(b)
    if ia is not None and ib is not None:
      return simplify_concrete(SBool(ia == ib))
    return False
  policy.handlers[('identical',)] = identical

  def identical_mixed(interp, a, b):
    """abstract reference `is` concrete object: compare value ids."""
    ref, other = (a, b) if absobj.ref_id(a) is not None else (b, a)
    st = get_store(interp, store_objs[0])
    return simplify_concrete(SBool(absobj.ref_id(ref) == st.vid(interp, other)))
  policy.handlers[('identical_mixed',)] = identical_mixed


def same_store(st, snap):
  """z3: the store equals the snapshot extensionally (observable state)."""
  has0, val0 = snap
  k = z3.String(fresh_name('k'))
  return z3.ForAll([k], z3.And(
      z3.Select(st.has, k) == z3.Select(has0, k),
      z3.Implies(z3.Select(has0, k), z3.Select(st.val, k) == z3.Select(val0, k))))
