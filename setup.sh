#!/bin/sh
# Builds the overlay venv used by every check: python 3.12 (from /venv) + the
# solver wheels from the offline wheelhouse, with /venv's site-packages (the
# repository's own third-party deps) appended through a .pth file.
set -e
cd "$(dirname "$0")"
if [ -x .venv/bin/python ] && .venv/bin/python -c "import z3, cvc5, docstring_parser" 2>/dev/null; then
  echo "setup: .venv already usable"; exit 0
fi
rm -rf .venv
/venv/bin/python -m venv .venv
PIP_NO_INDEX=1 .venv/bin/pip install -q --no-index --find-links /opt/veriftools/wheels z3-solver cvc5 crosshair-tool icontract deal jsonschema hypothesis
echo "import site; site.addsitedir('/venv/lib/python3.12/site-packages')" > .venv/lib/python3.12/site-packages/_repo_deps.pth
.venv/bin/python -c "import z3, cvc5, docstring_parser; print('setup ok: z3', z3.get_version_string())"
