"""C20 -- escape flow: user data reaches HTML sinks only escaped.

Ghost label on every value: `raw` (user data: keys, names, titles, values and
anything formatted from them), `safe` (literals, escaped text, numbers,
identifiers), `html` (an Html object built by the library from safe parts).
The render methods of tree_view.py are executed symbolically with user data
as opaque `raw` values; every argument that reaches an HTML sink --
`Html.element(tag, inner_html=..., css_classes=..., **properties)`,
`Html.__add__`, `Html.write` -- must not be `raw`.  `Html.escape` turns raw
into safe (proved separately from the `html.escape` axiom).
"""
import html as html_lib
import inspect
import z3
import pyglove as pg
from pyglove.core import utils
from pyglove.core.views.html import base as html_base
from pyglove.core.views.html import tree_view
from pyvc.contracts import Contract, register, spec, direct
from pyvc.values import SBool, SInt, SObj, SAny, SStr, Closure, BoundMethod, PList
from pyvc import interp as I

TV = 'pyglove.core.views.html.tree_view'
HB = 'pyglove.core.views.html.base'
Html = html_base.Html


def raw(name):
  return SAny(name, label='raw')


def label_of(interp, v, frame=None, depth=0):
  """Label of a value that is about to be written into HTML."""
  v = interp.resolve(v)
  if v is None:
    return 'none'
  if isinstance(v, (str, int, float, bool)):
    return 'safe'            # literals and numbers of the library's own text
  if isinstance(v, (SInt, SBool)):
    return 'safe'
  if isinstance(v, SAny):
    return v.label or 'unknown'
  if isinstance(v, (Closure, BoundMethod, I.NativeFn)) and depth < 3:
    r = interp.call(v, [], {}, frame)
    return label_of(interp, r, frame, depth + 1)
  if isinstance(v, (list, tuple)):
    labs = [label_of(interp, x, frame, depth) for x in v]
    for bad in ('raw', 'unknown'):
      if bad in labs:
        return bad
    return 'safe'
  if isinstance(v, SObj) and v.cls is Html:
    return 'html'
  return 'unknown'


def _policy(policy, contract):
  def sink(interp, what, v, frame):
    lab = label_of(interp, v, frame)
    ok = lab in ('safe', 'html', 'none')
    interp.path.event('sink', 'ok' if ok else 'violation', f'{what}: {lab}')

  def element(interp, args, kwargs, frame):
    a = list(args)
    # classmethod: first arg is cls
    if a and (a[0] is Html or (isinstance(a[0], type) and issubclass(a[0], Html))):
      a = a[1:]
    tag = a[0] if a else kwargs.get('tag')
    inner = a[1] if len(a) > 1 else kwargs.get('inner_html')
    sink(interp, 'tag', tag, frame)
    inner = interp.resolve(inner)
    if inner is not None:
      items = interp.iterate(inner, frame)
      for k, it in enumerate(items or []):
        sink(interp, f'inner_html[{k}] of <{tag}>', it, frame)
    for k in ('options', 'css_classes'):
      if kwargs.get(k) is not None:
        sink(interp, k, _flatten(interp, kwargs[k]), frame)
    for k, v in kwargs.items():
      if k in ('options', 'css_classes', 'styles', 'tag', 'inner_html'):
        continue
      sink(interp, f'attribute {k}', v, frame)
    return SAny('Html.element()', label='html')
  policy.handlers[id(Html.element.__func__)] = element

  def escape(interp, args, kwargs, frame):
    a = [x for x in args if not (isinstance(x, type))]
    v = interp.resolve(a[0]) if a else None
    if v is None:
      return None
    lab = label_of(interp, v, frame)
    return SAny('Html.escape()', label='html' if lab == 'html' else 'safe')
  policy.handlers[id(Html.escape.__func__)] = escape

  def call_opaque(interp, fn, args, kwargs, frame):
    if fn.label == 'html':
      # methods of an Html object: add_style & co return Html; write/__add__
      # with arguments are sinks
      name = fn.tag.rsplit('.', 1)[-1]
      if name in ('write', '__add__', '__radd__'):
        for k, a in enumerate(args):
          sink(interp, f'Html.{name} arg{k}', a, frame)
      return SAny(fn.tag + '()', label='html')
    if fn.label == 'raw':
      return SAny(fn.tag + '()', label='raw')
    return NotImplemented
  policy.handlers[('call_opaque',)] = call_opaque

  def binop(interp, op, a, b):
    import ast as ast_
    if op is ast_.Add:
      for x, y in ((a, b), (b, a)):
        if isinstance(x, SAny) and x.label == 'html':
          sink(interp, 'Html + operand', y, None)
          return SAny('html+', label='html')
    return NotImplemented
  for t in (SAny,):
    for u in (SAny, Closure, str, type(None), BoundMethod):
      policy.handlers[('binop', t, u)] = binop
      policy.handlers[('binop', u, t)] = binop

  # library functions that format user data: result is raw
  def fmt(interp, args, kwargs, frame):
    return raw('format()')
  policy.handlers[id(utils.format)] = fmt
  import builtins
  policy.handlers[id(builtins.repr)] = lambda interp, a, k, f: (
      repr(a[0]) if I.is_concrete(interp.resolve(a[0])) else raw('repr()'))

  def str_h(interp, args, kwargs, frame):
    v = interp.resolve(args[0]) if args else ''
    if I.is_concrete(v):
      return str(v)
    lab = label_of(interp, v, frame)
    return SAny('str()', label='raw' if lab in ('raw', 'unknown') else 'safe')
  policy.handlers[id(builtins.str)] = str_h

  def type_h(interp, args, kwargs, frame):
    if len(args) == 1:
      v = interp.resolve(args[0])
      if isinstance(v, SAny):
        t = SAny('type()', label='type')
        t.memo[('attr', '__name__')] = SAny('type().__name__', label='safe')   # an identifier
        return t
      from pyvc import axioms
      return axioms.call_builtin_type(interp, type, args, kwargs, frame)
    raise I.Unsupported('type() with 3 args')
  policy.handlers[id(builtins.type)] = type_h

  def fstring(interp, e, frame, labels):
    return SAny('fstr', label='raw' if any(l in ('raw', None) for l in labels) else 'safe')
  policy.handlers[('fstring',)] = fstring

  # render helpers of the view return Html built by (separately contracted) methods
  for name in ('tooltip', 'summary', 'content', 'render', 'object_key', 'simple_value', 'complex_value'):
    fn = getattr(tree_view.HtmlTreeView, name)
    key = f'{TV}:HtmlTreeView.{name}'
    if key != contract.target:
      policy.contracts[key] = lambda interp, frame, args, kwargs, name=name: SAny(f'{name}()', label='html')
  policy.handlers[('new', pg.KeyPath)] = lambda interp, a, k, f: SAny('KeyPath()', label='safe')
  # CSS class derived from the value's class name: an identifier
  policy.contracts[f'{TV}:HtmlTreeView.css_class_name'] = \
      lambda interp, frame, args, kwargs: SAny('css_class_name()', label='safe')


def _flatten(interp, v):
  v = interp.resolve(v)
  if isinstance(v, (list, tuple)):
    out = []
    for x in v:
      out.append(_flatten(interp, x))
    return out
  return v


class _Flow(Contract):
  prop = 'C20'
  pure = (f'{TV}:HtmlTreeView.get_color', f'{TV}:HtmlTreeView.needs_summary',
          f'{TV}:HtmlTreeView.get_kv_pairs',
          'pyglove.core.views.html.base:Html.add_style')
  raises = {Exception: ()}
  max_paths = 3000

  def setup_policy(self, policy):
    _policy(policy, self)

  def view(self):
    return SObj(tree_view.HtmlTreeView, {}, name='self')

  def root_path(self):
    rp = SAny('root_path', label='safe')
    rp.memo[('attr', 'key')] = raw('root_path.key')
    return rp

  def trace_no_raw_data_reaches_a_sink(self, events, outcome, interp, env):
    bad = [e for e in events if e.kind == 'sink' and e.what == 'violation']
    return not bad

  def trace_renders_through_sinks(self, events, outcome, interp, env):
    """Non-vacuity: a returning path built its output through >= 1 sink."""
    if outcome[0] != 'return' or outcome[1] is None:
      return True
    return any(e.kind == 'sink' for e in events)

  def trace_does_not_modify_value(self, events, outcome, interp, env):
    return not [e for e in events if e.kind in ('write', 'payload-write')]


@register
class ObjectKey(_Flow):
  target = f'{TV}:HtmlTreeView.object_key'

  def inputs(self, b):
    return dict(self=self.view(), root_path=self.root_path(), value=raw('value'), parent=raw('parent'),
                css_classes=None, key_color=None, enable_key_tooltip=b.bool('enable_key_tooltip'),
                key_tooltip_fn=None), {}

  def replay(self, obligation, m):
    s = pg.to_html_str(pg.Dict({'<b>k</b>': 1}))
    bad = '<b>k</b>' in s
    return dict(outcome='reproduced' if bad else 'not-reproduced',
                detail='pg.to_html_str(pg.Dict({"<b>k</b>": 1})) contains the key unescaped: ' + str(bad))


@register
class Summary(_Flow):
  target = f'{TV}:HtmlTreeView.summary'

  def inputs(self, b):
    return dict(self=self.view(), value=raw('value'),
                name=b.choice('name_kind', [None, raw('name')]),
                parent=raw('parent'), root_path=self.root_path(), css_classes=None,
                # `title` is a view option supplied by the caller of the view (may be Html)
                title=b.choice('title_kind', [None, SAny('title', label='safe')]),
                enable_summary=None, enable_summary_tooltip=b.bool('enable_summary_tooltip'),
                summary_color=None, max_summary_len_for_str=80, enable_summary_for_str=True,
                enable_key_tooltip=b.bool('enable_key_tooltip'), summary_tooltip_fn=None,
                key_tooltip_fn=None, extra_flags=None), {}

  def replay(self, obligation, m):
    s = pg.to_html_str(pg.Dict(x=pg.Dict({'<i>n</i>': pg.Dict(y=1)})))
    bad = '<i>n</i>' in s
    return dict(outcome='reproduced' if bad else 'not-reproduced',
                detail='summary name of a nested dict key appears unescaped: ' + str(bad))


@register
class SimpleValue(_Flow):
  target = f'{TV}:HtmlTreeView.simple_value'

  def inputs(self, b):
    return dict(self=self.view(), value=raw('value'), name=None, parent=None, root_path=None,
                css_classes=None, max_summary_len_for_str=80), {}


@register
class Tooltip(_Flow):
  target = f'{TV}:HtmlTreeView.tooltip'

  def inputs(self, b):
    return dict(self=self.view(), value=raw('value'), parent=raw('parent'), root_path=self.root_path(),
                css_classes=None, id=None, content=None), {}


# ---- Html.escape itself ---------------------------------------------------------------

@register
class EscapeIsSafe(Contract):
  """Html.escape on a str delegates to html.escape (axiom: the result contains
  none of < > & " ') unless javascript_str is requested."""
  prop = 'C20'
  target = f'{HB}:Html.escape'
  raises = {Exception: ()}

  def inputs(self, b):
    return dict(cls=Html, s=b.str('s'), javascript_str=False), {}

  def setup_policy(self, policy):
    def esc(interp, args, kwargs, frame):
      interp.path.event('html.escape', 'called', args)
      return SAny('escaped', label='safe')
    policy.handlers[id(html_lib.escape)] = esc

  def trace_text_goes_through_html_escape(self, events, outcome, interp, env):
    if outcome[0] != 'return':
      return True
    calls = [e for e in events if e.kind == 'html.escape']
    r = interp.resolve(outcome[1])
    return len(calls) == 1 and interp.resolve(calls[0].data[0]) is interp.resolve(env['s']) \
        and isinstance(r, SAny) and r.label == 'safe'


# ---- Html.element: attribute values are data -------------------------------------------
#
# The element constructor is the one place where attribute values (css classes, inline
# styles, keyword properties) are turned into markup.  Ghost labels: an attribute value is
# `raw`; `html.escape(x, quote=False)` makes it `esc-noquote` (markup neutralised, the
# double quote still live); only `.replace('"', '&quot;')` on that makes it `safe`.
# Obligation: whatever is written into the open tag is `safe` -- a value that reaches
# `write` raw or with a live quote could close the attribute and introduce its own.

@register
class ElementAttributesAreEscaped(Contract):
  prop = 'C20'
  bounded = True       # stated bound: the loop over **properties runs over two keyword properties
  target = f'{HB}:Html.element'
  raises = {Exception: ()}
  max_paths = 3000

  def inputs(self, b):
    self._css = b.choice('css_classes_kind', [None, raw('css_classes')])
    self._styles = b.choice('styles_kind', [None, raw('styles')])
    self._title = b.choice('property_kind', [None, raw('title')])
    kw = dict(options=None, css_classes=self._css, styles=self._styles,
              title=self._title, data_x=raw('data_x'))
    return dict(cls=Html, tag='div', inner_html=b.choice('inner_kind', [None, PList(['<td>'])]), **kw), {}

  def setup_policy(self, policy):
    import builtins

    def sink(interp, what, v, frame):
      v = interp.resolve(v)
      if v is None or isinstance(v, (str, int)):
        lab = 'safe'
      elif isinstance(v, SAny):
        lab = v.label or 'unknown'
      else:
        lab = 'unknown'
      interp.path.event('sink', 'ok' if lab in ('safe', 'html') else 'violation', f'{what}: {lab}')

    policy.handlers[('new', Html)] = lambda interp, a, k, f: SAny('Html()', label='html')

    def passthrough(name):
      def h(interp, args, kwargs, frame):
        a = [x for x in args if not isinstance(x, type)]
        v = interp.resolve(a[0]) if a else None
        if v is None:
          return None
        return SAny(f'{name}()', label=getattr(v, 'label', None) or 'unknown')
      return h
    policy.handlers[id(Html.concate.__func__)] = passthrough('concate')
    policy.handlers[id(Html.style_str.__func__)] = passthrough('style_str')

    def str_h(interp, args, kwargs, frame):
      v = interp.resolve(args[0]) if args else ''
      if I.is_concrete(v):
        return str(v)
      return SAny('str()', label=getattr(v, 'label', None) or 'unknown')
    policy.handlers[id(builtins.str)] = str_h

    def esc(interp, args, kwargs, frame):
      v = interp.resolve(args[0])
      quote = interp.resolve(kwargs.get('quote', args[1] if len(args) > 1 else True))
      interp.path.event('html.escape', 'called', (v, quote))
      if I.is_concrete(v):
        return html_lib.escape(v, quote=bool(quote))
      return SAny('escaped', label='safe' if quote is True else 'esc-noquote')
    policy.handlers[id(html_lib.escape)] = esc

    def call_opaque(interp, fn, args, kwargs, frame):
      name = fn.tag.rsplit('.', 1)[-1]
      if fn.label == 'html':
        if name == 'write':
          for k, a in enumerate(args):
            sink(interp, f'Html.write arg{k}', a, frame)
        return SAny(fn.tag + '()', label='html')
      if name == 'replace':
        a = [interp.resolve(x) for x in args]
        if fn.label == 'esc-noquote' and a == ['"', '&quot;']:
          return SAny('attr-escaped', label='safe')
        return SAny(fn.tag + '()', label=fn.label)
      return NotImplemented
    policy.handlers[('call_opaque',)] = call_opaque

    def fstring(interp, e, frame, labels):
      return SAny('fstr', label='safe' if all(l in ('safe', 'num') for l in labels) else 'raw')
    policy.handlers[('fstring',)] = fstring

  def trace_attribute_data_is_written_only_escaped(self, events, outcome, interp, env):
    return not [e for e in events if e.kind == 'sink' and e.what == 'violation']

  def trace_every_given_attribute_is_written(self, events, outcome, interp, env):
    """Non-vacuity: the open tag (4 parts), `>` and the closing tag are written, each escaped
    keyword property is written by a `write` of its own, and nothing is escaped twice."""
    if outcome[0] != 'return':
      return False
    sinks = [e for e in events if e.kind == 'sink']
    escapes = [e for e in events if e.kind == 'html.escape']
    given = 1 + sum(interp.resolve(env[k]) is not None for k in ('title', 'css_classes', 'styles'))
    # (an opaque value may itself be None, in which case it is skipped: hence `<=`)
    return len(sinks) >= 6 and len(escapes) <= given and len(sinks) >= 6 + len(escapes) - sum(
        interp.resolve(env[k]) is not None for k in ('css_classes', 'styles'))

  def replay(self, obligation, m):
    bad = []
    nasty = 'x" onmouseover="alert(1)"><script>'
    for what, kw in (('property', dict(title=nasty)), ('css_classes', dict(css_classes=[nasty])),
                     ('styles', dict(styles=nasty)), ('styles dict', dict(styles=dict(color=nasty)))):
      s = Html.element('div', **kw).content
      inner = s[len('<div'):s.index('></div>')] if s.endswith('></div>') else s
      if '<script>' in s or inner.count('"') != 2:
        bad.append(f'{what}: {s!r}')
    return dict(outcome='reproduced' if bad else 'not-reproduced',
                detail='; '.join(bad) or 'attribute values are escaped with their quotes')
