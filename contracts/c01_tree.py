"""C01 -- tree integrity kernel: relocate-or-copy on insertion, detach on
replace / delete.

Small-heap model: nodes are `SObj`s of the real classes with the fields
`_sym_parent` and `_sym_path` (a KeyPath over a symbolic key sequence, real
KeyPath code inlined as in C10).  Obligations:

  RELOCATE  `_relocate_if_symbolic(key, v)`: a leaf is returned untouched; a
            symbolic node comes back with parent = the container (its
            parent-for-children) and path = path(container) + key; the node
            object itself is adopted only if it had no parent or already sat
            in that very slot -- otherwise a *copy* is adopted and the
            original keeps its parent and path ("one object never in two
            places").
  DETACH    every operation that removes or replaces a symbolic child calls
            `sym_setparent(None)` on it (list / dict write primitives and the
            removing mutators), so a removed node is no longer reported as a
            child.
"""
import z3
import pyglove as pg
from pyglove.core.symbolic import base, flags
from pyglove.core.symbolic import list as pg_list
from pyglove.core.symbolic import dict as pg_dict
from pyglove.core.utils import value_location as vl
from pyvc.contracts import Contract, register, spec, direct
from pyvc.spec import implies, iff, ite
from pyvc.values import SBool, SInt, SObj, SAny, SSeq, SChoice, ExcVal, simplify_concrete
from pyvc import interp as I, axioms, absobj

SB = 'pyglove.core.symbolic.base'
SL = 'pyglove.core.symbolic.list'
SD = 'pyglove.core.symbolic.dict'
VL = 'pyglove.core.utils.value_location'
KP = pg.KeyPath

KP_INLINE = (f'{VL}:KeyPath.__init__', f'{VL}:KeyPath.keys', f'{VL}:KeyPath.__eq__', f'{VL}:KeyPath.__ne__',
             f'{VL}:KeyPath.depth', f'{VL}:KeyPath.__len__', f'{VL}:KeyPath.key', f'{VL}:KeyPath.__add__')


def _heap_policy(policy):
  import copy as copy_lib

  def copy_h(interp, args, kwargs, frame):
    v = interp.resolve(args[0])
    return v.copy() if isinstance(v, SSeq) else copy_lib.copy(v)
  policy.handlers[id(copy_lib.copy)] = copy_h

  def obj_setattr(interp, args, kwargs, frame):
    obj, name, v = interp.resolve(args[0]), args[1], args[2]
    interp.path.event('raw-set', name, (obj, v))
    obj.fields[name] = v
    return None
  policy.handlers[('cmethod', object, '__setattr__')] = obj_setattr


def path_obj(b, name):
  return SObj(KP, {'_keys': b.seq(name + '_keys'), '_path_str': None}, name=name)


@register
class Relocate(Contract):
  prop = 'C01'
  target = f'{SB}:Symbolic._relocate_if_symbolic'
  inline = KP_INLINE + (f'{SB}:Symbolic.sym_path', f'{SB}:Symbolic.sym_parent',
                        f'{SB}:Symbolic.sym_setpath', f'{SB}:Symbolic.sym_setparent',
                        f'{SB}:Symbolic._set_raw_attr', f'{SB}:Symbolic._sym_parent_for_children',
                        f'{SD}:Dict._sym_parent_for_children', f'{SD}:Dict.sym_setparent')
  variants = ('list-container', 'dict-container', 'object-attributes-container')

  def setup_policy(self, policy):
    _heap_policy(policy)
    me = self

    def clone(interp, frame, args, kwargs):
      # assumed contract of Symbolic.clone (C07): a fresh, parentless root copy
      c = SObj(pg.Dict, {'_sym_parent': None, '_sym_path': SObj(KP, {'_keys': axioms.seq_from_list(interp, []) or _empty(interp), '_path_str': None}),
                         '_as_object_attributes_container': False}, name='clone')
      me._clone = c
      interp.path.event('call', 'clone', args)
      return c
    policy.contracts[f'{SB}:Symbolic.clone'] = clone

    def update_children_paths(interp, frame, args, kwargs):
      interp.path.event('call', '_update_children_paths', args)
      return None
    policy.contracts[f'{SD}:Dict._update_children_paths'] = update_children_paths

    def sym_values(interp, frame, args, kwargs):
      return []
    policy.contracts[f'{SD}:Dict.sym_values'] = sym_values

  def inputs(self, b):
    self._clone = None
    cls = pg.List if self.variant == 'list-container' else pg.Dict
    # ancestor chain of the container: root <- [owner <-] container
    root = SObj(pg.Dict, {'_sym_parent': None, '_sym_path': path_obj(b, 'rpath'),
                          '_as_object_attributes_container': False}, name='root')
    self._root = root
    self._owner = SObj(pg.Object, {'_sym_parent': root}, name='owner') \
        if self.variant == 'object-attributes-container' else None
    cont = SObj(cls, {'_sym_path': path_obj(b, 'cpath'), '_sym_parent': self._owner or root,
                      '_as_object_attributes_container': self.variant == 'object-attributes-container'},
                name='container')
    other = SObj(pg.Dict, {}, name='other_parent')
    self._old_parent = b.choice('value_parent', [None, cont, other, self._owner] if self._owner else [None, cont, other])
    self._old_path = path_obj(b, 'vpath')
    node = SObj(pg.Dict, {'_sym_parent': self._old_parent, '_sym_path': self._old_path,
                          '_as_object_attributes_container': False}, name='value')
    self._node = node
    # the value: a leaf, an unrelated node, or the root ancestor of the container
    value = b.choice('value_kind', [b.int('leaf'), node, root])
    return dict(self=cont, key=b.int('key'), value=value), {}

  def pfc(self, container):
    return self._owner if self.variant == 'object-attributes-container' else container

  def ensures_leaf_untouched(self, self_, key, value, result):
    return implies(not isinstance(value, base.Symbolic), result is value)

  def ensures_adopted_node_is_addressed_here(self, self_, key, value, result):
    if not isinstance(value, base.Symbolic):
      return True
    return result._sym_parent is self.pfc(self_) and result._sym_path._keys == self_._sym_path._keys + [key]

  def ensures_copy_unless_free_or_already_here(self, self_, key, value, result):
    if not isinstance(value, base.Symbolic):
      return True
    if value is self._root:
      # an ancestor of the container: adopting it would close a cycle
      return result is not value and result is self._clone and value._sym_parent is None
    old_parent = self._old_parent
    free = old_parent is None
    here = old_parent is self_ and self._old_path._keys == self_._sym_path._keys + [key]
    if free or here:
      return result is value
    # it belongs elsewhere: a copy is adopted, the original stays where it was
    return (result is not value and result is self._clone
            and value._sym_parent is old_parent and value._sym_path is self._old_path)

  def replay(self, obligation, m):
    a = pg.Dict(x=pg.Dict(y=1))
    child = a.x
    b_ = pg.List([])
    b_.append(child)
    ok = (a.x is child and child.sym_parent is a and b_[0] is not child and b_[0].sym_parent is b_
          and b_[0].sym_path == pg.KeyPath(0))
    return dict(outcome='not-reproduced' if ok else 'reproduced',
                detail=f'moving a.x into a list: a.x is child={a.x is child}, child.parent is a={child.sym_parent is a}, '
                       f'b[0] is child={b_[0] is child}, b[0].parent is b={b_[0].sym_parent is b_}')


def _empty(interp):
  return SSeq(z3.K(z3.IntSort(), z3.IntVal(0)), z3.IntVal(0), lambda z: SInt(z), interp.to_z3)


# ---------------------------------------------------------------------------
# DETACH obligations: trace-based, over the removing / replacing entry points.

PURE = {
    f'{SB}:Symbolic._error_message', f'{SB}:Symbolic.sym_path', f'{SB}:Symbolic.sym_parent',
    f'{SB}:Symbolic._notify_field_updates', 'pyglove.core.symbolic.flags:is_change_notification_enabled',
    f'{SL}:List.max_size',
}


def _detach_policy(policy, contract):
  _heap_policy(policy)
  policy.handlers[id(base.treats_as_sealed)] = lambda interp, a, k, f: False
  policy.handlers[id(base.writtable_via_accessors)] = lambda interp, a, k, f: True
  policy.handlers[id(flags.allow_writable_accessors)] = lambda interp, a, k, f: SAny('cm')
  policy.handlers[('new', base.FieldUpdate)] = lambda interp, a, k, f: SAny('FieldUpdate')
  policy.handlers[('new', pg_list.Insertion)] = lambda interp, a, k, f: SObj(
      pg_list.Insertion, {'value': (a[0] if a else k['value'])})

  def setparent(interp, frame, args, kwargs):
    interp.path.event('setparent', 'sym_setparent', (interp.resolve(args[0]), interp.resolve(args[1])))
    return None
  for c in (f'{SB}:Symbolic.sym_setparent', f'{SD}:Dict.sym_setparent', 'pyglove.core.symbolic.object:Object.sym_setparent'):
    policy.contracts[c] = setparent
  policy.contracts[f'{SB}:Symbolic.sym_setpath'] = lambda interp, frame, args, kwargs: None


class _ListDetach(Contract):
  """The child removed / replaced by the operation is detached."""
  prop = 'C01'
  pure = tuple(PURE)
  raises = {Exception: ()}
  inline = (f'{SL}:List._set_item_without_permission_check', f'{SL}:List.__setitem__', f'{SL}:List.__delitem__',
            f'{SL}:List.pop', f'{SL}:List.__getitem__', f'{SL}:List.sym_hasattr', f'{SL}:List._sym_getattr',
            f'{SB}:Symbolic.sym_inferred', f'{SB}:Symbolic._sym_inferred', f'{SB}:Symbolic.sym_getattr')

  def setup_policy(self, policy):
    _detach_policy(policy, self)

    def items_of(v):
      return v.ghost['items']

    # payload: a sequence of node ids; index `k` holds the symbolic child
    def c_getitem(interp, args, kwargs, frame):
      return axioms.getitem(interp, items_of(args[0]), interp.resolve(args[1]), frame)

    def c_setitem(interp, args, kwargs, frame):
      interp.path.event('payload-write', 'list.__setitem__', (interp.resolve(args[1]), args[2]))
      return axioms.setitem(interp, items_of(args[0]), interp.resolve(args[1]), args[2], frame)

    def c_delitem(interp, args, kwargs, frame):
      interp.path.event('payload-write', 'list.__delitem__', (interp.resolve(args[1]),))
      return axioms.delitem(interp, items_of(args[0]), interp.resolve(args[1]), frame)
    policy.handlers[('cmethod', list, '__getitem__')] = c_getitem
    policy.handlers[('cmethod', list, '__setitem__')] = c_setitem
    policy.handlers[('cmethod', list, '__delitem__')] = c_delitem
    policy.handlers[('len', pg.List)] = lambda interp, v: simplify_concrete(SInt(items_of(v).len))
    policy.handlers[('truth', pg.List)] = lambda interp, v: items_of(v).len > 0
    policy.handlers[id(pg.List._formalized_value)] = lambda interp, a, k, f: a[2]
    policy.handlers[('identical',)] = absobj.identical_handler

  def lst(self, b):
    o = SObj(pg.List, {'_value_spec': None}, name='self')
    wrap = lambda z: absobj.ref(pg.Dict, z)
    unwrap = lambda v: absobj.ref_id(v) if absobj.ref_id(v) is not None else b.interp.to_z3(v)
    o.ghost['items'] = b.seq('items', z3.IntSort(), 'list', wrap, unwrap)
    return o

  def trace_removed_child_is_detached(self, events, outcome, interp, env):
    """If the payload slot `index` was overwritten or deleted, the node that
    was stored there received sym_setparent(None)."""
    if outcome[0] != 'return':
      return True
    writes = [e for e in events if e.kind == 'payload-write']
    if not writes:
      return True
    old = self._old_item
    detached = [e for e in events if e.kind == 'setparent' and e.data[1] is None]
    if not detached:
      return False
    return z3.Or(*[absobj.ref_id(e.data[0]) == old for e in detached
                   if absobj.ref_id(e.data[0]) is not None] or [z3.BoolVal(False)])

  def drive(self, interp, pyf, args, env, check):
    s = args['self']
    items = s.ghost['items']
    idx = interp.to_z3(args['index'])
    n = items.len
    interp.path.assume(z3.And(idx >= -n, idx < n))
    self._old_item = z3.Select(items.arr, z3.If(idx < 0, idx + n, idx))
    return interp.call_function(pyf, [], dict(args))


def _list_detach(name, method, build, replayer):
  def inputs(self, b):
    self._child = None
    args = dict(self=self.lst(b), index=b.int('index'))
    args.update(build(b))
    return args, {}
  c = type(name, (_ListDetach,), dict(target=f'{SL}:List.{method}', name=f'List.{method}/detach',
                                      inputs=inputs, replay=replayer, __module__=__name__))
  globals()[name] = c
  return register(c)


def _replay_list(op):
  def replay(self, obligation, m):
    l = pg.List([pg.Dict(a=1), pg.Dict(b=2)])
    child = l[0]
    op(l)
    gone = all(x is not child for x in l)
    bad = gone and child.sym_parent is not None
    return dict(outcome='reproduced' if bad else 'not-reproduced',
                detail=f'child removed from the list: {gone}; its sym_parent afterwards: '
                       f'{"None" if child.sym_parent is None else type(child.sym_parent).__name__}')
  return replay


def _do_setitem(l):
  l[0] = 5


def _do_delitem(l):
  del l[0]


def _do_pop(l):
  l.pop(0)


_list_detach('ListSetItemDetach', '__setitem__', lambda b: dict(value=b.int('value')), _replay_list(_do_setitem))
_list_detach('ListDelItemDetach', '__delitem__', lambda b: {}, _replay_list(_do_delitem))
_list_detach('ListPopDetach', 'pop', lambda b: {}, _replay_list(_do_pop))


# ---------------------------------------------------------------------------
# Dict write primitive: replace / delete detaches the old child.  The symbolic
# setup (payload writes, formalization, parent bookkeeping as events) is the one
# of the C03 contract on the same function.

from contracts import c03_schema as _c03   # noqa: E402  pylint: disable=wrong-import-position


@register
class DictPrimitiveDetach(_c03.DictStore):
  """Dict._set_item_without_permission_check: whenever the C-level dict is
  written (an entry replaced, or deleted by assigning MISSING_VALUE), a
  symbolic node that was stored under the key is detached: it receives
  sym_setparent(None) and its path is reset."""
  prop = 'C01'
  name = 'Dict._set_item_without_permission_check/detach'
  trace_only_formalized_values_are_stored = None
  trace_rejected_write_changes_nothing = None

  def setup_policy(self, policy):
    super().setup_policy(policy)
    me = self

    def formalized(interp, args, kwargs, frame):
      # the value in its final form: a new value, or -- when the caller writes
      # back what is stored already (e.g. a default that is the stored node) --
      # the very node that sits under the key
      old = interp.resolve(me._old)
      if isinstance(old, SObj) and interp.path.decide(2, 'formalized-is-the-stored-node') == 1:
        r = old
      else:
        r = SAny('formal')
      interp.path.event('formalize', '_formalized_value', (interp.resolve(args[3]), r))
      if interp.path.decide(2, 'rejected') == 1:
        raise I.PyRaise(ExcVal(TypeError, ('rejected',)))
      return r
    policy.handlers[id(pg.Dict._formalized_value)] = formalized

  def trace_node_that_stays_stored_is_not_detached(self, events, outcome, interp, env):
    """A node that is (still) stored under the key when the call returns keeps
    its parent: no sym_setparent(node, None) without a later re-adoption."""
    if outcome[0] != 'return':
      return True
    old = interp.resolve(self._old)
    fz = [e for e in events if e.kind == 'formalize']
    if not isinstance(old, SObj) or not fz or fz[0].data[1] is not old:
      return True
    if [e for e in events if e.kind == 'payload-write' and e.what == 'dict.__delitem__']:
      return True
    sp = [e for e in events if e.kind == 'setparent' and e.data[0] is old]
    return not sp or sp[-1].data[1] is not None

  def trace_removed_child_is_detached(self, events, outcome, interp, env):
    if outcome[0] != 'return':
      return True
    if not [e for e in events if e.kind == 'payload-write']:
      return True
    old = interp.resolve(self._old)
    if not isinstance(old, SObj):
      return True
    det = [e for e in events if e.kind == 'setparent' and e.data[0] is old and e.data[1] is None]
    detached = len(det) == 1 and len([e for e in events if e.kind == 'setpath']) >= 1
    # not required when the value stored now is that very node again
    fz = [e for e in events if e.kind == 'formalize']
    if fz and not detached:
      same = interp.truth_z(interp.identical(old, fz[0].data[1]))
      return same
    return detached

  def replay(self, obligation, m):
    bad = []
    if 'stays_stored' in obligation:
      # writing back the node that is stored already: a declared key whose
      # default is a symbolic value, reset to the default twice
      for how, op in (('del d[k] twice', lambda d: (d.__delitem__('n'), d.__delitem__('n'))),
                      ('d.rebind({k: MISSING_VALUE}) twice',
                       lambda d: (d.rebind({'n': pg.MISSING_VALUE}, raise_on_no_change=False),
                                  d.rebind({'n': pg.MISSING_VALUE}, raise_on_no_change=False)))):
        d = pg.Dict(n=pg.Dict(x=2), value_spec=pg.typing.Dict([('n', pg.typing.Any(default=pg.Dict(x=1)))]))
        op(d)
        child = d.sym_getattr('n')
        if isinstance(child, pg.Dict) and (child.sym_parent is not d or str(child.sym_path) != 'n'):
          bad.append(f'{how}: the node stored under the key has parent is d: {child.sym_parent is d}, path={str(child.sym_path)!r}')
      return dict(outcome='reproduced' if bad else 'not-reproduced', detail='; '.join(bad) or 'stored node keeps its parent')
    for how, op in (('del d[k]', lambda d: d.__delitem__('n')), ('d[k] = 5', lambda d: d.__setitem__('n', 5)),
                    ('d.rebind({k: MISSING_VALUE})', lambda d: d.rebind({'n': pg.MISSING_VALUE})),
                    ('d.pop(k)', lambda d: d.pop('n'))):
      d = pg.Dict(n=pg.Dict(x=1), z=1)
      child = d.n
      op(d)
      if child.sym_parent is not None or str(child.sym_path) != '':
        bad.append(f'{how}: removed node still has parent={child.sym_parent is not None}, path={str(child.sym_path)!r}')
    return dict(outcome='reproduced' if bad else 'not-reproduced', detail='; '.join(bad) or 'removed nodes are detached')


# ---------------------------------------------------------------------------
# Reordering mutators and the re-addressing pass.
#   RESYNC   List.sort / List.reverse: on every returning path the C-level
#            reordering is followed by the re-addressing pass `_sync_children`
#            (no shortcut that skips it).
#   ADDRESS  List._sync_children, second loop, for a list of any length: an
#            arbitrary symbolic element whose path key differs from its index is
#            given the path  path(list) + index ; an element already addressed by
#            its index is left alone; leaves are ignored.  Hence after the pass
#            every symbolic element's reported key is the index it is stored at.

from pyvc import loops as _loops   # noqa: E402  pylint: disable=wrong-import-position

ELEM_IS_NODE = z3.Function('c01_elem_is_node', z3.IntSort(), z3.BoolSort())
ELEM_KEY = z3.Function('c01_elem_key', z3.IntSort(), z3.IntSort())


class Elem:
  """Marker: an abstract list element (symbolic node or leaf)."""


def _inv_true(i):
  return True


class _Reorder(Contract):
  prop = 'C01'
  raises = {base.WritePermissionError: ()}
  pure = tuple(PURE)

  def inputs(self, b):
    s = SObj(pg.List, {'_value_spec': None}, name='self')
    self._sealed = b.bool('treated_as_sealed')
    return dict(self=s), {}

  def setup_policy(self, policy):
    me = self
    policy.handlers[id(base.treats_as_sealed)] = lambda interp, a, k, f: SBool(me._sealed.z)
    policy.contracts[f'{SL}:List.sym_values'] = lambda interp, frame, a, k: SAny('values')
    policy.handlers[id(list)] = lambda interp, a, k, f: SAny('snapshot')

    def c_reorder(name):
      def h(interp, args, kwargs, frame):
        interp.path.event('payload-write', f'list.{name}', None)
        return None
      return h
    policy.handlers[('cmethod', list, 'sort')] = c_reorder('sort')
    policy.handlers[('cmethod', list, 'reverse')] = c_reorder('reverse')
    policy.contracts[f'{SL}:List._sync_children'] = lambda interp, frame, a, k: interp.path.event('sync', '_sync_children', None)
    policy.contracts[f'{SL}:List._notify_reordering'] = lambda interp, frame, a, k: None

  def trace_reordering_is_followed_by_readdressing(self, events, outcome, interp, env):
    if outcome[0] != 'return':
      return not [e for e in events if e.kind == 'payload-write']
    w = [i for i, e in enumerate(events) if e.kind == 'payload-write']
    s_ = [i for i, e in enumerate(events) if e.kind == 'sync']
    return len(w) == 1 and len(s_) >= 1 and s_[-1] > w[-1]

  def replay(self, obligation, m):
    class _L(pg.Object):
      n: int
    bad = []
    for how, op in (('reverse()', lambda l: l.reverse()), ('sort(key=n)', lambda l: l.sort(key=lambda x: x.n)),
                    ('sort(key=-n)', lambda l: l.sort(key=lambda x: -x.n))):
      for vals in ([8, 16, 8], [1, 2, 3], [2, 1, 2, 1]):
        l = pg.List([_L(n=v) for v in vals])
        op(l)
        wrong = [i for i, x in enumerate(l) if x.sym_path.key != i or x.sym_parent is not l]
        if wrong:
          bad.append(f'pg.List of L(n) for n in {vals}: after {how} the elements at {wrong} report keys '
                     f'{[l[i].sym_path.key for i in wrong]}')
    return dict(outcome='reproduced' if bad else 'not-reproduced', detail='; '.join(bad[:3]) or 'all elements addressed by their index')

  def small_models(self):
    from pyvc.contracts import Model
    yield Model({}, {})


@register
class ListSortResync(_Reorder):
  target = f'{SL}:List.sort'
  name = 'List.sort/resync'

  def inputs(self, b):
    args, g = super().inputs(b)
    args.update(key=b.choice('key_kind', [None, SAny('key')]), reverse=b.bool('reverse'))
    return args, g


@register
class ListReverseResync(_Reorder):
  target = f'{SL}:List.reverse'
  name = 'List.reverse/resync'


@register
class ListSyncChildrenAddress(Contract):
  prop = 'C01'
  target = f'{SL}:List._sync_children'
  name = 'List._sync_children/address'
  inline = (f'{SB}:Symbolic.sym_path',)

  def inputs(self, b):
    self._items = absobj.ref_seq(b, 'items', Elem, self._elem_lazy)
    self._path = SObj(pg.KeyPath, {}, name='list_path')
    s = SObj(pg.List, {'_value_spec': None, '_sym_path': self._path}, name='self')
    return dict(self=s), {}

  @staticmethod
  def _elem_lazy(obj, name):
    return NotImplemented

  def setup_policy(self, policy):
    me = self
    import builtins

    def isinstance_h(interp, args, kwargs, frame):
      v, t = interp.resolve(args[0]), args[1]
      if isinstance(v, SObj) and v.cls is Elem and t is base.TopologyAware:
        return SBool(ELEM_IS_NODE(v.ghost['id']))
      return axioms._b_isinstance(interp, args, kwargs, frame)
    policy.handlers[id(builtins.isinstance)] = isinstance_h

    def sym_items(interp, frame, args, kwargs):
      it = me._items
      return I.SymIter(lambda ip: it.len, lambda ip, i: (SInt(i), it.wrap(z3.Select(it.arr, i))))
    policy.contracts[f'{SL}:List.sym_items'] = sym_items

    def getattr_h(interp, obj, name, frame):
      if isinstance(obj, SObj) and obj.cls is Elem:
        if name == 'sym_path':
          return SObj(pg.KeyPath, {'key': SInt(ELEM_KEY(obj.ghost['id']))}, name='elem_path')
        if name == 'sym_setpath':
          def setpath(ip, a, k, o=obj):
            ip.path.event('setpath', 'sym_setpath', (o, ip.resolve(a[0])))
            return None
          return I.NativeFn(setpath)
      return NotImplemented
    policy.handlers[('getattr', SObj)] = getattr_h
    policy.handlers[('new', pg.KeyPath)] = lambda interp, a, k, f: SObj(
        pg.KeyPath, {'key': a[0], 'parent_path': a[1] if len(a) > 1 else None}, name='new_path')
    policy.handlers[('identical',)] = absobj.identical_handler
    # missing-value markers are never list elements after the first pass; the
    # abstract elements here are nodes or ordinary leaves
    policy.handlers[('binop', type(pg.MISSING_VALUE), SObj)] = None
    policy.handlers.pop(('binop', type(pg.MISSING_VALUE), SObj))

    def body_check(interp, frame, events):
      idx = interp.to_z3(frame.locals['idx'])
      item = interp.resolve(frame.locals['item'])
      iid = absobj.ref_id(item)
      sets = [e for e in events if e.kind == 'setpath']
      if sets:
        if len(sets) != 1 or sets[0].data[0] is not item:
          return False
        newp = sets[0].data[1]
        if not (isinstance(newp, SObj) and newp.cls is pg.KeyPath):
          return False
        key_ok = interp.to_z3(interp.resolve(newp.fields['key'])) == idx
        parent_ok = interp.resolve(newp.fields.get('parent_path')) is me._path
        return z3.And(ELEM_IS_NODE(iid), ELEM_KEY(iid) != idx, key_ok, z3.BoolVal(bool(parent_ok)))
      return z3.Or(z3.Not(ELEM_IS_NODE(iid)), ELEM_KEY(iid) == idx)
    _loops.install(policy, 'List._sync_children', 1, _inv_true,
                   havoc={'idx': lambda b, n: SAny(n), 'item': lambda b, n: SAny(n)},
                   name='readdress-loop', body_check=body_check)
    # the first two loops only collect / remove missing-value placeholders
    _loops.install(policy, 'List._sync_children', 0, _inv_true,
                   havoc={'i': lambda b, n: SAny(n), 'item': lambda b, n: SAny(n),
                          'keys_to_remove': lambda b, n: []},
                   name='collect-loop')

  def trace_readdressing_loop_is_reached(self, events, outcome, interp, env):
    return outcome[0] == 'return' and len([e for e in events if e.kind == 'loop' and e.what.endswith('readdress-loop')]) == 1
