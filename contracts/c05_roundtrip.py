"""C05 -- persistence kernel: the in-memory file system maps paths to files
injectively and a write replaces the whole content.

View of MemoryFileSystem: a map  internal path -> file.  `_internal_path` must
be `'/' + path[len(prefix):]` for every path under the prefix (hence injective:
distinct paths never share a file), and opening an existing file for writing
must present an empty buffer (so that what is read back is exactly the last
content written).
"""
import io
import z3
import pyglove as pg
from pyglove.core.io import file_system as fs
from pyvc.contracts import Contract, register, spec, direct
from pyvc.values import SBool, SInt, SStr, SObj, SAny, ExcVal
from pyvc import interp as I

FS = 'pyglove.core.io.file_system'


@register
class InternalPath(Contract):
  """_internal_path(p) == '/' + p[len(prefix):] for every p under the prefix."""
  prop = 'C05'
  target = f'{FS}:MemoryFileSystem._internal_path'
  inline = (f'{FS}:resolve_path',)

  def inputs(self, b):
    self_ = SObj(fs.MemoryFileSystem, {'_prefix': '/mem/', '_root': SAny('root')}, name='self')
    return dict(self=self_, path=b.str('path')), {}

  def requires(self, path):
    return path.startswith('/mem/')

  def ensures_strips_exactly_the_prefix(self, path, result):
    return result == '/' + path[5:]

  def native(self, m):
    return fs.MemoryFileSystem()._internal_path, [m['path']], {}

  def native_env(self, m):
    return dict(self=fs.MemoryFileSystem(), path=m['path'])


class BufferModel:
  """Stands for io.StringIO / io.BytesIO: `content` and `pos`."""


@register
class OpenForWriting(Contract):
  """open(path, 'w'): the returned file's buffer is empty AND positioned at 0 -- for
  a new file and for an existing one whose shared buffer an earlier, never closed
  handle left at ANY position (overwrite replaces the whole content; a write that
  started at the stale position would pad the gap with NULs)."""
  prop = 'C05'
  target = f'{FS}:MemoryFileSystem.open'
  raises = {IsADirectoryError: (), FileNotFoundError: ()}
  variants = ('existing', 'new', 'existing-read')

  def inputs(self, b):
    self_ = SObj(fs.MemoryFileSystem, {'_prefix': '/mem/', '_root': SAny('root')}, name='self')
    self._buf = SObj(BufferModel, {'content': b.str('old_content'), 'pos': b.int('old_pos', lo=0)}, name='buffer')
    self._file = SObj(fs.MemoryFile, {'_buffer': self._buf, '_pos': 0}, name='file')
    self._old_content = self._buf.fields['content']
    return dict(self=self_, path=b.str('path'), mode='r' if self.variant == 'existing-read' else 'w'), {}

  def setup_policy(self, policy):
    me = self

    def locate(interp, frame, args, kwargs):
      return me._file if me.variant != 'new' else None
    policy.contracts[f'{FS}:MemoryFileSystem._locate'] = locate

    def parent_and_name(interp, frame, args, kwargs):
      return ({}, 'name')
    policy.contracts[f'{FS}:MemoryFileSystem._parent_and_name'] = parent_and_name

    def new_buffer(interp, args, kwargs, frame):
      return SObj(BufferModel, {'content': '', 'pos': 0})
    policy.handlers[('new', io.StringIO)] = new_buffer
    policy.handlers[('new', io.BytesIO)] = new_buffer
    policy.handlers[('new', fs.MemoryFile)] = lambda interp, a, k, f: SObj(
        fs.MemoryFile, {'_buffer': a[0], '_pos': 0})

    def buf_method(name):
      def h(interp, args, kwargs, frame):
        buf = interp.resolve(args[0])
        if name == 'truncate':
          size = args[1] if len(args) > 1 else buf.fields['pos']
          if interp.resolve(size) == 0 or (I.is_concrete(size) and size == 0):
            buf.fields['content'] = ''
          else:
            buf.fields['content'] = SAny('truncated')
          return size
        if name == 'seek':
          whence = interp.resolve(args[2]) if len(args) > 2 else 0
          if not (I.is_concrete(whence) and whence == 0):
            buf.fields['pos'] = SAny('pos-after-relative-seek')
            return buf.fields['pos']
          buf.fields['pos'] = args[1]
          return args[1]
        return SAny(name + '()')
      return h
    self._buf_methods = {n: buf_method(n) for n in ('truncate', 'seek')}

    def getattr_h(interp, obj, name, frame):
      if isinstance(obj, SObj) and obj.cls is BufferModel and name in self._buf_methods:
        return I.NativeFn(lambda ip, a, k, n=name, o=obj: self._buf_methods[n](ip, [o] + list(a), k, frame))
      return NotImplemented
    policy.handlers[('getattr', SObj)] = getattr_h

  inline = (f'{FS}:MemoryFile.seek', f'{FS}:MemoryFile.truncate', f'{FS}:MemoryFile.__init__',
            f'{FS}:File.__init__')

  def ensures_buffer_is_empty(self, result):
    if self.variant == 'existing-read':
      # reading: the content is the one that was there
      return result._buffer.content is self._old_content
    return result._buffer.content == ''

  def ensures_starts_at_position_zero(self, result):
    # writing and reading both start at 0, wherever an earlier handle left the buffer
    return result._buffer.pos == 0

  def replay(self, obligation, m):
    pg.io.writefile('/mem/c05_replay_x.txt', 'a long first content')
    pg.io.writefile('/mem/c05_replay_x.txt', 'short')
    got = pg.io.readfile('/mem/c05_replay_x.txt')
    # an earlier handle that was read and never closed leaves the shared buffer at its end
    pg.io.writefile('/mem/c05_replay_y.txt', 'first content')
    pg.io.open('/mem/c05_replay_y.txt').read()
    pg.io.writefile('/mem/c05_replay_y.txt', 'second')
    got2 = pg.io.readfile('/mem/c05_replay_y.txt')
    bad = got != 'short' or got2 != 'second'
    return dict(outcome='reproduced' if bad else 'not-reproduced',
                detail=f'write "a long first content", then "short"; read back {got!r}; '
                       f'write, read through a handle left open, overwrite with "second"; read back {got2!r}')


# ---------------------------------------------------------------------------
# Codec kernel: from_json(to_json(v)) on sequences, children abstract.
#
# Children are abstract values identified by ids; TJ / FJ stand for the JSON
# encoding of a child and the decoding of a child's JSON.  Induction hypothesis
# (A-INDUCTION): FJ(TJ(x)) == x for every child x.  The real bodies of to_json
# and from_json run on a symbolic-length list / tuple of such children; their
# recursive calls on children are answered by TJ / FJ.  `resolve_typenames` is
# the identity on these trees (A-RESOLVE: a list holds no '_type' key itself;
# what it does inside children is part of FJ).

from pyglove.core.utils import json_conversion as jc
from pyvc.spec import implies, iff, forall_range
from pyvc.values import SSeq, PList
from pyvc import absobj, axioms
import ast as _ast

JC = 'pyglove.core.utils.json_conversion'
TJ = z3.Function('to_json_child', z3.IntSort(), z3.IntSort())
FJ = z3.Function('from_json_child', z3.IntSort(), z3.IntSort())
MARK = z3.Int('json_id_of_tuple_marker_string')


class Val:
  """Marker class of an abstract child value."""


class JVal:
  """Marker class of an abstract child JSON value."""


def _is_ref(v, cls):
  return isinstance(v, SObj) and v.cls is cls and absobj.ref_id(v) is not None


def _jseq(ids, kind='list'):
  arr = z3.K(z3.IntSort(), z3.IntVal(0))
  for i, z in enumerate(ids):
    arr = z3.Store(arr, i, z)
  return SSeq(arr, z3.IntVal(len(ids)), lambda z: absobj.ref(JVal, z), absobj.ref_id, kind, z3.IntSort())


def _codec_policy(policy):
  def to_json_h(interp, frame, args, kwargs):
    x = interp.resolve(args[0])
    if _is_ref(x, Val):
      return absobj.ref(JVal, TJ(absobj.ref_id(x)))
    return interp.call_function(jc.to_json, list(args), dict(kwargs))

  def from_json_h(interp, frame, args, kwargs):
    x = interp.resolve(args[0])
    if _is_ref(x, JVal):
      return absobj.ref(Val, FJ(absobj.ref_id(x)))
    return interp.call_function(jc.from_json, list(args), dict(kwargs))

  policy.contracts[f'{JC}:to_json'] = to_json_h
  policy.contracts[f'{JC}:from_json'] = from_json_h
  policy.contracts[f'{JC}:resolve_typenames'] = lambda interp, frame, args, kwargs: args[0]

  def compare_any(interp, op, a, b, frame):
    if op not in (_ast.Eq, _ast.NotEq):
      return NotImplemented
    for x, y in ((a, b), (b, a)):
      if _is_ref(x, JVal) and isinstance(y, str) and y == jc.JSONConvertible.TUPLE_MARKER:
        z = absobj.ref_id(x) == MARK
        return SBool(z if op is _ast.Eq else z3.Not(z))
    return NotImplemented
  policy.handlers[('compare_any',)] = compare_any

  def marker_plus(interp, op, a, b):
    if op is _ast.Add and list(a) == [jc.JSONConvertible.TUPLE_MARKER]:
      return axioms.seq_concat(interp, _jseq([MARK]), b)
    return NotImplemented
  policy.handlers[('binop', list, SSeq)] = marker_plus
  policy.handlers[('binop', PList, SSeq)] = marker_plus
  policy.handlers[('identical',)] = absobj.identical_handler


def json_roundtrip(value):
  return jc.from_json(jc.to_json(value))


def _same(r, v, kind):
  """z3: r is a sequence of `kind` holding exactly v's children, in order."""
  if not isinstance(r, SSeq) or r.kind != kind:
    return z3.BoolVal(False)
  j = z3.Int('sj')
  return z3.And(r.len == v.len, z3.ForAll([j], z3.Implies(
      z3.And(j >= 0, j < v.len), z3.Select(r.arr, j) == z3.Select(v.arr, j))))


def _first_encodes_as_marker(v):
  return z3.And(v.len > 0, TJ(z3.Select(v.arr, 0)) == MARK)


class _Codec(Contract):
  prop = 'C05'
  target = f'{JC}:to_json'
  inline = (f'{JC}:to_json', f'{JC}:from_json')
  fn = staticmethod(json_roundtrip)
  kind = 'list'
  native_refuter = True
  branch_mbqi = False
  branch_timeout_ms = 1500
  # the scope of the native search used when the solver leaves a clause open
  samples = ()

  def setup_policy(self, policy):
    _codec_policy(policy)

  def inputs(self, b):
    x = z3.Int('cx')
    b.path.assume(z3.ForAll([x], FJ(TJ(x)) == x), check=False)
    return dict(value=absobj.ref_seq(b, 'value', Val, kind=self.kind)), {}

  def drive(self, interp, pyf, args, env, check):
    return interp.call_function(self.fn, [], dict(args))

  def excluded(self, value):
    raise NotImplementedError

  def replay(self, obligation, m):
    v = m['value']
    restricted = 'unless' in obligation or 'only' in obligation
    if restricted and self.excluded(v):
      return dict(outcome='not-reproduced', detail='input outside the clause')
    try:
      got = jc.from_json(jc.to_json(v))
    except Exception as e:  # pylint: disable=broad-except
      return dict(outcome='reproduced', detail=f'from_json(to_json({v!r})) raises {type(e).__name__}: {e}')
    ok = type(got) is type(v) and got == v
    return dict(outcome='not-reproduced' if ok else 'reproduced', detail=f'from_json(to_json({v!r})) == {got!r}')

  def small_models(self):
    from pyvc.contracts import Model
    for v in self.samples:
      yield Model(dict(value=v), {})


@register
class CodecList(_Codec):
  """from_json(to_json(l)) is a list with the same children, for every list l
  of round-tripping children -- proved for every l whose first child does not
  encode as the tuple marker; the unrestricted clauses are stated too."""
  name = 'codec/list/roundtrip'
  kind = 'list'
  raises = {ValueError: ('only_on_marker_collision', 'never')}
  samples = ([], [1], [1, 'a', None], ['__tuple__', 1], ['__tuple__'], [[1], [2]])

  def excluded(self, v):
    return bool(v) and v[0] == jc.JSONConvertible.TUPLE_MARKER

  @direct
  def ensures_same_list_unless_first_child_encodes_as_tuple_marker(self, interp, env):
    v, r = env['value'], interp.resolve(env['result'])
    return z3.Implies(z3.Not(_first_encodes_as_marker(v)), _same(r, v, 'list'))

  @direct
  def ensures_same_list(self, interp, env):
    return _same(interp.resolve(env['result']), env['value'], 'list')

  @direct
  def raises_only_on_marker_collision(self, interp, env):
    return _first_encodes_as_marker(env['value'])

  @direct
  def raises_never(self, interp, env):
    return z3.BoolVal(False)


@register
class CodecTuple(_Codec):
  """from_json(to_json(t)) is a tuple with the same children -- proved for
  every non-empty t; the unrestricted clauses are stated too."""
  name = 'codec/tuple/roundtrip'
  kind = 'tuple'
  raises = {ValueError: ('only_for_the_empty_tuple', 'never')}
  samples = ((), (1,), (1, 'a', None), ('__tuple__', 1), ((1,), (2,)))

  def excluded(self, v):
    return len(v) == 0

  @direct
  def ensures_same_tuple(self, interp, env):
    return _same(interp.resolve(env['result']), env['value'], 'tuple')

  @direct
  def raises_only_for_the_empty_tuple(self, interp, env):
    return env['value'].len == 0

  @direct
  def raises_never(self, interp, env):
    return z3.BoolVal(False)


# ---------------------------------------------------------------------------
# "... the same holds for pickling and for copy.deepcopy": copy.deepcopy of a
# symbolic value is sym_clone(deep=True); for functors the call-behaviour state
# is copied by Functor._sym_clone, which is under contract in
# contracts/c07_clone.py -- the same contract is an obligation here.

from contracts.c07_clone import FunctorSymClone as _FunctorSymClone   # noqa: E402  pylint: disable=wrong-import-position


@register
class FunctorDeepCopyKeepsCallBehaviour(_FunctorSymClone):
  prop = 'C05'
