"""C05 -- persistence kernel: the in-memory file system maps paths to files
injectively and a write replaces the whole content.

View of MemoryFileSystem: a map  internal path -> file.  `_internal_path` must
be `'/' + path[len(prefix):]` for every path under the prefix (hence injective:
distinct paths never share a file), and opening an existing file for writing
must present an empty buffer (so that what is read back is exactly the last
content written).
"""
import io
import z3
import pyglove as pg
from pyglove.core.io import file_system as fs
from pyvc.contracts import Contract, register, spec, direct
from pyvc.values import SBool, SInt, SStr, SObj, SAny, ExcVal
from pyvc import interp as I

FS = 'pyglove.core.io.file_system'


@register
class InternalPath(Contract):
  """_internal_path(p) == '/' + p[len(prefix):] for every p under the prefix."""
  prop = 'C05'
  target = f'{FS}:MemoryFileSystem._internal_path'
  inline = (f'{FS}:resolve_path',)

  def inputs(self, b):
    self_ = SObj(fs.MemoryFileSystem, {'_prefix': '/mem/', '_root': SAny('root')}, name='self')
    return dict(self=self_, path=b.str('path')), {}

  def requires(self, path):
    return path.startswith('/mem/')

  def ensures_strips_exactly_the_prefix(self, path, result):
    return result == '/' + path[5:]

  def native(self, m):
    return fs.MemoryFileSystem()._internal_path, [m['path']], {}

  def native_env(self, m):
    return dict(self=fs.MemoryFileSystem(), path=m['path'])


class BufferModel:
  """Stands for io.StringIO / io.BytesIO: `content` and `pos`."""


@register
class OpenForWriting(Contract):
  """open(path, 'w'): the returned file's buffer is empty -- for a new file and
  for an existing one (overwrite replaces the whole content)."""
  prop = 'C05'
  target = f'{FS}:MemoryFileSystem.open'
  raises = {IsADirectoryError: (), FileNotFoundError: ()}
  variants = ('existing', 'new')

  def inputs(self, b):
    self_ = SObj(fs.MemoryFileSystem, {'_prefix': '/mem/', '_root': SAny('root')}, name='self')
    self._buf = SObj(BufferModel, {'content': b.str('old_content'), 'pos': 0}, name='buffer')
    self._file = SObj(fs.MemoryFile, {'_buffer': self._buf, '_pos': 0}, name='file')
    return dict(self=self_, path=b.str('path'), mode='w'), {}

  def setup_policy(self, policy):
    me = self

    def locate(interp, frame, args, kwargs):
      return me._file if me.variant == 'existing' else None
    policy.contracts[f'{FS}:MemoryFileSystem._locate'] = locate

    def parent_and_name(interp, frame, args, kwargs):
      return ({}, 'name')
    policy.contracts[f'{FS}:MemoryFileSystem._parent_and_name'] = parent_and_name

    def new_buffer(interp, args, kwargs, frame):
      return SObj(BufferModel, {'content': '', 'pos': 0})
    policy.handlers[('new', io.StringIO)] = new_buffer
    policy.handlers[('new', io.BytesIO)] = new_buffer
    policy.handlers[('new', fs.MemoryFile)] = lambda interp, a, k, f: SObj(
        fs.MemoryFile, {'_buffer': a[0], '_pos': 0})

    def buf_method(name):
      def h(interp, args, kwargs, frame):
        buf = interp.resolve(args[0])
        if name == 'truncate':
          size = args[1] if len(args) > 1 else buf.fields['pos']
          if interp.resolve(size) == 0 or (I.is_concrete(size) and size == 0):
            buf.fields['content'] = ''
          else:
            buf.fields['content'] = SAny('truncated')
          return size
        if name == 'seek':
          buf.fields['pos'] = args[1]
          return args[1]
        return SAny(name + '()')
      return h
    self._buf_methods = {n: buf_method(n) for n in ('truncate', 'seek')}

    def getattr_h(interp, obj, name, frame):
      if isinstance(obj, SObj) and obj.cls is BufferModel and name in self._buf_methods:
        return I.NativeFn(lambda ip, a, k, n=name, o=obj: self._buf_methods[n](ip, [o] + list(a), k, frame))
      return NotImplemented
    policy.handlers[('getattr', SObj)] = getattr_h

  inline = (f'{FS}:MemoryFile.seek', f'{FS}:MemoryFile.truncate', f'{FS}:MemoryFile.__init__',
            f'{FS}:File.__init__')

  def ensures_buffer_is_empty(self, result):
    return result._buffer.content == ''

  def replay(self, obligation, m):
    pg.io.writefile('/mem/c05_replay_x.txt', 'a long first content')
    pg.io.writefile('/mem/c05_replay_x.txt', 'short')
    got = pg.io.readfile('/mem/c05_replay_x.txt')
    return dict(outcome='reproduced' if got != 'short' else 'not-reproduced',
                detail=f'write "a long first content", then "short"; read back {got!r}')
